(* Round-trip theorems for the primitive code model (Prim.v). *)
From PK Require Import Base.Bytes Base.BytesProofs Base.Prim.
From Coq Require Import ZifyBool.
Open Scope Z_scope.

Lemma p3 : pow256 (Z.of_nat 3) = 16777216. Proof. reflexivity. Qed.
Lemma p1 : pow256 (Z.of_nat 1) = 256. Proof. reflexivity. Qed.
Lemma p4 : pow256 (Z.of_nat 4) = TWO32. Proof. reflexivity. Qed.
Lemma p8 : pow256 (Z.of_nat 8) = TWO64. Proof. reflexivity. Qed.
Lemma p4z : pow256 4 = TWO32. Proof. reflexivity. Qed.
Lemma p8z : pow256 8 = TWO64. Proof. reflexivity. Qed.
Lemma h4 : pow256 4 / 2 = TWO31. Proof. reflexivity. Qed.
Lemma h8 : pow256 8 / 2 = TWO63. Proof. reflexivity. Qed.

Lemma zlen_app {A} (a b : list A) : zlen (a ++ b) = zlen a + zlen b.
Proof. unfold zlen. rewrite app_length. lia. Qed.
Lemma zlen_be_enc n v : zlen (be_enc n v) = Z.of_nat n.
Proof. unfold zlen. rewrite be_enc_length. reflexivity. Qed.
Lemma zlen_nonneg {A} (l : list A) : 0 <= zlen l.
Proof. unfold zlen. lia. Qed.

Lemma dec_hdr_hdr tag ty len h r :
  tag_ok tag = true -> 0 <= ty < 256 -> hdr tag ty len = Some h ->
  dec_hdr tag ty (h ++ r) = Some (len, r).
Proof.
  intros Ht Hty Hh. unfold hdr in Hh.
  destruct ((0 <=? len) && (len <? TWO32)) eqn:El; [|discriminate].
  assert (h = be_enc 3 tag ++ [ty] ++ be_enc 4 len) by congruence; subst h; clear Hh.
  unfold dec_hdr, tag_ok in *.
  rewrite <- !app_assoc.
  rewrite (take_exact_app' 3 (be_enc 3 tag)) by (rewrite zlen_be_enc; reflexivity).
  rewrite be_dec_enc by (rewrite p3; lia). rewrite Z.eqb_refl. cbn [negb].
  change ([ty] ++ be_enc 4 len ++ r) with ([ty] ++ (be_enc 4 len ++ r)).
  rewrite (take_exact_app' 1 [ty]) by reflexivity.
  replace (be_dec [ty]) with ty by (unfold be_dec; cbn; lia).
  rewrite Z.eqb_refl. cbn [negb].
  rewrite (take_exact_app' 4 (be_enc 4 len)) by (rewrite zlen_be_enc; reflexivity).
  rewrite be_dec_enc by (rewrite p4; lia). reflexivity.
Qed.

Lemma with_hdr_some tag ty len body bs :
  with_hdr tag ty len body = Some bs -> exists h, hdr tag ty len = Some h /\ bs = h ++ body.
Proof. unfold with_hdr. destruct (hdr tag ty len) as [h|]; [|discriminate]. intros H; injection H as <-. eauto. Qed.

Lemma hdr_total tag ty len : 0 <= len < TWO32 -> exists h, hdr tag ty len = Some h.
Proof. intros H. unfold hdr. replace ((0 <=? len) && (len <? TWO32)) with true by lia. eauto. Qed.

Lemma dec_u32_pad_enc u r : 0 <= u < TWO32 -> dec_u32_pad ((be_enc 4 u ++ be_enc 4 0) ++ r) = Some (u, r).
Proof.
  intros Hu. unfold dec_u32_pad. rewrite <- app_assoc.
  rewrite (take_exact_app' 4 (be_enc 4 u)) by (rewrite zlen_be_enc; reflexivity).
  rewrite (take_exact_app' 4 (be_enc 4 0)) by (rewrite zlen_be_enc; reflexivity).
  rewrite !be_dec_enc by (rewrite p4; unfold TWO32 in *; lia). reflexivity.
Qed.

Lemma zpad_length n : zlen (zpad n) = pad_len n.
Proof. unfold zpad, zlen. rewrite zeros_length. pose proof (pad_len_range n). lia. Qed.

Lemma dec_padded_enc v r : dec_padded (zlen v) ((v ++ zpad (zlen v)) ++ r) = Some (v, r).
Proof.
  unfold dec_padded. rewrite <- app_assoc. rewrite take_exact_app.
  rewrite (take_exact_app' (pad_len (zlen v)) (zpad (zlen v))) by (symmetry; apply zpad_length).
  unfold zpad. rewrite all_zero_zeros. reflexivity.
Qed.

(* bitlen bounds: |v| < 2^(64*words - 1) *)
Lemma bitlen_bound a : 0 <= a -> a < 2 ^ bitlen a /\ 1 <= bitlen a.
Proof.
  intros Ha. unfold bitlen. destruct (Z.eqb_spec a 0) as [->|Hn]; [cbn; lia|].
  pose proof (Z.log2_spec a ltac:(lia)). pose proof (Z.log2_nonneg a).
  replace (Z.log2 a + 1) with (Z.succ (Z.log2 a)) by lia. lia.
Qed.

Lemma big_words_bound v : let w := big_words v in 1 <= w /\ - (pow256 (8 * w) / 2) <= v < pow256 (8 * w) / 2.
Proof.
  cbn zeta. unfold big_words.
  pose proof (bitlen_bound (Z.abs v) ltac:(lia)) as [Hlt Hb].
  set (b := bitlen (Z.abs v)) in *.
  pose proof (Z.div_mod b 64 ltac:(lia)) as Hdm. pose proof (Z.mod_pos_bound b 64 ltac:(lia)) as Hm.
  assert (Hq : 0 <= b / 64) by (apply Z.div_pos; lia).
  set (q := b / 64) in *. split; [lia|].
  assert (Hpow : pow256 (8 * (q + 1)) / 2 = 2 ^ (64 * (q + 1) - 1)).
  { unfold pow256. change 256 with (2 ^ 8). rewrite <- Z.pow_mul_r by lia.
    replace (8 * (8 * (q + 1))) with (Z.succ (64 * (q + 1) - 1)) by lia.
    rewrite Z.pow_succ_r by lia. rewrite Z.mul_comm, Z.div_mul by lia. reflexivity. }
  rewrite Hpow.
  assert (Hle : 2 ^ b <= 2 ^ (64 * (q + 1) - 1)) by (apply Z.pow_le_mono_r; lia).
  lia.
Qed.

Section RoundTrip.
Variable mem : Z -> bool.

Theorem prim_roundtrip tag p :
  tag_ok tag = true -> wf_prim mem p = true ->
  exists bs, enc_prim tag p = Some bs /\
             forall rest, dec_prim mem (ptype_of p) tag (bs ++ rest) = Some (p, rest).
Proof.
  intros Ht Hwf.
  destruct p as [v|v|v|v|b|cs|bs0|v|v]; cbn [wf_prim enc_prim ptype_of] in *.
  - (* Integer *)
    rewrite Hwf. destruct (hdr_total tag 2 4 ltac:(unfold TWO32; lia)) as [h Hh].
    unfold with_hdr; rewrite Hh. eexists; split; [reflexivity|]. intros rest.
    unfold dec_prim. cbn [type_code]. rewrite <- app_assoc.
    rewrite (dec_hdr_hdr tag 2 4 h _ Ht ltac:(lia) Hh). cbn [Z.eqb negb Pos.eqb].
    pose proof (unsigned_range 4 v ltac:(lia)) as Hr. rewrite p4z in Hr.
    rewrite dec_u32_pad_enc by exact Hr.
    rewrite signed_unsigned by (rewrite ?h4; unfold TWO32, TWO31 in *; lia). reflexivity.
  - (* LongInteger *)
    rewrite Hwf. destruct (hdr_total tag 3 8 ltac:(unfold TWO32; lia)) as [h Hh].
    unfold with_hdr; rewrite Hh. eexists; split; [reflexivity|]. intros rest.
    unfold dec_prim. cbn [type_code]. rewrite <- app_assoc.
    rewrite (dec_hdr_hdr tag 3 8 h _ Ht ltac:(lia) Hh). cbn [Z.eqb negb Pos.eqb].
    rewrite (take_exact_app' 8 (be_enc 8 _)) by (rewrite zlen_be_enc; reflexivity).
    pose proof (unsigned_range 8 v ltac:(lia)) as Hr.
    rewrite be_dec_enc by (rewrite p8, <- p8z; exact Hr).
    rewrite signed_unsigned by (rewrite ?h8; unfold TWO64, TWO63 in *; lia). reflexivity.
  - (* BigInteger *)
    pose proof (big_words_bound v) as [Hw Hv]. cbn zeta in *.
    set (w := big_words v) in *.
    assert (Hlen : zlen (big_bytes v) = 8 * w).
    { unfold big_bytes. fold w. rewrite zlen_be_enc. lia. }
    rewrite Hlen.
    destruct (hdr_total tag 4 (8 * w) ltac:(lia)) as [h Hh].
    unfold with_hdr; rewrite Hh. eexists; split; [reflexivity|]. intros rest.
    unfold dec_prim. cbn [type_code]. rewrite <- app_assoc.
    rewrite (dec_hdr_hdr tag 4 (8 * w) h _ Ht ltac:(lia) Hh).
    replace (8 * w mod 8 =? 0) with true by (rewrite Z.mul_comm, Z.mod_mul; lia).
    replace (8 * w =? 0) with false by lia. cbn [negb].
    rewrite (take_exact_app' (8 * w) (big_bytes v)) by (symmetry; exact Hlen).
    unfold big_bytes. fold w.
    pose proof (unsigned_range (8 * w) v ltac:(lia)) as Hr. unfold to_unsigned in Hr.
    rewrite be_dec_enc by (rewrite Z2Nat.id by lia; exact Hr).
    change (v mod pow256 (8 * w)) with (to_unsigned (8 * w) v).
    rewrite signed_unsigned by lia. reflexivity.
  - (* Enumeration *)
    apply andb_prop in Hwf as [Hr Hm]. rewrite Hr.
    destruct (hdr_total tag 5 4 ltac:(unfold TWO32; lia)) as [h Hh].
    unfold with_hdr; rewrite Hh. eexists; split; [reflexivity|]. intros rest.
    unfold dec_prim. cbn [type_code]. rewrite <- app_assoc.
    rewrite (dec_hdr_hdr tag 5 4 h _ Ht ltac:(lia) Hh). cbn [Z.eqb negb Pos.eqb].
    rewrite dec_u32_pad_enc by lia. rewrite Hm. reflexivity.
  - (* Boolean *)
    destruct (hdr_total tag 6 8 ltac:(unfold TWO32; lia)) as [h Hh].
    unfold with_hdr; rewrite Hh. eexists; split; [reflexivity|]. intros rest.
    unfold dec_prim. cbn [type_code]. rewrite <- app_assoc.
    rewrite (dec_hdr_hdr tag 6 8 h _ Ht ltac:(lia) Hh).
    rewrite (take_exact_app' 8 (be_enc 8 _)) by (rewrite zlen_be_enc; reflexivity).
    rewrite be_dec_enc by (rewrite p8; unfold TWO64; destruct b; lia).
    destruct b; reflexivity.
  - (* TextString *)
    apply andb_prop in Hwf as [Ha Hl]. rewrite Ha.
    destruct (hdr_total tag 7 (zlen cs) ltac:(pose proof (zlen_nonneg cs); lia)) as [h Hh].
    unfold with_hdr; rewrite Hh. eexists; split; [reflexivity|]. intros rest.
    unfold dec_prim. cbn [type_code]. rewrite <- app_assoc.
    rewrite (dec_hdr_hdr tag 7 _ h _ Ht ltac:(lia) Hh).
    rewrite dec_padded_enc. rewrite Ha. reflexivity.
  - (* ByteString *)
    apply andb_prop in Hwf as [Ha Hl].
    destruct (hdr_total tag 8 (zlen bs0) ltac:(pose proof (zlen_nonneg bs0); lia)) as [h Hh].
    unfold with_hdr; rewrite Hh. eexists; split; [reflexivity|]. intros rest.
    unfold dec_prim. cbn [type_code]. rewrite <- app_assoc.
    rewrite (dec_hdr_hdr tag 8 _ h _ Ht ltac:(lia) Hh).
    rewrite dec_padded_enc. reflexivity.
  - (* DateTime *)
    rewrite Hwf. destruct (hdr_total tag 9 8 ltac:(unfold TWO32; lia)) as [h Hh].
    unfold with_hdr; rewrite Hh. eexists; split; [reflexivity|]. intros rest.
    unfold dec_prim. cbn [type_code]. rewrite <- app_assoc.
    rewrite (dec_hdr_hdr tag 9 8 h _ Ht ltac:(lia) Hh). cbn [Z.eqb negb Pos.eqb].
    rewrite (take_exact_app' 8 (be_enc 8 _)) by (rewrite zlen_be_enc; reflexivity).
    pose proof (unsigned_range 8 v ltac:(lia)) as Hr.
    rewrite be_dec_enc by (rewrite p8, <- p8z; exact Hr).
    rewrite signed_unsigned by (rewrite ?h8; unfold TWO64, TWO63 in *; lia). reflexivity.
  - (* Interval *)
    rewrite Hwf. destruct (hdr_total tag 10 4 ltac:(unfold TWO32; lia)) as [h Hh].
    unfold with_hdr; rewrite Hh. eexists; split; [reflexivity|]. intros rest.
    unfold dec_prim. cbn [type_code]. rewrite <- app_assoc.
    rewrite (dec_hdr_hdr tag 10 4 h _ Ht ltac:(lia) Hh). cbn [Z.eqb negb Pos.eqb].
    rewrite dec_u32_pad_enc by lia. reflexivity.
Qed.

(* encode succeeds exactly on wf values (given byte-valued content) *)
Theorem enc_some_iff_wf tag p :
  (match p with VBytes bs => bytes_ok bs = true | _ => True end) ->
  (match p with VEnum v => mem v = true | _ => True end) ->
  (exists bs, enc_prim tag p = Some bs) <-> wf_prim mem p = true.
Proof.
  intros Hb Hm. split.
  - intros [bs H]. destruct p as [v|v|v|v|b|cs|bs0|v|v]; cbn [enc_prim wf_prim] in *;
      unfold with_hdr, hdr in H.
    + destruct ((- TWO31 <=? v) && (v <? TWO31)); [reflexivity|discriminate].
    + destruct ((- TWO63 <=? v) && (v <? TWO63)); [reflexivity|discriminate].
    + assert (zlen (big_bytes v) = 8 * big_words v) as E.
      { unfold big_bytes. rewrite zlen_be_enc. pose proof (big_words_bound v). cbn zeta in *. lia. }
      rewrite E in H. destruct ((0 <=? 8 * big_words v) && (8 * big_words v <? TWO32)) eqn:E2; [lia|discriminate].
    + destruct ((0 <=? v) && (v <? TWO32)); [cbn; exact Hm|discriminate].
    + reflexivity.
    + destruct (text_ok cs); [|discriminate].
      destruct ((0 <=? zlen cs) && (zlen cs <? TWO32)) eqn:E2; [lia|discriminate].
    + rewrite Hb. destruct ((0 <=? zlen bs0) && (zlen bs0 <? TWO32)) eqn:E2; [lia|discriminate].
    + destruct ((- TWO63 <=? v) && (v <? TWO63)); [reflexivity|discriminate].
    + destruct ((0 <=? v) && (v <? TWO32)); [reflexivity|discriminate].
  - intros Hwf. destruct p as [v|v|v|v|b|cs|bs0|v|v]; cbn [enc_prim wf_prim] in *; unfold with_hdr, hdr.
    + rewrite Hwf. cbn. eauto.
    + rewrite Hwf. cbn. eauto.
    + assert (zlen (big_bytes v) = 8 * big_words v) as E.
      { unfold big_bytes. rewrite zlen_be_enc. pose proof (big_words_bound v). cbn zeta in *. lia. }
      rewrite E. pose proof (big_words_bound v). cbn zeta in *.
      replace ((0 <=? 8 * big_words v) && (8 * big_words v <? TWO32)) with true by lia. eauto.
    + apply andb_prop in Hwf as [-> _]. cbn. eauto.
    + cbn. eauto.
    + apply andb_prop in Hwf as [-> Hl]. pose proof (zlen_nonneg cs).
      replace ((0 <=? zlen cs) && (zlen cs <? TWO32)) with true by lia. eauto.
    + apply andb_prop in Hwf as [_ Hl]. pose proof (zlen_nonneg bs0).
      replace ((0 <=? zlen bs0) && (zlen bs0 <? TWO32)) with true by lia. eauto.
    + rewrite Hwf. cbn. eauto.
    + rewrite Hwf. cbn. eauto.
Qed.

End RoundTrip.

(* ---------------------------------------------------------------- decoded values are well-formed *)

Lemma bytes_ok_app a b : bytes_ok (a ++ b) = true <-> bytes_ok a = true /\ bytes_ok b = true.
Proof. unfold bytes_ok. rewrite forallb_app. split; [apply andb_prop | intros [-> ->]; reflexivity]. Qed.

Lemma signed_range w u : 0 < w -> 0 <= u < pow256 w -> - (pow256 w / 2) <= to_signed w u < pow256 w / 2.
Proof.
  intros Hw Hu. unfold to_signed.
  assert (Heven : pow256 w = 2 * (pow256 w / 2)).
  { unfold pow256. replace w with (Z.succ (w - 1)) by lia. rewrite Z.pow_succ_r by lia.
    replace (256 * 256 ^ (w - 1)) with ((128 * 256 ^ (w - 1)) * 2) by lia.
    rewrite Z.div_mul by lia. lia. }
  destruct (Z.ltb_spec u (pow256 w / 2)); lia.
Qed.

Lemma dec_hdr_spec tag ty bs len r :
  dec_hdr tag ty bs = Some (len, r) -> bytes_ok bs = true ->
  exists h, bs = h ++ r /\ zlen h = 8 /\ 0 <= len < TWO32 /\ bytes_ok r = true.
Proof.
  unfold dec_hdr. intros H Hok.
  destruct (take_exact 3 bs) as [[t r1]|] eqn:E1; [|discriminate].
  destruct (negb (be_dec t =? tag)); [discriminate|].
  destruct (take_exact 1 r1) as [[y r2]|] eqn:E2; [|discriminate].
  destruct (negb (be_dec y =? ty)); [discriminate|].
  destruct (take_exact 4 r2) as [[l r3]|] eqn:E3; [|discriminate].
  injection H as <- <-.
  apply take_exact_spec in E1 as [-> L1]. apply take_exact_spec in E2 as [-> L2]. apply take_exact_spec in E3 as [-> L3].
  apply bytes_ok_app in Hok as [_ Hok]. apply bytes_ok_app in Hok as [_ Hok]. apply bytes_ok_app in Hok as [Hl Hr].
  exists (t ++ y ++ l). split; [rewrite <- !app_assoc; reflexivity|].
  split; [rewrite !zlen_app; lia|]. split; [|exact Hr].
  pose proof (be_dec_bound l Hl) as Hb. rewrite L3 in Hb. change (pow256 4) with TWO32 in Hb. exact Hb.
Qed.

Lemma dec_u32_pad_spec bs u r : dec_u32_pad bs = Some (u, r) -> bytes_ok bs = true -> 0 <= u < TWO32.
Proof.
  unfold dec_u32_pad. intros H Hok.
  destruct (take_exact 4 bs) as [[x r1]|] eqn:E1; [|discriminate].
  destruct (take_exact 4 r1) as [[p r2]|] eqn:E2; [|discriminate].
  destruct (be_dec p =? 0); [|discriminate]. injection H as <- <-.
  apply take_exact_spec in E1 as [-> L1]. apply bytes_ok_app in Hok as [Hx _].
  pose proof (be_dec_bound x Hx) as Hb. rewrite L1 in Hb. exact Hb.
Qed.

Lemma dec_padded_spec len bs x r : dec_padded len bs = Some (x, r) -> bytes_ok bs = true ->
  zlen x = len /\ bytes_ok x = true.
Proof.
  unfold dec_padded. intros H Hok.
  destruct (take_exact len bs) as [[y r1]|] eqn:E1; [|discriminate].
  destruct (take_exact (pad_len len) r1) as [[p r2]|] eqn:E2; [|discriminate].
  destruct (all_zero p); [|discriminate]. injection H as <- <-.
  apply take_exact_spec in E1 as [-> L1]. apply bytes_ok_app in Hok as [Hy _]. split; assumption.
Qed.

Section DecWf.
Variable mem : Z -> bool.

Theorem dec_wf t tag bs p rest :
  bytes_ok bs = true -> zlen bs < TWO31 ->
  dec_prim mem t tag bs = Some (p, rest) -> wf_prim mem p = true /\ ptype_of p = t.
Proof.
  intros Hok Hsmall H. unfold dec_prim in H.
  destruct (dec_hdr tag (type_code t) bs) as [[len r]|] eqn:Eh; [|discriminate].
  destruct (dec_hdr_spec _ _ _ _ _ Eh Hok) as (h & -> & Lh & Hlen & Hr).
  rewrite zlen_app in Hsmall. pose proof (zlen_nonneg r) as Hrn.
  destruct t.
  - destruct (negb (len =? 4)); [discriminate|].
    destruct (dec_u32_pad r) as [[u r']|] eqn:Eu; [|discriminate]. injection H as <- <-.
    pose proof (dec_u32_pad_spec _ _ _ Eu Hr) as Hu. split; [|reflexivity]. cbn [wf_prim].
    pose proof (signed_range 4 u ltac:(lia) ltac:(rewrite p4z; exact Hu)) as Hs. rewrite h4 in Hs. lia.
  - destruct (negb (len =? 8)); [discriminate|].
    destruct (take_exact 8 r) as [[x r']|] eqn:Ex; [|discriminate]. injection H as <- <-.
    apply take_exact_spec in Ex as [-> Lx]. apply bytes_ok_app in Hr as [Hx _].
    pose proof (be_dec_bound x Hx) as Hb. rewrite Lx in Hb. split; [|reflexivity]. cbn [wf_prim].
    pose proof (signed_range 8 (be_dec x) ltac:(lia) Hb) as Hs. rewrite h8 in Hs. lia.
  - destruct (negb (len mod 8 =? 0)) eqn:Em; [discriminate|].
    destruct (len =? 0) eqn:E0; [discriminate|].
    destruct (take_exact len r) as [[x r']|] eqn:Ex; [|discriminate]. injection H as <- <-.
    apply take_exact_spec in Ex as [-> Lx]. apply bytes_ok_app in Hr as [Hx _].
    pose proof (be_dec_bound x Hx) as Hb. rewrite Lx in Hb. split; [|reflexivity]. cbn [wf_prim].
    rewrite zlen_app in Hsmall. pose proof (zlen_nonneg r').
    pose proof (signed_range len (be_dec x) ltac:(lia) Hb) as Hs.
    set (s := to_signed len (be_dec x)) in *.
    (* |s| <= 2^(8 len - 1), so bitlen |s| <= 8 len and big_words s <= len/8 + 1 *)
    assert (Hhalf : pow256 len / 2 = 2 ^ (8 * len - 1)).
    { unfold pow256. change 256 with (2 ^ 8). rewrite <- Z.pow_mul_r by lia.
      replace (8 * len) with (Z.succ (8 * len - 1)) at 1 by lia.
      rewrite Z.pow_succ_r by lia. rewrite Z.mul_comm, Z.div_mul by lia. reflexivity. }
    rewrite Hhalf in Hs.
    assert (Hbl : bitlen (Z.abs s) <= 8 * len).
    { unfold bitlen. destruct (Z.eqb_spec (Z.abs s) 0); [lia|].
      assert (Z.abs s <= 2 ^ (8 * len - 1)) by lia.
      assert (Z.log2 (Z.abs s) <= Z.log2 (2 ^ (8 * len - 1))) by (apply Z.log2_le_mono; lia).
      rewrite Z.log2_pow2 in * by lia. lia. }
    unfold big_words.
    assert (bitlen (Z.abs s) / 64 <= (8 * len) / 64) by (apply Z.div_le_mono; lia).
    assert ((8 * len) / 64 = len / 8) by (change 64 with (8 * 8); apply Z.div_mul_cancel_l; lia).
    assert (8 * (len / 8) <= len) by (apply Z.mul_div_le; lia).
    unfold TWO31, TWO32 in *. lia.
  - destruct (negb (len =? 4)); [discriminate|].
    destruct (dec_u32_pad r) as [[u r']|] eqn:Eu; [|discriminate].
    destruct (mem u) eqn:Emem; [|discriminate]. injection H as <- <-.
    pose proof (dec_u32_pad_spec _ _ _ Eu Hr) as Hu. split; [|reflexivity]. cbn [wf_prim]. rewrite Emem. lia.
  - destruct (take_exact 8 r) as [[x r']|] eqn:Ex; [|discriminate].
    destruct (be_dec x =? 1); [injection H as <- <-; split; reflexivity|].
    destruct (be_dec x =? 0); [injection H as <- <-; split; reflexivity|discriminate].
  - destruct (dec_padded len r) as [[x r']|] eqn:Ex; [|discriminate].
    destruct (text_ok x) eqn:Ea; [|discriminate]. injection H as <- <-.
    apply dec_padded_spec in Ex as [Lx Hx]; [|exact Hr]. split; [|reflexivity]. cbn [wf_prim]. rewrite Ea. unfold TWO32 in *. lia.
  - destruct (dec_padded len r) as [[x r']|] eqn:Ex; [|discriminate]. injection H as <- <-.
    apply dec_padded_spec in Ex as [Lx Hx]; [|exact Hr]. split; [|reflexivity]. cbn [wf_prim]. rewrite Hx. unfold TWO32 in *. lia.
  - destruct (negb (len =? 8)); [discriminate|].
    destruct (take_exact 8 r) as [[x r']|] eqn:Ex; [|discriminate]. injection H as <- <-.
    apply take_exact_spec in Ex as [-> Lx]. apply bytes_ok_app in Hr as [Hx _].
    pose proof (be_dec_bound x Hx) as Hb. rewrite Lx in Hb. split; [|reflexivity]. cbn [wf_prim].
    pose proof (signed_range 8 (be_dec x) ltac:(lia) Hb) as Hs. rewrite h8 in Hs. lia.
  - destruct (negb (len =? 4)); [discriminate|].
    destruct (dec_u32_pad r) as [[u r']|] eqn:Eu; [|discriminate]. injection H as <- <-.
    pose proof (dec_u32_pad_spec _ _ _ Eu Hr) as Hu. split; [|reflexivity]. cbn [wf_prim]. lia.
Qed.

(* for any byte string the decoder accepts: decode, encode, decode gives the same value *)
Theorem dec_enc_dec t tag bs p rest :
  tag_ok tag = true -> bytes_ok bs = true -> zlen bs < TWO31 ->
  dec_prim mem t tag bs = Some (p, rest) ->
  exists bs', enc_prim tag p = Some bs' /\ forall rest', dec_prim mem t tag (bs' ++ rest') = Some (p, rest').
Proof.
  intros Ht Hok Hs H. destruct (dec_wf _ _ _ _ _ Hok Hs H) as [Hwf <-].
  exact (prim_roundtrip mem tag p Ht Hwf).
Qed.

End DecWf.

(* ---------------------------------------------------------------- how much a decoder consumes vs. what re-encoding produces *)

Lemma with_hdr_len tag ty len body bs : with_hdr tag ty len body = Some bs -> zlen bs = 8 + zlen body.
Proof.
  intros H. apply with_hdr_some in H as (h & Hh & ->). unfold hdr in Hh.
  destruct ((0 <=? len) && (len <? TWO32)); [|discriminate].
  assert (h = be_enc 3 tag ++ [ty] ++ be_enc 4 len) by congruence; subst h.
  rewrite !zlen_app, !zlen_be_enc. unfold zlen. cbn. lia.
Qed.

Lemma dec_u32_pad_used bs u r : dec_u32_pad bs = Some (u, r) -> exists used, bs = used ++ r /\ zlen used = 8.
Proof.
  unfold dec_u32_pad. intros H.
  destruct (take_exact 4 bs) as [[x r1]|] eqn:E1; [|discriminate].
  destruct (take_exact 4 r1) as [[p r2]|] eqn:E2; [|discriminate].
  destruct (be_dec p =? 0); [|discriminate]. injection H as <- <-.
  apply take_exact_spec in E1 as [-> L1]. apply take_exact_spec in E2 as [-> L2].
  exists (x ++ p). split; [rewrite <- app_assoc; reflexivity|rewrite zlen_app; lia].
Qed.

Lemma dec_padded_used len bs x r : dec_padded len bs = Some (x, r) ->
  exists used, bs = used ++ r /\ zlen used = len + pad_len len /\ zlen x = len.
Proof.
  unfold dec_padded. intros H.
  destruct (take_exact len bs) as [[y r1]|] eqn:E1; [|discriminate].
  destruct (take_exact (pad_len len) r1) as [[p r2]|] eqn:E2; [|discriminate].
  destruct (all_zero p); [|discriminate]. injection H as <- <-.
  apply take_exact_spec in E1 as [-> L1]. apply take_exact_spec in E2 as [-> L2].
  exists (y ++ p). split; [rewrite <- app_assoc; reflexivity|]. rewrite zlen_app. lia.
Qed.

Section DecSound.
Variable mem : Z -> bool.

Theorem dec_sound t tag bs p rest :
  tag_ok tag = true -> bytes_ok bs = true -> zlen bs < TWO31 ->
  dec_prim mem t tag bs = Some (p, rest) ->
  exists used bs', bs = used ++ rest /\ 8 <= zlen used /\
                   enc_prim tag p = Some bs' /\ zlen bs' <= zlen used + 8 /\
                   wf_prim mem p = true /\ ptype_of p = t.
Proof.
  intros Ht Hok Hsmall H.
  destruct (dec_wf mem t tag bs p rest Hok Hsmall H) as [Hwf Hty].
  destruct (prim_roundtrip mem tag p Ht Hwf) as (bs' & Henc & _).
  unfold dec_prim in H.
  destruct (dec_hdr tag (type_code t) bs) as [[len r]|] eqn:Eh; [|discriminate].
  destruct (dec_hdr_spec _ _ _ _ _ Eh Hok) as (h & -> & Lh & Hlen & Hr).
  assert (Hgoal : forall used0, r = used0 ++ rest -> zlen bs' <= 8 + zlen used0 + 8 ->
            exists used bs'0, h ++ r = used ++ rest /\ 8 <= zlen used /\ enc_prim tag p = Some bs'0 /\
                              zlen bs'0 <= zlen used + 8 /\ wf_prim mem p = true /\ ptype_of p = t).
  { intros used0 -> Hb. exists (h ++ used0), bs'. rewrite app_assoc, zlen_app.
    pose proof (zlen_nonneg used0). repeat split; try assumption; lia. }
  destruct t.
  - destruct (negb (len =? 4)); [discriminate|].
    destruct (dec_u32_pad r) as [[u r']|] eqn:Eu; [|discriminate]. injection H as <- <-.
    destruct (dec_u32_pad_used _ _ _ Eu) as (used0 & Hu & Lu). apply (Hgoal used0 Hu).
    cbn [enc_prim] in Henc. destruct ((- TWO31 <=? _) && _); [|discriminate].
    apply with_hdr_len in Henc. rewrite zlen_app, !zlen_be_enc in Henc. lia.
  - destruct (negb (len =? 8)); [discriminate|].
    destruct (take_exact 8 r) as [[x r']|] eqn:Ex; [|discriminate]. injection H as <- <-.
    apply take_exact_spec in Ex as [Hx Lx]. apply (Hgoal x Hx).
    cbn [enc_prim] in Henc. destruct ((- TWO63 <=? _) && _); [|discriminate].
    apply with_hdr_len in Henc. rewrite zlen_be_enc in Henc. lia.
  - destruct (negb (len mod 8 =? 0)) eqn:Em; [discriminate|].
    destruct (len =? 0) eqn:E0; [discriminate|].
    destruct (take_exact len r) as [[x r']|] eqn:Ex; [|discriminate]. injection H as <- <-.
    apply take_exact_spec in Ex as [Hx Lx]. apply (Hgoal x Hx).
    cbn [enc_prim] in Henc. apply with_hdr_len in Henc.
    cbn [wf_prim] in Hwf.
    (* re-use the bound established in dec_wf: 8 * big_words s <= len + 8 *)
    subst r. apply bytes_ok_app in Hr as [Hxok _].
    pose proof (be_dec_bound x Hxok) as Hb. rewrite Lx in Hb.
    pose proof (signed_range len (be_dec x) ltac:(lia) Hb) as Hs.
    set (s := to_signed len (be_dec x)) in *.
    assert (Hhalf : pow256 len / 2 = 2 ^ (8 * len - 1)).
    { unfold pow256. change 256 with (2 ^ 8). rewrite <- Z.pow_mul_r by lia.
      replace (8 * len) with (Z.succ (8 * len - 1)) at 1 by lia.
      rewrite Z.pow_succ_r by lia. rewrite Z.mul_comm, Z.div_mul by lia. reflexivity. }
    rewrite Hhalf in Hs.
    assert (Hbl : bitlen (Z.abs s) <= 8 * len).
    { unfold bitlen. destruct (Z.eqb_spec (Z.abs s) 0); [lia|].
      assert (Z.abs s <= 2 ^ (8 * len - 1)) by lia.
      assert (Z.log2 (Z.abs s) <= Z.log2 (2 ^ (8 * len - 1))) by (apply Z.log2_le_mono; lia).
      rewrite Z.log2_pow2 in * by lia. lia. }
    assert (bitlen (Z.abs s) / 64 <= (8 * len) / 64) by (apply Z.div_le_mono; lia).
    assert ((8 * len) / 64 = len / 8) by (change 64 with (8 * 8); apply Z.div_mul_cancel_l; lia).
    assert (8 * (len / 8) <= len) by (apply Z.mul_div_le; lia).
    assert (zlen (big_bytes s) = 8 * big_words s).
    { unfold big_bytes. rewrite zlen_be_enc. pose proof (big_words_bound s). cbn zeta in *. lia. }
    unfold big_words in *. lia.
  - destruct (negb (len =? 4)); [discriminate|].
    destruct (dec_u32_pad r) as [[u r']|] eqn:Eu; [|discriminate].
    destruct (mem u); [|discriminate]. injection H as <- <-.
    destruct (dec_u32_pad_used _ _ _ Eu) as (used0 & Hu & Lu). apply (Hgoal used0 Hu).
    cbn [enc_prim] in Henc. destruct ((0 <=? _) && _); [|discriminate].
    apply with_hdr_len in Henc. rewrite zlen_app, !zlen_be_enc in Henc. lia.
  - destruct (take_exact 8 r) as [[x r']|] eqn:Ex; [|discriminate].
    apply take_exact_spec in Ex as [Hx Lx].
    assert (Hb : forall b, p = VBool b -> zlen bs' <= 8 + zlen x + 8).
    { intros b ->. cbn [enc_prim] in Henc. apply with_hdr_len in Henc. rewrite zlen_be_enc in Henc. lia. }
    destruct (be_dec x =? 1); [injection H as <- <-; apply (Hgoal x Hx); eapply Hb; reflexivity|].
    destruct (be_dec x =? 0); [injection H as <- <-; apply (Hgoal x Hx); eapply Hb; reflexivity|discriminate].
  - destruct (dec_padded len r) as [[x r']|] eqn:Ex; [|discriminate].
    destruct (text_ok x) eqn:Ea; [|discriminate]. injection H as <- <-.
    destruct (dec_padded_used _ _ _ _ Ex) as (used0 & Hu & Lu & Lx). apply (Hgoal used0 Hu).
    cbn [enc_prim] in Henc. rewrite Ea in Henc. apply with_hdr_len in Henc.
    rewrite zlen_app, zpad_length, Lx in Henc. lia.
  - destruct (dec_padded len r) as [[x r']|] eqn:Ex; [|discriminate]. injection H as <- <-.
    destruct (dec_padded_used _ _ _ _ Ex) as (used0 & Hu & Lu & Lx). apply (Hgoal used0 Hu).
    cbn [enc_prim] in Henc. apply with_hdr_len in Henc.
    rewrite zlen_app, zpad_length, Lx in Henc. lia.
  - destruct (negb (len =? 8)); [discriminate|].
    destruct (take_exact 8 r) as [[x r']|] eqn:Ex; [|discriminate]. injection H as <- <-.
    apply take_exact_spec in Ex as [Hx Lx]. apply (Hgoal x Hx).
    cbn [enc_prim] in Henc. destruct ((- TWO63 <=? _) && _); [|discriminate].
    apply with_hdr_len in Henc. rewrite zlen_be_enc in Henc. lia.
  - destruct (negb (len =? 4)); [discriminate|].
    destruct (dec_u32_pad r) as [[u r']|] eqn:Eu; [|discriminate]. injection H as <- <-.
    destruct (dec_u32_pad_used _ _ _ Eu) as (used0 & Hu & Lu). apply (Hgoal used0 Hu).
    cbn [enc_prim] in Henc. destruct ((0 <=? _) && _); [|discriminate].
    apply with_hdr_len in Henc. rewrite zlen_app, !zlen_be_enc in Henc. lia.
Qed.
End DecSound.
