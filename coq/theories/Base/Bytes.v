(* Bytes and big-endian numbers: definitions only (the harness evaluates these). *)
From Coq Require Export ZArith List Bool Lia.
Export ListNotations.
Open Scope Z_scope.

Definition bytes := list Z.

Definition byte_ok (b : Z) : bool := (0 <=? b) && (b <? 256).
Definition bytes_ok (bs : bytes) : bool := forallb byte_ok bs.

(* struct.pack('!I'/'!Q'/..) on a non-negative number: n bytes, most significant first *)
Fixpoint be_enc (n : nat) (v : Z) : bytes :=
  match n with
  | O => []
  | S k => be_enc k (v / 256) ++ [v mod 256]
  end.

Fixpoint be_dec_acc (acc : Z) (bs : bytes) : Z :=
  match bs with
  | [] => acc
  | b :: r => be_dec_acc (acc * 256 + b) r
  end.
Definition be_dec (bs : bytes) : Z := be_dec_acc 0 bs.

(* two's complement on w bytes *)
Definition pow256 (w : Z) : Z := 256 ^ w.
Definition to_unsigned (w : Z) (v : Z) : Z := v mod pow256 w.
Definition to_signed (w : Z) (u : Z) : Z := if u <? pow256 w / 2 then u else u - pow256 w.

Definition zeros (n : nat) : bytes := repeat 0 n.
Definition all_zero (bs : bytes) : bool := forallb (Z.eqb 0) bs.

(* BytearrayStream.read(n): at most n bytes, silently fewer at the end of the buffer *)
Definition take (n : nat) (bs : bytes) : bytes := firstn n bs.
Definition drop (n : nat) (bs : bytes) : bytes := skipn n bs.

(* read exactly n bytes or fail (struct.unpack on a short buffer raises) *)
Definition zlen {A} (l : list A) : Z := Z.of_nat (length l).
(* n is compared in Z first so that an absurd length field never becomes a unary number *)
Definition take_exact (n : Z) (bs : bytes) : option (bytes * bytes) :=
  if (0 <=? n) && (n <=? zlen bs) then Some (firstn (Z.to_nat n) bs, skipn (Z.to_nat n) bs) else None.

Fixpoint bytes_eqb (a b : bytes) : bool :=
  match a, b with
  | [], [] => true
  | x :: a', y :: b' => (x =? y) && bytes_eqb a' b'
  | _, _ => false
  end.

(* padding to a multiple of 8 *)
Definition pad_len (n : Z) : Z := (8 - n mod 8) mod 8.
Definition zpad (n : Z) : bytes := zeros (Z.to_nat (pad_len n)).
