(* Comparator for the primitive correspondence (tie K): each case carries an
   input and what the implementation did; the checker says whether the model agrees. *)
From PK Require Export Base.Prim.
Open Scope Z_scope.

Inductive pcase :=
| CEnc (tag : Z) (p : pval) (impl : option bytes)
| CVal (p : pval) (impl : bool)
| CDec (t : ptype) (tag : Z) (members : list Z) (bs : bytes) (impl : option (pval * bytes)).

Definition mem_of (members : list Z) (v : Z) : bool := existsb (Z.eqb v) members.

Definition check_pcase (c : pcase) : bool :=
  match c with
  | CEnc tag p impl =>
      match enc_prim tag p, impl with
      | Some a, Some b => bytes_eqb a b
      | None, None => true
      | _, _ => false
      end
  | CVal p impl => Bool.eqb (validate_prim p) impl
  | CDec t tag members bs impl =>
      match dec_prim (mem_of members) t tag bs, impl with
      | Some (p, r), Some (p', r') => pval_eqb p p' && bytes_eqb r r'
      | None, None => true
      | _, _ => false
      end
  end.
