(* Comparator for the primitive correspondence (tie K): each case carries an
   input and what the implementation did; the checker says whether the model agrees. *)
From PK Require Export Base.Prim.
Open Scope Z_scope.

Inductive pcase :=
| CEnc (tag : Z) (p : pval) (impl : option bytes)
| CVal (p : pval) (impl : bool)
| CDec (t : ptype) (tag : Z) (members : list Z) (bs : bytes) (impl : option (pval * bytes))
(* decode bs with the real class, then write() the DECODED object (hidden state left by read() shows here):
   impl = None: read raised; Some None: write raised; Some (Some b): the bytes written *)
| CReenc (t : ptype) (tag : Z) (members : list Z) (bs : bytes) (impl : option (option bytes)).

Definition mem_of (members : list Z) (v : Z) : bool := existsb (Z.eqb v) members.

(* what re-encoding a decoded primitive produces.  Every class re-derives its header from the value, except
   Boolean: Boolean.read keeps the length field it read (which it never checks) and Boolean.write emits it again. *)
Definition model_reenc (t : ptype) (tag : Z) (members : list Z) (bs : bytes) : option (option bytes) :=
  match dec_prim (mem_of members) t tag bs with
  | None => None
  | Some (p, _) =>
      match t, p with
      | PBool, VBool b =>
          match dec_hdr tag (type_code PBool) bs with
          | Some (len, _) => Some (with_hdr tag (type_code PBool) len (be_enc 8 (if b then 1 else 0)))
          | None => None
          end
      | _, _ => Some (enc_prim tag p)
      end
  end.

Definition oobytes_eqb (a b : option (option bytes)) : bool :=
  match a, b with
  | None, None => true
  | Some None, Some None => true
  | Some (Some x), Some (Some y) => bytes_eqb x y
  | _, _ => false
  end.

Definition check_pcase (c : pcase) : bool :=
  match c with
  | CEnc tag p impl =>
      match enc_prim tag p, impl with
      | Some a, Some b => bytes_eqb a b
      | None, None => true
      | _, _ => false
      end
  | CVal p impl => Bool.eqb (validate_prim p) impl
  | CDec t tag members bs impl =>
      match dec_prim (mem_of members) t tag bs, impl with
      | Some (p, r), Some (p', r') => pval_eqb p p' && bytes_eqb r r'
      | None, None => true
      | _, _ => false
      end
  | CReenc t tag members bs impl => oobytes_eqb (model_reenc t tag members bs) impl
  end.
