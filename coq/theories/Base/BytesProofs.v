(* Lemmas about big-endian numbers and two's complement. *)
From PK Require Import Base.Bytes.
From Coq Require Import ZifyBool.
Open Scope Z_scope.

Lemma be_enc_length n v : length (be_enc n v) = n.
Proof.
  revert v; induction n as [|n IH]; intros v; cbn [be_enc]; [reflexivity|].
  rewrite app_length, IH; cbn; lia.
Qed.

Lemma be_dec_acc_app acc a b : be_dec_acc acc (a ++ b) = be_dec_acc (be_dec_acc acc a) b.
Proof. revert acc; induction a as [|x a IH]; intros acc; cbn; [reflexivity|apply IH]. Qed.

Lemma pow256_pos w : 0 <= w -> 0 < pow256 w.
Proof. intros; unfold pow256; apply Z.pow_pos_nonneg; lia. Qed.

Lemma pow256_succ n : pow256 (Z.of_nat (S n)) = 256 * pow256 (Z.of_nat n).
Proof. unfold pow256. rewrite Nat2Z.inj_succ, Z.pow_succ_r by lia. reflexivity. Qed.

(* decoding an encoding gives the number back, for any accumulator *)
Lemma be_dec_acc_enc n : forall v acc, 0 <= v < pow256 (Z.of_nat n) ->
  be_dec_acc acc (be_enc n v) = acc * pow256 (Z.of_nat n) + v.
Proof.
  induction n as [|n IH]; intros v acc Hv.
  - cbn in *. unfold pow256 in *. cbn in Hv. lia.
  - cbn [be_enc]. rewrite be_dec_acc_app. rewrite pow256_succ in *.
    assert (Hp := pow256_pos (Z.of_nat n) ltac:(lia)).
    rewrite IH.
    + cbn [be_dec_acc].
      pose proof (Z.div_mod v 256 ltac:(lia)) as Hdm.
      generalize dependent (v / 256). generalize dependent (v mod 256). intros m q Hdm. nia.
    + split; [apply Z.div_pos; lia|]. apply Z.div_lt_upper_bound; lia.
Qed.

Lemma be_dec_enc n v : 0 <= v < pow256 (Z.of_nat n) -> be_dec (be_enc n v) = v.
Proof. intros H. unfold be_dec. rewrite be_dec_acc_enc by exact H. lia. Qed.

Lemma be_enc_bytes_ok n v : bytes_ok (be_enc n v) = true.
Proof.
  revert v; induction n as [|n IH]; intros v; cbn [be_enc]; [reflexivity|].
  unfold bytes_ok in *. rewrite forallb_app, IH. cbn.
  pose proof (Z.mod_pos_bound v 256 ltac:(lia)). unfold byte_ok. lia.
Qed.

Lemma be_dec_acc_bound bs : forall acc, bytes_ok bs = true -> 0 <= acc ->
  acc * pow256 (zlen bs) <= be_dec_acc acc bs < (acc + 1) * pow256 (zlen bs).
Proof.
  induction bs as [|b bs IH]; intros acc Hok Hacc.
  - cbn. unfold pow256, zlen; cbn. lia.
  - cbn in Hok. apply andb_prop in Hok as [Hb Hok]. unfold byte_ok in Hb.
    cbn [be_dec_acc]. specialize (IH (acc * 256 + b) Hok ltac:(lia)).
    unfold zlen in *. cbn [length]. rewrite pow256_succ.
    assert (Hp := pow256_pos (Z.of_nat (length bs)) ltac:(lia)). nia.
Qed.

Lemma be_dec_bound bs : bytes_ok bs = true -> 0 <= be_dec bs < pow256 (zlen bs).
Proof. intros H. pose proof (be_dec_acc_bound bs 0 H ltac:(lia)). unfold be_dec. lia. Qed.

(* re-encoding what was decoded gives the same bytes *)
Lemma be_enc_dec_acc bs : forall acc, bytes_ok bs = true -> 0 <= acc ->
  forall k, be_enc (k + length bs) (be_dec_acc acc bs) = be_enc k acc ++ bs.
Proof.
  induction bs as [|b bs IH] using rev_ind; intros acc Hok Hacc k.
  - cbn. rewrite Nat.add_0_r, app_nil_r. reflexivity.
  - unfold bytes_ok in Hok. rewrite forallb_app in Hok. apply andb_prop in Hok as [Hok Hb].
    cbn in Hb. unfold byte_ok in Hb.
    rewrite be_dec_acc_app. cbn [be_dec_acc]. rewrite app_length. cbn [length].
    replace (k + (length bs + 1))%nat with (S (k + length bs)) by lia.
    cbn [be_enc].
    set (a := be_dec_acc acc bs).
    assert (Ha : 0 <= a) by (pose proof (be_dec_acc_bound bs acc Hok Hacc);
                             assert (Hp := pow256_pos (zlen bs) ltac:(unfold zlen; lia)); unfold a; nia).
    replace ((a * 256 + b) / 256) with a by (apply Z.div_unique with b; lia).
    replace ((a * 256 + b) mod 256) with b by (apply Z.mod_unique with a; lia).
    unfold a. rewrite IH by assumption. rewrite app_assoc. reflexivity.
Qed.

Lemma be_enc_dec bs : bytes_ok bs = true -> be_enc (length bs) (be_dec bs) = bs.
Proof. intros H. exact (be_enc_dec_acc bs 0 H ltac:(lia) 0%nat). Qed.

(* two's complement *)
Lemma signed_unsigned w v : 0 < w -> - (pow256 w / 2) <= v < pow256 w / 2 ->
  to_signed w (to_unsigned w v) = v.
Proof.
  intros Hw Hv. unfold to_signed, to_unsigned.
  assert (Hp : 0 < pow256 w) by (apply pow256_pos; lia).
  assert (Heven : pow256 w = 2 * (pow256 w / 2)).
  { unfold pow256. replace w with (Z.succ (w - 1)) by lia. rewrite Z.pow_succ_r by lia.
    replace (256 * 256 ^ (w - 1)) with ((128 * 256 ^ (w - 1)) * 2) by lia.
    rewrite Z.div_mul by lia. lia. }
  set (P := pow256 w) in *. set (H := P / 2) in *.
  destruct (Z.ltb_spec v 0) as [Hneg|Hpos].
  - replace (v mod P) with (v + P) by (apply Z.mod_unique with (-1); lia).
    destruct (Z.ltb_spec (v + P) H); lia.
  - rewrite Z.mod_small by lia. destruct (Z.ltb_spec v H); lia.
Qed.

Lemma unsigned_range w v : 0 <= w -> 0 <= to_unsigned w v < pow256 w.
Proof. intros; unfold to_unsigned; apply Z.mod_pos_bound; apply pow256_pos; lia. Qed.

Lemma unsigned_signed w u : 0 < w -> 0 <= u < pow256 w -> to_unsigned w (to_signed w u) = u.
Proof.
  intros Hw Hu. unfold to_signed, to_unsigned.
  destruct (Z.ltb_spec u (pow256 w / 2)).
  - apply Z.mod_small; lia.
  - symmetry; apply Z.mod_unique with (-1); lia.
Qed.

Lemma zeros_length n : length (zeros n) = n.
Proof. apply repeat_length. Qed.

Lemma all_zero_zeros n : all_zero (zeros n) = true.
Proof. induction n; cbn; auto. Qed.

Lemma all_zero_eq bs : all_zero bs = true -> bs = zeros (length bs).
Proof.
  induction bs as [|b bs IH]; cbn; [reflexivity|]. intros H. apply andb_prop in H as [Hb H].
  unfold zeros in *. cbn. f_equal; [destruct b; try discriminate; reflexivity | apply IH; exact H].
Qed.

Lemma take_exact_app a b : take_exact (zlen a) (a ++ b) = Some (a, b).
Proof.
  unfold take_exact, zlen. rewrite app_length.
  replace ((0 <=? Z.of_nat (length a)) && (Z.of_nat (length a) <=? Z.of_nat (length a + length b))) with true by lia.
  rewrite Nat2Z.id, firstn_app, skipn_app, Nat.sub_diag, firstn_all, skipn_all. cbn.
  rewrite app_nil_r. reflexivity.
Qed.

Lemma take_exact_app' n a b : n = zlen a -> take_exact n (a ++ b) = Some (a, b).
Proof. intros ->; apply take_exact_app. Qed.

Lemma take_exact_spec n bs x r : take_exact n bs = Some (x, r) -> bs = x ++ r /\ zlen x = n.
Proof.
  unfold take_exact. destruct ((0 <=? n) && (n <=? zlen bs)) eqn:E; [|discriminate].
  intros H; injection H as <- <-. split; [symmetry; apply firstn_skipn|].
  unfold zlen in *. rewrite firstn_length. lia.
Qed.

Lemma bytes_eqb_eq a b : bytes_eqb a b = true <-> a = b.
Proof.
  revert b; induction a as [|x a IH]; intros [|y b]; cbn; split; try congruence; try discriminate.
  - intros H. apply andb_prop in H as [H1 H2]. apply IH in H2. f_equal; [lia|assumption].
  - intros H; injection H as -> ->. rewrite Z.eqb_refl. apply IH. reflexivity.
Qed.

Lemma pad_len_range n : 0 <= pad_len n < 8.
Proof. unfold pad_len. apply Z.mod_pos_bound. lia. Qed.

Lemma pad_len_mult n : (n + pad_len n) mod 8 = 0.
Proof.
  unfold pad_len.
  pose proof (Z.div_mod n 8 ltac:(lia)). pose proof (Z.mod_pos_bound n 8 ltac:(lia)).
  destruct (Z.eq_dec (n mod 8) 0) as [E|E].
  - rewrite E. replace ((8 - 0) mod 8) with 0 by reflexivity. rewrite Z.add_0_r. exact E.
  - rewrite (Z.mod_small (8 - n mod 8)) by lia.
    symmetry; apply Z.mod_unique with (n / 8 + 1); lia.
Qed.
