(* Per-name view of the monitor state, and the characterisation of every step of
   scan_policies as a per-name function: the names never interact. *)
From Coq Require Import ZArith List Bool Lia.
From PK Require Import Monitor.AList Monitor.AListProofs Monitor.Monitor Monitor.Spec.
Import ListNotations.
Open Scope Z_scope.

Definition view := (option defid * option fname * option (list centry))%type.

Definition view_of (m : mstate) (q : pname) : view :=
  (get q (st_store m), get q (st_map m), get q (st_cache m)).

Definition notf (f : fname) (e : centry) : bool := negb (fst e =? f).

Definition v_disassoc (f : fname) (v : view) : view :=
  let '(s, o, c) := v in (s, o, option_map (filter (notf f)) c).

Definition v_restore (v : view) : view :=
  let '(s, o, c) := v in
  match c with
  | None | Some [] => (None, None, None)
  | Some (e :: c') => (Some (snd e), Some (fst e), Some c')
  end.

Definition owner_is (f : fname) (v : view) : bool :=
  match snd (fst v) with Some o => o =? f | None => false end.

Definition v_remove (f : fname) (v : view) : view :=
  let v1 := v_disassoc f v in if owner_is f v1 then v_restore v1 else v1.

Definition v_load (f : fname) (d : defid) (v : view) : view :=
  let '(s, o, c) := v in
  match s with
  | Some d0 =>
      match o, c with
      | Some o', Some c' => if negb (f =? o') then (Some d, Some f, Some ((o', d0) :: c')) else (Some d, Some f, Some c')
      | _, _ => (Some d, Some f, c)
      end
  | None => (Some d, Some f, Some [])
  end.

Definition v_loadfile (purge : bool) (f : fname) (ds : defs) (q : pname) (v : view) : view :=
  match get q ds with
  | Some d => if reserved q then v else v_load f d v
  | None => if purge then v_remove f v else if owner_is f v then v_restore (v_disassoc f v) else v
  end.

Definition vstep (purge : bool) (q : pname) (v : view) (o : fop) : view :=
  match o with
  | OpRemove f => v_remove f v
  | OpLoad f ds => v_loadfile purge f ds q v
  end.

Definition wfm (m : mstate) : Prop := NoDup (keys (st_map m)).

(* ---------------------------------------------------------------- generic *)
Lemma fold_left_inv : forall {A B} (P : A -> Prop) (g : A -> B -> A) l a,
  (forall a x, P a -> P (g a x)) -> P a -> P (fold_left g l a).
Proof. induction l; simpl; intros; auto. Qed.

Lemma filter_idem : forall {A} (P : A -> bool) l, filter P (filter P l) = filter P l.
Proof.
  induction l; simpl; auto. destruct (P a) eqn:E; simpl; [rewrite E|]; congruence.
Qed.

Lemma v_disassoc_idem : forall f v, v_disassoc f (v_disassoc f v) = v_disassoc f v.
Proof. intros f [[s o] [c|]]; simpl; [now rewrite filter_idem | reflexivity]. Qed.

(* ---------------------------------------------------------------- single operations *)
Lemma view_disassociate : forall p f m q,
  view_of (disassociate p f m) q = if q =? p then v_disassoc f (view_of m q) else view_of m q.
Proof.
  intros. unfold disassociate, view_of.
  destruct (get p (st_cache m)) eqn:E; simpl.
  - rewrite get_set. destruct (q =? p) eqn:Eq.
    + apply Z.eqb_eq in Eq; subst. now rewrite E.
    + reflexivity.
  - destruct (q =? p) eqn:Eq; [|reflexivity].
    apply Z.eqb_eq in Eq; subst. now rewrite E.
Qed.

Lemma frame_disassociate : forall p f m,
  st_store (disassociate p f m) = st_store m /\ st_map (disassociate p f m) = st_map m /\
  st_ts (disassociate p f m) = st_ts m /\ st_files (disassociate p f m) = st_files m /\
  st_crash (disassociate p f m) = st_crash m.
Proof. intros. unfold disassociate. destruct (get p (st_cache m)); simpl; auto. Qed.

Lemma view_restore : forall p m q,
  view_of (restore_or_delete p m) q = if q =? p then v_restore (view_of m q) else view_of m q.
Proof.
  intros. unfold restore_or_delete, view_of.
  destruct (get p (st_cache m)) as [[|e c]|] eqn:E; simpl; rewrite ?get_del, ?get_set;
    destruct (q =? p) eqn:Eq; try reflexivity;
    apply Z.eqb_eq in Eq; subst; now rewrite E.
Qed.

Lemma frame_restore : forall p m,
  st_ts (restore_or_delete p m) = st_ts m /\ st_files (restore_or_delete p m) = st_files m /\
  st_crash (restore_or_delete p m) = st_crash m.
Proof. intros. unfold restore_or_delete. destruct (get p (st_cache m)) as [[|e c]|]; simpl; auto. Qed.

Lemma wfm_restore : forall p m, wfm m -> wfm (restore_or_delete p m).
Proof.
  unfold wfm, restore_or_delete. intros.
  destruct (get p (st_cache m)) as [[|e c]|]; simpl; auto using nodup_keys_del, nodup_keys_set.
Qed.

Lemma wfm_disassociate : forall p f m, wfm m -> wfm (disassociate p f m).
Proof. unfold wfm. intros. destruct (frame_disassociate p f m) as (_ & -> & _). assumption. Qed.

Lemma view_load_policy : forall f m p d q,
  view_of (load_policy f m (p, d)) q =
  if reserved p then view_of m q else if q =? p then v_load f d (view_of m q) else view_of m q.
Proof.
  intros. unfold load_policy. destruct (reserved p); [reflexivity|].
  unfold has, view_of.
  destruct (get p (st_store m)) as [d0|] eqn:Es.
  - destruct (get p (st_map m)) as [o|] eqn:Em; [destruct (get p (st_cache m)) as [c|] eqn:Ec|];
      try destruct (negb (f =? o)) eqn:Eo; simpl; rewrite ?get_set;
      destruct (q =? p) eqn:Eq; try reflexivity;
      apply Z.eqb_eq in Eq; subst; rewrite ?Es, ?Em, ?Ec; simpl; rewrite ?Eo; reflexivity.
  - simpl. rewrite ?get_set. destruct (q =? p) eqn:Eq; try reflexivity.
    apply Z.eqb_eq in Eq; subst. rewrite Es. reflexivity.
Qed.

Lemma frame_load_policy : forall f m pd,
  st_ts (load_policy f m pd) = st_ts m /\ st_files (load_policy f m pd) = st_files m.
Proof.
  intros f m [p d]. unfold load_policy. destruct (reserved p); [auto|].
  destruct (has p (st_store m)); simpl; [|auto].
  destruct (get p (st_map m)), (get p (st_store m)), (get p (st_cache m)); simpl; auto;
  destruct (negb (f =? f0)); simpl; auto.
Qed.

Lemma wfm_load_policy : forall f m pd, wfm m -> wfm (load_policy f m pd).
Proof.
  intros f m [p d] H. unfold wfm, load_policy. destruct (reserved p); [assumption|].
  destruct (has p (st_store m)); simpl.
  - destruct (get p (st_map m)), (get p (st_store m)), (get p (st_cache m)); simpl;
      try destruct (negb (f =? f0)); simpl; now apply nodup_keys_set.
  - now apply nodup_keys_set.
Qed.

(* ---------------------------------------------------------------- loops *)
Arguments view_of : simpl never.
Arguments v_disassoc : simpl never.
Arguments v_restore : simpl never.
Arguments v_remove : simpl never.
Arguments v_load : simpl never.
Arguments v_loadfile : simpl never.
Arguments owner_is : simpl never.
Arguments load_policy : simpl never.
Arguments load_file_gen : simpl never.
Arguments remove_file : simpl never.
Arguments disassociate : simpl never.
Arguments restore_or_delete : simpl never.

Lemma view_fold_disassociate : forall f ps m q,
  view_of (fold_left (fun m p => disassociate p f m) ps m) q =
  if memZ q ps then v_disassoc f (view_of m q) else view_of m q.
Proof.
  induction ps as [|p ps IH]; intros; simpl; [reflexivity|].
  rewrite IH, view_disassociate. destruct (q =? p) eqn:E; simpl.
  - destruct (memZ q ps); [apply v_disassoc_idem | reflexivity].
  - reflexivity.
Qed.

Lemma frame_fold_disassociate : forall f ps m,
  let m' := fold_left (fun m p => disassociate p f m) ps m in
  st_map m' = st_map m /\ st_ts m' = st_ts m /\ st_files m' = st_files m.
Proof.
  induction ps as [|p ps IH]; intros; simpl; [auto|].
  destruct (IH (disassociate p f m)) as (A & B & C).
  destruct (frame_disassociate p f m) as (_ & A' & B' & C' & _).
  subst m'. simpl. rewrite A, B, C. auto.
Qed.

Lemma view_fold_restore : forall ps m q, NoDup ps ->
  view_of (fold_left (fun m p => restore_or_delete p m) ps m) q =
  if memZ q ps then v_restore (view_of m q) else view_of m q.
Proof.
  induction ps as [|p ps IH]; intros m q Hn; simpl; [reflexivity|].
  inversion Hn as [|? ? Hni Hr]; subst.
  rewrite IH by assumption. rewrite view_restore.
  destruct (q =? p) eqn:E; simpl; [|reflexivity].
  apply Z.eqb_eq in E; subst.
  apply memZ_false in Hni. now rewrite Hni.
Qed.

Lemma frame_fold_restore : forall ps m,
  let m' := fold_left (fun m p => restore_or_delete p m) ps m in
  st_ts m' = st_ts m /\ st_files m' = st_files m /\ (wfm m -> wfm m').
Proof.
  induction ps as [|p ps IH]; intros; simpl; [auto|].
  destruct (IH (restore_or_delete p m)) as (A & B & C).
  destruct (frame_restore p m) as (A' & B' & _).
  subst m'. simpl. rewrite A, B. repeat split; auto using wfm_restore.
Qed.

Lemma nodup_map_fst_filter : forall {V} (P : Z * V -> bool) (l : list (Z * V)),
  NoDup (map fst l) -> NoDup (map fst (filter P l)).
Proof.
  induction l as [|x r IH]; simpl; intros H; [constructor|].
  inversion H as [|? ? Hni Hr]; subst.
  destruct (P x); simpl; auto. constructor; auto.
  intros Hin. apply Hni. apply in_map_iff in Hin. destruct Hin as [y [H1 H2]].
  apply filter_In in H2. apply in_map_iff. exists y. tauto.
Qed.

Lemma nodup_owned : forall f m, wfm m -> NoDup (owned f m).
Proof. intros. unfold owned. now apply nodup_map_fst_filter. Qed.

Lemma mem_owned : forall f m q, wfm m -> memZ q (owned f m) = owner_is f (view_of m q).
Proof.
  intros f m q H. unfold owner_is, view_of; simpl.
  destruct (memZ q (owned f m)) eqn:E.
  - apply memZ_In in E. unfold owned in E. apply in_map_iff in E. destruct E as [[k v] [H1 H2]].
    simpl in H1; subst. apply filter_In in H2. destruct H2 as [H2 H3]. simpl in H3.
    apply Z.eqb_eq in H3; subst. rewrite (In_get _ _ _ H H2). now rewrite Z.eqb_refl.
  - apply memZ_false in E. destruct (get q (st_map m)) as [o|] eqn:Eg; [|reflexivity].
    destruct (o =? f) eqn:Eo; [|reflexivity]. apply Z.eqb_eq in Eo; subst.
    exfalso; apply E. unfold owned. apply in_map_iff. exists (q, f). split; [reflexivity|].
    apply filter_In. split; [now apply get_In | simpl; apply Z.eqb_refl].
Qed.

(* ---------------------------------------------------------------- a removed file *)
Lemma view_remove_file : forall f m q, wfm m ->
  view_of (remove_file f m) q = v_remove f (view_of m q).
Proof.
  intros f m q H. unfold remove_file.
  set (m1 := with_ts (del f (st_ts m)) m).
  set (m2 := fold_left (fun m p => disassociate p f m) (keys (st_cache m1)) m1).
  assert (Hv2 : forall q, view_of m2 q = v_disassoc f (view_of m q)).
  { intros q0. unfold m2. rewrite view_fold_disassociate.
    change (view_of m1 q0) with (view_of m q0).
    destruct (memZ q0 (keys (st_cache m1))) eqn:E; [reflexivity|].
    apply memZ_false in E. change (st_cache m1) with (st_cache m) in E.
    apply get_None_notin in E. unfold view_of. rewrite E. reflexivity. }
  assert (Hw2 : wfm m2).
  { unfold wfm. destruct (frame_fold_disassociate f (keys (st_cache m1)) m1) as (A & _). fold m2 in A. rewrite A. exact H. }
  rewrite view_fold_restore by now apply nodup_owned.
  rewrite mem_owned by assumption. rewrite Hv2. reflexivity.
Qed.

Lemma frame_remove_file : forall f m,
  st_ts (remove_file f m) = del f (st_ts m) /\ st_files (remove_file f m) = st_files m /\
  (wfm m -> wfm (remove_file f m)).
Proof.
  intros. unfold remove_file.
  set (m1 := with_ts (del f (st_ts m)) m).
  set (m2 := fold_left (fun m p => disassociate p f m) (keys (st_cache m1)) m1).
  destruct (frame_fold_disassociate f (keys (st_cache m1)) m1) as (A & B & C). fold m2 in A, B, C.
  destruct (frame_fold_restore (owned f m2) m2) as (A' & B' & C').
  rewrite A', B', B, C. repeat split; auto.
  intros H. apply C'. unfold wfm. rewrite A. exact H.
Qed.

(* ---------------------------------------------------------------- a (re)loaded file *)
Lemma memZ_keys_get : forall {V} (l : list (Z * V)) q, memZ q (keys l) = match get q l with Some _ => true | None => false end.
Proof.
  intros. destruct (get q l) eqn:E.
  - apply memZ_In. destruct (memZ q (keys l)) eqn:E2; [now apply memZ_In|].
    apply memZ_false in E2. apply get_None_notin in E2. congruence.
  - apply memZ_false. now apply get_None_notin.
Qed.

Lemma memZ_filter : forall (P : Z -> bool) l q, memZ q (filter P l) = P q && memZ q l.
Proof.
  intros. destruct (memZ q (filter P l)) eqn:E.
  - apply memZ_In in E. apply filter_In in E. destruct E as [E1 E2].
    apply memZ_In in E1. now rewrite E1, E2.
  - apply memZ_false in E. destruct (P q) eqn:E1; [|reflexivity].
    destruct (memZ q l) eqn:E2; [|reflexivity]. exfalso; apply E. apply filter_In.
    split; [now apply memZ_In | assumption].
Qed.

Lemma view_fold_load_policy : forall f ds m q, NoDup (keys ds) ->
  view_of (fold_left (load_policy f) ds m) q =
  match get q ds with
  | Some d => if reserved q then view_of m q else v_load f d (view_of m q)
  | None => view_of m q
  end.
Proof.
  induction ds as [|[p d] r IH]; intros m q Hn; [reflexivity|].
  simpl in Hn. inversion Hn as [|? ? Hni Hr]; subst.
  simpl fold_left. rewrite IH by assumption. rewrite view_load_policy.
  simpl get. destruct (q =? p) eqn:E.
  - apply Z.eqb_eq in E; subst. apply get_None_notin in Hni. rewrite Hni. reflexivity.
  - destruct (reserved p); reflexivity.
Qed.

Lemma frame_fold_load_policy : forall f ds m,
  let m' := fold_left (load_policy f) ds m in
  st_ts m' = st_ts m /\ st_files m' = st_files m /\ (wfm m -> wfm m').
Proof.
  induction ds as [|pd r IH]; intros; simpl; [auto|].
  destruct (IH (load_policy f m pd)) as (A & B & C).
  destruct (frame_load_policy f m pd) as (A' & B').
  subst m'. simpl. rewrite A, B. repeat split; auto using wfm_load_policy.
Qed.

Lemma view_fold_dropped : forall f ps m q, NoDup ps ->
  view_of (fold_left (fun m p => restore_or_delete p (disassociate p f m)) ps m) q =
  if memZ q ps then v_restore (v_disassoc f (view_of m q)) else view_of m q.
Proof.
  induction ps as [|p ps IH]; intros m q Hn; [reflexivity|].
  inversion Hn as [|? ? Hni Hr]; subst.
  simpl fold_left. rewrite IH by assumption. rewrite view_restore, view_disassociate.
  change (memZ q (p :: ps)) with ((q =? p) || memZ q ps).
  destruct (q =? p) eqn:E; [|reflexivity].
  apply Z.eqb_eq in E; subst. apply memZ_false in Hni. now rewrite Hni.
Qed.

Lemma frame_fold_dropped : forall f ps m,
  let m' := fold_left (fun m p => restore_or_delete p (disassociate p f m)) ps m in
  st_ts m' = st_ts m /\ st_files m' = st_files m /\ (wfm m -> wfm m').
Proof.
  induction ps as [|p r IH]; intros; simpl; [auto|].
  destruct (IH (restore_or_delete p (disassociate p f m))) as (A & B & C).
  destruct (frame_restore p (disassociate p f m)) as (A' & B' & _).
  destruct (frame_disassociate p f m) as (_ & _ & A'' & B'' & _).
  subst m'. simpl. rewrite A, B, A', B'. repeat split; auto using wfm_restore, wfm_disassociate.
Qed.

Lemma load_file_spec : forall purge fs m f, wfm m -> wf_fs fs ->
  match get f fs, get f (st_ts m) with
  | Some (t, content), Some t0 =>
      if t >? t0 then
        st_ts (load_file_gen purge fs m f) = set f t (st_ts m) /\
        forall q, view_of (load_file_gen purge fs m f) q =
                  match content with Some ds => v_loadfile purge f ds q (view_of m q) | None => view_of m q end
      else load_file_gen purge fs m f = m
  | None, Some _ => st_ts (load_file_gen purge fs m f) = st_ts m /\ forall q, view_of (load_file_gen purge fs m f) q = view_of m q
  | _, None => load_file_gen purge fs m f = m
  end /\ st_files (load_file_gen purge fs m f) = st_files m /\ wfm (load_file_gen purge fs m f).
Proof.
  intros purge fs m f Hw [_ Hfs]. unfold load_file_gen.
  destruct (get f fs) as [[t content]|] eqn:Ef; destruct (get f (st_ts m)) as [t0|] eqn:Et; auto.
  destruct (t >? t0); auto.
  destruct content as [ds|]; auto.
  set (m1 := with_ts (set f t (st_ts m)) m).
  set (m2 := fold_left (load_policy f) ds m1).
  set (dropped := filter (fun p => negb (memZ p (keys ds))) (owned f m1)).
  assert (Hnd : NoDup (keys ds)) by (eapply Hfs; apply get_In; exact Ef).
  assert (Hw1 : wfm m1) by exact Hw.
  assert (Hdd : NoDup dropped) by (unfold dropped; apply NoDup_filter; now apply nodup_owned).
  destruct (frame_fold_load_policy f ds m1) as (A & B & C). fold m2 in A, B, C.
  destruct purge.
  - set (stale := filter (fun p => negb (memZ p (keys ds))) (keys (st_cache m2))).
    set (m3 := fold_left (fun m p => disassociate p f m) stale m2).
    destruct (frame_fold_disassociate f stale m2) as (A3 & B3 & C3). fold m3 in A3, B3, C3.
    destruct (frame_fold_restore dropped m3) as (A' & B' & C').
    assert (Hw3 : wfm m3) by (unfold wfm; rewrite A3; now apply C).
    rewrite A', B', B3, C3, A, B. repeat split; auto.
    intros q. rewrite view_fold_restore by assumption.
    unfold dropped. rewrite memZ_filter, mem_owned by assumption.
    unfold m3. rewrite view_fold_disassociate. unfold stale. rewrite memZ_filter.
    unfold m2. rewrite view_fold_load_policy by assumption.
    change (view_of m1 q) with (view_of m q).
    unfold v_loadfile. rewrite !memZ_keys_get.
    destruct (get q ds) as [d|] eqn:Eg; simpl; [reflexivity|].
    fold m2.
    assert (Hd : (if match get q (st_cache m2) with Some _ => true | None => false end
                  then v_disassoc f (view_of m q) else view_of m q) = v_disassoc f (view_of m q)).
    { destruct (get q (st_cache m2)) eqn:Ec; [reflexivity|].
      assert (Hc : get q (st_cache m) = None).
      { assert (Hv : view_of m2 q = view_of m q).
        { unfold m2. rewrite view_fold_load_policy by assumption. rewrite Eg. reflexivity. }
        unfold view_of in Hv. inversion Hv. congruence. }
      unfold view_of, v_disassoc. rewrite Hc. reflexivity. }
    rewrite Hd. unfold v_remove.
    replace (owner_is f (v_disassoc f (view_of m q))) with (owner_is f (view_of m q)).
    2:{ destruct (view_of m q) as [[s o] c]. reflexivity. }
    reflexivity.
  - destruct (frame_fold_dropped f dropped m2) as (A' & B' & C').
    rewrite A', B', A, B. repeat split; auto.
    intros q. rewrite view_fold_dropped by assumption.
    unfold dropped. rewrite memZ_filter, mem_owned by assumption.
    unfold m2. rewrite view_fold_load_policy by assumption.
    change (view_of m1 q) with (view_of m q).
    unfold v_loadfile. rewrite memZ_keys_get.
    destruct (get q ds) as [d|]; simpl; reflexivity.
Qed.

(* ---------------------------------------------------------------- the loops over files *)
Lemma load_loop_spec : forall purge fs q todo m, wfm m -> wf_fs fs ->
  let m' := fold_left (load_file_gen purge fs) todo m in
  let pl := load_plan fs (st_ts m) todo in
  view_of m' q = fold_left (vstep purge q) (fst pl) (view_of m q) /\
  st_ts m' = snd pl /\ st_files m' = st_files m /\ wfm m'.
Proof.
  intros purge fs q. induction todo as [|f r IH]; intros m Hw Hfs; [simpl; auto|].
  simpl fold_left. simpl load_plan.
  pose proof (load_file_spec purge fs m f Hw Hfs) as (S & Sf & Sw).
  specialize (IH (load_file_gen purge fs m f) Sw Hfs). simpl in IH.
  destruct (get f fs) as [[t content]|] eqn:Ef; destruct (get f (st_ts m)) as [t0|] eqn:Et.
  - destruct (t >? t0).
    + destruct S as (St & Sv). rewrite St in IH.
      destruct (load_plan fs (set f t (st_ts m)) r) as [ops ts'].
      simpl in IH. destruct IH as (I1 & I2 & I3 & I4). rewrite Sf in I3.
      simpl. repeat split; auto. rewrite I1, Sv.
      destruct content; reflexivity.
    + rewrite S in IH. rewrite S. exact IH.
  - rewrite S in IH. rewrite S. exact IH.
  - destruct S as (St & Sv). rewrite St, Sv, Sf in IH. exact IH.
  - rewrite S in IH. rewrite S. exact IH.
Qed.

Lemma remove_loop_spec : forall purge q fsr m, wfm m ->
  let m' := fold_left (fun m f => remove_file f m) fsr m in
  view_of m' q = fold_left (vstep purge q) (map OpRemove fsr) (view_of m q) /\
  st_ts m' = fold_left (fun ts f => del f ts) fsr (st_ts m) /\ st_files m' = st_files m /\ wfm m'.
Proof.
  intros purge q. induction fsr as [|f r IH]; intros m Hw; [simpl; auto|].
  simpl. destruct (frame_remove_file f m) as (A & B & C).
  destruct (IH (remove_file f m) (C Hw)) as (I1 & I2 & I3 & I4).
  rewrite I1, I2, I3, A, B, view_remove_file by assumption. auto.
Qed.

Lemma add_loop_spec : forall q added m,
  let m' := fold_left (fun m f => with_ts (set f 0 (st_ts m)) m) added m in
  view_of m' q = view_of m q /\ st_ts m' = fold_left (fun ts f => set f 0 ts) added (st_ts m) /\
  st_files m' = st_files m /\ st_map m' = st_map m.
Proof.
  induction added as [|f r IH]; intros m; [simpl; auto|].
  simpl. destruct (IH (with_ts (set f 0 (st_ts m)) m)) as (I1 & I2 & I3 & I4).
  rewrite I1, I2, I3, I4. auto.
Qed.

(* scan_policies as a whole: for every name the sequence of file events of the plan,
   which depends on the directory, the time stamps and the file list only *)
Theorem scan_view : forall purge fs m q, wfm m -> wf_fs fs ->
  let pl := scan_plan fs (st_ts m) (st_files m) in
  view_of (scan_gen purge fs m) q = fold_left (vstep purge q) (fst pl) (view_of m q) /\
  st_ts (scan_gen purge fs m) = snd pl /\ st_files (scan_gen purge fs m) = keys fs /\ wfm (scan_gen purge fs m).
Proof.
  intros purge fs m q Hw Hfs. unfold scan_gen, scan_plan.
  set (added := filter (fun f => negb (memZ f (st_files m))) (keys fs)).
  set (removed := filter (fun f => negb (memZ f (keys fs))) (st_files m)).
  set (m1 := fold_left (fun m f => with_ts (set f 0 (st_ts m)) m) added m).
  destruct (add_loop_spec q added m) as (A1 & A2 & A3 & A4). fold m1 in A1, A2, A3, A4.
  assert (Hw1 : wfm m1) by (unfold wfm; rewrite A4; exact Hw).
  set (m2 := fold_left (fun m f => remove_file f m) removed m1).
  destruct (remove_loop_spec purge q removed m1 Hw1) as (B1 & B2 & B3 & B4). fold m2 in B1, B2, B3, B4.
  set (m3 := with_files (keys fs) m2).
  assert (Hw3 : wfm m3) by exact B4.
  destruct (load_loop_spec purge fs q (sortZ (keys (st_ts m3))) m3 Hw3 Hfs) as (C1 & C2 & C3 & C4).
  change (st_ts m3) with (st_ts m2) in *. change (view_of m3 q) with (view_of m2 q) in C1.
  rewrite B2, A2 in C1, C2, C3, C4. rewrite B2, A2.
  destruct (load_plan fs _ _) as [ops ts3]. simpl in *.
  rewrite fold_left_app. rewrite C1, B1, A1. repeat split; assumption.
Qed.
