(* Model of kmip/core/policy.py : read_policy_from_file and parse_policy, on the value
   json.loads returns.  Python operations that can raise something else than the
   ValueError the monitor catches are modelled as partial (outcome Crash):
   `x.items()` / `x.keys()` / `x.get()` of a non-dict raise AttributeError.  The code
   guards them with isinstance checks; ParseProofs.v proves that Crash is unreachable.
   Enum lookups by name (`enums.X[name]`) sit inside `try/except Exception` blocks that
   re-raise ValueError, so any failure there (KeyError, TypeError for an unhashable
   value) is ValueErr.
   A JSON object is the Python dict json.loads built: distinct keys, insertion order. *)
From Coq Require Import ZArith List Bool String.
Import ListNotations.
Open Scope string_scope.

Inductive json :=
| JNull | JBool (b : bool) | JNum (z : Z) | JStr (s : string)
| JArr (l : list json) | JObj (l : list (string * json)).

Inductive outcome (A : Type) := Ok (a : A) | ValueErr | Crash.
Arguments Ok {A} a. Arguments ValueErr {A}. Arguments Crash {A}.

Definition bind {A B} (x : outcome A) (f : A -> outcome B) : outcome B :=
  match x with Ok a => f a | ValueErr => ValueErr | Crash => Crash end.

Fixpoint mapM {A B} (f : A -> outcome B) (l : list A) : outcome (list B) :=
  match l with
  | [] => Ok []
  | x :: r => bind (f x) (fun y => bind (mapM f r) (fun ys => Ok (y :: ys)))
  end.

(* isinstance(x, dict) *)
Definition is_obj (j : json) : bool := match j with JObj _ => true | _ => false end.
(* x.items() *)
Definition items (j : json) : outcome (list (string * json)) :=
  match j with JObj l => Ok l | _ => Crash end.
(* bool(x) *)
Definition truthy (j : json) : bool :=
  match j with
  | JNull => false | JBool b => b | JNum z => negb (Z.eqb z 0)
  | JStr s => negb (String.eqb s "") | JArr l => negb (Nat.eqb (List.length l) 0)
  | JObj l => negb (Nat.eqb (List.length l) 0)
  end.

Definition mem_str (s : string) (l : list string) : bool := existsb (String.eqb s) l.
Fixpoint dget (k : string) (l : list (string * json)) : option json :=
  match l with [] => None | (k', v) :: r => if String.eqb k k' then Some v else dget k r end.

(* object type -> operation -> permission, all by member name *)
Definition ppol := list (string * list (string * string)).
Record parsed := Parsed { p_preset : option ppol; p_groups : option (list (string * ppol)) }.

Section WithNames.
Variable object_types operations permissions sections : list string.

(* enums.Policy[permission] inside try/except Exception *)
Definition lookup_perm (j : json) : outcome string :=
  match j with JStr s => if mem_str s permissions then Ok s else ValueErr | _ => ValueErr end.
Definition lookup_name (names : list string) (s : string) : outcome string :=
  if mem_str s names then Ok s else ValueErr.

(* policy.py parse_policy *)
Definition parse_policy (policy : json) : outcome ppol :=
  if negb (is_obj policy) then ValueErr else
  bind (items policy) (fun its =>
  mapM (fun (kv : string * json) =>
          let (object_type, operation_policies) := kv in
          if negb (is_obj operation_policies) then ValueErr else
          bind (items operation_policies) (fun ops =>
          bind (mapM (fun (ov : string * json) =>
                        let (operation, permission) := ov in
                        bind (lookup_name operations operation) (fun o =>
                        bind (lookup_perm permission) (fun p => Ok (o, p)))) ops) (fun processed =>
          bind (lookup_name object_types object_type) (fun t => Ok (t, processed))))) its).

Definition subset (a b : list string) : bool := forallb (fun x => mem_str x b) a.

(* body of the loop of read_policy_from_file for one (name, object_policy);
   None = `continue` (a policy without sections is skipped) *)
Definition read_one (object_policy : json) : outcome (option parsed) :=
  if negb (is_obj object_policy) then ValueErr else
  bind (items object_policy) (fun its =>
  if Nat.eqb (List.length its) 0 then Ok None else
  let secs := map fst its in
  if subset secs sections then
    bind (match dget "preset" its with
          | Some dp => if truthy dp then bind (parse_policy dp) (fun p => Ok (Some p)) else Ok None
          | None => Ok None
          end) (fun pre =>
    bind (match dget "groups" its with
          | Some gp =>
              if truthy gp then
                if negb (is_obj gp) then ValueErr else
                bind (items gp) (fun gs =>
                bind (mapM (fun (gv : string * json) =>
                              bind (parse_policy (snd gv)) (fun p => Ok (fst gv, p))) gs) (fun g => Ok (Some g)))
              else Ok None
          | None => Ok None
          end) (fun grp => Ok (Some (Parsed pre grp))))
  else if subset secs object_types then
    bind (parse_policy object_policy) (fun p => Ok (Some (Parsed (Some p) None)))
  else ValueErr).

(* read_policy_from_file on the outcome of json.loads (None: the text is not JSON / not text) *)
Definition read_policy (blob : option json) : outcome (list (string * parsed)) :=
  match blob with
  | None => ValueErr
  | Some b =>
      if negb (is_obj b) then ValueErr else
      bind (items b) (fun its =>
      bind (mapM (fun (nv : string * json) =>
                    bind (read_one (snd nv)) (fun r => Ok (fst nv, r))) its) (fun rs =>
      Ok (flat_map (fun (nr : string * option parsed) =>
                      match snd nr with Some p => [(fst nr, p)] | None => [] end) rs)))
  end.

End WithNames.
