(* Model of kmip/services/server/monitor.py : PolicyDirectoryMonitor.
   Transcribed statement by statement from scan_policies,
   disassociate_policy_and_file, restore_or_delete_policy and
   initialize_tracking_structures (line numbers refer to monitor.py).

   Abstractions (see notes/C18.md):
   - file paths, policy names and policy definitions are integers (the harness
     numbers the files of the directory in sorted path order, 'default' = 0,
     'public' = 1, every other policy name >= 2, and every distinct parsed
     definition gets its own id);
   - the directory as seen by one scan is an fs_view: for every *.json file its
     mtime and the result of read_policy_from_file (None = ValueError);
   - a cache entry (time.time(), file, definition) is modelled as
     (file, definition): the time stamp is never read, it only makes the tuples
     of one stack pairwise different, so that `c.index(e)` in
     disassociate_policy_and_file finds e itself (the harness drives the
     monitor with a strictly increasing clock);
   - a per-name cache stack is a list whose HEAD is the TOP (Python appends and
     pops at the end);
   - loops over Python sets are run in the order of the underlying list
     (Confluence.v: the result does not depend on that order);
   - an uncaught Python exception (None.append in l.120, getmtime of a file
     that is not there) sets st_crash; Invariants.v proves it stays false. *)
From Coq Require Import ZArith List Bool.
From PK Require Export Monitor.AList.
Import ListNotations.
Open Scope Z_scope.

Definition fname := Z.
Definition pname := Z.
Definition defid := Z.
Definition centry := (fname * defid)%type.

(* self.reserved_policies = ['default', 'public']  (l.65) *)
Definition reserved (p : pname) : bool := (p =? 0) || (p =? 1).

Record mstate := MState {
  st_store : list (pname * defid);          (* self.policy_store *)
  st_cache : list (pname * list centry);    (* self.policy_cache *)
  st_map   : list (pname * fname);          (* self.policy_map *)
  st_ts    : list (fname * Z);              (* self.file_timestamps *)
  st_files : list fname;                    (* self.policy_files *)
  st_crash : bool
}.

Definition with_store s m := MState s (st_cache m) (st_map m) (st_ts m) (st_files m) (st_crash m).
Definition with_cache c m := MState (st_store m) c (st_map m) (st_ts m) (st_files m) (st_crash m).
Definition with_map x m := MState (st_store m) (st_cache m) x (st_ts m) (st_files m) (st_crash m).
Definition with_ts t m := MState (st_store m) (st_cache m) (st_map m) t (st_files m) (st_crash m).
Definition with_files f m := MState (st_store m) (st_cache m) (st_map m) (st_ts m) f (st_crash m).
Definition crash m := MState (st_store m) (st_cache m) (st_map m) (st_ts m) (st_files m) true.

(* one *.json file as one scan sees it: mtime, parse result *)
Definition fentry := (fname * (Z * option (list (pname * defid))))%type.
Definition fs_view := list fentry.

(* initialize_tracking_structures (l.150-158): empty tracking structures, every
   non reserved name is popped from the shared store *)
Definition init (store0 : list (pname * defid)) : mstate :=
  MState (filter (fun kv => reserved (fst kv)) store0) [] [] [] [] false.

(* l.160-163 *)
Definition disassociate (p : pname) (f : fname) (m : mstate) : mstate :=
  match get p (st_cache m) with
  | None => m                                   (* c = [] is a fresh list *)
  | Some c => with_cache (set p (filter (fun e => negb (fst e =? f)) c) (st_cache m)) m
  end.

(* l.165-175 *)
Definition restore_or_delete (p : pname) (m : mstate) : mstate :=
  match get p (st_cache m) with
  | None | Some [] =>
      with_cache (del p (st_cache m)) (with_map (del p (st_map m)) (with_store (del p (st_store m)) m))
  | Some (e :: c) =>
      with_map (set p (fst e) (st_map m))
        (with_store (set p (snd e) (st_store m))
           (with_cache (set p c (st_cache m)) m))
  end.

(* [k for k, v in self.policy_map.items() if v == f] *)
Definition owned (f : fname) (m : mstate) : list pname :=
  map fst (filter (fun kv => snd kv =? f) (st_map m)).

(* body of the loop l.85-91 for one removed file *)
Definition remove_file (f : fname) (m : mstate) : mstate :=
  let m1 := with_ts (del f (st_ts m)) m in
  let m2 := fold_left (fun m p => disassociate p f m) (keys (st_cache m1)) m1 in
  fold_left (fun m p => restore_or_delete p m) (owned f m2) m2.

(* body of the loop l.106-130 for one policy of a freshly parsed file *)
Definition load_policy (f : fname) (m : mstate) (pd : pname * defid) : mstate :=
  let (p, d) := pd in
  if reserved p then m else
  let m1 :=
    if has p (st_store m) then
      match get p (st_map m), get p (st_store m), get p (st_cache m) with
      | Some o, Some d0, Some c =>
          if negb (f =? o) then with_cache (set p ((o, d0) :: c) (st_cache m)) m else m
      | _, _, _ => crash m          (* inconsistent tracking structures; unreachable (Invariants.v) *)
      end
    else with_cache (set p [] (st_cache m)) m in
  with_map (set p f (st_map m1)) (with_store (set p d (st_store m1)) m1).

(* body of the loop l.94-133 for one tracked file.
   purge = false: the code as released (l.131-133: only the names the file OWNS and no longer
   defines are disassociated and restored).
   purge = true: the code with fixes/C18-stale-cache.diff applied (the file's cache entries are
   dropped for EVERY name it no longer defines, then the names it owned are restored).
   gen/PolicyNames.v (monitor_purges_shadowed) says which of the two the source is. *)
Definition load_file_gen (purge : bool) (fs : fs_view) (m : mstate) (f : fname) : mstate :=
  match get f fs, get f (st_ts m) with
  | Some (t, content), Some t0 =>
      if t >? t0 then
        let m1 := with_ts (set f t (st_ts m)) m in
        let old_p := owned f m1 in
        match content with
        | None => m1                                             (* except ValueError: continue *)
        | Some new_p =>
            let m2 := fold_left (load_policy f) new_p m1 in
            let dropped := filter (fun p => negb (memZ p (keys new_p))) old_p in
            if purge then
              let stale := filter (fun p => negb (memZ p (keys new_p))) (keys (st_cache m2)) in
              let m3 := fold_left (fun m p => disassociate p f m) stale m2 in
              fold_left (fun m p => restore_or_delete p m) dropped m3
            else
              fold_left (fun m p => restore_or_delete p (disassociate p f m)) dropped m2
        end
      else m
  | None, Some _ => crash m          (* os.path.getmtime raises *)
  | _, None => m                     (* f is taken from the keys of st_ts *)
  end.

(* scan_policies, l.78-133 *)
Definition scan_gen (purge : bool) (fs : fs_view) (m : mstate) : mstate :=
  let policy_files := keys fs in
  let added := filter (fun f => negb (memZ f (st_files m))) policy_files in
  let m1 := fold_left (fun m f => with_ts (set f 0 (st_ts m)) m) added m in
  let removed := filter (fun f => negb (memZ f policy_files)) (st_files m) in
  let m2 := fold_left (fun m f => remove_file f m) removed m1 in
  let m3 := with_files policy_files m2 in
  fold_left (load_file_gen purge fs) (sortZ (keys (st_ts m3))) m3.

Definition run_gen (purge : bool) (store0 : list (pname * defid)) (h : list fs_view) : mstate :=
  fold_left (fun m fs => scan_gen purge fs m) h (init store0).

(* the released code *)
Definition scan := scan_gen false.
Definition run := run_gen false.
