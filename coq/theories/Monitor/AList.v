(* Association lists keyed by Z: the model of the Python dicts of
   kmip/services/server/monitor.py (insertion ordered, unique keys). *)
From Coq Require Import ZArith List Bool.
Import ListNotations.
Open Scope Z_scope.

Section AL.
Context {V : Type}.

Fixpoint get (k : Z) (l : list (Z * V)) : option V :=
  match l with
  | [] => None
  | (k', v) :: r => if k =? k' then Some v else get k r
  end.

(* d[k] = v : replaces in place when the key exists, appends otherwise *)
Fixpoint set (k : Z) (v : V) (l : list (Z * V)) : list (Z * V) :=
  match l with
  | [] => [(k, v)]
  | (k', v') :: r => if k =? k' then (k, v) :: r else (k', v') :: set k v r
  end.

(* d.pop(k, None) *)
Fixpoint del (k : Z) (l : list (Z * V)) : list (Z * V) :=
  match l with
  | [] => []
  | (k', v') :: r => if k =? k' then del k r else (k', v') :: del k r
  end.

Definition keys (l : list (Z * V)) : list Z := map fst l.

Definition has (k : Z) (l : list (Z * V)) : bool :=
  match get k l with Some _ => true | None => false end.

End AL.

Definition memZ (x : Z) (l : list Z) : bool := existsb (Z.eqb x) l.

Fixpoint insertZ (x : Z) (l : list Z) : list Z :=
  match l with
  | [] => [x]
  | y :: r => if x <=? y then x :: l else y :: insertZ x r
  end.

(* sorted(...) on a list of distinct keys *)
Definition sortZ (l : list Z) : list Z := fold_right insertZ [] l.
