(* Two loops of scan_policies run over Python sets, whose iteration order depends on string
   hashing: the removed files (l.85) and the names a reloaded file no longer defines (l.131).
   The model runs them in list order; here: swapping two neighbours of either loop does not
   change any name's store entry, owner or cache stack, nor any time stamp.  Every order is
   reached from every other by such swaps, so the result of a scan does not depend on
   PYTHONHASHSEED.  (The third set loop, l.83, only writes `file_timestamps[f] = 0` for
   distinct files.) *)
From Coq Require Import ZArith List Bool Lia.
From PK Require Import Monitor.AList Monitor.AListProofs Monitor.Monitor Monitor.Spec Monitor.Views Monitor.Refine.
Import ListNotations.
Open Scope Z_scope.

Lemma eff_inj : forall v v' E, eff v = Some E -> eff v' = Some E -> v = v'.
Proof.
  intros [[s o] c] [[s' o'] c'] E H H'.
  destruct s, o, c; simpl in H; try discriminate; destruct s', o', c'; simpl in H'; try discriminate;
    inversion H; subst; inversion H'; subst; reflexivity.
Qed.

(* per name: removing two files in either order *)
Lemma v_remove_comm : forall f1 f2 v,
  (exists E, eff v = Some E) \/ snd (fst v) = None ->
  v_remove f1 (v_remove f2 v) = v_remove f2 (v_remove f1 v).
Proof.
  intros f1 f2 v [[E HE]|Ho].
  - apply (eff_inj _ _ (filter (notf f1) (filter (notf f2) E))).
    + apply eff_remove. now apply eff_remove.
    + rewrite filter_comm. apply eff_remove. now apply eff_remove.
  - destruct v as [[s o] c]. simpl in Ho. subst o.
    unfold v_remove, v_disassoc, owner_is. simpl.
    destruct c as [c|]; simpl; [|reflexivity]. now rewrite filter_comm.
Qed.

Theorem remove_file_comm : forall f1 f2 m q, wfm m ->
  (exists E, eff (view_of m q) = Some E) \/ snd (fst (view_of m q)) = None ->
  view_of (remove_file f1 (remove_file f2 m)) q = view_of (remove_file f2 (remove_file f1 m)) q /\
  (forall g, get g (st_ts (remove_file f1 (remove_file f2 m))) = get g (st_ts (remove_file f2 (remove_file f1 m)))).
Proof.
  intros f1 f2 m q Hw Hc.
  destruct (frame_remove_file f2 m) as (A2 & _ & W2). destruct (frame_remove_file f1 m) as (A1 & _ & W1).
  destruct (frame_remove_file f1 (remove_file f2 m)) as (A12 & _). destruct (frame_remove_file f2 (remove_file f1 m)) as (A21 & _).
  split.
  - rewrite !view_remove_file by auto. now apply v_remove_comm.
  - intros g. rewrite A12, A21, A2, A1, !get_del. destruct (g =? f1), (g =? f2); reflexivity.
Qed.

(* the hypothesis of remove_file_comm holds for every name in every reachable state *)
Theorem remove_file_comm_reachable : forall purge s h f1 f2 q, Forall wf_fs h ->
  let m := run_gen purge s h in
  view_of (remove_file f1 (remove_file f2 m)) q = view_of (remove_file f2 (remove_file f1 m)) q.
Proof.
  intros purge s h f1 f2 q Hh m. apply remove_file_comm.
  - clear - Hh. unfold m, run_gen.
    assert (H0 : wfm (init s)) by (unfold wfm, init; simpl; constructor).
    revert H0. generalize (init s). induction Hh; intros m0 H0; simpl; [assumption|].
    apply IHHh. now destruct (scan_view purge x m0 0 H0 H) as (_ & _ & _ & S4).
  - destruct (reserved q) eqn:Eq.
    + right. destruct (reserved_untouched_run purge s h Hh q Eq) as [_ H]. exact H.
    + left. now apply tracking_consistent_run.
Qed.

(* the names a reloaded file dropped: two different names, either order *)
Theorem dropped_names_comm : forall f p p' m q, p <> p' ->
  let step := fun m p => restore_or_delete p (disassociate p f m) in
  view_of (step (step m p) p') q = view_of (step (step m p') p) q.
Proof.
  intros f p p' m q Hne step. unfold step.
  rewrite !view_restore, !view_disassociate, !view_restore, !view_disassociate.
  destruct (q =? p) eqn:E1, (q =? p') eqn:E2; reflexivity.
Qed.
