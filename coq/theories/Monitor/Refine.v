(* The monitor refines the specification, name by name, on every history without a
   shadowed drop; the reserved names are never touched on any history. *)
From Coq Require Import ZArith List Bool Lia.
From PK Require Import Monitor.AList Monitor.AListProofs Monitor.Monitor Monitor.Spec Monitor.Views.
Import ListNotations.
Open Scope Z_scope.

Arguments notf : simpl never.

(* first entry of every file, in stack order *)
Fixpoint nodupfst (l : list centry) : list centry :=
  match l with
  | [] => []
  | e :: r => e :: filter (notf (fst e)) (nodupfst r)
  end.

(* the effective stack of a name: current owner and definition on top of the cache *)
Definition eff (v : view) : option (list centry) :=
  match v with
  | (None, None, None) => Some []
  | (Some d, Some o, Some c) => Some ((o, d) :: c)
  | _ => None
  end.

Definition J (l : list (fname * defs)) (q : pname) (v : view) : Prop :=
  exists E, eff v = Some E /\ nodupfst E = definers l q.

Definition Jr (res : list (pname * defid)) (q : pname) (v : view) : Prop :=
  fst (fst v) = get q res /\ snd (fst v) = None.

(* ---------------------------------------------------------------- lists *)
Lemma filter_comm : forall {A} (P Q : A -> bool) l, filter P (filter Q l) = filter Q (filter P l).
Proof.
  induction l as [|a l IH]; simpl; auto.
  destruct (Q a) eqn:EQ, (P a) eqn:EP; simpl; rewrite ?EQ, ?EP, IH; reflexivity.
Qed.

Lemma notf_false : forall f e, notf f e = false -> fst e = f.
Proof. unfold notf. intros f e H. apply negb_false_iff in H. now apply Z.eqb_eq. Qed.

Lemma nodupfst_filter : forall f l, nodupfst (filter (notf f) l) = filter (notf f) (nodupfst l).
Proof.
  induction l as [|e r IH]; simpl; auto.
  destruct (notf f e) eqn:E; simpl.
  - rewrite ?E, IH. f_equal. apply filter_comm.
  - rewrite ?E, IH. apply notf_false in E. subst f.
    now rewrite filter_idem.
Qed.

Lemma filter_notf_id : forall f l, ~ In f (map fst l) -> filter (notf f) l = l.
Proof.
  induction l as [|e r IH]; simpl; intros H; auto.
  destruct (notf f e) eqn:E.
  - f_equal. apply IH. tauto.
  - apply notf_false in E. tauto.
Qed.

Lemma notf_pair : forall f g (d : defid), notf f (g, d) = negb (g =? f).
Proof. reflexivity. Qed.

Lemma definers_del : forall f l q, definers (del f l) q = filter (notf f) (definers l q).
Proof.
  induction l as [|[g ds] r IH]; intros q; simpl; auto.
  destruct (f =? g) eqn:E.
  - rewrite IH. destruct (get q ds); [|reflexivity].
    simpl. rewrite notf_pair, Z.eqb_sym, E. reflexivity.
  - simpl. destruct (get q ds); [|apply IH].
    simpl. rewrite notf_pair, Z.eqb_sym, E. simpl. now rewrite IH.
Qed.

Lemma definers_names : forall l q e, In e (definers l q) -> In q (names_of l).
Proof.
  induction l as [|[g ds] r IH]; intros q e; simpl; [tauto|].
  rewrite in_app_iff. destruct (get q ds) eqn:E.
  - intros _. left. simpl. destruct (memZ q (keys ds)) eqn:M; [now apply memZ_In|].
    rewrite memZ_keys_get, E in M. discriminate.
  - intros H. right. eapply IH; eauto.
Qed.

(* ---------------------------------------------------------------- the effective stack under each step *)
Lemma eff_remove : forall f v E, eff v = Some E -> eff (v_remove f v) = Some (filter (notf f) E).
Proof.
  intros f [[s o] c] E H. unfold v_remove, v_disassoc, owner_is, v_restore.
  destruct s as [d|], o as [o|], c as [c|]; simpl in H; try discriminate; inversion H; subst; clear H; simpl.
  - rewrite notf_pair. destruct (o =? f) eqn:Eo; simpl.
    + destruct (filter (notf f) c) as [|[g d'] c'] eqn:Ef; reflexivity.
    + reflexivity.
  - reflexivity.
Qed.

Lemma eff_load : forall f d v E, eff v = Some E ->
  exists E', eff (v_load f d v) = Some E' /\ nodupfst E' = (f, d) :: filter (notf f) (nodupfst E).
Proof.
  intros f d [[s o] c] E H. unfold v_load.
  destruct s as [d0|], o as [o|], c as [c|]; simpl in H; try discriminate; inversion H; subst; clear H.
  - destruct (f =? o) eqn:Eo; simpl.
    + apply Z.eqb_eq in Eo; subst o. eexists; split; [reflexivity|].
      simpl. f_equal. rewrite notf_pair, Z.eqb_refl. simpl.
      now rewrite filter_idem.
    + eexists; split; [reflexivity|]. reflexivity.
  - eexists; split; [reflexivity|]. reflexivity.
Qed.

Lemma eff_owner : forall f v E, eff v = Some E ->
  owner_is f v = match E with e :: _ => fst e =? f | [] => false end.
Proof.
  intros f [[s o] c] E H. unfold owner_is.
  destruct s as [d|], o as [o|], c as [c|]; simpl in H; try discriminate; inversion H; subst; reflexivity.
Qed.

Lemma owner_remove : forall f v, owner_is f v = true -> v_restore (v_disassoc f v) = v_remove f v.
Proof.
  intros f [[s o] c] H. unfold v_remove. 
  replace (owner_is f (v_disassoc f (s, o, c))) with (owner_is f (s, o, c)) by reflexivity.
  now rewrite H.
Qed.

(* ---------------------------------------------------------------- one file event, one name *)
Lemma J_step : forall purge l q v o, reserved q = false ->
  J l q v -> purge = true \/ op_ok l o = true -> J (aop l o) q (vstep purge q v o).
Proof.
  intros purge l q v o Hq (E & HE & HN) Hok. destruct o as [f|f ds]; simpl.
  - exists (filter (notf f) E). split; [now apply eff_remove|].
    now rewrite nodupfst_filter, HN, definers_del.
  - unfold v_loadfile, J. rewrite Hq. simpl definers. destruct (get q ds) as [d|] eqn:Eg.
    + destruct (eff_load f d v E HE) as (E' & HE' & HN').
      exists E'. split; [assumption|]. now rewrite HN', HN, definers_del.
    + rewrite definers_del.
      assert (Hrem : exists E0, eff (v_remove f v) = Some E0 /\ nodupfst E0 = filter (notf f) (definers l q)).
      { exists (filter (notf f) E). split; [now apply eff_remove|]. now rewrite nodupfst_filter, HN. }
      destruct purge; [exact Hrem|].
      destruct Hok as [Hok|Hok]; [discriminate|].
      destruct (owner_is f v) eqn:Eo.
      * rewrite owner_remove by assumption. exact Hrem.
      * exists E. split; [assumption|]. rewrite <- HN.
        symmetry. apply filter_notf_id.
        rewrite (eff_owner f v E HE) in Eo.
        destruct E as [|e r]; [simpl; tauto|].
        simpl. intros [H|H].
        { rewrite H, Z.eqb_refl in Eo. discriminate. }
        (* f occurs further down: a shadowed drop, excluded by op_ok *)
        simpl in Hok. rewrite forallb_forall in Hok.
        assert (Hin : In q (names_of l)).
        { apply (definers_names l q e). rewrite <- HN. simpl. now left. }
        specialize (Hok q Hin). unfold shadowed_drop in Hok.
        rewrite Hq, memZ_keys_get, Eg in Hok. simpl in Hok.
        apply negb_true_iff in Hok. apply memZ_false in Hok. apply Hok.
        rewrite <- HN. simpl. exact H.
Qed.

Lemma Jr_step : forall purge res q v o, reserved q = true -> Jr res q v -> Jr res q (vstep purge q v o).
Proof.
  intros purge res q [[s o'] c] o Hq [H1 H2]. simpl in H1, H2. subst o'.
  destruct o as [f|f ds]; simpl.
  - unfold v_remove, v_disassoc, owner_is; simpl. split; [exact H1 | reflexivity].
  - unfold v_loadfile. rewrite Hq. destruct (get q ds); [split; [exact H1 | reflexivity]|].
    destruct purge.
    + unfold v_remove, v_disassoc, owner_is; simpl. split; [exact H1 | reflexivity].
    + unfold owner_is; simpl. split; [exact H1 | reflexivity].
Qed.

Lemma J_steps : forall purge q ops l v, reserved q = false ->
  J l q v -> purge = true \/ ops_ok l ops = true -> J (fold_left aop ops l) q (fold_left (vstep purge q) ops v).
Proof.
  intros purge q. induction ops as [|o r IH]; intros l v Hq HJ Hok; simpl; [assumption|].
  apply IH; auto.
  - apply J_step; auto. destruct Hok as [Hok|Hok]; [now left|right].
    simpl in Hok. now apply andb_true_iff in Hok.
  - destruct Hok as [Hok|Hok]; [now left|right].
    simpl in Hok. now apply andb_true_iff in Hok.
Qed.

Lemma Jr_steps : forall purge res q ops v, reserved q = true ->
  Jr res q v -> Jr res q (fold_left (vstep purge q) ops v).
Proof.
  intros purge res q. induction ops as [|o r IH]; intros v Hq HJ; simpl; [assumption|].
  apply IH; auto. now apply Jr_step.
Qed.

(* ---------------------------------------------------------------- whole states *)
Definition names_inv (m : mstate) (a : astate) : Prop :=
  forall q, if reserved q then Jr (a_reserved a) q (view_of m q) else J (a_loaded a) q (view_of m q).

Definition Inv (m : mstate) (a : astate) : Prop :=
  wfm m /\ st_ts m = a_ts a /\ st_files m = a_files a /\ names_inv m a.

Lemma get_filter_reserved : forall (s : list (pname * defid)) q,
  get q (filter (fun kv => reserved (fst kv)) s) = if reserved q then get q s else None.
Proof.
  induction s as [|[k v] r IH]; intros q; simpl.
  - now destruct (reserved q).
  - destruct (reserved k) eqn:Ek; simpl; destruct (q =? k) eqn:E.
    + apply Z.eqb_eq in E; subst. now rewrite Ek.
    + apply IH.
    + apply Z.eqb_eq in E; subst. rewrite Ek. rewrite IH, Ek. reflexivity.
    + apply IH.
Qed.

Lemma inv_init : forall s, Inv (init s) (spec_init s).
Proof.
  intros s. unfold Inv, init, spec_init, wfm; simpl. repeat split; try constructor.
  intros q. unfold view_of; simpl. destruct (reserved q) eqn:Eq.
  - split; reflexivity.
  - rewrite get_filter_reserved, Eq. exists []. split; reflexivity.
Qed.

Theorem inv_scan : forall purge fs m a, wf_fs fs -> Inv m a -> purge = true \/ step_ok fs a = true ->
  Inv (scan_gen purge fs m) (spec_step fs a).
Proof.
  intros purge fs m a Hfs (Hw & Hts & Hf & Hn) Hok.
  unfold step_ok in Hok. unfold spec_step. rewrite <- Hts, <- Hf in *.
  pose proof (scan_view purge fs m 0 Hw Hfs) as (_ & S2 & S3 & S4).
  destruct (scan_plan fs (st_ts m) (st_files m)) as [ops ts'] eqn:Epl. simpl in *.
  repeat split; auto.
  intros q. pose proof (scan_view purge fs m q Hw Hfs) as (S1 & _). rewrite Epl in S1. simpl in S1.
  rewrite S1. specialize (Hn q). simpl. destruct (reserved q) eqn:Eq.
  - now apply Jr_steps.
  - now apply J_steps.
Qed.

Lemma inv_store : forall m a, Inv m a -> forall q, get q (st_store m) = spec_store a q.
Proof.
  intros m a (_ & _ & _ & Hn) q. specialize (Hn q). unfold spec_store.
  destruct (reserved q).
  - destruct Hn as [H _]. exact H.
  - destruct Hn as (E & HE & HN). rewrite <- HN.
    unfold view_of in HE.
    destruct (get q (st_store m)) as [d|], (get q (st_map m)) as [o|], (get q (st_cache m)) as [c|];
      simpl in HE; try discriminate; inversion HE; subst; reflexivity.
Qed.

Lemma inv_run : forall purge h m a, Forall wf_fs h -> Inv m a -> purge = true \/ hist_ok_from a h = true ->
  Inv (fold_left (fun m fs => scan_gen purge fs m) h m) (fold_left (fun a fs => spec_step fs a) h a).
Proof.
  intros purge. induction h as [|fs r IH]; intros m a Hh HI Hok; simpl; [assumption|].
  inversion Hh; subst.
  assert (Ha : purge = true \/ step_ok fs a = true).
  { destruct Hok as [Hok|Hok]; [now left|right]. simpl in Hok. now apply andb_true_iff in Hok. }
  assert (Hb : purge = true \/ hist_ok_from (spec_step fs a) r = true).
  { destruct Hok as [Hok|Hok]; [now left|right]. simpl in Hok. now apply andb_true_iff in Hok. }
  apply IH; auto. now apply inv_scan.
Qed.

(* the released code: the store follows the files on every history without a shadowed drop *)
Theorem run_refines_spec : forall s h, Forall wf_fs h -> hist_ok s h = true ->
  forall q, get q (st_store (run s h)) = spec_store (spec_run s h) q.
Proof.
  intros s h Hh Hok q. apply inv_store. apply (inv_run false); auto. apply inv_init.
Qed.

(* the code with fixes/C18-stale-cache.diff: on every history *)
Theorem run_refines_spec_fixed : forall s h, Forall wf_fs h ->
  forall q, get q (st_store (run_gen true s h)) = spec_store (spec_run s h) q.
Proof.
  intros s h Hh q. apply inv_store. apply (inv_run true); auto. apply inv_init.
Qed.

(* ---------------------------------------------------------------- reserved names, every history *)
Definition RInv (s : list (pname * defid)) (m : mstate) : Prop :=
  wfm m /\ forall q, reserved q = true -> Jr s q (view_of m q).

Lemma rinv_scan : forall purge s fs m, wf_fs fs -> RInv s m -> RInv s (scan_gen purge fs m).
Proof.
  intros purge s fs m Hfs (Hw & Hr). split.
  - now destruct (scan_view purge fs m 0 Hw Hfs) as (_ & _ & _ & S4).
  - intros q Hq. destruct (scan_view purge fs m q Hw Hfs) as (S1 & _). rewrite S1.
    apply Jr_steps; auto.
Qed.

Theorem reserved_untouched_run : forall purge s h, Forall wf_fs h ->
  forall q, reserved q = true ->
    get q (st_store (run_gen purge s h)) = get q s /\ get q (st_map (run_gen purge s h)) = None.
Proof.
  intros purge s h Hh q Hq.
  assert (H : RInv s (run_gen purge s h)).
  { unfold run_gen. assert (H0 : RInv s (init s)).
    { split; [constructor|]. intros q0 Hq0. unfold Jr, view_of, init; simpl.
      rewrite get_filter_reserved, Hq0. split; reflexivity. }
    revert H0. generalize (init s). induction Hh; intros m0 H0; simpl; [assumption|].
    apply IHHh. now apply rinv_scan. }
  destruct H as (_ & Hr). destruct (Hr q Hq) as [H1 H2]. split; assumption.
Qed.

(* ---------------------------------------------------------------- tracking structures stay consistent, every history *)
(* a non reserved name is either absent from store, owner map and cache, or present in all
   three: the state in which l.120 `self.policy_cache.get(p).append` meets None does not
   arise between scans *)
Lemma eff_step : forall purge q v o E, reserved q = false -> eff v = Some E ->
  exists E', eff (vstep purge q v o) = Some E'.
Proof.
  intros purge q v o E Hq HE. destruct o as [f|f ds]; simpl.
  - eexists; apply eff_remove; exact HE.
  - unfold v_loadfile. rewrite Hq. destruct (get q ds) as [d|].
    + destruct (eff_load f d v E HE) as (E' & HE' & _). eauto.
    + destruct purge; [eexists; apply eff_remove; exact HE|].
      destruct (owner_is f v) eqn:Eo; [|eauto].
      rewrite owner_remove by assumption. eexists; apply eff_remove; exact HE.
Qed.

Lemma eff_steps : forall purge q ops v E, reserved q = false -> eff v = Some E ->
  exists E', eff (fold_left (vstep purge q) ops v) = Some E'.
Proof.
  intros purge q. induction ops as [|o r IH]; intros v E Hq HE; simpl; [eauto|].
  destruct (eff_step purge q v o E Hq HE) as (E' & HE'). eapply IH; eauto.
Qed.

Theorem tracking_consistent_run : forall purge s h, Forall wf_fs h ->
  forall q, reserved q = false -> exists E, eff (view_of (run_gen purge s h) q) = Some E.
Proof.
  intros purge s h Hh q Hq. unfold run_gen.
  assert (H0 : wfm (init s) /\ exists E, eff (view_of (init s) q) = Some E).
  { split; [unfold wfm, init; simpl; constructor|]. exists []. unfold view_of, init; simpl. rewrite get_filter_reserved, Hq. reflexivity. }
  revert H0. generalize (init s). induction Hh; intros m0 (Hw & E & HE); simpl; [eauto|].
  apply IHHh. destruct (scan_view purge x m0 q Hw H) as (S1 & _ & _ & S4). split; [assumption|].
  rewrite S1. eapply eff_steps; eauto.
Qed.
