(* Comparator for the engine probes (tie K): what process_request answered to Get/Locate against engine_decision
   on the store observed at that moment. *)
From Coq Require Import ZArith List Bool String.
From PK Require Export Monitor.AList Monitor.Monitor Monitor.Parse Monitor.EngineSide.
Import ListNotations.
Open Scope Z_scope.

Record ecase := ECase {
  e_store : list (pname * defid); e_name : pname; e_owner : string; e_otype : string; e_op : string;
  e_user : string; e_groups : option (list string); e_observed : bool }.

Definition check_ecase (dtab : list (defid * parsed)) (c : ecase) : bool :=
  Bool.eqb (engine_decision (fun d => get d dtab) (e_store c) (e_name c) (e_owner c) (e_otype c) (e_op c) (e_user c) (e_groups c))
           (e_observed c).
