(* Specification of property C18, independent of the monitor's data structures.

   Abstract state: the *.json files present at the last scan, each with the mtime
   last seen, and the list of files that were loaded successfully - MOST RECENTLY
   LOADED FIRST - each with the definitions of its last successful load.
   The policy in force for a name is the definition in the most recently loaded
   present file that still defines it; the reserved names keep the built-in
   definitions; a file that does not parse changes nothing except the mtime last
   seen (it is not looked at again until its mtime grows).

   "Edited" means what the monitor can observe: the mtime is greater than the
   mtime last seen (0 for a file that was not there at the previous scan); the
   files that changed are loaded in sorted path order. *)
From Coq Require Import ZArith List Bool.
From PK Require Export Monitor.AList Monitor.Monitor.
Import ListNotations.
Open Scope Z_scope.

Definition defs := list (pname * defid).

Record astate := AState {
  a_reserved : list (pname * defid);       (* built-in policies, constant *)
  a_ts       : list (fname * Z);           (* mtime last seen per present file *)
  a_files    : list fname;                 (* files present at the last scan *)
  a_loaded   : list (fname * defs)         (* successfully loaded files, most recent first *)
}.

Definition spec_init (store0 : list (pname * defid)) : astate :=
  AState (filter (fun kv => reserved (fst kv)) store0) [] [] [].

(* the files defining p with their definition of p, most recently loaded first *)
Fixpoint definers (l : list (fname * defs)) (p : pname) : list centry :=
  match l with
  | [] => []
  | (f, ds) :: r =>
      match get p ds with
      | Some d => (f, d) :: definers r p
      | None => definers r p
      end
  end.

Definition spec_store (a : astate) (p : pname) : option defid :=
  if reserved p then get p (a_reserved a)
  else match definers (a_loaded a) p with
       | [] => None
       | (_, d) :: _ => Some d
       end.

(* file events of one scan, in the order in which they take effect *)
Inductive fop := OpRemove (f : fname) | OpLoad (f : fname) (ds : defs).

Definition aop (l : list (fname * defs)) (o : fop) : list (fname * defs) :=
  match o with
  | OpRemove f => del f l
  | OpLoad f ds => (f, ds) :: del f l
  end.

(* which of the tracked files are (re)loaded, given the mtimes last seen *)
Fixpoint load_plan (fs : fs_view) (ts : list (fname * Z)) (todo : list fname)
  : list fop * list (fname * Z) :=
  match todo with
  | [] => ([], ts)
  | f :: r =>
      match get f fs, get f ts with
      | Some (t, content), Some t0 =>
          if t >? t0 then
            let (ops, ts') := load_plan fs (set f t ts) r in
            (match content with Some ds => OpLoad f ds :: ops | None => ops end, ts')
          else load_plan fs ts r
      | _, _ => load_plan fs ts r
      end
  end.

Definition scan_plan (fs : fs_view) (ts : list (fname * Z)) (files : list fname)
  : list fop * list (fname * Z) :=
  let added := filter (fun f => negb (memZ f files)) (keys fs) in
  let ts1 := fold_left (fun ts f => set f 0 ts) added ts in
  let removed := filter (fun f => negb (memZ f (keys fs))) files in
  let ts2 := fold_left (fun ts f => del f ts) removed ts1 in
  let (ops, ts3) := load_plan fs ts2 (sortZ (keys ts2)) in
  (map OpRemove removed ++ ops, ts3).

Definition spec_step (fs : fs_view) (a : astate) : astate :=
  let (ops, ts') := scan_plan fs (a_ts a) (a_files a) in
  AState (a_reserved a) ts' (keys fs) (fold_left aop ops (a_loaded a)).

Definition spec_run (store0 : list (pname * defid)) (h : list fs_view) : astate :=
  fold_left (fun a fs => spec_step fs a) h (spec_init store0).

(* The event class on which the monitor is known to deviate (finding
   C18-stale-cache): a file is reloaded and no longer defines a non reserved name p
   that it defined before, while a more recently loaded file also defines p
   (the dropped definition was shadowed). *)
Definition shadowed_drop (l : list (fname * defs)) (f : fname) (ds : defs) (p : pname) : bool :=
  negb (reserved p) && negb (memZ p (keys ds)) && memZ f (map fst (tl (definers l p))).

Definition names_of (l : list (fname * defs)) : list pname := flat_map (fun fd => keys (snd fd)) l.

Definition op_ok (l : list (fname * defs)) (o : fop) : bool :=
  match o with
  | OpRemove _ => true
  | OpLoad f ds => forallb (fun p => negb (shadowed_drop l f ds p)) (names_of l)
  end.

Fixpoint ops_ok (l : list (fname * defs)) (ops : list fop) : bool :=
  match ops with
  | [] => true
  | o :: r => op_ok l o && ops_ok (aop l o) r
  end.

Definition step_ok (fs : fs_view) (a : astate) : bool :=
  ops_ok (a_loaded a) (fst (scan_plan fs (a_ts a) (a_files a))).

Fixpoint hist_ok_from (a : astate) (h : list fs_view) : bool :=
  match h with
  | [] => true
  | fs :: r => step_ok fs a && hist_ok_from (spec_step fs a) r
  end.

Definition hist_ok (store0 : list (pname * defid)) (h : list fs_view) : bool :=
  hist_ok_from (spec_init store0) h.

(* well-formed directory views: one entry per file, one definition per name in a file
   (os.listdir returns distinct names; a parsed file is a Python dict) *)
Definition wf_fs (fs : fs_view) : Prop :=
  NoDup (keys fs) /\
  forall f t ds, In (f, (t, Some ds)) fs -> NoDup (keys ds).
