(* The model variant the source corresponds to (tie T: gen/PolicyNames.v). *)
(* Comparator for the monitor correspondence (tie K).  A case carries the state of
   the real PolicyDirectoryMonitor before a scan, the directory as that scan sees
   it, and the state observed afterwards; the checker runs the model on the first
   two and compares.  Dicts are compared as finite maps (order free). *)
From Coq Require Import ZArith List Bool.
From PK Require Export Monitor.Monitor Monitor.Spec Monitor.Wf.
From PKGen Require Import PolicyNames.
Import ListNotations.
Open Scope Z_scope.

Definition scan_current := scan_gen monitor_purges_shadowed.

Definition al_sub {V} (veq : V -> V -> bool) (a b : list (Z * V)) : bool :=
  forallb (fun kv => match get (fst kv) b with Some v => veq (snd kv) v | None => false end) a.
Definition al_eqb {V} (veq : V -> V -> bool) (a b : list (Z * V)) : bool :=
  al_sub veq a b && al_sub veq b a && (length a =? length b)%nat.

Fixpoint list_eqb {A} (eq : A -> A -> bool) (a b : list A) : bool :=
  match a, b with
  | [], [] => true
  | x :: a', y :: b' => eq x y && list_eqb eq a' b'
  | _, _ => false
  end.

Definition centry_eqb (a b : centry) : bool := (fst a =? fst b) && (snd a =? snd b).

Definition state_eqb (m o : mstate) : bool :=
  al_eqb Z.eqb (st_store m) (st_store o)
  && al_eqb (list_eqb centry_eqb) (st_cache m) (st_cache o)
  && al_eqb Z.eqb (st_map m) (st_map o)
  && al_eqb Z.eqb (st_ts m) (st_ts o)
  && list_eqb Z.eqb (st_files m) (st_files o)
  && Bool.eqb (st_crash m) (st_crash o).

Inductive mcase :=
| MInit (store0 : list (pname * defid)) (post : mstate)
| MScan (pre : mstate) (fs : fs_view) (post : mstate)
  (* whole history from a fresh monitor: the stores after each scan *)
| MRun (store0 : list (pname * defid)) (h : list (fs_view * list (pname * defid))).

Fixpoint run_check (m : mstate) (h : list (fs_view * list (pname * defid))) : bool :=
  match h with
  | [] => true
  | (fs, obs) :: r =>
      let m' := scan_current fs m in
      wf_fsb fs && al_eqb Z.eqb (st_store m') obs && negb (st_crash m') && run_check m' r
  end.

Definition check_mcase (c : mcase) : bool :=
  match c with
  | MInit s post => state_eqb (init s) post
  | MScan pre fs post => wf_fsb fs && state_eqb (scan_current fs pre) post
  | MRun s h => run_check (init s) h
  end.

(* the specification evaluated by Coq on a history: store expected after each scan,
   restricted to the given names; used to cross-check the Python oracle *)
Inductive scase := SRun (store0 : list (pname * defid)) (names : list pname)
                        (h : list (fs_view * (list (pname * defid) * bool))).

Fixpoint spec_check (names : list pname) (a : astate) (h : list (fs_view * (list (pname * defid) * bool))) : bool :=
  match h with
  | [] => true
  | (fs, (exp, ok)) :: r =>
      let a' := spec_step fs a in
      forallb (fun p => match spec_store a' p, get p exp with
                        | Some d, Some d' => d =? d'
                        | None, None => true
                        | _, _ => false end) names
      && Bool.eqb (step_ok fs a) ok
      && spec_check names a' r
  end.

Definition check_scase (c : scase) : bool :=
  match c with SRun s names h => spec_check names (spec_init s) h end.
