(* Comparator for the parser correspondence (tie K) and the constants read from the source (tie T). *)
From Coq Require Import ZArith List Bool String.
From PK Require Export Monitor.Parse.
From PKGen Require Import Enums PolicyNames.
Import ListNotations.
Open Scope string_scope.

(* tie T: the constants the hand models hard-code are the ones in the source *)
Example reserved_names_tie : reserved_policy_names = ["default"; "public"].
Proof. reflexivity. Qed.
Example section_names_tie : policy_section_names = ["groups"; "preset"].
Proof. reflexivity. Qed.
Example caught_exception_tie : caught_exception = "ValueError".
Proof. reflexivity. Qed.

Definition read_policy_impl : option json -> outcome (list (string * parsed)) :=
  read_policy (map fst E_ObjectType) (map fst E_Operation) policy_member_names policy_section_names.

Fixpoint leqb {A} (eq : A -> A -> bool) (a b : list A) : bool :=
  match a, b with
  | [], [] => true
  | x :: a', y :: b' => eq x y && leqb eq a' b'
  | _, _ => false
  end.
Definition peqb {A B} (ea : A -> A -> bool) (eb : B -> B -> bool) (x y : A * B) : bool :=
  ea (fst x) (fst y) && eb (snd x) (snd y).
Definition oeqb {A} (eq : A -> A -> bool) (x y : option A) : bool :=
  match x, y with Some a, Some b => eq a b | None, None => true | _, _ => false end.

Definition ppol_eqb : ppol -> ppol -> bool := leqb (peqb String.eqb (leqb (peqb String.eqb String.eqb))).
Definition parsed_eqb (x y : parsed) : bool :=
  oeqb ppol_eqb (p_preset x) (p_preset y) && oeqb (leqb (peqb String.eqb ppol_eqb)) (p_groups x) (p_groups y).

(* a case: what json.loads gave (None: it raised), and what read_policy_from_file did *)
Definition jcase := (option json * outcome (list (string * parsed)))%type.

Definition check_jcase (c : jcase) : bool :=
  match read_policy_impl (fst c), snd c with
  | Ok a, Ok b => leqb (peqb String.eqb parsed_eqb) a b
  | ValueErr, ValueErr => true
  | Crash, Crash => true
  | _, _ => false
  end.
