(* Decidable form of the well-formedness of a directory view (checked by Coq on every
   view the harness observes, and used to discharge wf_fs for concrete witnesses). *)
From Coq Require Import ZArith List Bool.
From PK Require Import Monitor.AList Monitor.AListProofs Monitor.Monitor Monitor.Spec.
Import ListNotations.
Open Scope Z_scope.

Fixpoint nodupb (l : list Z) : bool :=
  match l with
  | [] => true
  | x :: r => negb (memZ x r) && nodupb r
  end.

Lemma nodupb_ok : forall l, nodupb l = true -> NoDup l.
Proof.
  induction l as [|x r IH]; simpl; intros H; [constructor|].
  apply andb_true_iff in H. destruct H as [H1 H2].
  constructor; [|now apply IH]. apply negb_true_iff in H1. now apply memZ_false.
Qed.

Definition wf_fsb (fs : fs_view) : bool :=
  nodupb (keys fs) &&
  forallb (fun e : fentry => match snd (snd e) with Some ds => nodupb (keys ds) | None => true end) fs.

Lemma wf_fsb_ok : forall fs, wf_fsb fs = true -> wf_fs fs.
Proof.
  intros fs H. apply andb_true_iff in H. destruct H as [H1 H2]. split.
  - now apply nodupb_ok.
  - intros f t ds Hin. rewrite forallb_forall in H2. specialize (H2 _ Hin). simpl in H2.
    now apply nodupb_ok.
Qed.

Lemma wf_histb_ok : forall h, forallb wf_fsb h = true -> Forall wf_fs h.
Proof.
  induction h as [|fs r IH]; simpl; intros H; constructor.
  - apply wf_fsb_ok. now apply andb_true_iff in H.
  - apply IH. now apply andb_true_iff in H.
Qed.
