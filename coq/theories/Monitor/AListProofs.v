From Coq Require Import ZArith List Bool Lia.
From PK Require Import Monitor.AList.
Import ListNotations.
Open Scope Z_scope.

Section P.
Context {V : Type}.
Implicit Types l : list (Z * V).

Lemma get_set_eq : forall l k v, get k (set k v l) = Some v.
Proof.
  induction l as [|[k' v'] r IH]; intros; simpl.
  - now rewrite Z.eqb_refl.
  - destruct (k =? k') eqn:E; simpl.
    + now rewrite Z.eqb_refl.
    + now rewrite E.
Qed.

Lemma get_set_neq : forall l k k' v, k' <> k -> get k' (set k v l) = get k' l.
Proof.
  induction l as [|[k0 v0] r IH]; intros; simpl.
  - destruct (k' =? k) eqn:E; [apply Z.eqb_eq in E; congruence | reflexivity].
  - destruct (k =? k0) eqn:E; simpl.
    + apply Z.eqb_eq in E; subst.
      destruct (k' =? k0) eqn:E2; [apply Z.eqb_eq in E2; congruence | reflexivity].
    + destruct (k' =? k0); [reflexivity | now apply IH].
Qed.

Lemma get_set : forall l k k' v, get k' (set k v l) = if k' =? k then Some v else get k' l.
Proof.
  intros. destruct (k' =? k) eqn:E.
  - apply Z.eqb_eq in E; subst. apply get_set_eq.
  - apply Z.eqb_neq in E. now apply get_set_neq.
Qed.

Lemma get_del : forall l k k', get k' (del k l) = if k' =? k then None else get k' l.
Proof.
  induction l as [|[k0 v0] r IH]; intros; simpl.
  - now destruct (k' =? k).
  - destruct (k =? k0) eqn:E; simpl.
    + apply Z.eqb_eq in E; subst. rewrite IH.
      destruct (k' =? k0); reflexivity.
    + rewrite IH. destruct (k' =? k0) eqn:E2.
      * apply Z.eqb_eq in E2; subst. rewrite Z.eqb_sym, E. reflexivity.
      * reflexivity.
Qed.

Lemma get_None_notin : forall l k, get k l = None <-> ~ In k (keys l).
Proof.
  induction l as [|[k0 v0] r IH]; intros; simpl.
  - tauto.
  - destruct (k =? k0) eqn:E.
    + apply Z.eqb_eq in E; subst. split; [discriminate | intros H; exfalso; apply H; now left].
    + apply Z.eqb_neq in E. rewrite IH. unfold keys. split; intros H.
      * intros [H1|H1]; [congruence | tauto].
      * intros H1; apply H; now right.
Qed.

Lemma in_keys_set : forall l k v x, In x (keys (set k v l)) <-> x = k \/ In x (keys l).
Proof.
  induction l as [|[k0 v0] r IH]; intros; simpl.
  - intuition.
  - destruct (k =? k0) eqn:E; simpl.
    + apply Z.eqb_eq in E; subst. intuition.
    + rewrite IH. intuition.
Qed.

Lemma in_keys_del : forall l k x, In x (keys (del k l)) <-> x <> k /\ In x (keys l).
Proof.
  induction l as [|[k0 v0] r IH]; intros; simpl.
  - intuition.
  - destruct (k =? k0) eqn:E; simpl.
    + apply Z.eqb_eq in E; subst. rewrite IH. intuition (subst; try congruence; try tauto).
    + apply Z.eqb_neq in E. rewrite IH. intuition (subst; try congruence; try tauto).
Qed.

Lemma nodup_keys_set : forall l k v, NoDup (keys l) -> NoDup (keys (set k v l)).
Proof.
  induction l as [|[k0 v0] r IH]; intros k v H; simpl.
  - constructor; [simpl; tauto | constructor].
  - simpl in H. inversion H as [|? ? Hn Hr]; subst.
    destruct (k =? k0) eqn:E; simpl.
    + apply Z.eqb_eq in E; subst. now constructor.
    + apply Z.eqb_neq in E. constructor.
      * fold (keys (set k v r)). rewrite in_keys_set. intros [H1|H1]; [congruence | exact (Hn H1)].
      * now apply IH.
Qed.

Lemma nodup_keys_del : forall l k, NoDup (keys l) -> NoDup (keys (del k l)).
Proof.
  induction l as [|[k0 v0] r IH]; intros k H; simpl.
  - constructor.
  - simpl in H. inversion H as [|? ? Hn Hr]; subst.
    destruct (k =? k0) eqn:E; simpl.
    + now apply IH.
    + constructor.
      * fold (keys (del k r)). rewrite in_keys_del. tauto.
      * now apply IH.
Qed.

Lemma get_In : forall l k v, get k l = Some v -> In (k, v) l.
Proof.
  induction l as [|[k0 v0] r IH]; intros k v; simpl; [discriminate|].
  destruct (k =? k0) eqn:E.
  - apply Z.eqb_eq in E; subst. intros H; inversion H; now left.
  - intros H; right; now apply IH.
Qed.

Lemma In_get : forall l k v, NoDup (keys l) -> In (k, v) l -> get k l = Some v.
Proof.
  induction l as [|[k0 v0] r IH]; intros k v Hn; simpl; [tauto|].
  simpl in Hn. inversion Hn as [|? ? Hni Hr]; subst.
  intros [H|H].
  - inversion H; subst. now rewrite Z.eqb_refl.
  - destruct (k =? k0) eqn:E.
    + apply Z.eqb_eq in E; subst. exfalso; apply Hni. change k0 with (fst (k0, v)). now apply in_map.
    + now apply IH.
Qed.

Lemma del_notin : forall l k, get k l = None -> del k l = l.
Proof.
  induction l as [|[k0 v0] r IH]; intros k; simpl; [reflexivity|].
  destruct (k =? k0) eqn:E; [discriminate|]. intros H. now rewrite IH.
Qed.

End P.

Lemma memZ_In : forall x l, memZ x l = true <-> In x l.
Proof.
  intros. unfold memZ. rewrite existsb_exists. split.
  - intros [y [H1 H2]]. apply Z.eqb_eq in H2. now subst.
  - intros H. exists x. split; [assumption | apply Z.eqb_refl].
Qed.

Lemma memZ_false : forall x l, memZ x l = false <-> ~ In x l.
Proof.
  intros. rewrite <- memZ_In. destruct (memZ x l); intuition congruence.
Qed.
