(* A file that does not parse has no effect on store, owner map and cache, whatever its
   mtime: a scan that sees it as changed (and broken) gives the same result as a scan that
   sees it untouched.  In particular a valid file that becomes invalid keeps its old
   definitions in force. *)
From Coq Require Import ZArith List Bool Lia.
From PK Require Import Monitor.AList Monitor.AListProofs Monitor.Monitor Monitor.Spec Monitor.Views Monitor.Refine.
Import ListNotations.
Open Scope Z_scope.

Definition broken_in (fs fs' : fs_view) (g : fname) : Prop :=
  exists t t', get g fs = Some (t, None) /\ get g fs' = Some (t', None).

(* the two directory views hold the same files, and differ at most in the mtime of files
   that are invalid in both *)
Definition same_but_broken (fs fs' : fs_view) : Prop :=
  keys fs = keys fs' /\ forall g, get g fs = get g fs' \/ broken_in fs fs' g.

Lemma fst_let : forall {A B C} (X : A * B) (g : A -> C),
  fst (let (a, b) := X in (g a, b)) = g (fst X).
Proof. intros A B C [a b] g. reflexivity. Qed.

Lemma load_plan_broken : forall fs fs', same_but_broken fs fs' ->
  forall todo ts ts', (forall g, get g ts = get g ts' \/ broken_in fs fs' g) ->
  fst (load_plan fs ts todo) = fst (load_plan fs' ts' todo).
Proof.
  intros fs fs' [Hk Hs]. induction todo as [|f r IH]; intros ts ts' Hts; [reflexivity|].
  assert (Hset : forall t t', forall g, get g (set f t ts) = get g (set f t' ts') \/ broken_in fs fs' g \/ g = f).
  { intros t t' g. rewrite !get_set. destruct (g =? f) eqn:E.
    - apply Z.eqb_eq in E. auto.
    - destruct (Hts g); auto. }
  assert (Hbroken : broken_in fs fs' f -> fst (load_plan fs ts (f :: r)) = fst (load_plan fs' ts' (f :: r))).
  { intros (t & t' & H1 & H2). simpl. rewrite H1, H2.
    assert (R : forall tsa tsb, (tsa = ts \/ tsa = set f t ts) -> (tsb = ts' \/ tsb = set f t' ts') ->
                fst (load_plan fs tsa r) = fst (load_plan fs' tsb r)).
    { intros tsa tsb Ha Hb. apply IH. intros g.
      destruct (Z.eq_dec g f) as [->|Hne]; [right; exists t, t'; auto|].
      destruct Ha as [->| ->], Hb as [->| ->]; rewrite ?get_set_neq by assumption; apply Hts. }
    destruct (get f ts) as [t0|], (get f ts') as [t0'|];
      try destruct (t >? t0); try destruct (t' >? t0'); rewrite ?fst_let; apply R; auto. }
  destruct (Hs f) as [Hf | Hb]; [|now apply Hbroken].
  destruct (Hts f) as [Ht | Hb]; [|now apply Hbroken].
  simpl. rewrite <- Hf, <- Ht.
  destruct (get f fs) as [[t content]|]; [|now apply IH].
  destruct (get f ts) as [t0|]; [|now apply IH].
  destruct (t >? t0); [|now apply IH].
  rewrite !fst_let.
  assert (R : fst (load_plan fs (set f t ts) r) = fst (load_plan fs' (set f t ts') r)).
  { apply IH. intros g.
    destruct (Hset t t g) as [H|[H|H]]; auto. subst g. left. now rewrite !get_set_eq. }
  rewrite R. reflexivity.
Qed.

Lemma scan_plan_broken : forall fs fs' ts files, same_but_broken fs fs' ->
  fst (scan_plan fs ts files) = fst (scan_plan fs' ts files).
Proof.
  intros fs fs' ts files H. unfold scan_plan. destruct H as [Hk Hs] eqn:EH. rewrite <- Hk.
  match goal with |- fst (let (_, _) := load_plan fs ?t ?todo in _) = _ =>
    pose proof (load_plan_broken fs fs' H todo t t (fun g => or_introl eq_refl)) as L end.
  destruct (load_plan fs _ _) as [ops ts3]. destruct (load_plan fs' _ _) as [ops' ts3'].
  simpl in *. now rewrite L.
Qed.

Theorem broken_no_effect_scan : forall purge fs fs' m, wfm m -> wf_fs fs -> wf_fs fs' -> same_but_broken fs fs' ->
  forall q, view_of (scan_gen purge fs m) q = view_of (scan_gen purge fs' m) q.
Proof.
  intros purge fs fs' m Hw H1 H2 Hs q.
  destruct (scan_view purge fs m q Hw H1) as (A & _). destruct (scan_view purge fs' m q Hw H2) as (B & _).
  rewrite A, B. now rewrite (scan_plan_broken fs fs' _ _ Hs).
Qed.

Lemma wfm_run : forall purge s h, Forall wf_fs h -> wfm (run_gen purge s h).
Proof.
  intros purge s h Hh. unfold run_gen.
  assert (H0 : wfm (init s)) by constructor.
  revert H0. generalize (init s). induction Hh; intros m0 H0; simpl; [assumption|].
  apply IHHh. now destruct (scan_view purge x m0 0 H0 H) as (_ & _ & _ & S4).
Qed.

(* after any history: the next scan gives the same policies in force (and the same owners
   and cache) whether an invalid file is seen as changed or as untouched *)
Theorem broken_no_effect_run : forall purge s h fs fs', Forall wf_fs h -> wf_fs fs -> wf_fs fs' ->
  same_but_broken fs fs' ->
  let m := run_gen purge s h in
  forall q, get q (st_store (scan_gen purge fs m)) = get q (st_store (scan_gen purge fs' m)) /\
            get q (st_map (scan_gen purge fs m)) = get q (st_map (scan_gen purge fs' m)) /\
            get q (st_cache (scan_gen purge fs m)) = get q (st_cache (scan_gen purge fs' m)).
Proof.
  intros purge s h fs fs' Hh H1 H2 Hs m q.
  pose proof (broken_no_effect_scan purge fs fs' m (wfm_run purge s h Hh) H1 H2 Hs q) as E.
  unfold view_of in E. inversion E. auto.
Qed.
