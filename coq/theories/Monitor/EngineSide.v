(* The engine's side of the policy store (property C18: the policies IN FORCE are what the engine applies).

   engine_decision dtab store name ... : the decision KmipEngine._is_allowed_by_operation_policy takes for an
   object whose Operation Policy Name is `name`, when get_relevant_policy_section reads the SHARED store at
   request time.  The three functions are gen/EnginePolicy.v (tie T: emitted only when the source reads the
   store on every call and keeps nothing).  The store maps names to definition ids (Monitor.v); `dtab` gives
   the parsed policy (Parse.parsed, the parser's output type) behind an id.

   spec_decision : the same decision over the SPECIFICATION's map (Spec.spec_store: the definition in the most
   recently loaded present file that still defines the name; built-ins for reserved names; nothing otherwise). *)
From Coq Require Import ZArith List Bool String.
From PK Require Import Monitor.AList Monitor.Monitor Monitor.Spec Monitor.Parse Monitor.Refine.
From PKGen Require Import EnginePolicy PolicyNames.
Import ListNotations.
Open Scope Z_scope.

Definition decision_of (dtab : defid -> option parsed) (entry : option defid)
                       (owner object_type operation user : string) (groups : option (list string)) : bool :=
  allowed_for_identity (match entry with Some d => dtab d | None => None end) object_type operation user owner groups.

Definition engine_decision (dtab : defid -> option parsed) (store : list (pname * defid)) (name : pname) :=
  decision_of dtab (get name store).

Definition spec_decision (dtab : defid -> option parsed) (a : astate) (name : pname) :=
  decision_of dtab (spec_store a name).

(* a name without definition grants to nobody *)
Lemma decision_of_none : forall dtab owner ot op user groups, decision_of dtab None owner ot op user groups = false.
Proof.
  intros. unfold decision_of, allowed_for_identity. destruct groups as [gs|]; simpl; [|reflexivity].
  induction gs as [|g r IH]; simpl; auto.
Qed.

(* composition with the refinement theorems of Refine.v *)
Theorem engine_follows_spec_fixed : forall dtab s h, Forall wf_fs h ->
  forall name owner ot op user groups,
    engine_decision dtab (st_store (run_gen true s h)) name owner ot op user groups =
    spec_decision dtab (spec_run s h) name owner ot op user groups.
Proof.
  intros. unfold engine_decision, spec_decision. now rewrite run_refines_spec_fixed.
Qed.

Theorem engine_follows_spec_released : forall dtab s h, Forall wf_fs h -> hist_ok s h = true ->
  forall name owner ot op user groups,
    engine_decision dtab (st_store (run s h)) name owner ot op user groups =
    spec_decision dtab (spec_run s h) name owner ot op user groups.
Proof.
  intros. unfold engine_decision, spec_decision. now rewrite run_refines_spec.
Qed.

Theorem engine_follows_spec_current : forall dtab s h, Forall wf_fs h ->
  monitor_purges_shadowed = true \/ hist_ok s h = true ->
  forall name owner ot op user groups,
    engine_decision dtab (st_store (run_gen monitor_purges_shadowed s h)) name owner ot op user groups =
    spec_decision dtab (spec_run s h) name owner ot op user groups.
Proof.
  intros dtab s h Hh [H|H]; intros.
  - rewrite H. now apply engine_follows_spec_fixed.
  - destruct monitor_purges_shadowed; [now apply engine_follows_spec_fixed | now apply engine_follows_spec_released].
Qed.

(* built-in policies: on every history the engine decides as the initial store entry says *)
Theorem engine_builtin_untouched : forall purge dtab s h, Forall wf_fs h ->
  forall name, reserved name = true -> forall owner ot op user groups,
    engine_decision dtab (st_store (run_gen purge s h)) name owner ot op user groups =
    decision_of dtab (get name s) owner ot op user groups.
Proof.
  intros. unfold engine_decision. destruct (reserved_untouched_run purge s h H name H0) as [E _]. now rewrite E.
Qed.

(* a non reserved name that no successfully loaded present file defines grants to nobody *)
Theorem engine_undefined_grants_nobody : forall dtab s h, Forall wf_fs h ->
  forall name, reserved name = false -> definers (a_loaded (spec_run s h)) name = [] ->
  forall owner ot op user groups,
    engine_decision dtab (st_store (run_gen true s h)) name owner ot op user groups = false.
Proof.
  intros. rewrite engine_follows_spec_fixed by assumption.
  unfold spec_decision, spec_store. rewrite H0, H1. apply decision_of_none.
Qed.
