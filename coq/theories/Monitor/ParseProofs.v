From Coq Require Import ZArith List Bool String.
From PK Require Import Monitor.Parse.
Import ListNotations.

Lemma bind_no_crash : forall {A B} (x : outcome A) (f : A -> outcome B),
  x <> Crash -> (forall a, x = Ok a -> f a <> Crash) -> bind x f <> Crash.
Proof. intros A B [a| |] f H1 H2; simpl; auto; congruence. Qed.

Lemma mapM_no_crash : forall {A B} (f : A -> outcome B) l,
  (forall x, In x l -> f x <> Crash) -> mapM f l <> Crash.
Proof.
  induction l as [|x r IH]; intros H; simpl; [congruence|].
  apply bind_no_crash; [apply H; now left|]. intros y _.
  apply bind_no_crash; [apply IH; intros; apply H; now right|]. congruence.
Qed.

Lemma items_guarded : forall j, is_obj j = true -> exists l, items j = Ok l.
Proof. intros [] H; try discriminate. eexists; reflexivity. Qed.

Section P.
Variable object_types operations permissions sections : list string.

Lemma lookup_name_no_crash : forall names s, lookup_name names s <> Crash.
Proof. intros. unfold lookup_name. destruct (mem_str s names); congruence. Qed.

Lemma lookup_perm_no_crash : forall j, lookup_perm permissions j <> Crash.
Proof. intros []; simpl; try congruence. destruct (mem_str s permissions); congruence. Qed.

Lemma parse_policy_no_crash : forall j, parse_policy object_types operations permissions j <> Crash.
Proof.
  intros j. unfold parse_policy. destruct (is_obj j) eqn:E; simpl; [|congruence].
  destruct (items_guarded j E) as [l Hl]. rewrite Hl. simpl.
  apply mapM_no_crash. intros [ot ops] _.
  destruct (is_obj ops) eqn:E2; simpl; [|congruence].
  destruct (items_guarded ops E2) as [l2 Hl2]. rewrite Hl2. simpl.
  apply bind_no_crash.
  - apply mapM_no_crash. intros [o p] _.
    apply bind_no_crash; [apply lookup_name_no_crash|]. intros.
    apply bind_no_crash; [apply lookup_perm_no_crash|]. congruence.
  - intros. apply bind_no_crash; [apply lookup_name_no_crash|]. congruence.
Qed.

Lemma read_one_no_crash : forall j, read_one object_types operations permissions sections j <> Crash.
Proof.
  intros j. unfold read_one. destruct (is_obj j) eqn:E; simpl; [|congruence].
  destruct (items_guarded j E) as [l Hl]. rewrite Hl. simpl.
  destruct (Nat.eqb (List.length l) 0); [congruence|].
  destruct (subset (map fst l) sections).
  - apply bind_no_crash.
    + destruct (dget "preset" l) as [dp|]; [|congruence].
      destruct (truthy dp); [|congruence].
      apply bind_no_crash; [apply parse_policy_no_crash | congruence].
    + intros pre _. apply bind_no_crash; [|congruence].
      destruct (dget "groups" l) as [gp|]; [|congruence].
      destruct (truthy gp); [|congruence].
      destruct (is_obj gp) eqn:E3; simpl; [|congruence].
      destruct (items_guarded gp E3) as [l3 Hl3]. rewrite Hl3. simpl.
      apply bind_no_crash; [|congruence].
      apply mapM_no_crash. intros gv _.
      apply bind_no_crash; [apply parse_policy_no_crash | congruence].
  - destruct (subset (map fst l) object_types); [|congruence].
    apply bind_no_crash; [apply parse_policy_no_crash | congruence].
Qed.

(* every input - not JSON at all, or any JSON value whatsoever - is either parsed or
   rejected with ValueError; no other exception can escape to the monitor *)
Theorem read_policy_total : forall blob,
  (exists r, read_policy object_types operations permissions sections blob = Ok r) \/
  read_policy object_types operations permissions sections blob = ValueErr.
Proof.
  intros blob.
  assert (H : read_policy object_types operations permissions sections blob <> Crash).
  { unfold read_policy. destruct blob as [b|]; [|congruence].
    destruct (is_obj b) eqn:E; simpl; [|congruence].
    destruct (items_guarded b E) as [l Hl]. rewrite Hl. simpl.
    apply bind_no_crash; [|congruence].
    apply mapM_no_crash. intros nv _.
    apply bind_no_crash; [apply read_one_no_crash | congruence]. }
  destruct (read_policy object_types operations permissions sections blob) as [r| |]; [left; eauto | now right | congruence].
Qed.

End P.
