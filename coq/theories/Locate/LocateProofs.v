(* C14 - proofs about the Locate model (Locate.v): sorting, slicing, the per-object
   filter loop against the declarative `matches`, refinement to `locate_spec`,
   page partition, conjunctivity. *)
From Coq Require Import ZArith List Bool Lia ZifyBool Permutation Sorted RelationClasses.
From Coq Require String.
From PKGen Require Import AttrRuleTable Enums.
From PK Require Import Locate.Locate.
Import ListNotations.
Open Scope Z_scope.

(* ================================================================== sorting *)

Definition desc (a b : obj) : Prop := o_idate a >= o_idate b.

Lemma insert_desc_perm : forall x l, Permutation (insert_desc x l) (x :: l).
Proof.
  induction l as [|y l IH]; simpl.
  - apply Permutation_refl.
  - destruct (o_idate x >=? o_idate y) eqn:E.
    + apply Permutation_refl.
    + eapply Permutation_trans; [apply perm_skip, IH | apply perm_swap].
Qed.

Lemma sort_desc_perm : forall l, Permutation (sort_desc l) l.
Proof.
  induction l as [|x l IH]; simpl.
  - constructor.
  - eapply Permutation_trans; [apply insert_desc_perm | apply perm_skip, IH].
Qed.

Lemma insert_desc_hd : forall x l a, HdRel desc a l -> desc a x -> HdRel desc a (insert_desc x l).
Proof.
  intros x l a H Hx. destruct l as [|y l]; simpl.
  - constructor; exact Hx.
  - destruct (o_idate x >=? o_idate y); constructor; auto. inversion H; auto.
Qed.

Lemma insert_desc_sorted : forall x l, Sorted desc l -> Sorted desc (insert_desc x l).
Proof.
  induction l as [|y l IH]; intros S; simpl.
  - repeat constructor.
  - destruct (o_idate x >=? o_idate y) eqn:E.
    + constructor; [exact S | constructor; unfold desc; lia].
    + inversion S; subst. constructor.
      * apply IH; assumption.
      * apply insert_desc_hd; [assumption | unfold desc; lia].
Qed.

Lemma sort_desc_sorted : forall l, Sorted desc (sort_desc l).
Proof.
  induction l as [|x l IH]; simpl; [constructor | apply insert_desc_sorted, IH].
Qed.

Lemma desc_trans : Transitive desc.
Proof. unfold Transitive, desc; intros; lia. Qed.

Lemma sort_desc_strongly_sorted : forall l, StronglySorted desc (sort_desc l).
Proof. intros; apply Sorted_StronglySorted; [exact desc_trans | apply sort_desc_sorted]. Qed.

(* stability: objects with the same initial date keep their store order *)
Lemma insert_desc_filter_key : forall k x l,
  filter (fun o => o_idate o =? k) (insert_desc x l) =
  if o_idate x =? k then x :: filter (fun o => o_idate o =? k) l else filter (fun o => o_idate o =? k) l.
Proof.
  induction l as [|y l IH]; simpl.
  - reflexivity.
  - destruct (o_idate x >=? o_idate y) eqn:E; simpl.
    + reflexivity.
    + rewrite IH. destruct (o_idate x =? k) eqn:Ex; [|reflexivity].
      destruct (o_idate y =? k) eqn:Ey; [lia | reflexivity].
Qed.

Lemma sort_desc_stable : forall k l,
  filter (fun o => o_idate o =? k) (sort_desc l) = filter (fun o => o_idate o =? k) l.
Proof.
  induction l as [|x l IH]; simpl; [reflexivity|].
  rewrite insert_desc_filter_key, IH. reflexivity.
Qed.

(* filtering commutes with the stable sort *)
Lemma insert_desc_filter : forall (p : obj -> bool) x l, Sorted desc l ->
  filter p (insert_desc x l) = if p x then insert_desc x (filter p l) else filter p l.
Proof.
  induction l as [|y l IH]; intros S; simpl.
  - destruct (p x); reflexivity.
  - inversion S as [|? ? S' Hd]; subst.
    destruct (o_idate x >=? o_idate y) eqn:E; simpl.
    + destruct (p x) eqn:Px; [|reflexivity].
      destruct (p y) eqn:Py; simpl.
      * rewrite E. reflexivity.
      * (* every later element is no newer than y, hence than x *)
        assert (SS : StronglySorted desc (y :: l)) by (apply Sorted_StronglySorted; [exact desc_trans | exact S]).
        inversion SS as [|? ? _ Hall]; subst.
        clear - Hall E. induction l as [|z l IHl]; simpl; [reflexivity|].
        inversion Hall; subst. destruct (p z); simpl.
        -- unfold desc in *. destruct (o_idate x >=? o_idate z) eqn:Ez; [reflexivity | lia].
        -- apply IHl; assumption.
    + rewrite (IH S'). destruct (p x); destruct (p y); simpl; try rewrite E; reflexivity.
Qed.

Lemma filter_sort_desc : forall (p : obj -> bool) l, filter p (sort_desc l) = sort_desc (filter p l).
Proof.
  induction l as [|x l IH]; simpl; [reflexivity|].
  rewrite insert_desc_filter by apply sort_desc_sorted.
  rewrite IH. destruct (p x); reflexivity.
Qed.

(* ================================================================== slicing *)

Lemma firstn_min_length : forall {A} n (l : list A), firstn n l = firstn (Nat.min n (List.length l)) l.
Proof.
  intros A n l. destruct (Nat.le_ge_cases n (List.length l)).
  - rewrite Nat.min_l by assumption. reflexivity.
  - rewrite Nat.min_r by assumption. rewrite !firstn_all2; auto.
Qed.

Lemma py_slice_nonneg : forall {A} (l : list A) o m, 0 <= o -> 0 <= m ->
  py_slice l (Some o) (Some (o + m)) = firstn (Z.to_nat m) (skipn (Z.to_nat o) l).
Proof.
  intros A l o m Ho Hm. unfold py_slice, py_norm.
  set (len := Z.of_nat (List.length l)).
  assert (Hlen : 0 <= len) by (subst len; lia).
  destruct (o <? 0) eqn:E1; [lia|]. destruct (o + m <? 0) eqn:E2; [lia|].
  destruct (Z_lt_ge_dec o len) as [Hlt|Hge].
  - rewrite (Z.min_l o len) by lia.
    rewrite (firstn_min_length (Z.to_nat m)). rewrite skipn_length.
    f_equal. subst len. lia.
  - rewrite (Z.min_r o len) by lia. rewrite (Z.min_r (o + m) len) by lia.
    rewrite !skipn_all2 by (subst len; lia). rewrite !firstn_nil. reflexivity.
Qed.

Lemma py_slice_from : forall {A} (l : list A) o, 0 <= o -> py_slice l (Some o) None = skipn (Z.to_nat o) l.
Proof.
  intros A l o Ho. unfold py_slice, py_norm.
  set (len := Z.of_nat (List.length l)).
  destruct (o <? 0) eqn:E1; [lia|].
  destruct (Z_lt_ge_dec o len) as [Hlt|Hge].
  - rewrite (Z.min_l o len) by lia. apply firstn_all2. rewrite skipn_length. subst len. lia.
  - rewrite (Z.min_r o len) by lia. rewrite !skipn_all2 by (subst len; lia). apply firstn_nil.
Qed.

Lemma py_slice_upto : forall {A} (l : list A) m, 0 <= m -> py_slice l None (Some m) = firstn (Z.to_nat m) l.
Proof.
  intros A l m Hm. unfold py_slice, py_norm. simpl skipn.
  set (len := Z.of_nat (List.length l)).
  destruct (m <? 0) eqn:E1; [lia|]. rewrite Z.sub_0_r.
  rewrite (firstn_min_length (Z.to_nat m)). f_equal. subst len. lia.
Qed.

Definition nonneg (x : option Z) : Prop := match x with Some v => 0 <= v | None => True end.

Lemma page_slice : forall {A} (l : list A) off mx, nonneg off -> nonneg mx -> page l off mx = slice off mx l.
Proof.
  intros A l [o|] [m|] Ho Hm; simpl in *; unfold slice.
  - apply py_slice_nonneg; assumption.
  - apply py_slice_from; assumption.
  - apply py_slice_upto; assumption.
  - reflexivity.
Qed.

(* pages *)
Lemma firstn_add : forall {A} a b (l : list A), firstn (a + b) l = firstn a l ++ firstn b (skipn a l).
Proof.
  induction a as [|a IH]; intros b l; simpl; [reflexivity|].
  destruct l as [|x l]; simpl.
  - rewrite firstn_nil. reflexivity.
  - rewrite IH. reflexivity.
Qed.

Definition nth_page {A} (n : nat) (l : list A) (k : nat) : list A := firstn n (skipn (k * n) l).

Lemma pages_concat_firstn : forall {A} n (l : list A) m,
  concat (map (nth_page n l) (seq 0 m)) = firstn (m * n) l.
Proof.
  intros A n l. induction m as [|m IH].
  - reflexivity.
  - rewrite seq_S, map_app, concat_app, IH. simpl. rewrite app_nil_r.
    unfold nth_page. rewrite <- firstn_add. f_equal. lia.
Qed.

Lemma pages_concat_all : forall {A} n (l : list A) m, (List.length l <= m * n)%nat ->
  concat (map (nth_page n l) (seq 0 m)) = l.
Proof. intros. rewrite pages_concat_firstn. apply firstn_all2. assumption. Qed.

Lemma In_firstn : forall {A} n (l : list A) x, In x (firstn n l) -> In x l.
Proof. intros A n l x H. rewrite <- (firstn_skipn n l). apply in_or_app; left; exact H. Qed.

Lemma In_skipn : forall {A} n (l : list A) x, In x (skipn n l) -> In x l.
Proof. intros A n l x H. rewrite <- (firstn_skipn n l). apply in_or_app; right; exact H. Qed.

Lemma skipn_skipn_add : forall {A} a b (l : list A), skipn b (skipn a l) = skipn (a + b) l.
Proof.
  induction a as [|a IH]; intros b l; simpl; [reflexivity|].
  destruct l as [|x l]; simpl; [apply skipn_nil | apply IH].
Qed.

Lemma NoDup_app_disjoint : forall {A} (l1 l2 : list A) x, NoDup (l1 ++ l2) -> In x l1 -> ~ In x l2.
Proof.
  induction l1 as [|y l1 IH]; intros l2 x ND H1 H2; [inversion H1|].
  simpl in ND. inversion ND as [|? ? Hn ND']; subst. destruct H1 as [->|H1].
  - apply Hn. apply in_or_app; right; exact H2.
  - exact (IH l2 x ND' H1 H2).
Qed.

Lemma pages_disjoint : forall {A} n (l : list A) i j x, NoDup l -> (i < j)%nat ->
  In x (nth_page n l i) -> ~ In x (nth_page n l j).
Proof.
  intros A n l i j x ND Hij Hi Hj. unfold nth_page in *.
  (* page i lies within the first j*n elements, page j within the rest *)
  assert (H1 : In x (firstn (j * n) l)).
  { replace (j * n)%nat with (i * n + (n + (j - i - 1) * n))%nat by nia.
    rewrite firstn_add. apply in_or_app; right.
    rewrite firstn_add. apply in_or_app; left. exact Hi. }
  assert (H2 : In x (skipn (j * n) l)) by (eapply In_firstn; exact Hj).
  rewrite <- (firstn_skipn (j * n) l) in ND.
  exact (NoDup_app_disjoint _ _ x ND H1 H2).
Qed.

(* ================================================================== the per-object filter loop *)

(* a usage-mask filter asks only for bits enums.CryptographicUsageMask defines (undefined bits are dropped
   by get_enumerations_from_bit_mask before the comparison); every other filter is unconstrained *)
Definition mask_ok (f : afilter) : bool :=
  match f with
  | FMask m => Z.land m known_mask =? m
  | _ => true
  end.

(* the Python attribute the branch reads exists on the object's class (algorithm and length are read
   with getattr(..., None) and are always readable) *)
Definition readable (f : afilter) (o : obj) : bool :=
  match f with
  | FState _ | FMask _ => has_crypto_fields o
  | FCertType _ => has_cert_fields o
  | _ => true
  end.

(* the server clock is past the epoch: `if initial_date.get("value")` treats 0 as absent *)
Definition wf_obj (o : obj) : Prop := o_idate o <> 0.

(* The loop never reads an attribute the object's class lacks: every filter the loop REACHES for this
   object (all earlier filters matched) is, when applicable, readable.  Executable.  With today's rule
   table this holds for every object of the seven stored types (crash_free_stored below). *)
Fixpoint reach_ok (o : obj) (fs : list afilter) : bool :=
  match fs with
  | [] => true
  | f :: fs' =>
      (if applicable f (o_type o) then readable f o else true) &&
      (if matches o f then reach_ok o fs' else true)
  end.

Definition crash_free (objs : list obj) (fs : list afilter) : Prop :=
  forallb (fun o => reach_ok o fs) objs = true.

Definition wf_filters (fs : list afilter) : Prop :=
  forallb mask_ok fs = true /\ (List.length (filter_dates fs) <= 2)%nat.

(* what the `initial_date` dictionary holds after the date filters `ds` were seen *)
Definition ds_of (o : obj) (ds : list Z) : dst :=
  match ds with
  | [d] => mkDst (Some (o_idate o)) (Some d) None
  | [d1; d2] => mkDst (Some (o_idate o)) (Some (Z.min d1 d2)) (Some (Z.max d1 d2))
  | _ => dst0
  end.

Lemma track_ds_of : forall o pre d, (List.length pre < 2)%nat ->
  track (ds_of o pre) (o_idate o) d = Some (ds_of o (pre ++ [d])).
Proof.
  intros o pre d H. destruct pre as [|d1 [|d2 pre]]; simpl in *; try lia.
  - reflexivity.
  - unfold track; simpl. destruct (d >? d1) eqn:E.
    + rewrite Z.min_l, Z.max_r by lia. reflexivity.
    + rewrite Z.min_r, Z.max_l by lia. reflexivity.
Qed.

(* one step of the loop on a non-date filter agrees with `matches`: in particular an object that has no
   value for the attribute (NULL column, class without the field, attribute the server does not keep)
   does not match *)
Lemma step_matches : forall o f, mask_ok f = true ->
  applicable f (o_type o) = true -> readable f o = true ->
  match f with FDate _ => True | _ => fetch_compare o f = cmp (matches o f) end.
Proof.
  intros o f S A R. unfold matches. rewrite A. rewrite andb_true_l.
  destruct f; simpl in *; try rewrite R; try reflexivity.
  - rewrite Z.eqb_sym. reflexivity.
  - rewrite Z.eqb_sym. reflexivity.
  - destruct (has_key_fields o); [|reflexivity]. destruct (o_alg o); [rewrite Z.eqb_sym|]; reflexivity.
  - destruct (has_key_fields o); [|reflexivity]. destruct (o_len o); [rewrite Z.eqb_sym|]; reflexivity.
  - apply Z.eqb_eq in S. rewrite S. reflexivity.
  - destruct (o_policy o); [rewrite String.eqb_sym|]; reflexivity.
  - rewrite Z.eqb_sym. reflexivity.
  - rewrite String.eqb_sym. reflexivity.
  - destruct b, (o_sensitive o); reflexivity.
Qed.

Lemma obj_loop_spec : forall o fs pre,
  forallb mask_ok fs = true ->
  reach_ok o fs = true ->
  (List.length pre + List.length (filter_dates fs) <= 2)%nat ->
  exists ds', obj_loop o fs (ds_of o pre) = Ok (forallb (matches o) fs, ds') /\
              (forallb (matches o) fs = true -> ds' = ds_of o (pre ++ filter_dates fs)).
Proof.
  intros o. induction fs as [|f fs IH]; intros pre S R L.
  - simpl. eexists; split; [reflexivity|]. intros _. rewrite app_nil_r. reflexivity.
  - simpl in S. apply andb_true_iff in S. destruct S as [Sf Sfs].
    simpl in R. apply andb_true_iff in R. destruct R as [R1 R2].
    simpl obj_loop. destruct (applicable f (o_type o)) eqn:Hb.
    + rename R1 into Rf.
      pose proof (step_matches o f Sf Hb Rf) as SM.
      destruct f; try (rewrite SM; simpl forallb;
        match goal with |- context [cmp (matches o ?g)] => destruct (matches o g) eqn:M end; simpl;
        [ simpl in L; destruct (IH pre Sfs R2 L) as [ds' [E1 E2]]; exists ds'; split; [exact E1 | exact E2]
        | eexists; split; [reflexivity | discriminate] ]).
      (* FDate *)
      cbv beta iota delta [fetch_compare]. simpl in L.
      assert (Lp : (List.length pre < 2)%nat) by lia.
      rewrite (track_ds_of o pre d Lp).
      assert (L' : (List.length (pre ++ [d]) + List.length (filter_dates fs) <= 2)%nat)
        by (rewrite app_length; simpl; lia).
      assert (Md : matches o (FDate d) = true) by (unfold matches; rewrite Hb; reflexivity).
      rewrite Md in R2.
      destruct (IH (pre ++ [d]) Sfs R2 L') as [ds' [E1 E2]].
      exists ds'. simpl forallb. rewrite Md. rewrite andb_true_l. split; [exact E1|].
      intros H. rewrite (E2 H). rewrite <- app_assoc. reflexivity.
    + assert (Md : matches o f = false) by (unfold matches; rewrite Hb; reflexivity).
      eexists. simpl forallb. rewrite Md. rewrite andb_false_l. split; [reflexivity | discriminate].
Qed.

Definition sel (fs : list afilter) (o : obj) : bool :=
  forallb (matches o) fs && date_match (filter_dates fs) (o_idate o).

Lemma obj_selected_spec : forall o fs, wf_obj o -> wf_filters fs ->
  reach_ok o fs = true ->
  obj_selected o fs = Ok (sel fs o).
Proof.
  intros o fs W [S L] R. unfold obj_selected, sel.
  change dst0 with (ds_of o []).
  destruct (obj_loop_spec o fs [] S R) as [ds' [E1 E2]]; [simpl; lia|].
  rewrite E1. destruct (forallb (matches o) fs) eqn:M.
  - rewrite (E2 eq_refl). simpl app.
    unfold wf_obj in W.
    destruct (filter_dates fs) as [|d1 [|d2 [|d3 ds]]]; simpl in L |- *; try lia.
    + reflexivity.
    + destruct (o_idate o =? 0) eqn:E0; [lia|]. simpl. rewrite Z.eqb_sym. reflexivity.
    + destruct (o_idate o =? 0) eqn:E0; [lia|]. simpl.
      destruct (o_idate o <? Z.min d1 d2) eqn:A; destruct (o_idate o >? Z.max d1 d2) eqn:B;
        destruct (Z.min d1 d2 <=? o_idate o) eqn:C; destruct (o_idate o <=? Z.max d1 d2) eqn:D;
        simpl; try reflexivity; lia.
  - simpl. destruct (truthy_date (d_value ds')); reflexivity.
Qed.

Lemma filter_objs_spec : forall fs os, Forall wf_obj os -> wf_filters fs -> crash_free os fs ->
  filter_objs os fs = Ok (filter (sel fs) os).
Proof.
  intros fs. induction os as [|o os IH]; intros W F C; simpl; [reflexivity|].
  inversion W; subst. unfold crash_free in C. simpl in C. apply andb_true_iff in C. destruct C as [C1 C2].
  rewrite (obj_selected_spec o fs) by assumption.
  rewrite IH; auto.
Qed.

Lemma filter_objs_nil : forall os, filter_objs os [] = Ok os.
Proof.
  induction os as [|o os IH]; simpl; [reflexivity|].
  unfold obj_selected. simpl. rewrite IH. reflexivity.
Qed.

Lemma filter_filter : forall {A} (p q : A -> bool) l, filter q (filter p l) = filter (fun x => p x && q x) l.
Proof.
  induction l as [|x l IH]; simpl; [reflexivity|].
  destruct (p x); simpl; [destruct (q x); rewrite IH; reflexivity | exact IH].
Qed.

Lemma locate_objs_alt : forall allowed objs fs,
  locate_objs allowed objs fs =
  match filter_objs (filter allowed objs) fs with Ok l => Ok (sort_desc l) | Refused => Refused | TooMany => TooMany | Crash => Crash end.
Proof.
  intros. unfold locate_objs. destruct fs; [rewrite filter_objs_nil|]; reflexivity.
Qed.

Lemma selected_split : forall allowed fs o, selected allowed fs o = allowed o && sel fs o.
Proof. intros. unfold selected, sel. rewrite andb_assoc. reflexivity. Qed.

(* ================================================================== refinement *)

Definition stored_type (o : obj) : Prop := In (o_type o) [1; 2; 3; 4; 5; 7; 8].

(* from the generated rule table: whatever is applicable to a stored type is readable on its class *)
Lemma readable_by_table : forall f o, stored_type o -> applicable f (o_type o) = true -> readable f o = true.
Proof.
  intros f o T A. unfold stored_type in T. unfold readable, has_crypto_fields, has_key_fields, has_cert_fields.
  simpl in T.
  destruct T as [T|[T|[T|[T|[T|[T|[T|[]]]]]]]]; rewrite <- T in *;
    destruct f; try reflexivity; vm_compute in A; try discriminate; reflexivity.
Qed.

Lemma reach_ok_of_all : forall o fs,
  (forall f, In f fs -> applicable f (o_type o) = true -> readable f o = true) -> reach_ok o fs = true.
Proof.
  intros o. induction fs as [|f fs IH]; intros H; simpl; [reflexivity|].
  apply andb_true_iff. split.
  - destruct (applicable f (o_type o)) eqn:A; try reflexivity. apply H; [left; reflexivity | exact A].
  - destruct (matches o f); [|reflexivity]. apply IH. intros g Hg. apply H. right; exact Hg.
Qed.

Lemma crash_free_stored : forall objs fs, Forall stored_type objs -> crash_free objs fs.
Proof.
  intros objs fs T. unfold crash_free. apply forallb_forall. intros o Ho.
  apply reach_ok_of_all. intros f Hf A. apply readable_by_table; auto.
  eapply Forall_forall in T; eassumption.
Qed.

(* general form: crash freedom as a hypothesis (independent of the rule table) *)
Definition side_conditions_general (allowed : obj -> bool) (objs : list obj) (fs : list afilter) : Prop :=
  Forall wf_obj (filter allowed objs) /\ wf_filters fs /\ crash_free (filter allowed objs) fs.

(* the form used by the property theorems: the visible objects are of the seven stored types and were
   created after the epoch; mask filters stay within the defined bits; at most two date filters *)
Definition side_conditions (allowed : obj -> bool) (objs : list obj) (fs : list afilter) : Prop :=
  Forall (fun o => wf_obj o /\ stored_type o) (filter allowed objs) /\ wf_filters fs.

Lemma side_conditions_general_of : forall allowed objs fs,
  side_conditions allowed objs fs -> side_conditions_general allowed objs fs.
Proof.
  intros allowed objs fs [W F]. split; [|split].
  - eapply Forall_impl; [|exact W]. simpl. tauto.
  - exact F.
  - apply crash_free_stored. eapply Forall_impl; [|exact W]. simpl. tauto.
Qed.

Lemma locate_objs_refines_general : forall allowed objs fs, side_conditions_general allowed objs fs ->
  locate_objs allowed objs fs = Ok (spec_objs allowed objs fs).
Proof.
  intros allowed objs fs (W & F & C). rewrite locate_objs_alt.
  rewrite filter_objs_spec by assumption. unfold spec_objs.
  rewrite filter_filter. f_equal. f_equal. apply filter_ext. intros o. symmetry. apply selected_split.
Qed.

Lemma locate_objs_refines : forall allowed objs fs, side_conditions allowed objs fs ->
  locate_objs allowed objs fs = Ok (spec_objs allowed objs fs).
Proof. intros. apply locate_objs_refines_general, side_conditions_general_of. assumption. Qed.

Lemma locate_model_refines_general : forall allowed objs fs off mx,
  side_conditions_general allowed objs fs -> nonneg off -> nonneg mx ->
  locate_model allowed objs fs off mx = Ok (locate_spec allowed objs fs off mx).
Proof.
  intros allowed objs fs off mx SC Ho Hm. unfold locate_model, locate_spec.
  rewrite (locate_objs_refines_general _ _ _ SC). rewrite page_slice by assumption. reflexivity.
Qed.

Lemma locate_refines_spec_lemma : forall ver allowed objs fs off mx,
  gate_ok ver fs = true -> side_conditions allowed objs fs -> nonneg off -> nonneg mx ->
  locate_request ver allowed objs fs off mx = Ok (locate_spec allowed objs fs off mx).
Proof.
  intros ver allowed objs fs off mx G SC Ho Hm. unfold locate_request. rewrite G.
  apply locate_model_refines_general; auto. apply side_conditions_general_of. exact SC.
Qed.

(* the version gate: refusal exactly when some filter attribute is not supported under the version *)
Lemma obj_loop_not_refused : forall o fs ds, obj_loop o fs ds <> Refused.
Proof.
  intros o. induction fs as [|f fs IH]; intros ds; simpl; [discriminate|].
  destruct (applicable f (o_type o)); [|discriminate].
  destruct (fetch_compare o f) as [| | |v d]; try discriminate; [apply IH|].
  destruct (track ds v d); [apply IH | discriminate].
Qed.

Lemma filter_objs_not_refused : forall fs os, filter_objs os fs <> Refused.
Proof.
  intros fs. induction os as [|o os IH]; simpl; [discriminate|].
  unfold obj_selected. pose proof (obj_loop_not_refused o fs dst0) as NR.
  destruct (obj_loop o fs dst0) as [[? ?]| | |]; try discriminate; [|congruence].
  destruct (filter_objs os fs); try discriminate. congruence.
Qed.

Lemma locate_model_not_refused : forall allowed objs fs off mx, locate_model allowed objs fs off mx <> Refused.
Proof.
  intros. unfold locate_model. rewrite locate_objs_alt.
  pose proof (filter_objs_not_refused fs (filter allowed objs)) as NR.
  destruct (filter_objs (filter allowed objs) fs); try discriminate. congruence.
Qed.

Lemma locate_refused_lemma : forall ver allowed objs fs off mx,
  locate_request ver allowed objs fs off mx = Refused <-> gate_ok ver fs = false.
Proof.
  intros. unfold locate_request. destruct (gate_ok ver fs) eqn:G.
  - split; [|discriminate]. intros H. exfalso. exact (locate_model_not_refused _ _ _ _ _ H).
  - split; reflexivity.
Qed.

Lemma locate_request_ok : forall ver allowed objs fs off mx ids,
  locate_request ver allowed objs fs off mx = Ok ids ->
  gate_ok ver fs = true /\ locate_model allowed objs fs off mx = Ok ids.
Proof.
  intros ver allowed objs fs off mx ids H. unfold locate_request in H.
  destruct (gate_ok ver fs); [split; [reflexivity | exact H] | discriminate].
Qed.

(* ---- sortedness and permutation of the unsliced answer *)
Lemma spec_objs_sorted : forall allowed objs fs, StronglySorted desc (spec_objs allowed objs fs).
Proof. intros; apply sort_desc_strongly_sorted. Qed.

Lemma spec_objs_perm : forall allowed objs fs,
  Permutation (spec_objs allowed objs fs) (filter (selected allowed fs) objs).
Proof. intros; apply sort_desc_perm. Qed.

Lemma StronglySorted_firstn : forall {A} (R : A -> A -> Prop) n l, StronglySorted R l -> StronglySorted R (firstn n l).
Proof.
  induction n as [|n IH]; intros l S; simpl; [constructor|].
  destruct l as [|x l]; [constructor|]. inversion S; subst. constructor.
  - apply IH; assumption.
  - apply Forall_forall. intros y Hy. eapply Forall_forall; [eassumption | eapply In_firstn; exact Hy].
Qed.

Lemma StronglySorted_skipn : forall {A} (R : A -> A -> Prop) n l, StronglySorted R l -> StronglySorted R (skipn n l).
Proof.
  induction n as [|n IH]; intros l S; simpl; [exact S|].
  destruct l as [|x l]; [constructor|]. inversion S; subst. apply IH; assumption.
Qed.

Lemma slice_sorted : forall {A} (R : A -> A -> Prop) off mx l, StronglySorted R l -> StronglySorted R (slice off mx l).
Proof.
  intros A R off mx l S. unfold slice.
  destruct mx; [apply StronglySorted_firstn|]; destruct off; try apply StronglySorted_skipn; exact S.
Qed.

(* ---- pages *)
Lemma slice_nth_page : forall {A} (l : list A) n k,
  slice (Some (Z.of_nat k * Z.of_nat n)) (Some (Z.of_nat n)) l = nth_page n l k.
Proof.
  intros. unfold slice, nth_page. rewrite <- Nat2Z.inj_mul, !Nat2Z.id. reflexivity.
Qed.

Lemma NoDup_map_filter : forall (p : obj -> bool) l, NoDup (map o_uid l) -> NoDup (map o_uid (filter p l)).
Proof.
  induction l as [|x l IH]; simpl; intros ND; [constructor|].
  inversion ND; subst. destruct (p x); simpl.
  - constructor; [|apply IH; assumption].
    intros H. apply H1. apply in_map_iff in H. destruct H as [y [E Hy]].
    apply filter_In in Hy. apply in_map_iff. exists y. tauto.
  - apply IH; assumption.
Qed.

Lemma spec_objs_nodup : forall allowed objs fs, NoDup (map o_uid objs) -> NoDup (map o_uid (spec_objs allowed objs fs)).
Proof.
  intros allowed objs fs ND. unfold spec_objs.
  eapply Permutation_NoDup.
  - apply Permutation_map. apply Permutation_sym. apply sort_desc_perm.
  - apply NoDup_map_filter. exact ND.
Qed.

Lemma map_nth_page : forall {A B} (f : A -> B) n l k, map f (nth_page n l k) = nth_page n (map f l) k.
Proof. intros. unfold nth_page. rewrite skipn_map, firstn_map. reflexivity. Qed.

(* ---- conjunctivity *)
Lemma forallb_app_sel : forall fs1 fs2 o, filter_dates fs1 = [] ->
  sel (fs1 ++ fs2) o = forallb (matches o) fs1 && sel fs2 o.
Proof.
  intros fs1 fs2 o H. unfold sel. rewrite forallb_app. unfold filter_dates in *.
  rewrite flat_map_app, H. simpl. rewrite andb_assoc. reflexivity.
Qed.

Lemma spec_objs_conj : forall allowed objs fs1 fs2, filter_dates fs1 = [] ->
  spec_objs allowed objs (fs1 ++ fs2) = filter (fun o => forallb (matches o) fs1) (spec_objs allowed objs fs2).
Proof.
  intros allowed objs fs1 fs2 H. unfold spec_objs.
  rewrite filter_sort_desc, filter_filter. f_equal. apply filter_ext. intros o.
  rewrite !selected_split, (forallb_app_sel fs1 fs2 o H).
  destruct (allowed o), (forallb (matches o) fs1), (sel fs2 o); reflexivity.
Qed.

(* the order of the filters in the request does not matter *)
Lemma forallb_perm : forall {A} (p : A -> bool) l1 l2, Permutation l1 l2 -> forallb p l1 = forallb p l2.
Proof.
  intros A p l1 l2 H. induction H; simpl; try congruence.
  destruct (p x), (p y); reflexivity.
Qed.

(* ---- when the model fails *)
Lemma fc_date_inv : forall o f v d, fetch_compare o f = StDate v d -> f = FDate d.
Proof.
  intros o f v d H. destruct f; simpl in H; unfold cmp in H;
    repeat match type of H with
           | context [if ?c then _ else _] => destruct c
           | context [match ?c with _ => _ end] => destruct c
           end; try discriminate; congruence.
Qed.

Lemma filter_dates_cons : forall f fs,
  filter_dates (f :: fs) = (match f with FDate d => [d] | _ => [] end) ++ filter_dates fs.
Proof. reflexivity. Qed.

Definition seen (ds : dst) : nat :=
  ((match d_start ds with None => 0 | Some _ => 1 end) + (match d_end ds with None => 0 | Some _ => 1 end))%nat.

Lemma obj_loop_toomany : forall o fs ds,
  obj_loop o fs ds = TooMany -> (seen ds + List.length (filter_dates fs) > 2)%nat.
Proof.
  intros o. induction fs as [|f fs IH]; intros ds H; simpl in H; [discriminate|].
  destruct (applicable f (o_type o)); try discriminate.
  destruct (fetch_compare o f) eqn:FC; try discriminate.
  - apply IH in H. rewrite filter_dates_cons, app_length. lia.
  - apply fc_date_inv in FC. subst f. rewrite filter_dates_cons. simpl app. simpl List.length.
    unfold track in H. unfold seen in *. destruct (d_start ds) eqn:Es.
    + destruct (d_end ds) eqn:Ee.
      * lia.
      * destruct (d >? z); apply IH in H; unfold seen in H; simpl in H; lia.
    + apply IH in H. unfold seen in H. simpl in H. destruct (d_end ds); lia.
Qed.

Lemma filter_objs_toomany : forall fs os, filter_objs os fs = TooMany -> (List.length (filter_dates fs) > 2)%nat.
Proof.
  intros fs. induction os as [|o os IH]; simpl; intros H; [discriminate|].
  destruct (obj_selected o fs) eqn:E.
  - destruct (filter_objs os fs); try discriminate. apply IH; reflexivity.
  - discriminate.
  - unfold obj_selected in E. destruct (obj_loop o fs dst0) as [[? ?]| | |] eqn:L; try discriminate.
    apply obj_loop_toomany in L. unfold seen in L. simpl in L. exact L.
  - discriminate.
Qed.

(* ---- when the model crashes: some visible object reaches an applicable filter whose attribute its class lacks
   (or a filter names an attribute the rule table does not know) *)
Lemma fc_crash_unreadable : forall o f, fetch_compare o f = StCrash -> readable f o = false.
Proof.
  intros o f H. destruct f; simpl in H |- *; unfold cmp in H;
    repeat match type of H with
           | context [if ?c then _ else _] => destruct c eqn:?
           | context [match ?c with _ => _ end] => destruct c eqn:?
           end; try discriminate; reflexivity.
Qed.

Lemma obj_loop_crash : forall o fs ds, obj_loop o fs ds = Crash ->
  exists f, In f fs /\ applicable f (o_type o) = true /\ readable f o = false.
Proof.
  intros o. induction fs as [|f fs IH]; intros ds H; simpl in H; [discriminate|].
  destruct (applicable f (o_type o)) eqn:A; try discriminate.
  destruct (fetch_compare o f) eqn:FC; try discriminate.
  - destruct (IH _ H) as [g [Hg P]]. exists g. split; [right; exact Hg | exact P].
  - exists f. split; [left; reflexivity|]. split; [exact A | apply fc_crash_unreadable; exact FC].
  - destruct (track ds v d); [|discriminate]. destruct (IH _ H) as [g [Hg P]]. exists g. split; [right; exact Hg | exact P].
Qed.

Lemma filter_objs_crash : forall fs os, filter_objs os fs = Crash ->
  exists o f, In o os /\ In f fs /\ applicable f (o_type o) = true /\ readable f o = false.
Proof.
  intros fs. induction os as [|o os IH]; simpl; intros H; [discriminate|].
  destruct (obj_selected o fs) eqn:E.
  - destruct (filter_objs os fs); try discriminate.
    destruct (IH eq_refl) as [o' [f [Ho [Hf P]]]]. exists o', f. split; [right; exact Ho | split; assumption].
  - discriminate.
  - discriminate.
  - unfold obj_selected in E. destruct (obj_loop o fs dst0) as [[? ?]| | |] eqn:L; try discriminate.
    destruct (obj_loop_crash _ _ _ L) as [f [Hf P]]. exists o, f. split; [left; reflexivity | split; assumption].
Qed.

(* ================================================================== statements used by props/C14.v *)

Lemma filter_objs_ok_filter : forall fs os l, filter_objs os fs = Ok l ->
  l = filter (fun o => match obj_selected o fs with Ok true => true | _ => false end) os.
Proof.
  intros fs. induction os as [|o os IH]; simpl; intros l H.
  - inversion H; reflexivity.
  - destruct (obj_selected o fs) as [b| | |]; try discriminate.
    destruct (filter_objs os fs) as [l0| | |]; try discriminate.
    inversion H; subst. rewrite (IH l0 eq_refl). destruct b; reflexivity.
Qed.

Lemma locate_objs_ok_shape : forall allowed objs fs l, locate_objs allowed objs fs = Ok l ->
  exists p, l = sort_desc (filter p (filter allowed objs)).
Proof.
  intros allowed objs fs l H. rewrite locate_objs_alt in H.
  destruct (filter_objs (filter allowed objs) fs) as [l0| | |] eqn:E; try discriminate.
  inversion H; subst. eexists. rewrite (filter_objs_ok_filter _ _ _ E) at 1. reflexivity.
Qed.

Lemma py_slice_sorted : forall {A} (R : A -> A -> Prop) l lo hi, StronglySorted R l -> StronglySorted R (py_slice l lo hi).
Proof. intros. unfold py_slice. apply StronglySorted_firstn, StronglySorted_skipn. assumption. Qed.

Lemma page_sorted : forall {A} (R : A -> A -> Prop) l off mx, StronglySorted R l -> StronglySorted R (page l off mx).
Proof. intros A R l [o|] [m|] S; simpl; try apply py_slice_sorted; assumption. Qed.

Lemma py_slice_incl : forall {A} (l : list A) lo hi x, In x (py_slice l lo hi) -> In x l.
Proof. intros A l lo hi x H. unfold py_slice in H. eapply In_skipn, In_firstn, H. Qed.

Lemma page_incl : forall {A} (l : list A) off mx x, In x (page l off mx) -> In x l.
Proof. intros A l [o|] [m|] x H; simpl in H; try (eapply py_slice_incl; eassumption); assumption. Qed.

(* newest first, and nothing the requester may not locate - with NO side condition *)
Lemma locate_sorted_lemma : forall allowed objs fs off mx ids,
  locate_model allowed objs fs off mx = Ok ids ->
  exists l, ids = map o_uid l /\ StronglySorted desc l /\
            (forall o, In o l -> In o objs /\ allowed o = true).
Proof.
  intros allowed objs fs off mx ids H. unfold locate_model in H.
  destruct (locate_objs allowed objs fs) as [l| | |] eqn:E; try discriminate.
  inversion H; subst. exists (page l off mx). split; [reflexivity|].
  destruct (locate_objs_ok_shape _ _ _ _ E) as [p Hp]. split.
  - apply page_sorted. rewrite Hp. apply sort_desc_strongly_sorted.
  - intros o Ho. apply page_incl in Ho. rewrite Hp in Ho.
    apply (Permutation_in _ (sort_desc_perm _)) in Ho.
    apply filter_In in Ho. destruct Ho as [Ho _]. apply filter_In in Ho. exact Ho.
Qed.

(* exactly the permitted matching set (before slicing) *)
Lemma locate_perm_lemma : forall allowed objs fs, side_conditions allowed objs fs ->
  exists l, locate_objs allowed objs fs = Ok l /\
            locate_model allowed objs fs None None = Ok (map o_uid l) /\
            Permutation l (filter (selected allowed fs) objs).
Proof.
  intros allowed objs fs SC. exists (spec_objs allowed objs fs).
  pose proof (locate_objs_refines _ _ _ SC) as E. split; [exact E|]. split.
  - unfold locate_model. rewrite E. reflexivity.
  - apply spec_objs_perm.
Qed.

Lemma selected_iff : forall allowed fs o,
  selected allowed fs o = true <->
  allowed o = true /\ (forall f, In f fs -> matches o f = true) /\ date_match (filter_dates fs) (o_idate o) = true.
Proof.
  intros. unfold selected. rewrite !andb_true_iff, forallb_forall. tauto.
Qed.

Lemma locate_exact_lemma : forall allowed objs fs, side_conditions allowed objs fs ->
  exists l, locate_objs allowed objs fs = Ok l /\
    forall o, In o l <->
      In o objs /\ allowed o = true /\ (forall f, In f fs -> matches o f = true) /\
      date_match (filter_dates fs) (o_idate o) = true.
Proof.
  intros allowed objs fs SC. destruct (locate_perm_lemma _ _ _ SC) as [l [E [_ P]]].
  exists l. split; [exact E|]. intros o. split.
  - intros H. apply (Permutation_in _ P) in H. apply filter_In in H. destruct H as [H1 H2].
    apply selected_iff in H2. tauto.
  - intros [H1 H2]. apply (Permutation_in _ (Permutation_sym P)). apply filter_In. split; [exact H1|].
    apply selected_iff. exact H2.
Qed.

(* pages: no side condition beyond "the unsliced request succeeds" *)
Lemma pages_partition_lemma : forall allowed objs fs (n m : nat) full,
  (0 < n)%nat ->
  locate_model allowed objs fs None None = Ok full ->
  (List.length full <= m * n)%nat ->
  exists pages : nat -> list Z,
    (forall k, locate_model allowed objs fs (Some (Z.of_nat k * Z.of_nat n)) (Some (Z.of_nat n)) = Ok (pages k)) /\
    concat (map pages (seq 0 m)) = full /\
    (NoDup (map o_uid objs) -> forall i j x, i <> j -> In x (pages i) -> ~ In x (pages j)).
Proof.
  intros allowed objs fs n m full Hn H Hm. unfold locate_model in *.
  destruct (locate_objs allowed objs fs) as [l| | |] eqn:E; try discriminate.
  simpl in H. inversion H; subst full. clear H.
  exists (fun k => nth_page n (map o_uid l) k). split; [|split].
  - intros k. rewrite page_slice by (simpl; lia). rewrite slice_nth_page, map_nth_page. reflexivity.
  - apply pages_concat_all. exact Hm.
  - intros ND i j x Hij Hi Hj.
    assert (NDl : NoDup (map o_uid l)).
    { destruct (locate_objs_ok_shape _ _ _ _ E) as [p Hp]. rewrite Hp.
      eapply Permutation_NoDup; [apply Permutation_map, Permutation_sym, sort_desc_perm|].
      apply NoDup_map_filter, NoDup_map_filter, ND. }
    destruct (Nat.lt_gt_cases i j) as [[Hlt|Hgt] _]; [exact Hij| |].
    + exact (pages_disjoint n _ i j x NDl Hlt Hi Hj).
    + exact (pages_disjoint n _ j i x NDl Hgt Hj Hi).
Qed.

(* adding non-date filters restricts the answer to the objects that also match them, order kept *)
Lemma filters_conjunctive_lemma : forall allowed objs fs1 fs2,
  filter_dates fs1 = [] ->
  side_conditions allowed objs (fs1 ++ fs2) -> side_conditions allowed objs fs2 ->
  exists l12 l2, locate_objs allowed objs (fs1 ++ fs2) = Ok l12 /\ locate_objs allowed objs fs2 = Ok l2 /\
                 l12 = filter (fun o => forallb (matches o) fs1) l2.
Proof.
  intros allowed objs fs1 fs2 H SC12 SC2.
  exists (spec_objs allowed objs (fs1 ++ fs2)), (spec_objs allowed objs fs2).
  split; [apply locate_objs_refines; exact SC12|]. split; [apply locate_objs_refines; exact SC2|].
  apply spec_objs_conj. exact H.
Qed.

Lemma filter_dates_perm : forall fs1 fs2, Permutation fs1 fs2 -> Permutation (filter_dates fs1) (filter_dates fs2).
Proof.
  intros fs1 fs2 H. unfold filter_dates. induction H; simpl.
  - constructor.
  - apply Permutation_app_head. exact IHPermutation.
  - rewrite !app_assoc. apply Permutation_app_tail. apply Permutation_app_comm.
  - eapply Permutation_trans; eassumption.
Qed.

Lemma date_match_perm : forall d1 d2 v, Permutation d1 d2 -> date_match d1 v = date_match d2 v.
Proof.
  intros d1 d2 v H.
  assert (Hl := Permutation_length H).
  destruct d1 as [|a [|b [|c d1]]]; destruct d2 as [|a' [|b' [|c' d2]]]; simpl in Hl; try discriminate; try reflexivity.
  - apply Permutation_length_1 in H. subst. reflexivity.
  - apply Permutation_length_2 in H. destruct H as [[-> ->]|[-> ->]]; simpl; [reflexivity|].
    rewrite Z.min_comm, Z.max_comm. reflexivity.
Qed.

(* the order in which the request lists its filters does not matter *)
Lemma filters_order_irrelevant_lemma : forall allowed objs fs fs' off mx,
  Permutation fs fs' -> locate_spec allowed objs fs off mx = locate_spec allowed objs fs' off mx.
Proof.
  intros allowed objs fs fs' off mx P. unfold locate_spec, spec_objs. do 3 f_equal.
  apply filter_ext. intros o. unfold selected.
  rewrite (forallb_perm _ _ _ P), (date_match_perm _ _ _ (filter_dates_perm _ _ P)). reflexivity.
Qed.

(* when the model fails *)
Lemma locate_model_failure : forall allowed objs fs off mx,
  (locate_model allowed objs fs off mx = TooMany -> (List.length (filter_dates fs) > 2)%nat) /\
  (locate_model allowed objs fs off mx = Crash ->
     exists o f, In o objs /\ allowed o = true /\ In f fs /\
       applicable f (o_type o) = true /\ readable f o = false).
Proof.
  intros allowed objs fs off mx. unfold locate_model. rewrite locate_objs_alt.
  destruct (filter_objs (filter allowed objs) fs) as [l| | |] eqn:E; split; intros H; try discriminate.
  - eapply filter_objs_toomany; eassumption.
  - destruct (filter_objs_crash _ _ E) as [o [f [Ho [Hf P]]]]. apply filter_In in Ho.
    exists o, f. tauto.
Qed.

Lemma locate_failure_lemma : forall ver allowed objs fs off mx,
  (locate_request ver allowed objs fs off mx = Refused <-> gate_ok ver fs = false) /\
  (locate_request ver allowed objs fs off mx = TooMany -> (List.length (filter_dates fs) > 2)%nat) /\
  (locate_request ver allowed objs fs off mx = Crash ->
     exists o f, In o objs /\ allowed o = true /\ In f fs /\
       applicable f (o_type o) = true /\ readable f o = false /\ ~ stored_type o).
Proof.
  intros ver allowed objs fs off mx. split; [apply locate_refused_lemma|].
  unfold locate_request. destruct (gate_ok ver fs); [|split; discriminate].
  destruct (locate_model_failure allowed objs fs off mx) as [T C]. split; [exact T|].
  intros H. destruct (C H) as [o [f [Ho [Ha [Hf [A R]]]]]]. exists o, f. repeat split; auto.
  intros St. rewrite (readable_by_table f o St A) in R. discriminate.
Qed.

(* with today's rule table a store of the seven stored types never makes Locate crash *)
Lemma locate_never_crashes_lemma : forall ver allowed objs fs off mx,
  Forall stored_type (filter allowed objs) -> locate_request ver allowed objs fs off mx <> Crash.
Proof.
  intros ver allowed objs fs off mx T H.
  destruct (locate_failure_lemma ver allowed objs fs off mx) as [_ [_ C]].
  destruct (C H) as [o [f [Ho [Ha [_ [_ [_ N]]]]]]]. apply N.
  eapply Forall_forall in T; [exact T|]. apply filter_In. split; assumption.
Qed.

(* stability of the order among equal initial dates *)
Lemma locate_stable_lemma : forall allowed objs fs l k, locate_objs allowed objs fs = Ok l ->
  exists p, filter (fun o => o_idate o =? k) l = filter (fun o => o_idate o =? k) (filter p (filter allowed objs)).
Proof.
  intros allowed objs fs l k H. destruct (locate_objs_ok_shape _ _ _ _ H) as [p Hp].
  exists p. rewrite Hp. apply sort_desc_stable.
Qed.

(* ================================================================== the order is determined
   Any list that is (1) a permutation of the selected objects, (2) non-increasing in Initial Date and
   (3) keeps the store order among equal dates IS the specification's list: `sort_desc` in
   `locate_spec` is only one way to write it. *)
Lemma sorted_perm_stable_unique : forall l1 l2,
  Permutation l1 l2 -> StronglySorted desc l1 -> StronglySorted desc l2 ->
  (forall k, filter (fun o => o_idate o =? k) l1 = filter (fun o => o_idate o =? k) l2) ->
  l1 = l2.
Proof.
  induction l1 as [|x l1 IH]; intros l2 P S1 S2 F.
  - apply Permutation_nil in P. subst. reflexivity.
  - destruct l2 as [|y l2]; [apply Permutation_sym, Permutation_nil in P; discriminate|].
    inversion S1 as [|? ? S1' A1]; subst. inversion S2 as [|? ? S2' A2]; subst.
    assert (Kxy : o_idate x = o_idate y).
    { assert (Hy : In y (x :: l1)) by (apply (Permutation_in _ (Permutation_sym P)); left; reflexivity).
      assert (Hx : In x (y :: l2)) by (apply (Permutation_in _ P); left; reflexivity).
      unfold desc in *. rewrite Forall_forall in A1, A2.
      destruct Hy as [->|Hy]; [reflexivity|]. destruct Hx as [<-|Hx]; [reflexivity|].
      specialize (A1 _ Hy). specialize (A2 _ Hx). lia. }
    pose proof (F (o_idate x)) as Fx. simpl in Fx.
    rewrite Z.eqb_refl in Fx. rewrite <- Kxy, Z.eqb_refl in Fx. inversion Fx; subst y.
    f_equal. apply IH; auto.
    + eapply Permutation_cons_inv; exact P.
    + intros k. specialize (F k). simpl in F. destruct (o_idate x =? k); [inversion F; reflexivity | exact F].
Qed.

Lemma newest_first_unique_lemma : forall allowed objs fs l,
  Permutation l (filter (selected allowed fs) objs) ->
  StronglySorted desc l ->
  (forall k, filter (fun o => o_idate o =? k) l = filter (fun o => o_idate o =? k) (filter (selected allowed fs) objs)) ->
  l = spec_objs allowed objs fs.
Proof.
  intros allowed objs fs l P S F. unfold spec_objs. apply sorted_perm_stable_unique.
  - eapply Permutation_trans; [exact P | apply Permutation_sym, sort_desc_perm].
  - exact S.
  - apply sort_desc_strongly_sorted.
  - intros k. rewrite sort_desc_stable. apply F.
Qed.

Lemma newest_first_exists_lemma : forall allowed objs fs,
  let l := spec_objs allowed objs fs in
  Permutation l (filter (selected allowed fs) objs) /\
  StronglySorted desc l /\
  (forall k, filter (fun o => o_idate o =? k) l = filter (fun o => o_idate o =? k) (filter (selected allowed fs) objs)).
Proof.
  intros. split; [apply spec_objs_perm|]. split; [apply spec_objs_sorted|].
  intros k. apply sort_desc_stable.
Qed.

(* offset / maximum select the corresponding slice of the SAME ordered list (no side condition) *)
Lemma map_slice : forall {A B} (f : A -> B) off mx l, map f (slice off mx l) = slice off mx (map f l).
Proof.
  intros A B f off mx l. unfold slice.
  destruct off as [o|]; destruct mx as [m|]; rewrite ?skipn_map, ?firstn_map; reflexivity.
Qed.

Lemma locate_slice_lemma : forall allowed objs fs off mx full,
  nonneg off -> nonneg mx ->
  locate_model allowed objs fs None None = Ok full ->
  locate_model allowed objs fs off mx = Ok (slice off mx full).
Proof.
  intros allowed objs fs off mx full Ho Hm H. unfold locate_model in *.
  destruct (locate_objs allowed objs fs) as [l| | |]; try discriminate.
  simpl in H. inversion H; subst. rewrite page_slice by assumption. rewrite map_slice. reflexivity.
Qed.


(* ================================================================== the same statements for the whole operation *)

Lemma locate_request_sorted_lemma : forall ver allowed objs fs off mx ids,
  locate_request ver allowed objs fs off mx = Ok ids ->
  exists l, ids = map o_uid l /\ StronglySorted desc l /\
            (forall o, In o l -> In o objs /\ allowed o = true).
Proof.
  intros ver allowed objs fs off mx ids H. apply locate_request_ok in H. destruct H as [_ H].
  eapply locate_sorted_lemma; eassumption.
Qed.

Lemma locate_request_perm_lemma : forall ver allowed objs fs,
  gate_ok ver fs = true -> side_conditions allowed objs fs ->
  exists l, locate_objs allowed objs fs = Ok l /\
            locate_request ver allowed objs fs None None = Ok (map o_uid l) /\
            Permutation l (filter (selected allowed fs) objs).
Proof.
  intros ver allowed objs fs G SC. destruct (locate_perm_lemma _ _ _ SC) as [l [E [M P]]].
  exists l. split; [exact E|]. split; [|exact P]. unfold locate_request. rewrite G. exact M.
Qed.

Lemma locate_request_slice_lemma : forall ver allowed objs fs off mx full,
  nonneg off -> nonneg mx ->
  locate_request ver allowed objs fs None None = Ok full ->
  locate_request ver allowed objs fs off mx = Ok (slice off mx full).
Proof.
  intros ver allowed objs fs off mx full Ho Hm H. apply locate_request_ok in H. destruct H as [G H].
  unfold locate_request. rewrite G. apply locate_slice_lemma; assumption.
Qed.

Lemma locate_request_pages_lemma : forall ver allowed objs fs (n m : nat) full,
  (0 < n)%nat ->
  locate_request ver allowed objs fs None None = Ok full ->
  (List.length full <= m * n)%nat ->
  exists pages : nat -> list Z,
    (forall k, locate_request ver allowed objs fs (Some (Z.of_nat k * Z.of_nat n)) (Some (Z.of_nat n)) = Ok (pages k)) /\
    concat (map pages (seq 0 m)) = full /\
    (NoDup (map o_uid objs) -> forall i j x, i <> j -> In x (pages i) -> ~ In x (pages j)).
Proof.
  intros ver allowed objs fs n m full Hn H Hm. apply locate_request_ok in H. destruct H as [G H].
  destruct (pages_partition_lemma allowed objs fs n m full Hn H Hm) as [pages [P1 P2]].
  exists pages. split; [|exact P2]. intros k. unfold locate_request. rewrite G. apply P1.
Qed.
