(* C14 - executable model of KmipEngine._process_locate (kmip/services/server/engine.py)
   and of the helpers it calls, mirroring the code AS IT IS:

     _list_objects_with_access_controls / _is_allowed_by_operation_policy / is_allowed
     version gate:            every filter attribute must be supported under the request's version,
                              else InvalidField before any object is looked at
     per object, per filter:  is_attribute_applicable_to_object_type  (generated rule table)
                              _get_attribute_from_managed_object      (None -> NO MATCH: add_object = False; break)
                              the per-attribute comparison            (mismatch -> `break`)
                              _track_date_attributes                  (start/end with swap, third date raises)
     after the filter loop:   `if initial_date.get("value")` (truthiness!) -> _is_valid_date
     sorted(key=initial_date, reverse=True)   (stable)
     offset / maximum slicing                 (Python slice semantics, negative indices included)

   plus the declarative specification `locate_spec` the model is proved to refine
   (LocateProofs.v) and the comparator used by the differential correspondence
   (harness/c14.py; Coq evaluates `check_case`).

   Definitions only; no proofs in this file. *)
From Coq Require Import ZArith List Bool String DecimalString.
From PKGen Require Import AttrRuleTable Enums.
Import ListNotations.
Open Scope Z_scope.

(* ------------------------------------------------------------------ objects *)

(* enums.ObjectType values *)
Definition OT_CERTIFICATE := 1.
Definition OT_SYMMETRIC_KEY := 2.
Definition OT_PUBLIC_KEY := 3.
Definition OT_PRIVATE_KEY := 4.
Definition OT_SPLIT_KEY := 5.
Definition OT_TEMPLATE := 6.
Definition OT_SECRET_DATA := 7.
Definition OT_OPAQUE_DATA := 8.

(* One row of the store, as the kmip.pie object exposes it to Locate.  Fields a
   class does not have are irrelevant for that class (has_* below says which
   Python classes carry which attribute; algorithm and length are read with
   getattr(..., None), i.e. absent on other classes; reading a missing state,
   mask or certificate type would be an AttributeError, i.e. GENERAL_FAILURE -
   the rule table makes those applicable only to classes that have them). *)
Record obj := mkObj {
  o_uid : Z;
  o_type : Z;                      (* enums.ObjectType value *)
  o_owner : string;                (* ManagedObject._owner *)
  o_policy : option string;        (* operation_policy_name (nullable column) *)
  o_sensitive : bool;
  o_idate : Z;                     (* initial_date *)
  o_state : Z;                     (* CryptographicObject.state *)
  o_mask : Z;                      (* CryptographicObject.cryptographic_usage_masks as a bit mask *)
  o_alg : option Z;                (* Key.cryptographic_algorithm (nullable) *)
  o_len : option Z;                (* Key.cryptographic_length (nullable) *)
  o_certtype : Z;                  (* Certificate.certificate_type *)
  o_names : list string;
  o_groups : list string;
  o_asi : list (string * string)   (* (application_namespace, application_data) *)
}.

Definition memZ (x : Z) (l : list Z) : bool := existsb (Z.eqb x) l.

(* which kmip.pie classes define the attribute the engine reads *)
Definition has_crypto_fields (o : obj) : bool := memZ (o_type o) [1; 2; 3; 4; 5; 7].  (* CryptographicObject: state, masks *)
Definition has_key_fields (o : obj) : bool := memZ (o_type o) [2; 3; 4; 5].           (* Key: algorithm, length *)
Definition has_cert_fields (o : obj) : bool := o_type o =? 1.                          (* Certificate: certificate_type *)

(* ------------------------------------------------------------------ filters *)

Inductive afilter :=
| FName (s : string) (ntype : Z)        (* Name value + enums.NameType value *)
| FState (v : Z)
| FObjType (v : Z)
| FAlg (v : Z)
| FLen (v : Z)
| FMask (m : Z)
| FPolicy (s : string)
| FGroup (s : string)
| FAsi (ns d : string)
| FCertType (v : Z)
| FUid (s : string)
| FSensitive (b : bool)
| FDate (d : Z)
| FOther (name : string).               (* an attribute for which _get_attribute_from_managed_object answers None, or an unknown name *)

Definition filter_name (f : afilter) : string :=
  match f with
  | FName _ _ => "Name"
  | FState _ => "State"
  | FObjType _ => "Object Type"
  | FAlg _ => "Cryptographic Algorithm"
  | FLen _ => "Cryptographic Length"
  | FMask _ => "Cryptographic Usage Mask"
  | FPolicy _ => "Operation Policy Name"
  | FGroup _ => "Object Group"
  | FAsi _ _ => "Application Specific Information"
  | FCertType _ => "Certificate Type"
  | FUid _ => "Unique Identifier"
  | FSensitive _ => "Sensitive"
  | FDate _ => "Initial Date"
  | FOther n => n
  end.

(* policy.is_attribute_applicable_to_object_type (an unknown name answers False) *)
Definition applicable (f : afilter) (t : Z) : bool :=
  match find_rule (filter_name f) with
  | None => false
  | Some r => memZ t (ar_object_types r)
  end.

(* the bits enums.get_enumerations_from_bit_mask can see *)
Definition known_mask : Z := fold_right Z.lor 0 EV_CryptographicUsageMask.

Definition uid_string (u : Z) : string := NilZero.string_of_int (Z.to_int u).

Definition mem_string (s : string) (l : list string) : bool := existsb (String.eqb s) l.
Definition mem_asi (ns d : string) (l : list (string * string)) : bool :=
  existsb (fun p => String.eqb (fst p) ns && String.eqb (snd p) d) l.

Definition NT_UNINTERPRETED := 1.

(* _get_attribute_from_managed_object followed by the comparison branch *)
Inductive step := StBreak | StNext | StCrash | StDate (v d : Z).

Definition cmp (b : bool) : step := if b then StNext else StBreak.

Definition fetch_compare (o : obj) (f : afilter) : step :=
  match f with
  | FName s t =>
      (* the object's names are rebuilt as Name(value, UNINTERPRETED_TEXT_STRING); `value not in attribute` *)
      cmp (mem_string s (o_names o) && (t =? NT_UNINTERPRETED))
  | FState v => if has_crypto_fields o then cmp (v =? o_state o) else StCrash
  | FObjType v => cmp (v =? o_type o)
  | FAlg v =>
      (* getattr(managed_object, 'cryptographic_algorithm', None); None -> no match *)
      match (if has_key_fields o then o_alg o else None) with None => StBreak | Some a => cmp (v =? a) end
  | FLen v =>
      match (if has_key_fields o then o_len o else None) with None => StBreak | Some a => cmp (v =? a) end
  | FMask m =>
      if has_crypto_fields o then
        cmp (Z.land (Z.land m known_mask) (o_mask o) =? Z.land m known_mask)
      else StCrash
  | FPolicy s => match o_policy o with None => StBreak | Some p => cmp (String.eqb s p) end
  | FGroup s => cmp (mem_string s (o_groups o))
  | FAsi ns d => cmp (mem_asi ns d (o_asi o))
  | FCertType v => if has_cert_fields o then cmp (v =? o_certtype o) else StCrash
  | FUid s => cmp (String.eqb s (uid_string (o_uid o)))
  | FSensitive b => cmp (Bool.eqb b (o_sensitive o))
  | FDate d => StDate (o_idate o) d
  | FOther _ => StBreak          (* the fetch answers None: the object has no value, so it does not match *)
  end.

(* the `initial_date` dictionary *)
Record dst := mkDst { d_value : option Z; d_start : option Z; d_end : option Z }.
Definition dst0 : dst := mkDst None None None.

(* initial_date["value"] = attribute; _track_date_attributes(...); None = InvalidField "Too many ..." *)
Definition track (ds : dst) (v d : Z) : option dst :=
  match d_start ds with
  | None => Some (mkDst (Some v) (Some d) (d_end ds))
  | Some s =>
      match d_end ds with
      | None => if d >? s then Some (mkDst (Some v) (Some s) (Some d))
                else Some (mkDst (Some v) (Some d) (Some s))
      | Some _ => None
      end
  end.

Inductive res (A : Type) := Ok (a : A) | Refused | TooMany | Crash.
Arguments Ok {A} a.
Arguments Refused {A}.
Arguments TooMany {A}.
Arguments Crash {A}.

(* the inner `for payload_attribute in payload.attributes` loop: (add_object, initial_date) at loop exit *)
Fixpoint obj_loop (o : obj) (fs : list afilter) (ds : dst) : res (bool * dst) :=
  match fs with
  | [] => Ok (true, ds)
  | f :: fs' =>
      if applicable f (o_type o) then
        match fetch_compare o f with
        | StCrash => Crash
        | StBreak => Ok (false, ds)
        | StNext => obj_loop o fs' ds
        | StDate v d =>
            match track ds v d with
            | None => TooMany
            | Some ds' => obj_loop o fs' ds'
            end
        end
      else Ok (false, ds)                         (* add_object = False; break *)
  end.

Definition is_valid_date (v : Z) (st en : option Z) : bool :=
  match st with
  | Some s =>
      match en with
      | Some e => if v <? s then false else if v >? e then false else true
      | None => s =? v
      end
  | None => true
  end.

(* Python truthiness of initial_date.get("value") *)
Definition truthy_date (v : option Z) : bool :=
  match v with None => false | Some x => negb (x =? 0) end.

Definition obj_selected (o : obj) (fs : list afilter) : res bool :=
  match obj_loop o fs dst0 with
  | Ok (add, ds) =>
      Ok (if truthy_date (d_value ds)
          then add && is_valid_date (match d_value ds with Some v => v | None => 0 end) (d_start ds) (d_end ds)
          else add)
  | Refused => Refused
  | TooMany => TooMany
  | Crash => Crash
  end.

(* the outer `for managed_object in managed_objects` loop; the first object that raises ends the request *)
Fixpoint filter_objs (os : list obj) (fs : list afilter) : res (list obj) :=
  match os with
  | [] => Ok []
  | o :: os' =>
      match obj_selected o fs with
      | Ok b =>
          match filter_objs os' fs with
          | Ok l => Ok (if b then o :: l else l)
          | Refused => Refused
          | TooMany => TooMany
          | Crash => Crash
          end
      | Refused => Refused
      | TooMany => TooMany
      | Crash => Crash
      end
  end.

(* sorted(xs, key=initial_date, reverse=True): stable, non-increasing *)
Fixpoint insert_desc (x : obj) (l : list obj) : list obj :=
  match l with
  | [] => [x]
  | y :: l' => if o_idate x >=? o_idate y then x :: y :: l' else y :: insert_desc x l'
  end.
Definition sort_desc (l : list obj) : list obj := fold_right insert_desc [] l.

(* xs[lo:hi] *)
Definition py_norm (len i : Z) : Z := if i <? 0 then Z.max 0 (i + len) else Z.min i len.
Definition py_slice {A} (l : list A) (lo hi : option Z) : list A :=
  let len := Z.of_nat (List.length l) in
  let a := match lo with None => 0 | Some x => py_norm len x end in
  let b := match hi with None => len | Some x => py_norm len x end in
  firstn (Z.to_nat (b - a)) (skipn (Z.to_nat a) l).

Definition page {A} (l : list A) (off mx : option Z) : list A :=
  match off, mx with
  | Some o, Some m => py_slice l (Some o) (Some (o + m))
  | Some o, None => py_slice l (Some o) None
  | None, Some m => py_slice l None (Some m)
  | None, None => l
  end.

(* the object loop, sorting and slicing of _process_locate (after the version gate, see locate_request),
   given the access decision as a predicate on objects *)
Definition locate_objs (allowed : obj -> bool) (objs : list obj) (fs : list afilter) : res (list obj) :=
  let visible := filter allowed objs in
  match (match fs with [] => Ok visible | _ => filter_objs visible fs end) with
  | Ok l => Ok (sort_desc l)
  | Refused => Refused
  | TooMany => TooMany
  | Crash => Crash
  end.

Definition locate_model (allowed : obj -> bool) (objs : list obj) (fs : list afilter)
                        (off mx : option Z) : res (list Z) :=
  match locate_objs allowed objs fs with
  | Ok l => Ok (map o_uid (page l off mx))
  | Refused => Refused
  | TooMany => TooMany
  | Crash => Crash
  end.

(* ------------------------------------------------------------------ access decision for LOCATE
   (_is_allowed_by_operation_policy / get_relevant_policy_section / is_allowed restricted to
   enums.Operation.LOCATE; the general decision procedure belongs to C03) *)

Inductive lpol := AllowAll | AllowOwner | DisallowAll.
Definition psection := list (Z * lpol).         (* object type -> entry for Operation.LOCATE, if any *)
Record policy := mkPolicy { p_preset : option psection; p_groups : list (string * psection) }.
Definition policies := list (string * policy).
Record requester := mkReq { r_user : string; r_groups : option (list string) }.

Fixpoint assoc_s {A} (k : string) (l : list (string * A)) : option A :=
  match l with [] => None | (k', v) :: l' => if String.eqb k k' then Some v else assoc_s k l' end.
Fixpoint assoc_z {A} (k : Z) (l : list (Z * A)) : option A :=
  match l with [] => None | (k', v) :: l' => if k =? k' then Some v else assoc_z k l' end.

Definition relevant_section (pols : policies) (pname : option string) (group : option string) : option psection :=
  match pname with
  | None => None
  | Some pn =>
      match assoc_s pn pols with
      | None => None
      | Some pb =>
          match group with
          | Some g => assoc_s g (p_groups pb)                       (* `if group is not None:` *)
          | None => p_preset pb
          end
      end
  end.

Definition is_allowed (pols : policies) (pname : option string) (user : string) (group : option string)
                      (owner : string) (otype : Z) : bool :=
  match relevant_section pols pname group with
  | None => false
  | Some sec =>
      match assoc_z otype sec with
      | None => false
      | Some AllowAll => true
      | Some AllowOwner => String.eqb user owner
      | Some DisallowAll => false
      end
  end.

Definition allowed_of (pols : policies) (rq : requester) (o : obj) : bool :=
  let groups := match r_groups rq with None => [None] | Some gs => map Some gs end in
  existsb (fun g => is_allowed pols (o_policy o) (r_user rq) g (o_owner o) (o_type o)) groups.

(* ------------------------------------------------------------------ specification *)

(* "the object carries this attribute value", read off the property text; date filters are
   handled together (one = exact, two = inclusive range), see date_match *)
Definition matches (o : obj) (f : afilter) : bool :=
  applicable f (o_type o) &&
      match f with
      | FName s t => mem_string s (o_names o) && (t =? NT_UNINTERPRETED)
      | FState v => o_state o =? v
      | FObjType v => o_type o =? v
      | FAlg v => has_key_fields o && match o_alg o with Some a => a =? v | None => false end
      | FLen v => has_key_fields o && match o_len o with Some a => a =? v | None => false end
      | FMask m => Z.land m (o_mask o) =? m                    (* every requested bit is set *)
      | FPolicy s => match o_policy o with Some p => String.eqb p s | None => false end
      | FGroup s => mem_string s (o_groups o)
      | FAsi ns d => mem_asi ns d (o_asi o)
      | FCertType v => o_certtype o =? v
      | FUid s => String.eqb (uid_string (o_uid o)) s
      | FSensitive b => Bool.eqb (o_sensitive o) b
      | FDate _ => true
      | FOther _ => false                                      (* the server keeps no such value *)
      end.

Definition filter_dates (fs : list afilter) : list Z :=
  flat_map (fun f => match f with FDate d => [d] | _ => [] end) fs.

Definition date_match (ds : list Z) (v : Z) : bool :=
  match ds with
  | [] => true
  | [d] => v =? d
  | [d1; d2] => (Z.min d1 d2 <=? v) && (v <=? Z.max d1 d2)
  | _ => false
  end.

Definition selected (allowed : obj -> bool) (fs : list afilter) (o : obj) : bool :=
  allowed o && forallb (matches o) fs && date_match (filter_dates fs) (o_idate o).

(* offset / maximum as plain counts *)
Definition slice {A} (off mx : option Z) (l : list A) : list A :=
  let l1 := match off with None => l | Some o => skipn (Z.to_nat o) l end in
  match mx with None => l1 | Some m => firstn (Z.to_nat m) l1 end.

Definition spec_objs (allowed : obj -> bool) (objs : list obj) (fs : list afilter) : list obj :=
  sort_desc (filter (selected allowed fs) objs).

Definition locate_spec (allowed : obj -> bool) (objs : list obj) (fs : list afilter)
                       (off mx : option Z) : list Z :=
  map o_uid (slice off mx (spec_objs allowed objs fs)).

(* ------------------------------------------------------------------ version gate and the whole operation
   Before the object loop (and only when the request carries filters) every filter attribute must be
   supported under the request's protocol version (policy.is_attribute_supported: known name and
   version >= version_added); otherwise InvalidField "The ... attribute is unsupported." *)
Definition ver_ge (a b : Z * Z) : bool :=
  (fst b <? fst a) || ((fst a =? fst b) && (snd b <=? snd a)).

Definition attribute_supported (ver : Z * Z) (name : string) : bool :=
  match find_rule name with
  | None => false
  | Some r => ver_ge ver (ar_version_added r)
  end.

Definition gate_ok (ver : Z * Z) (fs : list afilter) : bool :=
  forallb (fun f => attribute_supported ver (filter_name f)) fs.

(* _process_locate *)
Definition locate_request (ver : Z * Z) (allowed : obj -> bool) (objs : list obj) (fs : list afilter)
                          (off mx : option Z) : res (list Z) :=
  if gate_ok ver fs then locate_model allowed objs fs off mx else Refused.

(* ------------------------------------------------------------------ comparator (tie K) *)

Record kcase := mkCase {
  k_ver : Z * Z;
  k_pols : policies; k_req : requester; k_objs : list obj; k_fs : list afilter;
  k_off : option Z; k_max : option Z;
  k_obs : option (list Z)        (* identifiers the implementation answered, in order; None = the item failed *)
}.

Fixpoint list_eqbZ (a b : list Z) : bool :=
  match a, b with
  | [], [] => true
  | x :: a', y :: b' => (x =? y) && list_eqbZ a' b'
  | _, _ => false
  end.

Definition model_of_case (c : kcase) : res (list Z) :=
  locate_request (k_ver c) (allowed_of (k_pols c) (k_req c)) (k_objs c) (k_fs c) (k_off c) (k_max c).

Definition check_case (c : kcase) : bool :=
  match model_of_case c, k_obs c with
  | Ok l, Some l' => list_eqbZ l l'
  | Ok _, None => false
  | _, None => true
  | _, Some _ => false
  end.
