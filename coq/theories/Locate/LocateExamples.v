(* C14 - concrete witnesses: the side conditions of the refinement theorem are satisfiable by a
   non-trivial store and request, and each of them is needed (dropping it, the faithful model
   leaves the specification). *)
From Coq Require Import String ZArith List Bool Lia.
From PKGen Require Import AttrRuleTable Enums.
From PK Require Import Locate.Locate Locate.LocateProofs.
Import ListNotations.
Open Scope string_scope.
Open Scope list_scope.
Open Scope Z_scope.

Definition ex_key (uid : Z) (owner : String.string) (idate len : Z) : obj :=
  mkObj uid 2 owner (Some "default") false idate 1 12 (Some 3) (Some len) 0 ["k1"] ["grpA"] [("ssl", "www.example.com")].
Definition ex_cert (uid : Z) (owner : String.string) (idate : Z) : obj :=
  mkObj uid 1 owner (Some "default") false idate 1 0 None None 1 [] [] [].
Definition ex_opaque (uid : Z) (owner : String.string) (idate : Z) : obj :=
  mkObj uid 8 owner (Some "default") true idate 0 0 None None 0 ["blob"] [] [].

Definition ex_store : list obj :=
  [ex_key 1 "alice" 100 128; ex_cert 2 "bob" 100; ex_key 3 "alice" 105 256; ex_opaque 4 "alice" 103;
   ex_key 5 "bob" 101 256; ex_key 6 "alice" 105 256; ex_key 7 "alice" 99 256].

(* the built-in 'default' policy, LOCATE column *)
Definition ex_pols : policies :=
  [("default", mkPolicy (Some [(1, AllowAll); (2, AllowOwner); (3, AllowAll); (4, AllowOwner); (5, AllowOwner);
                               (6, AllowOwner); (7, AllowOwner); (8, AllowOwner)]) [])].
Definition ex_allowed : obj -> bool := allowed_of ex_pols (mkReq "alice" None).

(* a type-guarded length filter with a certificate visible, and a date range *)
Definition ex_filters : list afilter := [FObjType 2; FLen 256; FDate 105; FDate 99; FMask 4; FName "k1" 1].

Ltac wf_tac := constructor; vm_compute; intros; try discriminate; try congruence.

Lemma ex_side_conditions : side_conditions ex_allowed ex_store ex_filters.
Proof.
  split; [|split].
  - vm_compute filter. repeat (constructor; [wf_tac|]). constructor.
  - split; vm_compute; [reflexivity | lia].
  - vm_compute. reflexivity.
Qed.

Lemma ex_answer :
  locate_model ex_allowed ex_store ex_filters None None = Ok [3; 6; 7] /\
  locate_model ex_allowed ex_store ex_filters (Some 1) (Some 1) = Ok [6] /\
  locate_model ex_allowed ex_store [] None None = Ok [3; 6; 4; 1; 2; 7].
Proof. vm_compute. repeat split. Qed.

Lemma ex_conj_side_conditions :
  filter_dates [FObjType 2; FLen 256] = [] /\
  side_conditions ex_allowed ex_store ([FObjType 2; FLen 256] ++ [FDate 105; FDate 99]) /\
  side_conditions ex_allowed ex_store [FDate 105; FDate 99].
Proof.
  split; [reflexivity|]. split.
  - split; [|split].
    + vm_compute filter. repeat (constructor; [wf_tac|]). constructor.
    + split; vm_compute; [reflexivity | lia].
    + vm_compute. reflexivity.
  - split; [|split].
    + vm_compute filter. repeat (constructor; [wf_tac|]). constructor.
    + split; vm_compute; [reflexivity | lia].
    + vm_compute. reflexivity.
Qed.

(* ---------------------------------------------------------------- each side condition is needed *)

Definition everyone : obj -> bool := fun _ => true.

(* crash_free: an algorithm/length filter that reaches a visible certificate reads an attribute
   X509Certificate does not have (GENERAL_FAILURE; recorded under C13, DESIGN F3) *)
Lemma cert_length_filter_crashes :
  locate_model everyone [ex_cert 2 "bob" 100] [FLen 128] None None = Crash.
Proof. vm_compute. reflexivity. Qed.

(* wf_idate: `if initial_date.get("value")` treats an Initial Date of 0 as absent, so date filters are
   ignored for an object created at the epoch (not reachable with a real clock) *)
Lemma epoch_date_filter_ignored :
  locate_model everyone [ex_key 1 "alice" 0 128] [FDate 50] None None = Ok [1] /\
  locate_spec everyone [ex_key 1 "alice" 0 128] [FDate 50] None None = [].
Proof. vm_compute. split; reflexivity. Qed.

(* supported: a filter on an attribute the server keeps no value for is skipped (`continue`), e.g.
   Activation Date; the property enumerates the thirteen filter kinds it speaks about *)
Lemma unsupported_filter_ignored :
  locate_model everyone [ex_key 1 "alice" 100 128] [FOther "Activation Date"] None None = Ok [1] /\
  locate_spec everyone [ex_key 1 "alice" 100 128] [FOther "Activation Date"] None None = [].
Proof. vm_compute. split; reflexivity. Qed.

(* supported: usage-mask bits outside enums.CryptographicUsageMask are dropped by
   get_enumerations_from_bit_mask before the comparison *)
Lemma undefined_mask_bits_ignored :
  locate_model everyone [ex_key 1 "alice" 100 128] [FMask (4 + 2 ^ 30)] None None = Ok [1] /\
  locate_spec everyone [ex_key 1 "alice" 100 128] [FMask (4 + 2 ^ 30)] None None = [].
Proof. vm_compute. split; reflexivity. Qed.

(* wf_filters: a third Initial Date filter is refused - but only when some visible object reaches it *)
Lemma third_date_filter :
  locate_model everyone [ex_key 1 "alice" 100 128] [FDate 1; FDate 2; FDate 3] None None = TooMany /\
  locate_model everyone [] [FDate 1; FDate 2; FDate 3] None None = Ok [] /\
  locate_model everyone [ex_key 1 "alice" 100 128] [FObjType 1; FDate 1; FDate 2; FDate 3] None None = Ok [].
Proof. vm_compute. repeat split. Qed.

(* wf_alg / wf_len / wf_policy: a NULL column makes the loop `continue`, i.e. ignore the filter
   (no such row can be created through the protocol: the kmip.pie constructors and the engine refuse) *)
Lemma null_length_filter_ignored :
  let o := mkObj 1 2 "alice" (Some "default") false 100 1 12 (Some 3) None 0 [] [] [] in
  locate_model everyone [o] [FLen 128] None None = Ok [1] /\ locate_spec everyone [o] [FLen 128] None None = [].
Proof. vm_compute. split; reflexivity. Qed.

(* hence the refinement does not hold without side conditions *)
Definition locate_refines_spec_unconditional : Prop :=
  forall allowed objs fs off mx, nonneg off -> nonneg mx ->
    locate_model allowed objs fs off mx = Ok (locate_spec allowed objs fs off mx).

Lemma locate_refines_spec_unconditional_fails : ~ locate_refines_spec_unconditional.
Proof.
  intros H. specialize (H everyone [ex_cert 2 "bob" 100] [FLen 128] None None I I).
  rewrite cert_length_filter_crashes in H. discriminate.
Qed.

(* negative offset / maximum follow Python slice semantics (outside the theorems, inside the model) *)
Lemma negative_slices :
  page [1; 2; 3; 4; 5] (Some (-2)) None = [4; 5] /\ page [1; 2; 3; 4; 5] None (Some (-1)) = [1; 2; 3; 4] /\
  page [1; 2; 3; 4; 5] (Some 1) (Some (-3)) = [2; 3] /\ page [1; 2; 3; 4; 5] (Some (-4)) (Some 2) = [2; 3].
Proof. vm_compute. repeat split. Qed.
