(* C14 - concrete witnesses: the side conditions of the refinement theorem are satisfiable by a
   non-trivial store and request, and each of them is needed (dropping it, the faithful model
   leaves the specification). *)
From Coq Require Import String ZArith List Bool Lia.
From PKGen Require Import AttrRuleTable Enums.
From PK Require Import Locate.Locate Locate.LocateProofs.
Import ListNotations.
Open Scope string_scope.
Open Scope list_scope.
Open Scope Z_scope.

Definition ex_key (uid : Z) (owner : String.string) (idate len : Z) : obj :=
  mkObj uid 2 owner (Some "default") false idate 1 12 (Some 3) (Some len) 0 ["k1"] ["grpA"] [("ssl", "www.example.com")].
Definition ex_cert (uid : Z) (owner : String.string) (idate : Z) : obj :=
  mkObj uid 1 owner (Some "default") false idate 1 0 None None 1 [] [] [].
Definition ex_opaque (uid : Z) (owner : String.string) (idate : Z) : obj :=
  mkObj uid 8 owner (Some "default") true idate 0 0 None None 0 ["blob"] [] [].

Definition ex_store : list obj :=
  [ex_key 1 "alice" 100 128; ex_cert 2 "bob" 100; ex_key 3 "alice" 105 256; ex_opaque 4 "alice" 103;
   ex_key 5 "bob" 101 256; ex_key 6 "alice" 105 256; ex_key 7 "alice" 99 256].

(* the built-in 'default' policy, LOCATE column *)
Definition ex_pols : policies :=
  [("default", mkPolicy (Some [(1, AllowAll); (2, AllowOwner); (3, AllowAll); (4, AllowOwner); (5, AllowOwner);
                               (6, AllowOwner); (7, AllowOwner); (8, AllowOwner)]) [])].
Definition ex_allowed : obj -> bool := allowed_of ex_pols (mkReq "alice" None).

(* a length filter with a certificate in sight (the certificate has no length: no match), a date range,
   a mask and a name filter *)
Definition ex_filters : list afilter := [FLen 256; FDate 105; FDate 99; FMask 4; FName "k1" 1].
Definition ex_ver : Z * Z := (1, 2).

Ltac sc_tac :=
  split; [ vm_compute filter; repeat (constructor; [split; [vm_compute; discriminate | vm_compute; tauto]|]); constructor
         | split; vm_compute; [reflexivity | lia] ].

Lemma ex_side_conditions : gate_ok ex_ver ex_filters = true /\ side_conditions ex_allowed ex_store ex_filters.
Proof. split; [vm_compute; reflexivity | sc_tac]. Qed.

Lemma ex_answer :
  locate_request ex_ver ex_allowed ex_store ex_filters None None = Ok [3; 6; 7] /\
  locate_request ex_ver ex_allowed ex_store ex_filters (Some 1) (Some 1) = Ok [6] /\
  locate_request ex_ver ex_allowed ex_store [] None None = Ok [3; 6; 4; 1; 2; 7].
Proof. vm_compute. repeat split. Qed.

Lemma ex_conj_side_conditions :
  filter_dates [FObjType 2; FLen 256] = [] /\
  side_conditions ex_allowed ex_store ([FObjType 2; FLen 256] ++ [FDate 105; FDate 99]) /\
  side_conditions ex_allowed ex_store [FDate 105; FDate 99].
Proof. split; [reflexivity|]. split; sc_tac. Qed.

(* ---------------------------------------------------------------- absent values never match *)

Definition everyone : obj -> bool := fun _ => true.

(* an algorithm/length filter does not match a certificate (it stores neither) and the request succeeds *)
Lemma cert_length_filter_no_match :
  locate_request ex_ver everyone [ex_cert 2 "bob" 100; ex_key 3 "alice" 101 128] [FLen 128] None None = Ok [3] /\
  locate_spec everyone [ex_cert 2 "bob" 100; ex_key 3 "alice" 101 128] [FLen 128] None None = [3].
Proof. vm_compute. split; reflexivity. Qed.

(* a filter on an attribute the server keeps no value for (e.g. Activation Date) matches nothing *)
Lemma unsupported_filter_matches_nothing :
  locate_request ex_ver everyone [ex_key 1 "alice" 100 128] [FOther "Activation Date"] None None = Ok [] /\
  locate_spec everyone [ex_key 1 "alice" 100 128] [FOther "Activation Date"] None None = [].
Proof. vm_compute. split; reflexivity. Qed.

(* a NULL column is an absent value *)
Lemma null_length_no_match :
  let o := mkObj 1 2 "alice" (Some "default") false 100 1 12 (Some 3) None 0 [] [] [] in
  locate_request ex_ver everyone [o] [FLen 128] None None = Ok [] /\ locate_spec everyone [o] [FLen 128] None None = [].
Proof. vm_compute. split; reflexivity. Qed.

(* the version gate: Sensitive is a KMIP 1.4 attribute; an unknown name is refused under every version *)
Lemma version_gate_examples :
  locate_request (1, 0) everyone [ex_key 1 "alice" 100 128] [FSensitive false] None None = Refused /\
  locate_request (1, 4) everyone [ex_key 1 "alice" 100 128] [FSensitive false] None None = Ok [1] /\
  locate_request (2, 0) everyone [ex_key 1 "alice" 100 128] [FOther "No Such Attribute"] None None = Refused /\
  locate_request (1, 0) everyone [ex_key 1 "alice" 100 128] [] None None = Ok [1].
Proof. vm_compute. repeat split. Qed.

(* ---------------------------------------------------------------- each remaining side condition is needed *)

(* stored_type: the rule table makes the usage mask applicable to templates (type 6), which are never
   stored and have no class carrying the field; for the seven stored types the table guarantees readability *)
Lemma template_mask_filter_crashes :
  let t := mkObj 1 6 "alice" (Some "default") false 100 0 0 None None 0 [] [] [] in
  locate_request ex_ver everyone [t] [FMask 4] None None = Crash.
Proof. vm_compute. reflexivity. Qed.

(* wf_idate: `if initial_date.get("value")` treats an Initial Date of 0 as absent, so date filters are
   ignored for an object created at the epoch (not reachable with a real clock) *)
Lemma epoch_date_filter_ignored :
  locate_request ex_ver everyone [ex_key 1 "alice" 0 128] [FDate 50] None None = Ok [1] /\
  locate_spec everyone [ex_key 1 "alice" 0 128] [FDate 50] None None = [].
Proof. vm_compute. split; reflexivity. Qed.

(* mask_ok: usage-mask bits outside enums.CryptographicUsageMask are dropped by
   get_enumerations_from_bit_mask before the comparison *)
Lemma undefined_mask_bits_ignored :
  locate_request ex_ver everyone [ex_key 1 "alice" 100 128] [FMask (4 + 2 ^ 30)] None None = Ok [1] /\
  locate_spec everyone [ex_key 1 "alice" 100 128] [FMask (4 + 2 ^ 30)] None None = [].
Proof. vm_compute. split; reflexivity. Qed.

(* wf_filters: a third Initial Date filter is refused - but only when some visible object reaches it *)
Lemma third_date_filter :
  locate_request ex_ver everyone [ex_key 1 "alice" 100 128] [FDate 1; FDate 2; FDate 3] None None = TooMany /\
  locate_request ex_ver everyone [] [FDate 1; FDate 2; FDate 3] None None = Ok [] /\
  locate_request ex_ver everyone [ex_key 1 "alice" 100 128] [FObjType 1; FDate 1; FDate 2; FDate 3] None None = Ok [].
Proof. vm_compute. repeat split. Qed.

(* hence the refinement does not hold without side conditions *)
Definition locate_refines_spec_unconditional : Prop :=
  forall ver allowed objs fs off mx, gate_ok ver fs = true -> nonneg off -> nonneg mx ->
    locate_request ver allowed objs fs off mx = Ok (locate_spec allowed objs fs off mx).

Lemma locate_refines_spec_unconditional_fails : ~ locate_refines_spec_unconditional.
Proof.
  intros H. specialize (H ex_ver everyone [ex_key 1 "alice" 0 128] [FDate 50] None None eq_refl I I).
  destruct epoch_date_filter_ignored as [E1 E2]. rewrite E1, E2 in H. discriminate.
Qed.

(* negative offset / maximum follow Python slice semantics (outside the theorems, inside the model) *)
Lemma negative_slices :
  page [1; 2; 3; 4; 5] (Some (-2)) None = [4; 5] /\ page [1; 2; 3; 4; 5] None (Some (-1)) = [1; 2; 3; 4] /\
  page [1; 2; 3; 4; 5] (Some 1) (Some (-3)) = [2; 3] /\ page [1; 2; 3; 4; 5] (Some (-4)) (Some 2) = [2; 3].
Proof. vm_compute. repeat split. Qed.
