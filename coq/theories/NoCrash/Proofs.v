(* C13 - proofs about NoCrash/Model.v: which internal-error sites each operation can reach. *)
From Coq Require Import ZArith List String Bool Lia.
From PKGen Require Import AttrRuleTable PieClasses.
From PK Require Import NoCrash.Model.
Import ListNotations.
Open Scope string_scope.
Open Scope list_scope.
Open Scope Z_scope.

(* the proofs must not depend on which defects the tree currently has: keep `simpl`/`cbn` from evaluating the flags *)
Arguments defect : simpl never.

(* ------------------------------------------------------------------ hypotheses of the theorems *)
(* every stored object is an instance of the class KmipEngine._object_map gives for its object type *)
Definition wf_sobj (o : sobj) : Prop := class_of (so_otype o) = Some (so_class o).
Definition wf_store (s : store) : Prop := Forall wf_sobj s.

(* requests the protocol allows: DeriveKey names at least one object; a registered secret is one of the
   library-constructible shapes the conversion table covers *)
Definition wf_item (it : item) : Prop :=
  match it with
  | IDeriveKey _ uids _ _ _ => uids <> []
  | IRegister _ (Some sec) _ => convert sec <> None /\ class_of (sec_otype sec) <> None
  | _ => True
  end.

(* the crypto engine either succeeds or raises a KmipError *)
Definition crypto_total (cr : cres) : Prop := cr = COk \/ cr = CKmip.
(* ... or raises whatever it raises, but was observed *)
Definition crypto_observed (cr : cres) : Prop := cr <> CNotCalled.

(* ------------------------------------------------------------------ the sites each operation may reach *)
Definition PS := "services/server/policy.py:".
Definition ES := "services/server/engine.py:".
(* a site is listed only while the code still has the defect (gen/PieClasses.defect_present / policy_unknown) *)
Definition active (n site : string) : list string := if defect n then [site] else [].
Definition pol (f : string) : list string :=
  match assoc_s f policy_unknown with Some (Some s) => [s] | _ => [] end.
(* the non-KMIP outcomes recorded in the generated conversion tables *)
Definition opt_sites (l : list (option string)) : list string :=
  flat_map (fun r => match r with Some s => if String.eqb s KMIP_ERROR then [] else [s] | None => [] end) l.
Definition convert_sites : list string :=
  opt_sites (map snd convert_key_table) ++ opt_sites (map snd convert_missing_table)
  ++ opt_sites (map snd convert_cert_table) ++ opt_sites (map snd convert_other_table).
Definition SET_ALG := (ES ++ "_set_attribute_on_managed_object:AttributeError(cryptographic_algorithm)")%string.
Definition SET_LEN := (ES ++ "_set_attribute_on_managed_object:AttributeError(cryptographic_length)")%string.

Definition op_sites (op : string) : list string :=
  if String.eqb op "REGISTER" then
    convert_sites
    ++ active "set-attribute-missing-field" SET_ALG ++ active "set-attribute-missing-field" SET_LEN
    ++ active "register-bigint-overflow" OVERFLOW_SITE
  else if String.eqb op "DERIVE_KEY" then
    active "derive-no-parameters" (ES ++ "_process_derive_key:AttributeError(hashing_algorithm)")%string
  else if String.eqb op "LOCATE" then
    pol "is_attribute_applicable_to_object_type"
    ++ active "get-attribute-missing-field" (ES ++ "_get_attribute_from_managed_object:AttributeError(cryptographic_algorithm)")%string
    ++ active "get-attribute-missing-field" (ES ++ "_get_attribute_from_managed_object:AttributeError(cryptographic_length)")%string
  else if String.eqb op "GET" then
    active "get-wrap-no-parameters" (ES ++ "_process_get:AttributeError(block_cipher_mode)")%string
    ++ active "get-wrap-non-key" (ES ++ "_process_get:AttributeError(key_block)")%string
  else if String.eqb op "GET_ATTRIBUTES" then
    active "get-attributes-empty-response" "core/messages/payloads/get_attributes.py:write:InvalidField"
  else if String.eqb op "MAC" then active "mac-stateless-object" (ES ++ "_process_mac:AttributeError(state)")%string
  else if String.eqb op "SET_ATTRIBUTE" then pol "is_attribute_multivalued"
  else if String.eqb op "MODIFY_ATTRIBUTE" then
    pol "is_attribute_modifiable_by_client"
    ++ active "modify-unsupported-multivalued" (ES ++ "_process_modify_attribute:TypeError")%string
  else if String.eqb op "DELETE_ATTRIBUTE" then
    pol "is_attribute_applicable_to_object_type"
    ++ active "delete-current-name" (ES ++ "_delete_attribute_from_managed_object:AttributeError(value)")%string
  else [].

(* "every Crash of o is at a site satisfying P" *)
Definition sites_ok (P : string -> Prop) (o : outcome) : Prop :=
  match o with Crash s => P s | _ => True end.

Definition allowed (op : string) (cr : cres) (site : string) : Prop :=
  mem_s site (op_sites op) = true \/ cr = CExc site.

(* ------------------------------------------------------------------ combinator lemmas *)
Lemma ok_rd : forall (P : string -> Prop) func cls f k,
  (has_field cls f = false -> P (attr_err ENGINE func f)) -> sites_ok P k -> sites_ok P (rd func cls f k).
Proof. intros. unfold rd. destruct (has_field cls f); simpl; auto. Qed.

Lemma ok_rd_present : forall (P : string -> Prop) func cls f k,
  has_field cls f = true -> sites_ok P k -> sites_ok P (rd func cls f k).
Proof. intros. unfold rd. rewrite H. auto. Qed.

Lemma ok_rd_or : forall (P : string -> Prop) n func cls f k k',
  (has_field cls f = false -> defect n = true -> P (attr_err ENGINE func f)) -> sites_ok P k -> sites_ok P k' ->
  sites_ok P (rd_or n func cls f k k').
Proof. intros. unfold rd_or. destruct (has_field cls f); auto. destruct (defect n) eqn:E; simpl; auto. Qed.

Lemma ok_rd_get1 : forall (P : string -> Prop) cls f k k',
  (has_field cls f = false ->
   defect "get-attribute-missing-field" || negb (String.eqb f "cryptographic_algorithm" || String.eqb f "cryptographic_length") = true ->
   P (attr_err ENGINE "_get_attribute_from_managed_object" f)) ->
  sites_ok P k -> sites_ok P k' -> sites_ok P (rd_get1 cls f k k').
Proof. intros. unfold rd_get1. destruct (has_field cls f); auto.
  destruct (defect "get-attribute-missing-field" || negb (String.eqb f "cryptographic_algorithm" || String.eqb f "cryptographic_length")) eqn:E; simpl; auto. Qed.

Lemma ok_unguarded : forall (P : string -> Prop) n site, (defect n = true -> P site) -> sites_ok P (unguarded n site).
Proof. intros. unfold unguarded. destruct (defect n) eqn:E; simpl; auto. Qed.

Lemma ok_crypto : forall op cr k, crypto_observed cr -> sites_ok (allowed op cr) k -> sites_ok (allowed op cr) (crypto cr k).
Proof. intros op cr k Hc Hk. unfold crypto. destruct cr; simpl; auto. - congruence. - right; reflexivity. Qed.

Lemma q_some : forall fname proj name k r, find_rule name = Some r -> q fname proj name k = k (proj r).
Proof. intros. unfold q. rewrite H. reflexivity. Qed.

Lemma ok_q : forall (P : string -> Prop) fname proj name k,
  (forall site, find_rule name = None -> assoc_s fname policy_unknown = Some (Some site) -> P site) ->
  (forall b, sites_ok P (k b)) -> sites_ok P (q fname proj name k).
Proof. intros. unfold q. destruct (find_rule name) eqn:E; auto.
  destruct (assoc_s fname policy_unknown) as [[site|]|] eqn:E2; simpl; auto. Qed.

Lemma find_rule_in : forall n r, find_rule n = Some r -> In r attr_rule_table /\ ar_name r = n.
Proof. unfold find_rule. intros n r H. apply find_some in H. destruct H as [H1 H2]. split; auto. apply String.eqb_eq; auto. Qed.

Lemma supported_has_rule : forall v n, q_supported v n = true -> exists r, find_rule n = Some r.
Proof. unfold q_supported. intros v n H. destruct (find_rule n) eqn:E; eauto. discriminate. Qed.

(* ------------------------------------------------------------------ stored classes *)
Lemma wf_cases : forall o, wf_sobj o ->
  (so_otype o = 1 /\ so_class o = "X509Certificate") \/ (so_otype o = 2 /\ so_class o = "SymmetricKey") \/
  (so_otype o = 3 /\ so_class o = "PublicKey") \/ (so_otype o = 4 /\ so_class o = "PrivateKey") \/
  (so_otype o = 5 /\ so_class o = "SplitKey") \/ (so_otype o = 7 /\ so_class o = "SecretData") \/
  (so_otype o = 8 /\ so_class o = "OpaqueObject").
Proof.
  intros o H. unfold wf_sobj, class_of in H. unfold object_map in H. simpl in H.
  repeat match type of H with
         | context[if ?a =? ?b then _ else _] => destruct (Z.eqb_spec a b)
         end; try discriminate; inversion H; subst; tauto.
Qed.

Ltac otype_cases o Hwf :=
  let H := fresh "H" in let Hot := fresh "Hot" in let Hcl := fresh "Hcl" in
  destruct (wf_cases o Hwf) as [H|[H|[H|[H|[H|[H|H]]]]]]; destruct H as [Hot Hcl]; rewrite ?Hot, ?Hcl in *.

Lemma find_obj_in : forall s u o, find_obj s u = Some o -> In o s.
Proof. induction s as [|a s IH]; simpl; intros u o H; try discriminate.
  destruct (so_uid a =? u). - inversion H; auto. - right; eauto. Qed.

Lemma lookup_wf : forall s u o, wf_store s -> lookup s u = Found o -> wf_sobj o.
Proof.
  intros s u o Hs H. unfold lookup in H. destruct u as [u|]; try discriminate.
  destruct (find_obj s u) as [o'|] eqn:E; try discriminate.
  destruct (so_allowed o'); try discriminate. inversion H; subst.
  apply find_obj_in in E. unfold wf_store in Hs. rewrite Forall_forall in Hs. auto.
Qed.

Lemma ok_with_obj : forall (P : string -> Prop) s u k, wf_store s -> (forall o, wf_sobj o -> sites_ok P (k o)) -> sites_ok P (with_obj s u k).
Proof. intros. unfold with_obj. destruct (lookup s u) eqn:E; simpl; auto. apply H0. eapply lookup_wf; eauto. Qed.

(* solving the terminal goals *)
(* a crash site is allowed: either the flag hypothesis that made it reachable is false on this tree, or the site is listed *)
Ltac site_ok :=
  first [ solve [ match goal with H : defect _ = true |- _ => vm_compute in H; discriminate H end ]
        | solve [ match goal with H : (_ || _)%bool = true |- _ => vm_compute in H; discriminate H end ]
        | left; vm_compute; reflexivity ].
Ltac in_sites := first [ site_ok | right; reflexivity ].
Ltac absurd_field := let H := fresh in intro H; vm_compute in H; discriminate H.

(* ------------------------------------------------------------------ _process_template_attribute *)
Definition keys_known (d : tdict) : Prop := Forall (fun p => exists r, find_rule (fst p) = Some r) d.

Lemma td_set_known : forall d n v r, keys_known d -> find_rule n = Some r -> keys_known (td_set d n v).
Proof.
  induction d as [|[k x] d IH]; simpl; intros.
  - constructor; [simpl; eauto | constructor].
  - inversion H; subst. destruct (String.eqb k n) eqn:E.
    + constructor; auto.
    + constructor; auto. eapply IH; eauto.
Qed.

Lemma proc_attrs_ok : forall v l d, keys_known d ->
  match proc_attrs v l d with inl d' => keys_known d' | inr o => o = Done end.
Proof.
  induction l as [|a l IH]; simpl; intros d Hd; auto.
  destruct (q_supported v (a_name a)) eqn:Es; simpl; auto.
  destruct (find_rule (a_name a)) as [r|] eqn:Er; auto.
  destruct (ar_multivalued r).
  - destruct (a_index a); [|destruct (match td_get d (a_name a) with Some x => x | None => [] end)]; auto;
      apply IH; eapply td_set_known; eauto.
  - destruct (a_index a) as [i|].
    + destruct (negb (i =? 0)); auto. destruct (td_get d (a_name a)); auto. apply IH; eapply td_set_known; eauto.
    + destruct (td_get d (a_name a)); auto. apply IH; eapply td_set_known; eauto.
Qed.

Lemma proc_template_ok : forall v ta,
  match proc_template v ta with inl d => keys_known d | inr o => o = Done end.
Proof.
  intros. unfold proc_template. destruct ta as [t|]. 2: constructor.
  destruct (ta_names t); auto. apply proc_attrs_ok. constructor.
Qed.

Lemma td_merge_known : forall c o, keys_known c -> keys_known o -> keys_known (td_merge c o).
Proof.
  induction c as [|[k v] c IH]; simpl; intros; auto. inversion H; subst. apply IH; auto.
  destruct (td_get o k); auto. apply Forall_app; split; auto.
Qed.

Lemma filter_known : forall f d, keys_known d -> keys_known (filter f d).
Proof. intros f d H. unfold keys_known in *. rewrite Forall_forall in *. intros x Hx. apply filter_In in Hx. apply H. tauto. Qed.

(* ------------------------------------------------------------------ _set_attribute(s)_on_managed_object *)
Definition pair_ok (otype : Z) (cls : string) : Prop := class_of otype = Some cls.

Lemma pair_cases : forall otype cls, pair_ok otype cls ->
  (otype = 1 /\ cls = "X509Certificate") \/ (otype = 2 /\ cls = "SymmetricKey") \/
  (otype = 3 /\ cls = "PublicKey") \/ (otype = 4 /\ cls = "PrivateKey") \/
  (otype = 5 /\ cls = "SplitKey") \/ (otype = 7 /\ cls = "SecretData") \/ (otype = 8 /\ cls = "OpaqueObject").
Proof.
  intros otype cls H. unfold pair_ok, class_of, object_map in H. simpl in H.
  repeat match type of H with
         | context[if ?a =? ?b then _ else _] => destruct (Z.eqb_spec a b)
         end; try discriminate; inversion H; subst; tauto.
Qed.

(* writing attribute n on an object of class cls can only fail internally for a certificate's algorithm / length *)
Definition Pset (cls n site : string) : Prop :=
  defect "set-attribute-missing-field" = true /\
  cls = "X509Certificate" /\ ((n = "Cryptographic Algorithm" /\ site = SET_ALG) \/ (n = "Cryptographic Length" /\ site = SET_LEN)).

Ltac field_compute :=
  repeat match goal with
         | |- context[has_field ?c ?f] =>
             let b := eval vm_compute in (has_field c f) in
             replace (has_field c f) with b by (vm_compute; reflexivity)
         end.

Ltac name_literal n H :=
  (* H : (if String.eqb n "A" then Some .. else if ...) = Some f : finds the literal n equals *)
  repeat match type of H with
         | context[String.eqb n ?lit] =>
             let E := fresh "E" in destruct (String.eqb n lit) eqn:E;
             [apply String.eqb_eq in E; subst n | ]
         end.

Ltac multi_branch n :=
  destruct (String.eqb n "Name") eqn:?;
  [ unfold rd; field_compute; cbv iota; destruct (has_dup _); simpl; auto
  | destruct (String.eqb n "Application Specific Information") eqn:?;
    [ unfold rd; field_compute; cbv iota; simpl; auto
    | destruct (String.eqb n "Object Group") eqn:?; [unfold rd; field_compute; cbv iota; simpl; auto | simpl; auto]]].

Ltac pair_split Hp :=
  let H := fresh "H" in
  destruct (pair_cases _ _ Hp) as [H|[H|[H|[H|[H|[H|H]]]]]]; destruct H as [Ho Hc].

Lemma set_attribute_sites : forall t n r vals,
  pair_ok (t_otype t) (t_cls t) -> find_rule n = Some r -> mem_z (t_otype t) (ar_object_types r) = true ->
  match set_attribute t n vals with
  | inl t' => t_cls t' = t_cls t /\ t_otype t' = t_otype t
  | inr o => sites_ok (Pset (t_cls t) n) o
  end.
Proof.
  intros t n r vals Hp Hr Happ.
  unfold set_attribute, q_multivalued. rewrite (q_some _ _ _ _ _ Hr).
  destruct (ar_multivalued r).
  - pair_split Hp; rewrite Hc; multi_branch n.
  - destruct (set_field n) as [f|] eqn:Ef; [|simpl; auto]. destruct vals as [|a vals]; [simpl; auto|].
    unfold set_field in Ef.
    name_literal n Ef; try discriminate; inversion Ef; subst f; vm_compute in Hr; inversion Hr; subst r; clear Hr Ef;
      pair_split Hp; rewrite Ho in Happ; try (vm_compute in Happ; discriminate Happ);
      rewrite Hc; unfold rd_or; field_compute; cbv iota;
      try (destruct (defect "set-attribute-missing-field") eqn:Hd; simpl; auto; unfold Pset; split; auto; fail);
      match goal with |- context[if ?c then Done else Go] => destruct c end; simpl; auto.
Qed.

Definition Pset_d (cls site : string) : Prop := exists n, Pset cls n site.

Lemma sites_ok_impl : forall (P Q : string -> Prop) o, (forall s, P s -> Q s) -> sites_ok P o -> sites_ok Q o.
Proof. intros P Q o H. destruct o; simpl; auto. Qed.

Lemma set_attributes_sites : forall d t, pair_ok (t_otype t) (t_cls t) -> keys_known d ->
  sites_ok (Pset_d (t_cls t)) (set_attributes t d).
Proof.
  induction d as [|[n vals] d IH]; intros t Hp Hd; simpl; auto.
  inversion Hd as [|? ? [r Hr] Hd']; subst. simpl in Hr. unfold q_applicable. rewrite (q_some _ _ _ _ _ Hr).
  destruct (mem_z (t_otype t) (ar_object_types r)) eqn:Happ; simpl; auto.
  pose proof (set_attribute_sites t n r vals Hp Hr Happ) as H. destruct (set_attribute t n vals) as [t'|o].
  - destruct H as [H1 H2]. rewrite <- H1. apply IH; auto. rewrite H1, H2; auto.
  - eapply sites_ok_impl; [|exact H]. intros s Hs. exists n; auto.
Qed.

Lemma set_attributes_not_cert : forall op cr d t, pair_ok (t_otype t) (t_cls t) -> keys_known d ->
  t_cls t <> "X509Certificate" -> sites_ok (allowed op cr) (set_attributes t d).
Proof.
  intros. eapply sites_ok_impl; [|apply set_attributes_sites; auto].
  intros s [n [_ [Hc _]]]. contradiction.
Qed.

Ltac crunch :=
  repeat match goal with
         | |- sites_ok _ (match ?x with _ => _ end) => destruct x; simpl; auto
         | |- sites_ok _ (if ?c then _ else _) => destruct c; simpl; auto
         end.

(* ------------------------------------------------------------------ handlers *)
Lemma ok_h_create : forall v cr otype ta, crypto_observed cr -> sites_ok (allowed "CREATE" cr) (h_create v cr otype ta).
Proof.
  intros. unfold h_create. destruct (negb (otype =? OT_SYMMETRIC_KEY)); simpl; auto.
  pose proof (proc_template_ok v ta) as Hd. destruct (proc_template v ta) as [d|o]; [|subst; simpl; auto].
  crunch. apply ok_crypto; auto. apply set_attributes_not_cert; auto. - reflexivity. - discriminate.
Qed.

Lemma ok_h_create_key_pair : forall v cr c pr pu, crypto_observed cr ->
  sites_ok (allowed "CREATE_KEY_PAIR" cr) (h_create_key_pair v cr c pr pu).
Proof.
  intros. unfold h_create_key_pair.
  pose proof (proc_template_ok v pu) as H1. destruct (proc_template v pu) as [d1|o]; [|subst; simpl; auto].
  pose proof (proc_template_ok v pr) as H2. destruct (proc_template v pr) as [d2|o]; [|subst; simpl; auto].
  pose proof (proc_template_ok v c) as H3. destruct (proc_template v c) as [d3|o]; [|subst; simpl; auto].
  crunch. apply ok_crypto; auto.
  match goal with |- sites_ok _ (match ?x with _ => _ end) =>
    assert (Hx : sites_ok (allowed "CREATE_KEY_PAIR" cr) x) by
      (apply set_attributes_not_cert; [reflexivity | apply td_merge_known; auto | discriminate]);
    destruct x; simpl; auto end.
  apply set_attributes_not_cert; [reflexivity | apply td_merge_known; auto | discriminate].
Qed.

(* ---- Register *)

Lemma assoc_key_in : forall k l r, assoc_key k l = Some r -> In r (map snd l).
Proof.
  induction l as [|[[[[a b] c] d] x] l IH]; simpl; intros r H; try discriminate.
  destruct k as [[[a' b'] c'] d']. destruct ((a =? a') && (b =? b') && Bool.eqb c c' && (d =? d')).
  - inversion H; auto. - right; auto.
Qed.
Lemma assoc_z_in : forall A k (l : list (Z * A)) r, assoc_z k l = Some r -> In r (map snd l).
Proof. induction l as [|[a x] l IH]; simpl; intros r H; try discriminate. destruct (k =? a). - inversion H; auto. - right; auto. Qed.
Lemma assoc_zz_in : forall A k (l : list ((Z * Z) * A)) r, assoc_zz k l = Some r -> In r (map snd l).
Proof. induction l as [|[[a b] x] l IH]; simpl; intros r H; try discriminate.
  destruct ((a =? fst k) && (b =? snd k)). - inversion H; auto. - right; auto. Qed.

Lemma opt_sites_in : forall l site, In (Some site) l -> String.eqb site KMIP_ERROR = false -> mem_s site (opt_sites l) = true.
Proof.
  intros l site H E. unfold mem_s. apply existsb_exists. exists site. split; [|apply String.eqb_refl].
  unfold opt_sites. apply in_flat_map. exists (Some site). split; auto. rewrite E. left; reflexivity.
Qed.

Lemma convert_site_in : forall sec site, convert sec = Some (Some site) -> String.eqb site KMIP_ERROR = false ->
  mem_s site convert_sites = true.
Proof.
  intros sec site H E. unfold convert_sites, mem_s. rewrite !existsb_app.
  destruct sec; unfold convert in H.
  - destruct (missing =? 0).
    + apply assoc_key_in in H. pose proof (opt_sites_in _ _ H E) as K. unfold mem_s in K. rewrite K. reflexivity.
    + apply assoc_zz_in in H. pose proof (opt_sites_in _ _ H E) as K. unfold mem_s in K. rewrite K. rewrite orb_true_r. reflexivity.
  - apply assoc_z_in in H. pose proof (opt_sites_in _ _ H E) as K. unfold mem_s in K. rewrite K. rewrite !orb_true_r. reflexivity.
  - apply assoc_z_in in H. pose proof (opt_sites_in _ _ H E) as K. unfold mem_s in K. rewrite K. rewrite !orb_true_r. reflexivity.
Qed.

Lemma mem_register : forall site, mem_s site convert_sites = true -> mem_s site (op_sites "REGISTER") = true.
Proof.
  intros site H.
  replace (op_sites "REGISTER") with
    (convert_sites ++ active "set-attribute-missing-field" SET_ALG ++ active "set-attribute-missing-field" SET_LEN
     ++ active "register-bigint-overflow" OVERFLOW_SITE) by reflexivity.
  unfold mem_s in *. rewrite existsb_app. rewrite H. reflexivity.
Qed.

Lemma class_of_pair : forall otype cls, class_of otype = Some cls -> pair_ok otype cls.
Proof. auto. Qed.

Lemma ok_h_register : forall v cr otype sec ta, wf_item (IRegister otype sec ta) ->
  sites_ok (allowed "REGISTER" cr) (h_register v otype sec ta).
Proof.
  intros v cr otype sec ta Hwf. unfold h_register. destruct (class_of otype); [|exact I].
  destruct sec as [sec|]; [|exact I]. cbn [wf_item] in Hwf. destruct Hwf as [Hc Hcl].
  pose proof (proc_template_ok v ta) as Hd. destruct (proc_template v ta) as [d|o]; [|subst; exact I].
  destruct (convert sec) as [[site|]|] eqn:Ec; try contradiction.
  - destruct (String.eqb site KMIP_ERROR) eqn:Ek; [exact I|]. cbn [sites_ok]. left. apply mem_register. eapply convert_site_in; eauto.
  - destruct (sec_big sec && negb (defect "register-bigint-overflow")) eqn:Eb; [exact I|].
    destruct (class_of (sec_otype sec)) as [cls|] eqn:Ecl; try contradiction.
    assert (Hs : forall t, t_cls t = cls -> t_otype t = sec_otype sec -> sites_ok (allowed "REGISTER" cr) (set_attributes t d)).
    { intros t H1 H2. eapply sites_ok_impl; [|apply set_attributes_sites; auto].
      - intros s0 [n [Hdf [_ [[_ Hs0]|[_ Hs0]]]]]; subst s0; site_ok.
      - unfold pair_ok. rewrite H1, H2. auto. }
    assert (Hov : sec_big sec = true -> allowed "REGISTER" cr OVERFLOW_SITE).
    { intro Hb. rewrite Hb in Eb. rewrite andb_true_l in Eb. apply negb_false_iff in Eb. site_ok. }
    destruct sec; cbv zeta beta iota;
      match goal with |- sites_ok _ (match set_attributes ?t d with _ => _ end) =>
        pose proof (Hs t eq_refl eq_refl) as K; destruct (set_attributes t d); simpl; auto end;
      match goal with |- sites_ok _ (if ?b then _ else _) => destruct b eqn:Eb2; simpl; auto end.
Qed.

(* ---- the handlers that only read attributes every stored class has *)
Ltac rd_present := apply ok_rd_present; [vm_compute; reflexivity|].

Lemma ok_h_activate : forall op cr s u, wf_store s -> sites_ok (allowed op cr) (h_activate s u).
Proof. intros. unfold h_activate. apply ok_with_obj; auto. intros o Ho. otype_cases o Ho; rd_present; crunch. Qed.
Lemma ok_h_revoke : forall op cr s u c, wf_store s -> sites_ok (allowed op cr) (h_revoke s u c).
Proof. intros. unfold h_revoke. destruct c; simpl; auto. apply ok_with_obj; auto. intros o Ho. otype_cases o Ho; rd_present; crunch. Qed.
Lemma ok_h_destroy : forall op cr s u, wf_store s -> sites_ok (allowed op cr) (h_destroy s u).
Proof. intros. unfold h_destroy. apply ok_with_obj; auto. intros o Ho. crunch. Qed.

Lemma ok_h_crypto_op : forall op cr func want bit s u p, wf_store s -> crypto_observed cr ->
  (want = OT_SYMMETRIC_KEY \/ want = OT_PRIVATE_KEY \/ want = OT_PUBLIC_KEY) ->
  sites_ok (allowed op cr) (h_crypto_op func want bit s cr u p).
Proof.
  intros op cr func want bit s u p Hs Hc Hw. unfold h_crypto_op. apply ok_with_obj; auto. intros o Ho.
  destruct (negb p); simpl; auto.
  otype_cases o Ho; rd_present;
    (destruct Hw as [Hw|[Hw|Hw]]; subst want; vm_compute (negb (_ =? _)); cbv iota; simpl; auto);
    rd_present; crunch; rd_present; crunch; rd_present; apply ok_crypto; simpl; auto.
Qed.

(* ---- MAC *)
Ltac finish := simpl; auto; try (apply ok_crypto; simpl; auto); try site_ok.
Ltac crunch2 :=
  repeat match goal with
         | |- sites_ok _ (if defect ?n then _ else _) => let Hd := fresh "Hd" in destruct (defect n) eqn:Hd
         | |- sites_ok _ (match (match ?y with _ => _ end) with _ => _ end) => destruct y
         | |- sites_ok _ (match (if ?y then _ else _) with _ => _ end) => destruct y
         | |- sites_ok _ (match ?x with _ => _ end) => destruct x
         | |- sites_ok _ (if ?c then _ else _) => destruct c
         end; finish.

Lemma ok_h_mac : forall cr s u a d, wf_store s -> crypto_observed cr -> sites_ok (allowed "MAC" cr) (h_mac s cr u a d).
Proof.
  intros cr s u a d Hs Hc. unfold h_mac. apply ok_with_obj; auto. intros o Ho.
  otype_cases o Ho; unfold rd, rd_or; field_compute; cbv iota;
    replace (assoc_s _ class_is_key) with (assoc_s (so_class o) class_is_key) by (rewrite Hcl; reflexivity);
    rewrite Hcl; match goal with |- context[assoc_s ?c class_is_key] =>
      let b := eval vm_compute in (assoc_s c class_is_key) in replace (assoc_s c class_is_key) with b by (vm_compute; reflexivity) end;
    cbv iota; destruct a; crunch2.
Qed.

(* ---- computing closed sub-terms *)
Ltac compute_eqb :=
  repeat match goal with
         | |- context[Z.eqb ?a ?b] =>
             let r := eval vm_compute in (Z.eqb a b) in
             match r with
             | true => change (Z.eqb a b) with true
             | false => change (Z.eqb a b) with false
             end
         end;
  repeat match goal with
         | |- context[mem_z ?a ?l] =>
             let r := eval vm_compute in (mem_z a l) in
             match r with
             | true => change (mem_z a l) with true
             | false => change (mem_z a l) with false
             end
         end;
  cbv [negb]; cbv iota.
Ltac compute_fields :=
  repeat match goal with
         | |- context[build_core_fields ?a] =>
             let r := eval vm_compute in (build_core_fields a) in change (build_core_fields a) with r
         end;
  repeat match goal with
         | |- context[assoc_z ?a core_has_key_block] =>
             let r := eval vm_compute in (assoc_z a core_has_key_block) in change (assoc_z a core_has_key_block) with r
         end;
  unfold rd_all, rd, rd_or, unguarded; field_compute; cbv iota.

(* ---- Get *)
Lemma ok_h_get : forall cr s u kft comp w, wf_store s -> crypto_observed cr ->
  sites_ok (allowed "GET" cr) (h_get s cr u kft comp w).
Proof.
  intros cr s u kft comp w Hs Hc. unfold h_get. destruct comp; simpl; auto. apply ok_with_obj; auto. intros o Ho.
  unfold build_core.
  destruct w as [w|];
    [ destruct (w_eki w) as [[ku kp]|];
      [ destruct (lookup s ku) as [| |k] eqn:Ek; [ | | pose proof (lookup_wf _ _ _ Hs Ek) as Hk; otype_cases k Hk ] | ] | ];
    otype_cases o Ho; compute_fields; compute_eqb;
    destruct (defect "get-wrap-non-key") eqn:Hdk; cbv [negb andb]; cbv iota; crunch2.
Qed.

(* ---- GetAttributes / GetAttributeList *)
Lemma attrs_listed_total : forall v o n, exists k, attrs_listed v o n = inr k.
Proof.
  intros v o n. unfold attrs_listed. destruct (q_supported v n) eqn:E; simpl; eauto.
  destruct (supported_has_rule _ _ E) as [r Hr].
  unfold q_deprecated, q_applicable. rewrite !(q_some _ _ _ _ _ Hr).
  destruct (match ar_version_deprecated r with Some d => ver_ge v d | None => false end); eauto.
  destruct (mem_z (so_otype o) (ar_object_types r)); eauto.
  destruct (attr_field n); eauto. destruct (has_field (so_class o) s); eauto. destruct (attr_list_len o n); eauto.
Qed.

Lemma get_attrs_count_total : forall v o names, exists k, get_attrs_count v o names = inr k.
Proof.
  induction names as [|n t IH]; simpl; eauto.
  destruct (attrs_listed_total v o n) as [k Hk]. rewrite Hk. destruct IH as [m Hm]. rewrite Hm. eauto.
Qed.

Lemma ok_h_get_attributes : forall cr v s u names il, wf_store s ->
  sites_ok (allowed "GET_ATTRIBUTES" cr) (h_get_attributes v s u names il).
Proof.
  intros. unfold h_get_attributes. apply ok_with_obj; auto. intros o Ho.
  destruct (get_attrs_count_total v o (match names with [] => all_attribute_names | _ => names end)) as [k Hk]. rewrite Hk.
  otype_cases o Ho; rd_present; unfold unguarded; crunch2.
Qed.

Lemma ok_h_get_attribute_list : forall op cr v s u, wf_store s ->
  sites_ok (allowed op cr) (h_get_attributes v s u [] true).
Proof.
  intros. unfold h_get_attributes. apply ok_with_obj; auto. intros o Ho.
  destruct (get_attrs_count_total v o all_attribute_names) as [k Hk]. simpl negb. cbv iota. rewrite Hk.
  otype_cases o Ho; rd_present; simpl; auto.
Qed.

(* ---- DeriveKey *)
Lemma derive_objects_ok : forall s uids, wf_store s ->
  match derive_objects s uids with
  | inl c => c = Done
  | inr l => Forall wf_sobj l /\ (uids <> [] -> l <> [])
  end.
Proof.
  intros s uids Hs. induction uids as [|u t IH]; cbn [derive_objects].
  - split; [constructor | congruence].
  - destruct (lookup s (Some u)) as [| |o] eqn:E; [exact eq_refl | exact eq_refl | ].
    pose proof (lookup_wf _ _ _ Hs E) as Ho.
    otype_cases o Ho; unfold rd; field_compute; cbv iota; compute_eqb; auto;
      destruct (has_bit (so_mask o) UM_DERIVE_KEY); cbv iota; auto;
      destruct (derive_objects s t) as [c|l]; auto; destruct IH as [IH1 IH2]; (split; [constructor; auto | discriminate]).
Qed.

Ltac walk :=
  repeat match goal with
         | |- sites_ok _ (if defect ?n then _ else _) => let Hd := fresh "Hd" in destruct (defect n) eqn:Hd
         | |- sites_ok _ (match (match ?y with _ => _ end) with _ => _ end) => destruct y
         | |- sites_ok _ (match (if ?y then _ else _) with _ => _ end) => destruct y
         | |- sites_ok _ (match ?x with _ => _ end) => destruct x
         | |- sites_ok _ (if ?c then _ else _) => destruct c
         | |- sites_ok _ (crypto _ _) => apply ok_crypto; [assumption|]
         | |- sites_ok _ (set_attributes _ _) =>
             apply set_attributes_not_cert; [reflexivity | first [assumption | apply filter_known; assumption] | discriminate]
         | |- sites_ok _ (Crash _) => simpl; site_ok
         | |- sites_ok _ Done => exact I
         | |- sites_ok _ Go => exact I
         end.

Lemma ok_h_derive_key : forall v s cr otype uids hd hp ta, wf_store s -> crypto_observed cr -> uids <> [] ->
  sites_ok (allowed "DERIVE_KEY" cr) (h_derive_key v s cr otype uids hd hp ta).
Proof.
  intros v s cr otype uids hd hp ta Hs Hc Hu. unfold h_derive_key.
  pose proof (proc_template_ok v ta) as Hd. destruct (proc_template v ta) as [d|o]; [|subst; simpl; auto].
  destruct (negb (mem_z otype [OT_SYMMETRIC_KEY; OT_SECRET_DATA])); simpl; auto.
  pose proof (derive_objects_ok s uids Hs) as Hl. destruct (derive_objects s uids) as [c|l]; [subst; simpl; auto|].
  destruct Hl as [Hl1 Hl2]. destruct l as [|k0 others]; [exfalso; apply Hl2; auto|].
  inversion Hl1 as [|? ? Hk0 ?]; subst.
  otype_cases k0 Hk0; unfold rd, unguarded; field_compute; cbv iota; walk.
Qed.

(* ---- Locate *)
Lemma get1_field_ok : forall o n r f, wf_sobj o -> find_rule n = Some r ->
  mem_z (so_otype o) (ar_object_types r) = true -> attr_field n = Some f -> has_field (so_class o) f = false ->
  f = "cryptographic_algorithm" \/ f = "cryptographic_length".
Proof.
  intros o n r f Ho Hr Happ Ef Hf. unfold attr_field in Ef.
  name_literal n Ef; try discriminate; inversion Ef; subst f; vm_compute in Hr; inversion Hr; subst r; clear Hr Ef;
    otype_cases o Ho; try (vm_compute in Happ; discriminate Happ); try (vm_compute in Hf; discriminate Hf); auto.
Qed.

Lemma policy_site_allowed : forall op cr fname site,
  assoc_s fname policy_unknown = Some (Some site) -> mem_s site (op_sites op) = true -> allowed op cr site.
Proof. intros. left. auto. Qed.

Lemma ok_loc_object : forall cr o l dates, wf_sobj o -> sites_ok (allowed "LOCATE" cr) (loc_object o l dates).
Proof.
  intros cr o l. induction l as [|a t IH]; intros dates Ho; cbn [loc_object]. - exact I.
  - destruct (find_rule (a_name a)) as [r|] eqn:Hr.
    + unfold q_applicable. rewrite (q_some _ _ _ _ _ Hr).
      destruct (mem_z (so_otype o) (ar_object_types r)) eqn:Happ; cbn [negb]; cbv iota; [|exact I].
      destruct (attr_field (a_name a)) as [f|] eqn:Ef; [|exact I].
      apply ok_rd_get1.
      * intros Hf Hd. destruct (get1_field_ok _ _ _ _ Ho Hr Happ Ef Hf); subst f;
          (destruct (defect "get-attribute-missing-field") eqn:Hd'; [site_ok | vm_compute in Hd; discriminate Hd]).
      * destruct (String.eqb (a_name a) "Initial Date"). { destruct (2 <=? dates)%nat; simpl; auto. }
        destruct (loc_match o a); simpl; auto.
      * exact I.
    + unfold q_applicable, q. rewrite Hr.
      destruct (assoc_s "is_attribute_applicable_to_object_type" policy_unknown) as [[site|]|] eqn:Ep; cbn [negb]; cbv iota; try exact I.
      vm_compute in Ep. first [ discriminate Ep | inversion Ep; subst site; simpl; site_ok ].
Qed.

Lemma ok_h_locate : forall cr v s l, wf_store s -> sites_ok (allowed "LOCATE" cr) (h_locate v s l).
Proof.
  intros cr v s l Hs. unfold h_locate. destruct l as [|a l]; [exact I|].
  destruct (existsb (fun a0 => negb (q_supported v (a_name a0))) (a :: l)); [exact I|].
  induction s as [|o s IH]; cbn [loc_store]. - exact I.
  - inversion Hs; subst. destruct (so_allowed o); auto.
    pose proof (ok_loc_object cr o (a :: l) 0%nat H1) as Ho.
    destruct (loc_object o (a :: l) 0); auto.
Qed.

(* ---- attribute operations *)
Ltac policy_compute :=
  repeat match goal with
         | |- context[assoc_s ?f policy_unknown] =>
             let b := eval vm_compute in (assoc_s f policy_unknown) in change (assoc_s f policy_unknown) with b
         end; cbv iota.

Lemma ok_delete_from : forall cr o name value, wf_sobj o -> sites_ok (allowed "DELETE_ATTRIBUTE" cr) (delete_from o name value).
Proof.
  intros cr o name value Ho. unfold delete_from.
  destruct (find_rule name) as [r|] eqn:Hr.
  - unfold q_applicable, q_deletable, q_multivalued. rewrite !(q_some _ _ _ _ _ Hr).
    otype_cases o Ho; unfold rd, unguarded; field_compute; cbv iota; walk.
  - unfold q_applicable, q_deletable, q_multivalued, q. rewrite Hr. policy_compute.
    otype_cases o Ho; unfold rd, unguarded; field_compute; cbv iota; simpl; walk; try exact I; try site_ok.
Qed.

Lemma ok_h_delete1 : forall cr v s u n i, wf_store s -> sites_ok (allowed "DELETE_ATTRIBUTE" cr) (h_delete1 v s u n i).
Proof.
  intros. unfold h_delete1. apply ok_with_obj; auto. intros o Ho.
  destruct (String.eqb n ""); simpl; auto.
  destruct (attrs_listed_total v o n) as [k Hk]. rewrite Hk.
  match goal with |- sites_ok _ (if ?c then _ else _) => destruct c end; simpl; auto. apply ok_delete_from; auto.
Qed.

Lemma ok_h_delete2 : forall cr s u c r, wf_store s -> sites_ok (allowed "DELETE_ATTRIBUTE" cr) (h_delete2 s u c r).
Proof.
  intros. unfold h_delete2. apply ok_with_obj; auto. intros o Ho.
  destruct c; [apply ok_delete_from; auto|]. destruct r; [apply ok_delete_from; auto|exact I].
Qed.

Lemma modifiable_field_present : forall n r f otype cls, find_rule n = Some r -> ar_modifiable_by_client r = true ->
  attr_field n = Some f -> pair_ok otype cls -> has_field cls f = true.
Proof.
  intros n r f otype cls Hr Hm Ef Hp. unfold attr_field in Ef.
  name_literal n Ef; try discriminate; inversion Ef; subst f; vm_compute in Hr; inversion Hr; subst r; clear Hr Ef;
    try (vm_compute in Hm; discriminate Hm); pair_split Hp; subst; vm_compute; reflexivity.
Qed.

Lemma modifiable_set_field_present : forall n r f otype cls, find_rule n = Some r -> ar_modifiable_by_client r = true ->
  set_field n = Some f -> pair_ok otype cls -> has_field cls f = true.
Proof.
  intros n r f otype cls Hr Hm Ef Hp. unfold set_field in Ef.
  name_literal n Ef; try discriminate; inversion Ef; subst f; vm_compute in Hr; inversion Hr; subst r; clear Hr Ef;
    try (vm_compute in Hm; discriminate Hm); pair_split Hp; subst; vm_compute; reflexivity.
Qed.

Lemma set_attribute_modifiable : forall op cr t n r vals, pair_ok (t_otype t) (t_cls t) -> find_rule n = Some r ->
  ar_modifiable_by_client r = true ->
  match set_attribute t n vals with inl _ => True | inr o => sites_ok (allowed op cr) o end.
Proof.
  intros op cr t n r vals Hp Hr Hm.
  unfold set_attribute, q_multivalued. rewrite (q_some _ _ _ _ _ Hr).
  destruct (ar_multivalued r).
  - pair_split Hp; rewrite Hc; multi_branch n.
  - destruct (set_field n) as [f|] eqn:Ef; [|simpl; auto]. destruct vals as [|a vals]; [simpl; auto|].
    unfold rd_or. rewrite (modifiable_set_field_present _ _ _ _ _ Hr Hm Ef Hp).
    match goal with |- context[if ?c then Done else Go] => destruct c end; simpl; auto.
Qed.

Lemma ver_eqb_eq : forall a b, ver_eqb a b = true -> a = b.
Proof. intros [a1 a2] [b1 b2] H. unfold ver_eqb in H. simpl in H. apply andb_true_iff in H. destruct H as [H1 H2].
  apply Z.eqb_eq in H1. apply Z.eqb_eq in H2. subst. reflexivity. Qed.

Lemma supported_cases : forall v, supported_version v = true ->
  v = (1,0) \/ v = (1,1) \/ v = (1,2) \/ v = (1,3) \/ v = (1,4) \/ v = (2,0).
Proof.
  intros v H. unfold supported_version, supported_versions in H. simpl in H.
  repeat (apply orb_true_iff in H; destruct H as [H|H]; [apply ver_eqb_eq in H; tauto|]). discriminate.
Qed.

Lemma attrs_listed_list : forall v o n len, supported_version v = true -> wf_sobj o ->
  attr_list_len o n = Some len -> attrs_listed v o n = inr len.
Proof.
  intros v o n len Hv Ho El. unfold attr_list_len in El.
  name_literal n El; try discriminate; inversion El; subst len; clear El;
    destruct (supported_cases v Hv) as [H|[H|[H|[H|[H|H]]]]]; subst v;
    otype_cases o Ho; unfold attrs_listed, attr_list_len; rewrite ?Hot, ?Hcl; vm_compute; reflexivity.
Qed.

Lemma ok_h_set_attribute : forall cr s u a, wf_store s -> sites_ok (allowed "SET_ATTRIBUTE" cr) (h_set_attribute s u a).
Proof.
  intros cr s u a Hs. unfold h_set_attribute. apply ok_with_obj; auto. intros o Ho.
  destruct (find_rule (a_name a)) as [r|] eqn:Hr.
  - unfold q_multivalued, q_modifiable. rewrite !(q_some _ _ _ _ _ Hr).
    destruct (ar_multivalued r); [exact I|]. destruct (ar_modifiable_by_client r) eqn:Hm; [|exact I]. cbn [negb]; cbv iota.
    apply ok_rd_present. { otype_cases o Ho; vm_compute; reflexivity. }
    cbn [set_attributes]. unfold q_applicable. rewrite (q_some _ _ _ _ _ Hr).
    destruct (mem_z (t_otype (stored_target o)) (ar_object_types r)); [|exact I].
    pose proof (set_attribute_modifiable "SET_ATTRIBUTE" cr (stored_target o) (a_name a) r [a] Ho Hr Hm) as H1.
    destruct (set_attribute (stored_target o) (a_name a) [a]); simpl; auto.
  - unfold q_multivalued, q_modifiable, q. rewrite Hr. policy_compute.
    first [exact I | simpl; site_ok].
Qed.

Lemma ok_h_modify1 : forall cr v s u a, supported_version v = true -> wf_store s ->
  sites_ok (allowed "MODIFY_ATTRIBUTE" cr) (h_modify1 v s u a).
Proof.
  intros cr v s u a Hv Hs. unfold h_modify1. apply ok_with_obj; auto. intros o Ho.
  destruct (find_rule (a_name a)) as [r|] eqn:Hr.
  - unfold q_multivalued, q_modifiable. rewrite !(q_some _ _ _ _ _ Hr).
    destruct (ar_modifiable_by_client r) eqn:Hm; [|exact I]. cbn [negb]; cbv iota.
    destruct (ar_multivalued r).
    + cbv zeta. unfold get_attr_unguarded. destruct (attr_field (a_name a)) as [f|] eqn:Ef.
      * unfold rd_get1. rewrite (modifiable_field_present _ _ _ _ _ Hr Hm Ef Ho).
        destruct (attr_list_len o (a_name a)) as [n|] eqn:El.
        -- match goal with |- sites_ok _ (if ?c then _ else _) => destruct c eqn:Eidx end; [|exact I].
           rewrite (attrs_listed_list v o _ n Hv Ho El). apply andb_true_iff in Eidx. destruct Eidx as [_ E2]. rewrite E2. exact I.
        -- match goal with |- sites_ok _ (if ?c then _ else _) => destruct c end; [exact I|].
           apply ok_unguarded. intro Hdf. site_ok.
      * match goal with |- sites_ok _ (if ?c then _ else _) => destruct c end; [exact I|].
        apply ok_unguarded. intro Hdf. site_ok.
    + destruct (a_index a); [exact I|].
      destruct (attrs_listed_total v o (a_name a)) as [k Hk]. rewrite Hk. destruct k; [exact I|].
      pose proof (set_attribute_modifiable "MODIFY_ATTRIBUTE" cr (stored_target o) (a_name a) r [a] Ho Hr Hm) as H1.
      destruct (set_attribute (stored_target o) (a_name a) [a]); simpl; auto.
  - unfold q_multivalued, q_modifiable, q. rewrite Hr. policy_compute.
    first [exact I | simpl; site_ok].
Qed.

Lemma ok_h_modify2 : forall cr s u a c, wf_store s -> sites_ok (allowed "MODIFY_ATTRIBUTE" cr) (h_modify2 s u a c).
Proof.
  intros cr s u a c Hs. unfold h_modify2. apply ok_with_obj; auto. intros o Ho.
  match goal with |- sites_ok _ (if ?b then _ else _) => destruct b end; [exact I|].
  destruct (find_rule (a_name a)) as [r|] eqn:Hr.
  - unfold q_multivalued, q_modifiable. rewrite !(q_some _ _ _ _ _ Hr).
    destruct (ar_modifiable_by_client r) eqn:Hm; [|exact I]. cbn [negb]; cbv iota.
    pose proof (set_attribute_modifiable "MODIFY_ATTRIBUTE" cr (stored_target o) (a_name a) r [a] Ho Hr Hm) as H1.
    destruct (ar_multivalued r).
    + destruct c as [c|]; [|exact I].
      destruct (attr_list_len o (a_name a)); [|exact I]. destruct (attr_field (a_name a)) as [f|] eqn:Ef; [|exact I].
      apply ok_rd_present; [eapply modifiable_field_present; eauto | exact I].
    + destruct c as [c|].
      * destruct (attr_field (a_name a)) as [f|] eqn:Ef; [|exact I].
        apply ok_rd_present; [eapply modifiable_field_present; eauto |].
        destruct (loc_match o c); [|exact I].
        destruct (set_attribute (stored_target o) (a_name a) [a]); simpl; auto.
      * unfold get_attr_unguarded. destruct (attr_field (a_name a)) as [f|] eqn:Ef; [|exact I].
        unfold rd_get1. rewrite (modifiable_field_present _ _ _ _ _ Hr Hm Ef Ho).
        destruct (set_attribute (stored_target o) (a_name a) [a]); simpl; auto.
  - unfold q_multivalued, q_modifiable, q. rewrite Hr. policy_compute.
    first [exact I | simpl; site_ok].
Qed.

(* ------------------------------------------------------------------ _process_operation *)
Lemma ok_norm : forall (P : string -> Prop) o, sites_ok P o -> sites_ok P (match o with Go => Done | o' => o' end).
Proof. intros P o H. destruct o; auto. Qed.

Theorem step_sites : forall v s cr it,
  supported_version v = true -> wf_store s -> wf_item it -> crypto_observed cr ->
  sites_ok (allowed (op_of it) cr) (step v s cr it).
Proof.
  intros v s cr it Hv Hs Hw Hc. unfold step.
  assert (K : sites_ok (allowed (op_of it) cr) (step_raw v s cr it)); [|destruct (step_raw v s cr it); simpl; auto].
  unfold step_raw.
  destruct (negb (ver_ge v (min_version it))); [exact I|].
  destruct it; cbn [op_of].
  - apply ok_h_create; auto.
  - apply ok_h_create_key_pair; auto.
  - apply ok_h_register; auto.
  - apply ok_h_derive_key; auto.
  - apply ok_h_locate; auto.
  - apply ok_h_get; auto.
  - apply ok_h_get_attributes; auto.
  - apply ok_h_get_attribute_list; auto.
  - apply ok_h_activate; auto.
  - apply ok_h_revoke; auto.
  - apply ok_h_destroy; auto.
  - exact I.
  - exact I.
  - apply ok_h_crypto_op; auto.
  - apply ok_h_crypto_op; auto.
  - apply ok_h_crypto_op; auto.
  - apply ok_h_crypto_op; auto.
  - apply ok_h_mac; auto.
  - apply ok_h_set_attribute; auto.
  - destruct (ver_ge v (2,0)); [exact I|]. apply ok_h_modify1; auto.
  - destruct (ver_ge v (2,0)); [|exact I]. apply ok_h_modify2; auto.
  - destruct (ver_ge v (2,0)); [exact I|]. apply ok_h_delete1; auto.
  - destruct (ver_ge v (2,0)); [|exact I]. apply ok_h_delete2; auto.
Qed.

(* whatever the crypto engine did: a crash is at a listed site of the operation, or is the crypto engine's own exception *)
Theorem crash_sites_observed : forall v s cr it site,
  supported_version v = true -> wf_store s -> wf_item it -> crypto_observed cr ->
  step v s cr it = Crash site -> mem_s site (op_sites (op_of it)) = true \/ cr = CExc site.
Proof.
  intros v s cr it site Hv Hs Hw Hc H. pose proof (step_sites v s cr it Hv Hs Hw Hc) as K. rewrite H in K. exact K.
Qed.

Lemma total_observed : forall cr, crypto_total cr -> crypto_observed cr.
Proof. intros cr [H|H]; subst; discriminate. Qed.

Theorem crash_sites : forall v s cr it site,
  supported_version v = true -> wf_store s -> wf_item it -> crypto_total cr ->
  step v s cr it = Crash site -> mem_s site (op_sites (op_of it)) = true.
Proof.
  intros v s cr it site Hv Hs Hw Hc H.
  destruct (crash_sites_observed v s cr it site Hv Hs Hw (total_observed _ Hc) H) as [K|K]; auto.
  destruct Hc; subst; discriminate.
Qed.

(* ---- the sites are exactly signatures of findings.d/C13.json *)
Definition finding_listed (op site : string) : bool :=
  existsb (fun p => String.eqb (snd (fst p)) op && String.eqb (snd p) site) known_finding_sites.

Definition all_ops : list string :=
  ["CREATE"; "CREATE_KEY_PAIR"; "REGISTER"; "DERIVE_KEY"; "LOCATE"; "GET"; "GET_ATTRIBUTES"; "GET_ATTRIBUTE_LIST"; "ACTIVATE";
   "REVOKE"; "DESTROY"; "QUERY"; "DISCOVER_VERSIONS"; "ENCRYPT"; "DECRYPT"; "SIGN"; "SIGNATURE_VERIFY"; "MAC"; "SET_ATTRIBUTE";
   "MODIFY_ATTRIBUTE"; "DELETE_ATTRIBUTE"].

Lemma op_sites_listed : forallb (fun op => forallb (finding_listed op) (op_sites op)) all_ops = true.
Proof. vm_compute. reflexivity. Qed.

Lemma op_in_all : forall it, In (op_of it) all_ops.
Proof. destruct it; simpl; tauto. Qed.

Lemma mem_s_in : forall x l, mem_s x l = true -> exists y, In y l /\ String.eqb x y = true.
Proof. unfold mem_s. intros x l H. apply existsb_exists in H. exact H. Qed.

Lemma site_is_finding : forall it site, mem_s site (op_sites (op_of it)) = true -> finding_listed (op_of it) site = true.
Proof.
  intros it site H. pose proof op_sites_listed as L. rewrite forallb_forall in L.
  specialize (L _ (op_in_all it)). rewrite forallb_forall in L.
  destruct (mem_s_in _ _ H) as [y [Hy Ey]]. apply String.eqb_eq in Ey. subst y. auto.
Qed.

(* the request hits the signature of a recorded finding *)
Definition known_crash (v : version) (s : store) (cr : cres) (it : item) : bool :=
  match step v s cr it with Crash site => finding_listed (op_of it) site | _ => false end.

Theorem no_crash_partial : forall v s cr it,
  supported_version v = true -> wf_store s -> wf_item it -> crypto_total cr ->
  known_crash v s cr it = false -> step_crash v s cr it = false.
Proof.
  intros v s cr it Hv Hs Hw Hc Hk. unfold step_crash, known_crash in *.
  destruct (step v s cr it) as [| |site] eqn:E; auto.
  pose proof (crash_sites v s cr it site Hv Hs Hw Hc E) as K. apply site_is_finding in K. congruence.
Qed.

(* operations without any recorded site never reach the internal-error path *)
Definition clean_op (it : item) : bool := match op_sites (op_of it) with [] => true | _ => false end.

Theorem no_crash_clean_ops : forall v s cr it,
  supported_version v = true -> wf_store s -> wf_item it -> crypto_total cr -> clean_op it = true ->
  step_crash v s cr it = false.
Proof.
  intros v s cr it Hv Hs Hw Hc Hcl. unfold step_crash.
  destruct (step v s cr it) as [| |site] eqn:E; auto.
  pose proof (crash_sites v s cr it site Hv Hs Hw Hc E) as K. unfold clean_op in Hcl.
  destruct (op_sites (op_of it)); [discriminate K | discriminate Hcl].
Qed.

Lemma clean_ops_are : forall it,
  In (op_of it) ["CREATE"; "CREATE_KEY_PAIR"; "GET_ATTRIBUTE_LIST"; "ACTIVATE"; "REVOKE"; "DESTROY"; "QUERY"; "DISCOVER_VERSIONS";
                 "ENCRYPT"; "DECRYPT"; "SIGN"; "SIGNATURE_VERIFY"] -> clean_op it = true.
Proof. destruct it; vm_compute; intuition; try discriminate. Qed.

(* the model never reaches the crypto engine without saying so: a run whose oracle says "not called" crashes at the sentinel only *)
Theorem sentinel_only_when_predicted : forall v s it,
  reaches_crypto v s it = true <-> step v s CNotCalled it = Crash sentinel.
Proof.
  intros. unfold reaches_crypto. destruct (step v s CNotCalled it) as [| |site]; split; intro H; try discriminate.
  - apply String.eqb_eq in H. subst. reflexivity.
  - inversion H. apply String.eqb_refl.
Qed.

(* ------------------------------------------------------------------ the tree as it is now (after the fix: commits)
   These two statements are about the CURRENT values of the generated tables (they are proved by computing `op_sites`):
   re-introducing one of the repaired defects breaks them (as well as the grid). *)
(* the operations that still have an internal-error site on the tree as it is now *)
Definition dirty_now : list string := ["GET_ATTRIBUTES"].

Lemma op_sites_empty_now : forall it, ~ In (op_of it) dirty_now -> op_sites (op_of it) = [].
Proof. destruct it; intro H; try (vm_compute; reflexivity); exfalso; apply H; simpl; tauto. Qed.

Theorem no_crash_current_tree : forall v s cr it,
  supported_version v = true -> wf_store s -> wf_item it -> crypto_total cr -> ~ In (op_of it) dirty_now ->
  step_crash v s cr it = false.
Proof.
  intros v s cr it Hv Hs Hw Hc Hop. unfold step_crash.
  destruct (step v s cr it) as [| |site] eqn:E; auto.
  pose proof (crash_sites v s cr it site Hv Hs Hw Hc E) as K. rewrite (op_sites_empty_now it Hop) in K. discriminate K.
Qed.

(* GetAttributes: only the KMIP 2.0 response without any attribute is affected *)
Theorem no_crash_get_attributes_1x : forall v s cr u names,
  wf_store s -> ver_ge v (2,0) = false -> step_crash v s cr (IGetAttributes u names) = false.
Proof.
  intros v s cr u names Hs Hv. unfold step_crash, step, step_raw. cbn [min_version]. destruct (negb (ver_ge v (1,0))); [reflexivity|].
  assert (K : sites_ok (fun _ => False) (h_get_attributes v s u names false)).
  { unfold h_get_attributes. apply ok_with_obj; auto. intros o Ho.
    destruct (get_attrs_count_total v o (match names with [] => all_attribute_names | _ => names end)) as [k Hk]. rewrite Hk.
    rewrite Hv. otype_cases o Ho; rd_present; simpl; auto. }
  destruct (h_get_attributes v s u names false); simpl in *; auto. contradiction.
Qed.
