(* C13 - comparator for tie K: the harness prints one `kcase` per (deduplicated) grid cell: the version, the store as
   the engine's ORM sees it, what the crypto engine did (oracle input), the abstract request, and the observed
   internal-error site (None when the item did not answer GENERAL_FAILURE). *)
From Coq Require Import ZArith List String Bool.
From PK Require Import NoCrash.Model.
Import ListNotations.
Open Scope string_scope.
Open Scope list_scope.
Open Scope Z_scope.

Record kcase := { k_v : version; k_store : store; k_cr : cres; k_item : item; k_obs : option string; k_called : bool }.

Definition so := Build_sobj.
Definition at_ := Build_attr.
Definition ta_ := Build_tattr.
Definition ws_ := Build_wrapspec.
Definition kc := Build_kcase.

Definition check_case (c : kcase) : bool :=
  (match step (k_v c) (k_store c) (k_cr c) (k_item c), k_obs c with
   | Crash s, Some s' => String.eqb s s'
   | Done, None => true
   | _, _ => false
   end)
  && Bool.eqb (reaches_crypto (k_v c) (k_store c) (k_item c)) (k_called c).

(* what the model says, for replay files *)
Definition model_says (c : kcase) : outcome * bool :=
  (step (k_v c) (k_store c) (k_cr c) (k_item c), reaches_crypto (k_v c) (k_store c) (k_item c)).
