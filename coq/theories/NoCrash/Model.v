(* C13 - where can KmipEngine._process_operation raise something that is not a KmipError?

   `step v s cr it` follows the guard order of every `_process_*` handler of
   /repo/kmip/services/server/engine.py far enough to decide whether a source of a non-KMIP
   exception is reached before the handler raises a KmipError or returns.  Sources of `Crash`
   are *derived*, never listed by hand:
     (1) `rd`      : a Python attribute read on a stored class that lacks it   (gen/PieClasses.class_attrs)
     (2) `q_*`     : an AttributePolicy query on a name without a rule set      (gen/AttrRuleTable + PieClasses.policy_unknown)
     (3) explicit  : None / len / index uses the handler does not guard (each is one `Crash` with the
                     Python site it mirrors)
     (4) `crypto`  : the CryptographyEngine call raised a non-KMIP exception (oracle input `cr`),
         `convert` : pie.factory.ObjectFactory.convert raised one            (gen/PieClasses.convert_*_table)
   A site is the string "file:function:Exception[(attr)]" the harness extracts from the logged traceback. *)
From Coq Require Import ZArith List String Bool.
From PKGen Require Import AttrRuleTable PieClasses.
Import ListNotations.
Open Scope string_scope.
Open Scope list_scope.
Open Scope Z_scope.

(* ------------------------------------------------------------------ basic data *)
Definition version := (Z * Z)%type.
Definition ver_ge (a b : version) : bool :=
  (fst a >? fst b) || ((fst a =? fst b) && (snd a >=? snd b)).
Definition supported_versions : list version := [(1,0); (1,1); (1,2); (1,3); (1,4); (2,0)].
Definition ver_eqb (a b : version) : bool := (fst a =? fst b) && (snd a =? snd b).
Definition supported_version (v : version) : bool := existsb (ver_eqb v) supported_versions.

(* Go is an internal marker ("the guard sequence continues"); `step` never returns it *)
Inductive outcome := Done | Go | Crash (site : string).

(* what the CryptographyEngine call of this request did (oracle input, DESIGN 5.5.2) *)
Inductive cres := CNotCalled | COk | CKmip | CExc (site : string).

Definition sentinel : string := "model:crypto-engine-call-predicted".

Definition crypto (cr : cres) (k : outcome) : outcome :=
  match cr with
  | COk => k
  | CKmip => Done
  | CExc site => Crash site
  | CNotCalled => Crash sentinel
  end.

Fixpoint assoc_s {A} (k : string) (l : list (string * A)) : option A :=
  match l with [] => None | (k', v) :: t => if String.eqb k k' then Some v else assoc_s k t end.
Fixpoint assoc_z {A} (k : Z) (l : list (Z * A)) : option A :=
  match l with [] => None | (k', v) :: t => if k =? k' then Some v else assoc_z k t end.
Definition mem_s (x : string) (l : list string) : bool := existsb (String.eqb x) l.
Definition mem_z (x : Z) (l : list Z) : bool := existsb (Z.eqb x) l.

(* object type enumeration values (checked against gen/Enums by NoCrash/Proofs.v is not needed: they only
   appear next to the generated tables which use the same numbers) *)
Definition OT_CERTIFICATE := 1. Definition OT_SYMMETRIC_KEY := 2. Definition OT_PUBLIC_KEY := 3.
Definition OT_PRIVATE_KEY := 4. Definition OT_SPLIT_KEY := 5. Definition OT_TEMPLATE := 6.
Definition OT_SECRET_DATA := 7. Definition OT_OPAQUE_DATA := 8.
Definition ST_PRE_ACTIVE := 1. Definition ST_ACTIVE := 2.
Definition UM_SIGN := 1. Definition UM_VERIFY := 2. Definition UM_ENCRYPT := 4. Definition UM_DECRYPT := 8.
Definition UM_WRAP_KEY := 16. Definition UM_MAC_GENERATE := 128. Definition UM_DERIVE_KEY := 512.
Definition has_bit (mask bit : Z) : bool := negb (Z.land mask bit =? 0).

(* ------------------------------------------------------------------ stored objects *)
Record sobj := {
  so_uid : Z; so_class : string; so_otype : Z; so_allowed : bool;
  so_state : option Z; so_mask : Z; so_names : list string; so_asi : list string; so_groups : list string;
  so_value_empty : bool; so_kft : option Z; so_alg : option Z; so_len : option Z; so_sensitive : bool }.
Definition store := list sobj.

Inductive lookup_res := NotFound | Denied | Found (o : sobj).
Fixpoint find_obj (s : store) (u : Z) : option sobj :=
  match s with [] => None | o :: t => if so_uid o =? u then Some o else find_obj t u end.
Definition lookup (s : store) (u : option Z) : lookup_res :=
  match u with
  | None => NotFound
  | Some u => match find_obj s u with
              | None => NotFound
              | Some o => if so_allowed o then Found o else Denied
              end
  end.

(* ------------------------------------------------------------------ (1) attribute reads on stored classes *)
Definition has_field (cls f : string) : bool :=
  match assoc_s cls class_attrs with Some l => mem_s f l | None => false end.

Definition attr_err (pyfile func attr : string) : string :=
  (pyfile ++ ":" ++ func ++ ":AttributeError(" ++ attr ++ ")")%string.
Definition ENGINE := "services/server/engine.py".
Definition POLICY := "services/server/policy.py".

(* read `obj.<f>` inside engine.py function `func` *)
Definition rd (func cls f : string) (k : outcome) : outcome :=
  if has_field cls f then k else Crash (attr_err ENGINE func f).

(* ------------------------------------------------------------------ defects still present in the code
   gen/PieClasses.defect_present records, for every unguarded use this model knows, whether the code under /repo still
   has it (true) or raises a KmipError there instead (false; a repaired tree).  An unlisted name counts as present. *)
Definition defect (n : string) : bool :=
  match assoc_s n defect_present with Some b => b | None => true end.

(* an unguarded use: crashes at `site` while the defect is present, answers a KmipError once repaired *)
Definition unguarded (n site : string) : outcome := if defect n then Crash site else Done.

(* read `obj.<f>` where a repair turns the missing attribute into "no value" (continuation k_none) *)
Definition rd_or (n func cls f : string) (k k_none : outcome) : outcome :=
  if has_field cls f then k else if defect n then Crash (attr_err ENGINE func f) else k_none.

(* _get_attribute_from_managed_object: the repair reads the two attributes certificates lack with a None default *)
Definition rd_get1 (cls f : string) (k k_none : outcome) : outcome :=
  if has_field cls f then k
  else if defect "get-attribute-missing-field"
          || negb (String.eqb f "cryptographic_algorithm" || String.eqb f "cryptographic_length")
       then Crash (attr_err ENGINE "_get_attribute_from_managed_object" f) else k_none.

(* ------------------------------------------------------------------ (2) attribute policy queries *)
Definition q (fname : string) (proj : attr_rule -> bool) (name : string) (k : bool -> outcome) : outcome :=
  match find_rule name with
  | Some r => k (proj r)
  | None => match assoc_s fname policy_unknown with
            | Some (Some site) => Crash site
            | _ => k false
            end
  end.
Definition q_supported (v : version) (name : string) : bool :=
  match find_rule name with Some r => ver_ge v (ar_version_added r) | None => false end.
Definition q_deprecated (v : version) := q "is_attribute_deprecated"
  (fun r => match ar_version_deprecated r with Some d => ver_ge v d | None => false end).
Definition q_deletable := q "is_attribute_deletable_by_client" ar_deletable_by_client.
Definition q_modifiable := q "is_attribute_modifiable_by_client" ar_modifiable_by_client.
Definition q_multivalued := q "is_attribute_multivalued" ar_multivalued.
Definition q_applicable (otype : Z) := q "is_attribute_applicable_to_object_type" (fun r => mem_z otype (ar_object_types r)).

(* ------------------------------------------------------------------ request items *)
Record attr := { a_name : string; a_index : option Z; a_val : Z; a_str : string }.
Record tattr := { ta_names : bool; ta_attrs : list attr }.
Record wrapspec := { w_encrypt : bool; w_eki : option (option Z * bool); w_mski : bool; w_attr_names : bool; w_no_encoding : bool }.
Inductive secret_s :=
| SecKey (otype kft : Z) (length_ok : bool) (shape : Z) (alg len : Z)
         (missing : Z)   (* optional Key Block parts left out: 0 none, 1 algorithm, 2 length, 3 both, 4 key value *)
         (big : bool)    (* Prime Field Size (a KMIP Big Integer) outside SQLite's signed 64-bit range *)
| SecCert (ctype : Z)
| SecOther (otype : Z).

Inductive item :=
| ICreate (otype : Z) (ta : option tattr)
| ICreateKeyPair (common priv pub : option tattr)
| IRegister (otype : Z) (sec : option secret_s) (ta : option tattr)
| IDeriveKey (otype : Z) (uids : list Z) (has_data has_params : bool) (ta : option tattr)
| ILocate (attrs : list attr)
| IGet (uid : option Z) (kft : option Z) (compression : bool) (wrap : option wrapspec)
| IGetAttributes (uid : option Z) (names : list string)
| IGetAttributeList (uid : option Z)
| IActivate (uid : option Z)
| IRevoke (uid : option Z) (code : option Z)
| IDestroy (uid : option Z)
| IQuery
| IDiscoverVersions
| IEncrypt (uid : option Z) (params : bool)
| IDecrypt (uid : option Z) (params : bool)
| ISign (uid : option Z) (params : bool)
| ISignatureVerify (uid : option Z) (params : bool)
| IMAC (uid : option Z) (alg_given data_given : bool)
| ISetAttribute (uid : option Z) (a : attr)
| IModifyAttribute1 (uid : option Z) (a : attr)
| IModifyAttribute2 (uid : option Z) (a : attr) (current : option attr)
| IDeleteAttribute1 (uid : option Z) (name : string) (index : option Z)
| IDeleteAttribute2 (uid : option Z) (current : option attr) (ref : option string).

(* the operation an item belongs to (Operation enumeration names as the harness prints them) *)
Definition op_of (it : item) : string :=
  match it with
  | ICreate _ _ => "CREATE" | ICreateKeyPair _ _ _ => "CREATE_KEY_PAIR" | IRegister _ _ _ => "REGISTER"
  | IDeriveKey _ _ _ _ _ => "DERIVE_KEY" | ILocate _ => "LOCATE" | IGet _ _ _ _ => "GET"
  | IGetAttributes _ _ => "GET_ATTRIBUTES" | IGetAttributeList _ => "GET_ATTRIBUTE_LIST" | IActivate _ => "ACTIVATE"
  | IRevoke _ _ => "REVOKE" | IDestroy _ => "DESTROY" | IQuery => "QUERY" | IDiscoverVersions => "DISCOVER_VERSIONS"
  | IEncrypt _ _ => "ENCRYPT" | IDecrypt _ _ => "DECRYPT" | ISign _ _ => "SIGN" | ISignatureVerify _ _ => "SIGNATURE_VERIFY"
  | IMAC _ _ _ => "MAC" | ISetAttribute _ _ => "SET_ATTRIBUTE" | IModifyAttribute1 _ _ => "MODIFY_ATTRIBUTE"
  | IModifyAttribute2 _ _ _ => "MODIFY_ATTRIBUTE" | IDeleteAttribute1 _ _ _ => "DELETE_ATTRIBUTE"
  | IDeleteAttribute2 _ _ _ => "DELETE_ATTRIBUTE"
  end.

(* @_kmip_version_supported *)
Definition min_version (it : item) : version :=
  match it with
  | IDiscoverVersions => (1,1)
  | IEncrypt _ _ | IDecrypt _ _ | ISign _ _ | ISignatureVerify _ _ | IMAC _ _ _ => (1,2)
  | ISetAttribute _ _ => (2,0)
  | _ => (1,0)
  end.

(* ------------------------------------------------------------------ _process_template_attribute *)
(* the dictionary it builds: attribute name -> values, in first-occurrence order; None = a KmipError was raised *)
Definition tdict := list (string * list attr).
Fixpoint td_get (d : tdict) (n : string) : option (list attr) :=
  match d with [] => None | (k, v) :: t => if String.eqb k n then Some v else td_get t n end.
Fixpoint td_set (d : tdict) (n : string) (v : list attr) : tdict :=
  match d with
  | [] => [(n, v)]
  | (k, v') :: t => if String.eqb k n then (k, v) :: t else (k, v') :: td_set t n v
  end.

(* result: inl dict | inr outcome (Done = KmipError raised, Crash = policy query crashed) *)
Fixpoint proc_attrs (v : version) (l : list attr) (d : tdict) : tdict + outcome :=
  match l with
  | [] => inl d
  | a :: t =>
    let n := a_name a in
    if negb (q_supported v n) then inr Done else
    match find_rule n with
    | None => inr Done  (* unreachable: supported names have a rule set *)
    | Some r =>
      if ar_multivalued r then
        let vals := match td_get d n with Some x => x | None => [] end in
        match a_index a, vals with
        | None, _ :: _ => inr Done
        | _, _ => proc_attrs v t (td_set d n (vals ++ [a]))
        end
      else
        match a_index a with
        | Some i => if negb (i =? 0) then inr Done else
                    match td_get d n with Some _ => inr Done | None => proc_attrs v t (td_set d n [a]) end
        | None => match td_get d n with Some _ => inr Done | None => proc_attrs v t (td_set d n [a]) end
        end
    end
  end.
Definition proc_template (v : version) (ta : option tattr) : tdict + outcome :=
  match ta with
  | None => inl []
  | Some t => if ta_names t then inr Done else proc_attrs v (ta_attrs t) []
  end.

(* ------------------------------------------------------------------ _set_attribute(s)_on_managed_object *)
Definition set_field (name : string) : option string :=
  if String.eqb name "Cryptographic Algorithm" then Some "cryptographic_algorithm"
  else if String.eqb name "Cryptographic Length" then Some "cryptographic_length"
  else if String.eqb name "Cryptographic Usage Mask" then Some "cryptographic_usage_masks"
  else if String.eqb name "Operation Policy Name" then Some "operation_policy_name"
  else if String.eqb name "Sensitive" then Some "sensitive"
  else None.

Fixpoint has_dup (l : list string) : bool :=
  match l with [] => false | x :: t => mem_s x t || has_dup t end.

(* the object being written: its class and the values already present in the writable fields
   (None = falsy: the handler overwrites; Some x = truthy: a different value is refused) *)
Record target := { t_cls : string; t_otype : Z; t_alg : option Z; t_len : option Z; t_mask : option Z;
                   t_policy : option string; t_sensitive : bool; t_names : list string }.

Definition SET1 := "_set_attribute_on_managed_object".

(* one (name, values) entry; returns inl target' to continue or inr outcome *)
Definition set_attribute (t : target) (n : string) (vals : list attr) : target + outcome :=
  match
    q_multivalued n (fun multi =>
      if multi then
        if String.eqb n "Name" then
          rd SET1 (t_cls t) "names"
            (if has_dup (t_names t ++ map a_str vals) then Done else Go)
        else if String.eqb n "Application Specific Information" then rd SET1 (t_cls t) "app_specific_info" (Go)
        else if String.eqb n "Object Group" then rd SET1 (t_cls t) "object_groups" (Go)
        else Done
      else
        match set_field n, vals with
        | Some f, a :: _ =>
          rd_or "set-attribute-missing-field" SET1 (t_cls t) f
            (let existing_truthy_and_different :=
               if String.eqb f "cryptographic_algorithm" then match t_alg t with Some x => negb (x =? a_val a) | None => false end
               else if String.eqb f "cryptographic_length" then match t_len t with Some x => negb (x =? a_val a) | None => false end
               else if String.eqb f "cryptographic_usage_masks" then
                 (* the request value is expanded to its NAMED bits before it is compared with the stored list *)
                 match t_mask t with Some x => negb (x =? Z.land (a_val a) usage_mask_named) | None => false end
               else if String.eqb f "operation_policy_name" then match t_policy t with Some x => negb (String.eqb x (a_str a)) | None => false end
               else (* sensitive *) t_sensitive t && negb (a_val a =? 1) in
             if existing_truthy_and_different then Done else Go)
            Done
        | _, _ => Done
        end)
  with
  | Go =>
      inl (if String.eqb n "Name" then {| t_cls := t_cls t; t_otype := t_otype t; t_alg := t_alg t; t_len := t_len t;
                                          t_mask := t_mask t; t_policy := t_policy t; t_sensitive := t_sensitive t;
                                          t_names := t_names t ++ map a_str vals |} else t)
  | o => inr o
  end.

(* Go = every attribute was written (the handler goes on to commit); Done = a KmipError was raised *)
Fixpoint set_attributes (t : target) (d : tdict) : outcome :=
  match d with
  | [] => Go
  | (n, vals) :: rest =>
    q_applicable (t_otype t) n (fun ok =>
      if ok then match set_attribute t n vals with
                 | inl t' => set_attributes t' rest
                 | inr o => o
                 end
      else Done)
  end.

Definition class_of (otype : Z) : option string :=
  match assoc_z otype object_map with Some c => c | None => None end.

(* a freshly constructed pie object: masks [], policy None, sensitive False, names [] (reset by the handlers) *)
Definition fresh (cls : string) (otype : Z) (alg len : option Z) : target :=
  {| t_cls := cls; t_otype := otype; t_alg := alg; t_len := len; t_mask := None; t_policy := None;
     t_sensitive := false; t_names := [] |}.

(* ------------------------------------------------------------------ _get_attribute_from_managed_object *)
Definition GET1 := "_get_attribute_from_managed_object".
Definition attr_field (name : string) : option string :=
  if String.eqb name "Unique Identifier" then Some "unique_identifier"
  else if String.eqb name "Name" then Some "names"
  else if String.eqb name "Object Type" then Some "object_type"
  else if String.eqb name "Cryptographic Algorithm" then Some "cryptographic_algorithm"
  else if String.eqb name "Cryptographic Length" then Some "cryptographic_length"
  else if String.eqb name "Certificate Type" then Some "certificate_type"
  else if String.eqb name "Operation Policy Name" then Some "operation_policy_name"
  else if String.eqb name "Cryptographic Usage Mask" then Some "cryptographic_usage_masks"
  else if String.eqb name "State" then Some "state"
  else if String.eqb name "Initial Date" then Some "initial_date"
  else if String.eqb name "Object Group" then Some "object_groups"
  else if String.eqb name "Application Specific Information" then Some "app_specific_info"
  else if String.eqb name "Sensitive" then Some "sensitive"
  else None.

(* length of the list the three list-valued attributes return *)
Definition attr_list_len (o : sobj) (name : string) : option nat :=
  if String.eqb name "Name" then Some (List.length (so_names o))
  else if String.eqb name "Object Group" then Some (List.length (so_groups o))
  else if String.eqb name "Application Specific Information" then Some (List.length (so_asi o))
  else None.

(* number of Attribute objects _get_attributes_from_managed_object(obj, [name]) returns (it guards every exception) *)
Definition attrs_listed (v : version) (o : sobj) (name : string) : outcome + nat :=
  if negb (q_supported v name) then inr 0%nat else
  match q_deprecated v name (fun dep => if dep then Done else Go) with
  | Go =>
    match q_applicable (so_otype o) name (fun ok => if ok then Go else Done) with
    | Go =>
        match attr_field name with
        | None => inr 0%nat
        | Some f => if has_field (so_class o) f then
                      match attr_list_len o name with Some n => inr n | None => inr 1%nat end
                    else inr 0%nat      (* the AttributeError is swallowed by `except Exception` *)
        end
    | Done => inr 0%nat
    | c => inl c
    end
  | Done => inr 0%nat
  | c => inl c
  end.

(* ------------------------------------------------------------------ the handlers *)
Definition with_obj (s : store) (u : option Z) (k : sobj -> outcome) : outcome :=
  match lookup s u with Found o => k o | _ => Done end.

Definition h_create (v : version) (cr : cres) (otype : Z) (ta : option tattr) : outcome :=
  if negb (otype =? OT_SYMMETRIC_KEY) then Done else
  match proc_template v ta with
  | inr o => o
  | inl d =>
    match td_get d "Cryptographic Algorithm", td_get d "Cryptographic Length", td_get d "Cryptographic Usage Mask" with
    | Some (a :: _), Some (l :: _), Some _ =>
        crypto cr (set_attributes (fresh "SymmetricKey" OT_SYMMETRIC_KEY (Some (a_val a)) (Some (a_val l))) d)
    | _, _, _ => Done
    end
  end.

Fixpoint td_merge (common own : tdict) : tdict :=
  match common with
  | [] => own
  | (k, v) :: t => td_merge t (match td_get own k with Some _ => own | None => own ++ [(k, v)] end)
  end.

Definition h_create_key_pair (v : version) (cr : cres) (common priv pub : option tattr) : outcome :=
  match proc_template v pub with
  | inr o => o
  | inl dpub =>
  match proc_template v priv with
  | inr o => o
  | inl dpriv =>
  match proc_template v common with
  | inr o => o
  | inl dc =>
    let dpub := td_merge dc dpub in
    let dpriv := td_merge dc dpriv in
    match td_get dpub "Cryptographic Algorithm", td_get dpub "Cryptographic Length", td_get dpub "Cryptographic Usage Mask",
          td_get dpriv "Cryptographic Algorithm", td_get dpriv "Cryptographic Length", td_get dpriv "Cryptographic Usage Mask" with
    | Some (a1 :: _), Some (l1 :: _), Some _, Some (a2 :: _), Some (l2 :: _), Some _ =>
        if negb (a_val a1 =? a_val a2) then Done else
        if negb (a_val l1 =? a_val l2) then Done else
        crypto cr
          (match set_attributes (fresh "PublicKey" OT_PUBLIC_KEY (Some (a_val a1)) (Some (a_val l1))) dpub with
           | Go => set_attributes (fresh "PrivateKey" OT_PRIVATE_KEY (Some (a_val a1)) (Some (a_val l1))) dpriv
           | c => c
           end)
    | _, _, _, _, _, _ => Done
    end
  end end end.

Fixpoint assoc_key (k : Z * Z * bool * Z) (l : list ((Z * Z * bool * Z) * option string)) : option (option string) :=
  match l with
  | [] => None
  | ((a, b, c, d), r) :: t =>
      let '(a', b', c', d') := k in
      if (a =? a') && (b =? b') && Bool.eqb c c' && (d =? d') then Some r else assoc_key k t
  end.

Fixpoint assoc_zz {A} (k : Z * Z) (l : list ((Z * Z) * A)) : option A :=
  match l with
  | [] => None
  | ((a, b), r) :: t => if (a =? fst k) && (b =? snd k) then Some r else assoc_zz k t
  end.

(* Some None = converted; Some (Some "kmip") = the conversion raised an exception class _process_register turns into
   INVALID_FIELD; Some (Some site) = it raised something else there *)
Definition KMIP_ERROR := "kmip".
Definition convert (sec : secret_s) : option (option string) :=
  match sec with
  | SecKey otype kft length_ok shape _ _ missing _ =>
      if missing =? 0 then assoc_key (otype, kft, length_ok, shape) convert_key_table
      else assoc_zz (otype, missing) convert_missing_table
  | SecCert ctype => assoc_z ctype convert_cert_table
  | SecOther otype => assoc_z otype convert_other_table
  end.

Definition sec_otype (sec : secret_s) : Z :=
  match sec with SecKey otype _ _ _ _ _ _ _ => otype | SecCert _ => OT_CERTIFICATE | SecOther otype => otype end.
Definition sec_big (sec : secret_s) : bool := match sec with SecKey _ _ _ _ _ _ _ b => b | _ => false end.
Definition OVERFLOW_SITE := "services/server/engine.py:_process_register:OverflowError".

Definition h_register (v : version) (otype : Z) (sec : option secret_s) (ta : option tattr) : outcome :=
  match class_of otype with
  | None => Done
  | Some _ =>
    match sec with
    | None => Done
    | Some sec =>
      match proc_template v ta with
      | inr o => o
      | inl d =>
        match convert sec with
        | None => Crash "model:convert-table-has-no-entry"
        | Some (Some site) => if String.eqb site KMIP_ERROR then Done else Crash site
        | Some None =>
          (* a repaired pie SplitKey refuses a prime field size SQLite cannot store while it is constructed *)
          if sec_big sec && negb (defect "register-bigint-overflow") then Done else
          (* the pie class comes from the SECRET's type, not from payload.object_type *)
          match class_of (sec_otype sec) with
          | None => Crash "model:no-class-for-secret"
          | Some cls =>
            let '(alg, len) := match sec with SecKey _ _ _ _ a l _ _ => (Some a, Some l) | _ => (None, None) end in
            match set_attributes (fresh cls (sec_otype sec) alg len) d with
            | Go => if sec_big sec then Crash OVERFLOW_SITE (* session.commit() *) else Go
            | o => o
            end
          end
        end
      end
    end
  end.

Definition DERIVE := "_process_derive_key".
Fixpoint derive_objects (s : store) (uids : list Z) : outcome + list sobj :=
  match uids with
  | [] => inr []
  | u :: t =>
    match lookup s (Some u) with
    | Found o =>
      match rd DERIVE (so_class o) "_object_type"
              (if negb (mem_z (so_otype o) [OT_SECRET_DATA; OT_SYMMETRIC_KEY; OT_PUBLIC_KEY; OT_PRIVATE_KEY]) then Done
               else rd DERIVE (so_class o) "cryptographic_usage_masks"
                       (if negb (has_bit (so_mask o) UM_DERIVE_KEY) then Done else Go)) with
      | Go => match derive_objects s t with inr l => inr (o :: l) | inl c => inl c end
      | c => inl c
      end
    | _ => inl Done
    end
  end.

Definition h_derive_key (v : version) (s : store) (cr : cres) (otype : Z) (uids : list Z) (has_data has_params : bool)
                        (ta : option tattr) : outcome :=
  match proc_template v ta with
  | inr o => o
  | inl d =>
    if negb (mem_z otype [OT_SYMMETRIC_KEY; OT_SECRET_DATA]) then Done else
    match derive_objects s uids with
    | inl c => c
    | inr [] => Crash (ENGINE ++ ":" ++ DERIVE ++ ":IndexError")%string
    | inr (k0 :: others) =>
      rd DERIVE (so_class k0) "unique_identifier"
      (match td_get d "Cryptographic Length" with
       | Some (l :: _) =>
         if a_val l <? 0 then Done else       (* "must not be negative" (repo commit 02e2981) *)
         if negb (a_val l mod 8 =? 0) then Done else
         let alg := td_get d "Cryptographic Algorithm" in
         if (otype =? OT_SYMMETRIC_KEY) && (match alg with Some (_ :: _) => false | _ => true end) then Done else
         rd DERIVE (so_class k0) "value"
         (if negb has_params then unguarded "derive-no-parameters" (attr_err ENGINE DERIVE "hashing_algorithm") else
          crypto cr
           (if otype =? OT_SYMMETRIC_KEY then
              set_attributes (fresh "SymmetricKey" OT_SYMMETRIC_KEY
                                    (match alg with Some (a :: _) => Some (a_val a) | _ => None end) (Some (a_val l))) d
            else
              set_attributes (fresh "SecretData" OT_SECRET_DATA None None)
                             (filter (fun p => negb (String.eqb (fst p) "Cryptographic Length")) d)))
       | _ => Done
       end)
    end
  end.

(* ---- Locate: does the filter value match the object's attribute? (only consulted to know whether the loop goes on) *)
Definition loc_match (o : sobj) (a : attr) : bool :=
  let n := a_name a in
  if String.eqb n "Name" then mem_s (a_str a) (so_names o)
  else if String.eqb n "Object Group" then mem_s (a_str a) (so_groups o)
  else if String.eqb n "Application Specific Information" then mem_s (a_str a) (so_asi o)
  else if String.eqb n "State" then match so_state o with Some x => x =? a_val a | None => false end
  else if String.eqb n "Object Type" then so_otype o =? a_val a
  else if String.eqb n "Cryptographic Algorithm" then match so_alg o with Some x => x =? a_val a | None => false end
  else if String.eqb n "Cryptographic Length" then match so_len o with Some x => x =? a_val a | None => false end
  else if String.eqb n "Unique Identifier" then so_uid o =? a_val a
  else if String.eqb n "Operation Policy Name" then String.eqb (a_str a) "default"
  else if String.eqb n "Cryptographic Usage Mask" then
    (* get_enumerations_from_bit_mask keeps the named bits only; each of them must be set on the object *)
    Z.land (Z.land (a_val a) usage_mask_named) (so_mask o) =? Z.land (a_val a) usage_mask_named
  else if String.eqb n "Certificate Type" then a_val a =? 1
  else if String.eqb n "Sensitive" then Bool.eqb (a_val a =? 1) (so_sensitive o)
  else true (* Initial Date never leaves the loop *).

(* number of Initial Date filters seen so far is tracked: the third one raises InvalidField *)
Fixpoint loc_object (o : sobj) (l : list attr) (dates : nat) : outcome :=
  match l with
  | [] => Go
  | a :: t =>
    q_applicable (so_otype o) (a_name a) (fun ok =>
      if negb ok then Go else
      (* an object without a value for the filter attribute does not match (repo commit 2d8db5c) *)
      match attr_field (a_name a) with
      | None => Go
      | Some f =>
        rd_get1 (so_class o) f
          (if String.eqb (a_name a) "Initial Date" then
             (if (2 <=? dates)%nat then Done else loc_object o t (S dates))
           else if loc_match o a then loc_object o t dates else Go)
          Go
      end)
  end.

Fixpoint loc_store (s : store) (l : list attr) : outcome :=
  match s with
  | [] => Done
  | o :: t =>
    if so_allowed o then
      match loc_object o l 0 with
      | Go => loc_store t l
      | c => c
      end
    else loc_store t l
  end.

(* filter attributes the protocol version does not have are refused before any object is looked at (repo commit 1a2a215) *)
Definition h_locate (v : version) (s : store) (l : list attr) : outcome :=
  match l with
  | [] => Done
  | _ => if existsb (fun a => negb (q_supported v (a_name a))) l then Done else loc_store s l
  end.

(* ---- Get *)
Definition GET := "_process_get".
Definition BUILD := "_build_core_object".
Definition build_core_fields (otype : Z) : list string :=
  if otype =? OT_CERTIFICATE then ["certificate_type"; "value"]
  else if otype =? OT_SYMMETRIC_KEY then ["cryptographic_algorithm"; "cryptographic_length"; "key_format_type"; "value"; "key_wrapping_data"]
  else if otype =? OT_PUBLIC_KEY then ["cryptographic_algorithm"; "cryptographic_length"; "key_format_type"; "value"; "key_wrapping_data"]
  else if otype =? OT_PRIVATE_KEY then ["cryptographic_algorithm"; "cryptographic_length"; "key_format_type"; "value"; "key_wrapping_data"]
  else if otype =? OT_SECRET_DATA then ["value"; "data_type"]
  else if otype =? OT_OPAQUE_DATA then ["opaque_type"; "value"]
  else if otype =? OT_SPLIT_KEY then ["cryptographic_algorithm"; "cryptographic_length"; "key_format_type"; "value"; "key_wrapping_data";
                                      "split_key_parts"; "key_part_identifier"; "split_key_threshold"; "split_key_method"; "prime_field_size"]
  else [].
Fixpoint rd_all (func cls : string) (fs : list string) (k : outcome) : outcome :=
  match fs with [] => k | f :: t => rd func cls f (rd_all func cls t k) end.
Definition build_core (o : sobj) (k : outcome) : outcome :=
  rd BUILD (so_class o) "_object_type" (rd_all BUILD (so_class o) (build_core_fields (so_otype o)) k).

Definition h_get (s : store) (cr : cres) (u : option Z) (kft : option Z) (compression : bool) (wrap : option wrapspec) : outcome :=
  if compression then Done else
  with_obj s u (fun o =>
    match
      match kft with
      | None => Go
      | Some f => if negb (has_field (so_class o) "key_format_type") then Done
                  else match so_kft o with Some f' => if f =? f' then Go else Done | None => Done end
      end
    with
    | Go =>
      rd GET (so_class o) "object_type" (rd GET (so_class o) "unique_identifier"
      (match wrap with
       | None => build_core o Done
       | Some w =>
         if negb (w_encrypt w) then Done else
         match w_eki w with
         | Some (ku, kparams) =>
           match lookup s ku with
           | Found k =>
             rd GET (so_class k) "_object_type"
             (if negb (so_otype k =? OT_SYMMETRIC_KEY) then Done else
              rd GET (so_class k) "state"
              (if negb (match so_state k with Some x => x =? ST_ACTIVE | None => false end) then Done else
               rd GET (so_class k) "cryptographic_usage_masks"
               (if negb (has_bit (so_mask k) UM_WRAP_KEY) then Done else
                if w_attr_names w then Done else
                if negb (w_no_encoding w) then Done else
                rd GET (so_class o) "value"
                (if negb kparams then unguarded "get-wrap-no-parameters" (attr_err ENGINE GET "block_cipher_mode") else
                 let keyblock := match assoc_z (so_otype o) core_has_key_block with Some true => true | _ => false end in
                 if negb keyblock && negb (defect "get-wrap-non-key") then Done else
                 rd GET (so_class k) "value"
                 (crypto cr
                   (build_core o
                     (if keyblock then Done else Crash (attr_err ENGINE GET "key_block"))))))))
           | _ => Done
           end
         | None => Done
         end
       end))
    | c => c
    end).

(* ---- GetAttributes / GetAttributeList: every read is guarded; the number of attributes returned matters because
        a KMIP 2.0 GetAttributes response without any attribute cannot be encoded (the session then answers GENERAL_FAILURE) *)
Fixpoint get_attrs_count (v : version) (o : sobj) (names : list string) : outcome + nat :=
  match names with
  | [] => inr 0%nat
  | n :: t => match attrs_listed v o n with
              | inl c => inl c
              | inr k => match get_attrs_count v o t with inl c => inl c | inr m => inr (k + m)%nat end
              end
  end.
Definition all_attribute_names : list string := map ar_name attr_rule_table.
Definition ENCODE_GET_ATTRIBUTES := "core/messages/payloads/get_attributes.py:write:InvalidField".
Definition h_get_attributes (v : version) (s : store) (u : option Z) (names : list string) (is_list : bool) : outcome :=
  with_obj s u (fun o =>
    rd "_get_attributes_from_managed_object" (so_class o) "_object_type"
       (match get_attrs_count v o (match names with [] => all_attribute_names | _ => names end) with
        | inl c => c
        | inr n => if negb is_list && ver_ge v (2,0) && (n =? 0)%nat
                   then unguarded "get-attributes-empty-response" ENCODE_GET_ATTRIBUTES else Done
        end)).

(* ---- Activate / Revoke / Destroy: hasattr guards *)
Definition h_activate (s : store) (u : option Z) : outcome :=
  with_obj s u (fun o => rd "_process_activate" (so_class o) "_object_type"
    (if negb (has_field (so_class o) "state") then Done else Done)).
Definition h_revoke (s : store) (u : option Z) (code : option Z) : outcome :=
  match code with
  | None => Done
  | Some _ => with_obj s u (fun o => rd "_process_revoke" (so_class o) "_object_type"
                (if negb (has_field (so_class o) "state") then Done else Done))
  end.
Definition h_destroy (s : store) (u : option Z) : outcome :=
  with_obj s u (fun o => if has_field (so_class o) "state" then Done else Done).

(* ---- Encrypt / Decrypt / Sign / SignatureVerify *)
Definition h_crypto_op (func : string) (want_otype bit : Z) (s : store) (cr : cres) (u : option Z) (params : bool) : outcome :=
  with_obj s u (fun o =>
    if negb params then Done else
    rd func (so_class o) "_object_type"
    (if negb (so_otype o =? want_otype) then Done else
     rd func (so_class o) "state"
     (if negb (match so_state o with Some x => x =? ST_ACTIVE | None => false end) then Done else
      rd func (so_class o) "cryptographic_usage_masks"
      (if negb (has_bit (so_mask o) bit) then Done else
       rd func (so_class o) "value" (crypto cr Done))))).

(* ---- MAC *)
Definition MACF := "_process_mac".
Definition h_mac (s : store) (cr : cres) (u : option Z) (alg_given data_given : bool) : outcome :=
  with_obj s u (fun o =>
    match
      (if alg_given then Go
       else if (match assoc_s (so_class o) class_is_key with Some b => b | None => false end)
            then rd MACF (so_class o) "cryptographic_algorithm"
                    (match so_alg o with Some _ => Go | None => Done end)
            else Done)
    with
    | Go =>
      rd MACF (so_class o) "value"
      (if so_value_empty o then Done else
       if negb data_given then Done else
       (* a repaired tree (fixes/C04-mac-object-type) refuses every type but symmetric keys and secret data here *)
       if negb (defect "mac-accepts-any-type") && negb (mem_z (so_otype o) [OT_SYMMETRIC_KEY; OT_SECRET_DATA]) then Done else
       rd_or "mac-stateless-object" MACF (so_class o) "state"
       (if negb (match so_state o with Some x => x =? ST_ACTIVE | None => false end) then Done else
        rd MACF (so_class o) "cryptographic_usage_masks"
        (if negb (has_bit (so_mask o) UM_MAC_GENERATE) then Done else crypto cr Done))
       Done)
    | c => c
    end).

(* ---- attribute operations *)
Definition stored_target (o : sobj) : target :=
  {| t_cls := so_class o; t_otype := so_otype o; t_alg := so_alg o; t_len := so_len o;
     t_mask := if so_mask o =? 0 then None else Some (so_mask o); t_policy := Some "default";
     t_sensitive := so_sensitive o; t_names := so_names o |}.

Definition h_set_attribute (s : store) (u : option Z) (a : attr) : outcome :=
  with_obj s u (fun o =>
    q_multivalued (a_name a) (fun multi =>
      if multi then Done else
      q_modifiable (a_name a) (fun m =>
        if negb m then Done else
        rd "_set_attributes_on_managed_object" (so_class o) "_object_type"
           (set_attributes (stored_target o) [(a_name a, [a])])))).

Definition MODIFY := "_process_modify_attribute".
(* the unguarded _get_attribute_from_managed_object(obj, name): Crash | value kind *)
Definition get_attr_unguarded (o : sobj) (name : string) (k : option (option nat) -> outcome) : outcome :=
  match attr_field name with
  | None => k None
  | Some f => rd_get1 (so_class o) f (k (Some (attr_list_len o name))) (k None)
  end.

Definition h_modify1 (v : version) (s : store) (u : option Z) (a : attr) : outcome :=
  with_obj s u (fun o =>
    q_modifiable (a_name a) (fun m =>
      if negb m then Done else
      q_multivalued (a_name a) (fun multi =>
        if multi then
          let idx := match a_index a with Some i => i | None => 0 end in
          get_attr_unguarded o (a_name a) (fun r =>
            match r with
            | Some (Some n) =>
                if (0 <=? idx) && (idx <? Z.of_nat n) then
                  match attrs_listed v o (a_name a) with
                  | inl c => c
                  | inr m => if idx <? Z.of_nat m then Done else Crash (ENGINE ++ ":" ++ MODIFY ++ ":IndexError")%string
                  end
                else Done
            | _ => (* `0 <= index < len(None)`: a negative index short-circuits into the ITEM_NOT_FOUND branch *)
                   if idx <? 0 then Done
                   else unguarded "modify-unsupported-multivalued" (ENGINE ++ ":" ++ MODIFY ++ ":TypeError")%string
            end)
        else
          match a_index a with
          | Some _ => Done
          | None =>
            match attrs_listed v o (a_name a) with
            | inl c => c
            | inr O => Done
            | inr _ =>
              match set_attribute (stored_target o) (a_name a) [a] with
              | inr c => c
              | inl _ =>
                match attrs_listed v o (a_name a) with
                | inl c => c
                | inr O => Crash (ENGINE ++ ":" ++ MODIFY ++ ":IndexError")%string
                | inr _ => Done
                end
              end
            end
          end))).

Definition h_modify2 (s : store) (u : option Z) (a : attr) (current : option attr) : outcome :=
  with_obj s u (fun o =>
    (* the current and the new attribute must be the same kind of attribute (repo commit 02e2981) *)
    if match current with Some c => negb (String.eqb (a_name c) (a_name a)) | None => false end then Done else
    q_modifiable (a_name a) (fun m =>
      if negb m then Done else
      q_multivalued (a_name a) (fun multi =>
        if multi then
          match current with
          | None => Done
          | Some c =>
            (* _get_attribute_index_from_managed_object reads the three list attributes; then set by index *)
            match attr_list_len o (a_name a), attr_field (a_name a) with
            | Some _, Some f => rd "_get_attribute_index_from_managed_object" (so_class o) f Done
            | _, _ => Done
            end
          end
        else
          match current with
          | None =>
            get_attr_unguarded o (a_name a) (fun r =>
              match r with
              | None => Done
              | Some _ => match set_attribute (stored_target o) (a_name a) [a] with inr c => c | inl _ => Done end
              end)
          | Some c =>
            (* _get_attribute_index_from_managed_object reads the same fields as _get_attribute_from_managed_object *)
            match attr_field (a_name a) with
            | Some f =>
              rd "_get_attribute_index_from_managed_object" (so_class o) f
                 (if loc_match o c
                  then match set_attribute (stored_target o) (a_name a) [a] with inr c => c | inl _ => Done end
                  else Done)
            | None => Done
            end
          end))).

Definition DEL1 := "_delete_attribute_from_managed_object".
(* attribute_value: None (1.x / reference) | Some a (2.0 current attribute) *)
Definition delete_from (o : sobj) (name : string) (value : option attr) : outcome :=
  rd DEL1 (so_class o) "_object_type"
  (q_applicable (so_otype o) name (fun ok =>
    if negb ok then Done else
    q_deletable name (fun d =>
      if negb d then Done else
      q_multivalued name (fun multi =>
        if negb multi then Done else
        if String.eqb name "Name" then
          rd DEL1 (so_class o) "names"
             (match value with Some _ => unguarded "delete-current-name" (attr_err ENGINE DEL1 "value") | None => Done end)
        else if String.eqb name "Application Specific Information" then rd DEL1 (so_class o) "app_specific_info" Done
        else if String.eqb name "Object Group" then rd DEL1 (so_class o) "object_groups" Done
        else Done)))).

Definition DELP := "_process_delete_attribute".
Definition h_delete1 (v : version) (s : store) (u : option Z) (name : string) (index : option Z) : outcome :=
  with_obj s u (fun o =>
    if String.eqb name "" then Done else
    let idx := match index with Some i => i | None => 0 end in
    match attrs_listed v o name with
    | inl c => c
    | inr n =>
      if (0 <? Z.of_nat n) && negb (idx =? 0) && negb ((0 <=? idx) && (idx <? Z.of_nat n)) then Done
      else delete_from o name None
    end).

Definition h_delete2 (s : store) (u : option Z) (current : option attr) (ref : option string) : outcome :=
  with_obj s u (fun o =>
    match current, ref with
    | Some c, _ => delete_from o (a_name c) (Some c)
    | None, Some n => delete_from o n None
    | None, None => Done
    end).

(* ------------------------------------------------------------------ _process_operation *)
Definition step_raw (v : version) (s : store) (cr : cres) (it : item) : outcome :=
  if negb (ver_ge v (min_version it)) then Done else
  match it with
  | ICreate otype ta => h_create v cr otype ta
  | ICreateKeyPair c pr pu => h_create_key_pair v cr c pr pu
  | IRegister otype sec ta => h_register v otype sec ta
  | IDeriveKey otype uids hd hp ta => h_derive_key v s cr otype uids hd hp ta
  | ILocate l => h_locate v s l
  | IGet u kft comp w => h_get s cr u kft comp w
  | IGetAttributes u names => h_get_attributes v s u names false
  | IGetAttributeList u => h_get_attributes v s u [] true
  | IActivate u => h_activate s u
  | IRevoke u c => h_revoke s u c
  | IDestroy u => h_destroy s u
  | IQuery => Done
  | IDiscoverVersions => Done
  | IEncrypt u p => h_crypto_op "_process_encrypt" OT_SYMMETRIC_KEY UM_ENCRYPT s cr u p
  | IDecrypt u p => h_crypto_op "_process_decrypt" OT_SYMMETRIC_KEY UM_DECRYPT s cr u p
  | ISign u p => h_crypto_op "_process_sign" OT_PRIVATE_KEY UM_SIGN s cr u p
  | ISignatureVerify u p => h_crypto_op "_process_signature_verify" OT_PUBLIC_KEY UM_VERIFY s cr u p
  | IMAC u a d => h_mac s cr u a d
  | ISetAttribute u a => h_set_attribute s u a
  | IModifyAttribute1 u a => if ver_ge v (2,0) then Done else h_modify1 v s u a
  | IModifyAttribute2 u a c => if ver_ge v (2,0) then h_modify2 s u a c else Done
  | IDeleteAttribute1 u n i => if ver_ge v (2,0) then Done else h_delete1 v s u n i
  | IDeleteAttribute2 u c r => if ver_ge v (2,0) then h_delete2 s u c r else Done
  end.

Definition step (v : version) (s : store) (cr : cres) (it : item) : outcome :=
  match step_raw v s cr it with Go => Done | o => o end.

(* does the handler reach its CryptographyEngine call? *)
Definition reaches_crypto (v : version) (s : store) (it : item) : bool :=
  match step v s CNotCalled it with
  | Crash site => String.eqb site sentinel
  | _ => false
  end.

Definition step_crash (v : version) (s : store) (cr : cres) (it : item) : bool :=
  match step v s cr it with Crash _ => true | _ => false end.
