(* C07 proofs: the allocator invariant, freshness of every issued identifier over all histories
   (restarts included), death of destroyed identifiers, frame of Destroy. *)
From PK Require Import Uid.Model.
From Coq Require Import ZArith List Bool Lia ZifyBool Sorted.
Import ListNotations.
Open Scope Z_scope.

(* ------------------------------------------------------------------ list facts *)

Lemma map_filter_uid : forall u l,
  map uid (filter (fun o => negb (uid o =? u)) l) = filter (fun x => negb (x =? u)) (map uid l).
Proof.
  induction l as [|o l IH]; simpl; auto.
  destruct (uid o =? u) eqn:E; simpl; rewrite IH; auto.
Qed.

Lemma SSorted_filter : forall (f : Z -> bool) l, StronglySorted Z.lt l -> StronglySorted Z.lt (filter f l).
Proof.
  induction l as [|x l IH]; simpl; intros H; auto.
  inversion H; subst.
  destruct (f x).
  - constructor; auto. rewrite Forall_forall in *. intros y Hy. apply filter_In in Hy. destruct Hy; auto.
  - auto.
Qed.

Lemma SSorted_snoc : forall l n, StronglySorted Z.lt l -> Forall (fun x => x < n) l -> StronglySorted Z.lt (l ++ [n]).
Proof.
  induction l as [|x l IH]; simpl; intros n H F.
  - constructor; constructor.
  - inversion H; subst. inversion F; subst. constructor; auto.
    apply Forall_app; split; auto.
Qed.

Lemma SSorted_NoDup : forall l, StronglySorted Z.lt l -> NoDup l.
Proof.
  induction l as [|x l IH]; intros H; constructor; inversion H; subst; auto.
  intro Hin. rewrite Forall_forall in H3. apply H3 in Hin. lia.
Qed.

Lemma SSorted_app : forall l1 l2, StronglySorted Z.lt l1 -> StronglySorted Z.lt l2 ->
  (forall x y, In x l1 -> In y l2 -> x < y) -> StronglySorted Z.lt (l1 ++ l2).
Proof.
  induction l1 as [|a l1 IH]; simpl; intros l2 H1 H2 H; auto.
  inversion H1; subst. constructor.
  - apply IH; auto.
  - apply Forall_app; split; auto. rewrite Forall_forall. intros y Hy. apply H; auto.
Qed.

(* ------------------------------------------------------------------ consecutive runs of identifiers *)

(* consec a l b: l = [a; a+1; ...; b-1] *)
Inductive consec : Z -> list Z -> Z -> Prop :=
| consec_nil : forall a, consec a [] a
| consec_cons : forall a l b, consec (a + 1) l b -> consec a (a :: l) b.

Lemma consec_le : forall a l b, consec a l b -> a <= b.
Proof. induction 1; lia. Qed.

Lemma consec_app : forall a l1 b l2 c, consec a l1 b -> consec b l2 c -> consec a (l1 ++ l2) c.
Proof. induction 1; simpl; intros; auto. constructor; auto. Qed.

Lemma consec_bounds : forall a l b, consec a l b -> Forall (fun x => a <= x < b) l.
Proof.
  induction 1; constructor.
  - apply consec_le in H. lia.
  - eapply Forall_impl; [|exact IHconsec]. simpl; intros; lia.
Qed.

Lemma consec_sorted : forall a l b, consec a l b -> StronglySorted Z.lt l.
Proof.
  induction 1; constructor; auto.
  apply consec_bounds in H. eapply Forall_impl; [|exact H]. simpl; intros; lia.
Qed.

Lemma consec_length : forall a l b, consec a l b -> b = a + Z.of_nat (length l).
Proof. induction 1; simpl length; lia. Qed.

(* ------------------------------------------------------------------ the invariant *)

Definition Inv (st : store) : Prop :=
  NoDup (uids st) /\ Forall (fun u => 0 < u < next_uid st) (uids st) /\ StronglySorted Z.lt (uids st) /\ 0 < next_uid st.

Lemma inv_init : Inv init_store.
Proof. unfold Inv, init_store, uids; simpl. repeat split; try constructor; lia. Qed.

Lemma uids_add_one : forall who t st, uids (snd (add_one who t st)) = uids st ++ [next_uid st].
Proof. intros. unfold add_one, uids; simpl. rewrite map_app; auto. Qed.

Lemma inv_add_one : forall who t st, Inv st -> Inv (snd (add_one who t st)).
Proof.
  intros who t st (ND & B & S & P).
  assert (Hlt : Forall (fun x => x < next_uid st) (uids st)).
  { eapply Forall_impl; [|exact B]. simpl; intros; lia. }
  assert (S' : StronglySorted Z.lt (uids st ++ [next_uid st])) by (apply SSorted_snoc; auto).
  unfold Inv. rewrite uids_add_one. simpl next_uid.
  repeat split; auto.
  - apply SSorted_NoDup; auto.
  - apply Forall_app; split.
    + eapply Forall_impl; [|exact B]. simpl; intros; lia.
    + constructor; [lia|constructor].
  - lia.
Qed.

(* add_objs hands out exactly next_uid, next_uid+1, ... *)
Lemma add_objs_spec : forall who ts st ids st',
  add_objs who ts st = (ids, st') ->
  consec (next_uid st) ids (next_uid st') /\ uids st' = uids st ++ ids /\ (Inv st -> Inv st').
Proof.
  induction ts as [|t ts IH]; simpl; intros st ids st' H.
  - inversion H; subst. split; [|split]; auto using consec_nil. rewrite app_nil_r; auto.
  - destruct (add_objs who ts _) as [ids2 st2] eqn:E. inversion H; subst. clear H.
    apply IH in E. destruct E as (C & U & I).
    simpl next_uid in C. split; [|split].
    + constructor. exact C.
    + rewrite U. change (uids {| objs := objs st ++ [mk (next_uid st) who t]; next_uid := next_uid st + 1 |})
        with (uids (snd (add_one who t st))). rewrite uids_add_one. rewrite <- app_assoc. auto.
    + intros Hi. apply I. apply (inv_add_one who t st Hi).
Qed.

Lemma uids_remove : forall u st, uids (remove_obj u st) = filter (fun x => negb (x =? u)) (uids st).
Proof. intros. unfold remove_obj, uids; simpl. apply map_filter_uid. Qed.

Lemma inv_remove : forall u st, Inv st -> Inv (remove_obj u st).
Proof.
  intros u st (ND & B & S & P). unfold Inv. rewrite uids_remove. simpl next_uid.
  repeat split; auto.
  - apply NoDup_filter; auto.
  - rewrite Forall_forall in *. intros x Hx. apply filter_In in Hx. destruct Hx; auto.
  - apply SSorted_filter; auto.
Qed.

Lemma not_in_remove : forall u st, ~ In u (uids (remove_obj u st)).
Proof.
  intros u st H. rewrite uids_remove in H. apply filter_In in H. destruct H as [_ H].
  rewrite Z.eqb_refl in H. discriminate.
Qed.

Lemma firstn_In : forall (A : Type) n (l : list A) x, In x (firstn n l) -> In x l.
Proof. induction n; destruct l; simpl; intros; try tauto. destruct H; auto. Qed.

Lemma skipn_In : forall (A : Type) n (l : list A) x, In x (skipn n l) -> In x l.
Proof. induction n; destruct l; simpl; intros; auto. Qed.

(* ------------------------------------------------------------------ lookup *)

Lemma find_obj_some : forall u st o, find_obj u st = Some o -> In o (objs st) /\ uid o = u.
Proof.
  unfold find_obj. intros u st o H. apply find_some in H. destruct H as [H1 H2]. split; auto. lia.
Qed.

Lemma find_obj_in_uids : forall u st o, find_obj u st = Some o -> In u (uids st).
Proof.
  intros u st o H. apply find_obj_some in H. destruct H as [H1 H2]. subst u. unfold uids. apply in_map; auto.
Qed.

Lemma find_obj_none : forall u st, ~ In u (uids st) -> find_obj u st = None.
Proof.
  intros u st H. destruct (find_obj u st) eqn:E; auto. exfalso. apply H. eapply find_obj_in_uids; eauto.
Qed.

Lemma access_dead : forall who p u st, ~ In u (uids st) -> access who p (Some u) st = ANotFound.
Proof. intros. unfold access. rewrite find_obj_none; auto. Qed.

Lemma access_ok_in : forall who p tgt st o, access who p tgt st = AOk o -> exists u, tgt = Some u /\ uid o = u /\ In u (uids st).
Proof.
  unfold access. intros who p tgt st o H. destruct tgt as [u|]; [|discriminate].
  destruct (find_obj u st) as [o'|] eqn:E; [|discriminate].
  destruct (permitted who p o'); inversion H; subst.
  exists u. split; auto. split.
  - apply find_obj_some in E. tauto.
  - eapply find_obj_in_uids; eauto.
Qed.

(* ------------------------------------------------------------------ one item *)

Lemma create_spec : forall who ts g st ph r st' ph',
  create who ts g st ph = (r, st', ph') ->
  consec (next_uid st) (issued_of r) (next_uid st') /\ uids st' = uids st ++ issued_of r /\ (Inv st -> Inv st').
Proof.
  unfold create. intros who ts g st ph r st' ph' H. destruct g.
  - destruct (add_objs who ts st) as [ids st2] eqn:E. inversion H; subst. simpl. eapply add_objs_spec; eauto.
  - inversion H; subst. simpl. rewrite app_nil_r. split; [|split]; auto using consec_nil.
Qed.

(* what one operation may do to the store: issue consecutive fresh identifiers at the end, or remove one *)
Lemma step_item_spec : forall ver who st ph it r st' ph',
  step_item ver who st ph it = (r, st', ph') ->
  consec (next_uid st) (issued_of r) (next_uid st') /\
  (Inv st -> Inv st') /\
  (forall x, In x (uids st') -> In x (uids st) \/ In x (issued_of r)).
Proof.
  intros ver who st ph it r st' ph' H. unfold step_item in H.
  assert (Same : forall r0, issued_of r0 = [] -> (r0, st, ph) = (r, st', ph') ->
          consec (next_uid st) (issued_of r) (next_uid st') /\ (Inv st -> Inv st') /\
          (forall x, In x (uids st') -> In x (uids st) \/ In x (issued_of r))).
  { intros r0 Hr0 Heq. inversion Heq; subst. rewrite Hr0. split; [|split]; auto using consec_nil. }
  assert (Cr : forall ts, create who ts (i_gate it) st ph = (r, st', ph') ->
          consec (next_uid st) (issued_of r) (next_uid st') /\ (Inv st -> Inv st') /\
          (forall x, In x (uids st') -> In x (uids st) \/ In x (issued_of r))).
  { intros ts Hc. apply create_spec in Hc. destruct Hc as (C & U & I). split; [|split]; auto.
    intros x Hx. rewrite U in Hx. apply in_app_or in Hx. auto. }
  destruct (i_op it) as [pol|pol|t pol|bases t pol|tgt|k tgt|tgt w| |vs| |ft off mx].
  - eapply Cr; eauto.
  - eapply Cr; eauto.
  - eapply Cr; eauto.
  - destruct (check_bases who st bases); try (eapply Same; eauto; reflexivity). eapply Cr; eauto.
  - destruct (access who PDestroy (resolve tgt ph) st) as [| |o]; try (eapply Same; eauto; reflexivity).
    destruct (i_gate it); try (eapply Same; eauto; reflexivity).
    inversion H; subst. simpl. split; [|split]; auto using consec_nil, inv_remove.
    intros x Hx. left. rewrite uids_remove in Hx. apply filter_In in Hx. tauto.
  - destruct (ver <? min_version k); try (eapply Same; eauto; reflexivity).
    destruct (access who (pop_of k) (resolve tgt ph) st); eapply Same; eauto; reflexivity.
  - destruct (access who PGet (resolve tgt ph) st); try (eapply Same; eauto; reflexivity).
    destruct (access who PGet (Some w) st); eapply Same; eauto; reflexivity.
  - eapply Same; eauto; reflexivity.
  - destruct (ver <? 11); eapply Same; eauto; reflexivity.
  - eapply Same; eauto; reflexivity.
  - eapply Same; eauto; reflexivity.
Qed.

(* ------------------------------------------------------------------ batches, requests, histories *)

Lemma issue_log_app : forall a b, issue_log (a ++ b) = issue_log a ++ issue_log b.
Proof. intros. unfold issue_log. apply flat_map_app. Qed.

Lemma run_items_spec : forall ver who cont its st ph es st' ph',
  run_items ver who cont st ph its = (es, st', ph') ->
  consec (next_uid st) (issue_log es) (next_uid st') /\
  (Inv st -> Inv st') /\
  (forall x, In x (uids st') -> In x (uids st) \/ In x (issue_log es)).
Proof.
  induction its as [|it rest IH]; simpl; intros st ph es st' ph' H.
  - inversion H; subst. simpl. split; [|split]; auto using consec_nil.
  - destruct (step_item ver who st ph it) as [[r st1] ph1] eqn:E1.
    pose proof (step_item_spec _ _ _ _ _ _ _ _ E1) as (C1 & I1 & U1).
    destruct (failed it r && negb cont).
    + inversion H; subst. unfold issue_log; simpl. rewrite app_nil_r. split; [|split]; auto.
    + destruct (run_items ver who cont st1 ph1 rest) as [[es2 st2] ph2] eqn:E2.
      inversion H; subst. apply IH in E2. destruct E2 as (C2 & I2 & U2).
      change (issue_log ({| e_item := it; e_ph := ph; e_store := st; e_resp := r |} :: es2))
        with (issued_of r ++ issue_log es2).
      split; [|split].
      * eapply consec_app; eauto.
      * auto.
      * intros x Hx. apply U2 in Hx. destruct Hx as [Hx|Hx].
        -- apply U1 in Hx. destruct Hx; auto. right. apply in_or_app; auto.
        -- right. apply in_or_app; auto.
Qed.

Definition out_entries (o : option (list entry)) : list entry := match o with Some es => es | None => [] end.

Lemma step_event_spec : forall st ev o st',
  step_event st ev = (o, st') ->
  consec (next_uid st) (issue_log (out_entries o)) (next_uid st') /\
  (Inv st -> Inv st') /\
  (forall x, In x (uids st') -> In x (uids st) \/ In x (issue_log (out_entries o))).
Proof.
  intros st ev o st' H. destruct ev as [rq|]; simpl in H.
  - unfold process in H. destruct (supported_version (rq_ver rq)).
    + destruct (run_items _ _ _ _ _ _) as [[es st2] ph2] eqn:E. inversion H; subst. simpl.
      eapply run_items_spec; eauto.
    + inversion H; subst. simpl. split; [|split]; auto using consec_nil.
  - inversion H; subst. simpl. split; [|split]; auto using consec_nil.
Qed.

Lemma entries_of_cons : forall o os, entries_of (o :: os) = out_entries o ++ entries_of os.
Proof. intros. unfold entries_of. simpl. destruct o; auto. Qed.

Lemma run_history_spec : forall evs st os st',
  run_history st evs = (os, st') ->
  consec (next_uid st) (issue_log (entries_of os)) (next_uid st') /\
  (Inv st -> Inv st') /\
  (forall x, In x (uids st') -> In x (uids st) \/ In x (issue_log (entries_of os))).
Proof.
  induction evs as [|ev rest IH]; simpl; intros st os st' H.
  - inversion H; subst. simpl. split; [|split]; auto using consec_nil.
  - destruct (step_event st ev) as [o st1] eqn:E1.
    destruct (run_history st1 rest) as [os2 st2] eqn:E2.
    inversion H; subst.
    apply step_event_spec in E1. destruct E1 as (C1 & I1 & U1).
    apply IH in E2. destruct E2 as (C2 & I2 & U2).
    rewrite entries_of_cons, issue_log_app.
    split; [|split].
    + eapply consec_app; eauto.
    + auto.
    + intros x Hx. apply U2 in Hx. destruct Hx as [Hx|Hx].
      * apply U1 in Hx. destruct Hx; auto. right. apply in_or_app; auto.
      * right. apply in_or_app; auto.
Qed.

(* ------------------------------------------------------------------ the invariant over histories *)

Theorem inv_step : forall ver who st ph it, Inv st -> Inv (snd (fst (step_item ver who st ph it))).
Proof.
  intros. destruct (step_item ver who st ph it) as [[r st1] ph1] eqn:E. simpl.
  eapply step_item_spec; eauto.
Qed.

Theorem inv_history : forall evs st, Inv st -> Inv (final_store st evs).
Proof.
  intros evs st H. unfold final_store. destruct (run_history st evs) as [os st'] eqn:E. simpl.
  eapply run_history_spec; eauto.
Qed.

Theorem inv_reachable : forall evs, Inv (final_store init_store evs).
Proof. intros. apply inv_history. apply inv_init. Qed.

(* ------------------------------------------------------------------ freshness *)

(* the identifiers issued during any history are exactly next_uid, next_uid+1, ... in order *)
Theorem issue_log_consecutive : forall evs st,
  consec (next_uid st) (issue_log (history_entries st evs)) (next_uid (final_store st evs)).
Proof.
  intros. unfold history_entries, final_store. destruct (run_history st evs) as [os st'] eqn:E. simpl.
  eapply run_history_spec; eauto.
Qed.

Theorem issued_fresh_item : forall ver who st ph it r st' ph' ids,
  Inv st -> step_item ver who st ph it = (r, st', ph') -> r = RIssued ids ->
  Forall (fun i => next_uid st <= i < next_uid st' /\ ~ In i (uids st)) ids /\ NoDup ids.
Proof.
  intros ver who st ph it r st' ph' ids HI H Hr.
  apply step_item_spec in H. destruct H as (C & _ & _). subst r. simpl in C.
  split.
  - pose proof (consec_bounds _ _ _ C) as B. rewrite Forall_forall in *. intros i Hi. split; auto.
    destruct HI as (_ & B0 & _). rewrite Forall_forall in B0. intro Hin. apply B0 in Hin. apply B in Hi. lia.
  - apply SSorted_NoDup. eapply consec_sorted; eauto.
Qed.

Theorem issue_log_increasing : forall evs st, StronglySorted Z.lt (issue_log (history_entries st evs)).
Proof. intros. eapply consec_sorted. apply issue_log_consecutive. Qed.

Theorem issue_log_nodup : forall evs st, NoDup (issue_log (history_entries st evs)).
Proof. intros. apply SSorted_NoDup. apply issue_log_increasing. Qed.

(* no identifier issued in a history is the identifier of an object that existed before it *)
Theorem issued_not_preexisting : forall evs st i,
  Inv st -> In i (issue_log (history_entries st evs)) -> next_uid st <= i /\ ~ In i (uids st).
Proof.
  intros evs st i HI Hi.
  pose proof (consec_bounds _ _ _ (issue_log_consecutive evs st)) as B. rewrite Forall_forall in B. apply B in Hi.
  split; [lia|]. destruct HI as (_ & B0 & _). rewrite Forall_forall in B0. intro Hin. apply B0 in Hin. lia.
Qed.

Lemma run_history_app : forall e1 e2 st,
  run_history st (e1 ++ e2) =
  (fst (run_history st e1) ++ fst (run_history (snd (run_history st e1)) e2), snd (run_history (snd (run_history st e1)) e2)).
Proof.
  induction e1 as [|ev e1 IH]; simpl; intros e2 st.
  - destruct (run_history st e2); auto.
  - destruct (step_event st ev) as [o st1]. rewrite IH.
    destruct (run_history st1 e1) as [os1 st2]. simpl.
    destruct (run_history st2 e2) as [os2 st3]. simpl. auto.
Qed.

Lemma entries_of_app : forall a b, entries_of (a ++ b) = entries_of a ++ entries_of b.
Proof. intros. unfold entries_of. apply flat_map_app. Qed.

(* every identifier issued after a point of a history (for instance after a restart) is larger than
   every identifier issued before it, and differs from every identifier that ever denoted an object *)
Theorem issued_fresh : forall e1 e2 st i j,
  In i (issue_log (history_entries st e1)) ->
  In j (issue_log (history_entries (final_store st e1) e2)) ->
  i < j.
Proof.
  intros e1 e2 st i j Hi Hj.
  pose proof (consec_bounds _ _ _ (issue_log_consecutive e1 st)) as B1.
  pose proof (consec_bounds _ _ _ (issue_log_consecutive e2 (final_store st e1))) as B2.
  rewrite Forall_forall in B1, B2. apply B1 in Hi. apply B2 in Hj. lia.
Qed.

Theorem history_split : forall e1 e2 st,
  history_entries st (e1 ++ e2) = history_entries st e1 ++ history_entries (final_store st e1) e2 /\
  final_store st (e1 ++ e2) = final_store (final_store st e1) e2.
Proof.
  intros. unfold history_entries, final_store. rewrite run_history_app. simpl. rewrite entries_of_app. auto.
Qed.

(* ------------------------------------------------------------------ destroyed identifiers stay dead *)

Definition Dead (u : Z) (st : store) : Prop := ~ In u (uids st) /\ u < next_uid st.

Lemma dead_preserved_gen : forall u st st' log,
  Dead u st -> consec (next_uid st) log (next_uid st') ->
  (forall x, In x (uids st') -> In x (uids st) \/ In x log) -> Dead u st' /\ ~ In u log.
Proof.
  intros u st st' log [D1 D2] C U.
  pose proof (consec_bounds _ _ _ C) as B. rewrite Forall_forall in B.
  assert (NL : ~ In u log) by (intro Hin; apply B in Hin; lia).
  split; auto. split.
  - intro Hin. apply U in Hin. tauto.
  - apply consec_le in C. lia.
Qed.

Lemma dead_step_item : forall u ver who st ph it r st' ph',
  Dead u st -> step_item ver who st ph it = (r, st', ph') -> Dead u st' /\ ~ In u (issued_of r).
Proof. intros. apply step_item_spec in H0. destruct H0 as (C & _ & U). eapply dead_preserved_gen; eauto. Qed.

(* a successful Destroy makes the identifier dead *)
Theorem destroy_makes_dead : forall ver who st ph tgt g st' ph',
  Inv st -> step_item ver who st ph {| i_op := ODestroy tgt; i_gate := g |} = (RDestroyed, st', ph') ->
  exists u, resolve tgt ph = Some u /\ In u (uids st) /\ Dead u st' /\ st' = remove_obj u st /\ ph' = ph.
Proof.
  intros ver who st ph tgt g st' ph' HI H. unfold step_item in H. simpl in H.
  destruct (access who PDestroy (resolve tgt ph) st) as [| |o] eqn:A; try discriminate.
  destruct g; try discriminate. inversion H; subst. clear H.
  apply access_ok_in in A. destruct A as (u & R & Hu & Hin). subst u.
  exists (uid o). split; auto. split; auto. split; [|auto]. split.
  - apply not_in_remove.
  - simpl. destruct HI as (_ & B & _). rewrite Forall_forall in B. apply B in Hin. lia.
Qed.

(* how an item can refer to an identifier *)
Definition direct_target (it : item) (ph : option Z) : option Z :=
  match i_op it with
  | ODestroy tgt | OAddr _ tgt | OGetWrapped tgt _ => resolve tgt ph
  | _ => None
  end.
Definition indirect_refs (it : item) : list Z :=
  match i_op it with
  | OGetWrapped _ w => [w]
  | ODeriveKey bases _ _ => bases
  | _ => []
  end.

Lemma check_bases_dead : forall who st u bases, ~ In u (uids st) -> In u bases -> check_bases who st bases <> BOk.
Proof.
  induction bases as [|b bs IH]; intros D Hin; [destruct Hin|].
  cbn [check_bases]. destruct Hin as [->|Hin].
  - rewrite access_dead; auto. discriminate.
  - destruct (access who PGet (Some b) st); try discriminate. auto.
Qed.

(* what an item answers when it refers to a dead identifier *)
Definition respects_dead (u : Z) (e : entry) : Prop :=
  (direct_target (e_item e) (e_ph e) = Some u -> e_resp e = RNotFound \/ e_resp e = RNotSupported) /\
  (In u (indirect_refs (e_item e)) -> e_resp e = RNotFound \/ e_resp e = RDenied \/ e_resp e = RWrapNotFound) /\
  (forall ids, e_resp e = RLocated ids -> ~ In u ids) /\
  (forall ids, e_resp e = RIssued ids -> ~ In u ids).

Lemma dead_item_answer : forall u ver who st ph it r st' ph',
  Dead u st -> step_item ver who st ph it = (r, st', ph') ->
  respects_dead u {| e_item := it; e_ph := ph; e_store := st; e_resp := r |} /\
  ((direct_target it ph = Some u \/ In u (indirect_refs it)) -> st' = st).
Proof.
  intros u ver who st ph it r st' ph' D H.
  pose proof (dead_step_item _ _ _ _ _ _ _ _ _ D H) as [_ NI].
  destruct D as [D1 D2].
  unfold respects_dead, direct_target, indirect_refs; simpl.
  unfold step_item in H.
  destruct (i_op it) as [pol|pol|t pol|bases t pol|tgt|k tgt|tgt w| |vs| |ft off mx]; simpl.
  - split; [|intros [?|?]; [discriminate|tauto]].
    split; [discriminate|]. split; [tauto|]. split; intros ids Hr; subst r; auto. unfold create in H.
    destruct (i_gate it); [destruct (add_objs _ _ _)|]; inversion H.
  - split; [|intros [?|?]; [discriminate|tauto]].
    split; [discriminate|]. split; [tauto|]. split; intros ids Hr; subst r; auto. unfold create in H.
    destruct (i_gate it); [destruct (add_objs _ _ _)|]; inversion H.
  - split; [|intros [?|?]; [discriminate|tauto]].
    split; [discriminate|]. split; [tauto|]. split; intros ids Hr; subst r; auto. unfold create in H.
    destruct (i_gate it); [destruct (add_objs _ _ _)|]; inversion H.
  - destruct (check_bases who st bases) eqn:CB.
    + inversion H; subst. split; [|auto]. split; [discriminate|]. split; [auto|]. split; intros; discriminate.
    + inversion H; subst. split; [|auto]. split; [discriminate|]. split; [auto|]. split; intros; discriminate.
    + split.
      * split; [discriminate|]. split.
        -- intro Hin. exfalso. eapply check_bases_dead; eauto.
        -- split; intros ids Hr; subst r; auto. unfold create in H.
           destruct (i_gate it); [destruct (add_objs _ _ _)|]; inversion H.
      * intros [?|Hin]; [discriminate|]. exfalso. eapply check_bases_dead; eauto.
  - destruct (access who PDestroy (resolve tgt ph) st) as [| |o] eqn:A.
    + inversion H; subst. split; [|auto]. split; [auto|]. split; [tauto|]. split; intros; discriminate.
    + inversion H; subst. split; [|auto]. split; [|split; [tauto|split; intros; discriminate]].
      intro R. rewrite R in A. rewrite access_dead in A; auto. discriminate.
    + assert (NR : resolve tgt ph <> Some u).
      { intro R. rewrite R in A. rewrite access_dead in A; auto. discriminate. }
      split; [|intros [?|?]; tauto].
      split; [tauto|]. split; [tauto|].
      destruct (i_gate it); inversion H; subst; split; intros; discriminate.
  - destruct (ver <? min_version k).
    + inversion H; subst. split; [|auto]. split; [auto|]. split; [tauto|]. split; intros; discriminate.
    + destruct (access who (pop_of k) (resolve tgt ph) st) as [| |o] eqn:A; inversion H; subst; (split; [|auto]).
      * split; [auto|]. split; [tauto|]. split; intros; discriminate.
      * split; [|split; [tauto|split; intros; discriminate]].
        intro R. rewrite R in A. rewrite access_dead in A; auto. discriminate.
      * split; [|split; [tauto|split; intros; discriminate]].
        intro R. rewrite R in A. rewrite access_dead in A; auto. discriminate.
  - destruct (access who PGet (resolve tgt ph) st) as [| |o] eqn:A.
    + inversion H; subst. split; [|auto]. split; [auto|]. split; [auto|]. split; intros; discriminate.
    + inversion H; subst. split; [|auto]. split; [|split; [auto|split; intros; discriminate]].
      intro R. rewrite R in A. rewrite access_dead in A; auto. discriminate.
    + assert (NR : resolve tgt ph <> Some u).
      { intro R. rewrite R in A. rewrite access_dead in A; auto. discriminate. }
      destruct (access who PGet (Some w) st) as [| |o2] eqn:A2; inversion H; subst; (split; [|auto]).
      * split; [tauto|]. split; [auto|]. split; intros; discriminate.
      * split; [tauto|]. split; [auto|]. split; intros; discriminate.
      * split; [tauto|]. split; [|split; intros; discriminate].
        intros [->|[]]. rewrite access_dead in A2; auto. discriminate.
  - inversion H; subst. split; [|auto]. split; [discriminate|]. split; [tauto|]. split.
    + intros ids Hr. inversion Hr; subst. intro Hin. apply D1. unfold uids.
      apply in_map_iff in Hin. destruct Hin as (o & Ho & Hf). apply filter_In in Hf. destruct Hf as [Hf _].
      apply in_map_iff. exists o. auto.
    + intros; discriminate.
  - destruct (ver <? 11); inversion H; subst; (split; [|auto]); (split; [discriminate|]); (split; [tauto|]); split; intros; discriminate.
  - inversion H; subst. split; [|auto]. split; [discriminate|]. split; [tauto|]. split; intros; discriminate.
  - inversion H; subst. split; [|auto]. split; [discriminate|]. split; [tauto|]. split.
    + intros ids Hr. inversion Hr; subst. intro Hin. apply D1. unfold uids.
      assert (Hall := Hin). destruct mx as [m|]; [apply firstn_In in Hall|]; apply skipn_In in Hall;
        apply in_map_iff in Hall; destruct Hall as (o & Ho & Hf); apply filter_In in Hf; destruct Hf as [Hf _];
        apply in_map_iff; exists o; auto.
    + intros; discriminate.
Qed.

Lemma dead_run_items : forall u ver who cont its st ph es st' ph',
  Dead u st -> run_items ver who cont st ph its = (es, st', ph') ->
  Dead u st' /\ Forall (respects_dead u) es /\ Forall (fun e => Dead u (e_store e)) es.
Proof.
  induction its as [|it rest IH]; simpl; intros st ph es st' ph' D H.
  - inversion H; subst. auto.
  - destruct (step_item ver who st ph it) as [[r st1] ph1] eqn:E1.
    pose proof (dead_step_item _ _ _ _ _ _ _ _ _ D E1) as [D1 _].
    pose proof (dead_item_answer _ _ _ _ _ _ _ _ _ D E1) as [R1 _].
    destruct (failed it r && negb cont).
    + inversion H; subst. split; auto.
    + destruct (run_items ver who cont st1 ph1 rest) as [[es2 st2] ph2] eqn:E2.
      inversion H; subst. apply IH in E2; auto. destruct E2 as (D2 & F2 & G2). split; auto.
Qed.

Lemma dead_run_history : forall u evs st os st',
  Dead u st -> run_history st evs = (os, st') ->
  Dead u st' /\ Forall (respects_dead u) (entries_of os) /\ Forall (fun e => Dead u (e_store e)) (entries_of os).
Proof.
  induction evs as [|ev rest IH]; simpl; intros st os st' D H.
  - inversion H; subst. simpl. auto.
  - destruct (step_event st ev) as [o st1] eqn:E1.
    destruct (run_history st1 rest) as [os2 st2] eqn:E2.
    inversion H; subst. rewrite entries_of_cons.
    assert (X : Dead u st1 /\ Forall (respects_dead u) (out_entries o) /\ Forall (fun e => Dead u (e_store e)) (out_entries o)).
    { destruct ev as [rq|]; simpl in E1.
      - unfold process in E1. destruct (supported_version (rq_ver rq)).
        + destruct (run_items _ _ _ _ _ _) as [[es sta] pha] eqn:E. inversion E1; subst. simpl.
          eapply dead_run_items; eauto.
        + inversion E1; subst. simpl. auto.
      - inversion E1; subst. simpl. auto. }
    destruct X as (D1 & F1 & G1). apply IH in E2; auto. destruct E2 as (D2 & F2 & G2).
    split; auto. split; apply Forall_app; auto.
Qed.

(* After a successful Destroy of u: in the rest of the batch and in every later history (any
   identities, any versions, restarts), u never becomes live again, every item that refers to u
   directly or through the placeholder answers "not found" (or "operation not supported" when the
   version check precedes the lookup), as wrapping key or derivation base it makes the item fail
   before anything is computed, Locate never lists it, and it is never issued again. *)
Theorem destroyed_dead : forall ver who st ph tgt g st1 ph1,
  Inv st -> step_item ver who st ph {| i_op := ODestroy tgt; i_gate := g |} = (RDestroyed, st1, ph1) ->
  exists u, resolve tgt ph = Some u /\ In u (uids st) /\
    (forall cont rest es st2 ph2, run_items ver who cont st1 ph1 rest = (es, st2, ph2) ->
        Dead u st2 /\ Forall (respects_dead u) es /\
        forall evs, ~ In u (uids (final_store st2 evs)) /\ Forall (respects_dead u) (history_entries st2 evs)).
Proof.
  intros ver who st ph tgt g st1 ph1 HI H.
  destruct (destroy_makes_dead _ _ _ _ _ _ _ _ HI H) as (u & R & Hin & D & _).
  exists u. split; auto. split; auto.
  intros cont rest es st2 ph2 E. destruct (dead_run_items _ _ _ _ _ _ _ _ _ _ D E) as (D2 & F2 & _).
  split; auto. split; auto. intros evs. unfold final_store, history_entries.
  destruct (run_history st2 evs) as [os st3] eqn:E3. simpl.
  destruct (dead_run_history _ _ _ _ _ D2 E3) as ((D3 & _) & F3 & _). auto.
Qed.

(* the same statement for any state in which u is dead (e.g. destroyed in an earlier run of the server) *)
Theorem dead_forever : forall u st evs, Dead u st ->
  Dead u (final_store st evs) /\ Forall (respects_dead u) (history_entries st evs).
Proof.
  intros u st evs D. unfold final_store, history_entries. destruct (run_history st evs) as [os st'] eqn:E. simpl.
  destruct (dead_run_history _ _ _ _ _ D E) as (D' & F & _). auto.
Qed.

(* ------------------------------------------------------------------ frame of Destroy *)

Lemma find_remove_other : forall u v l, v <> u ->
  find (fun o => uid o =? v) (filter (fun o => negb (uid o =? u)) l) = find (fun o => uid o =? v) l.
Proof.
  induction l as [|o l IH]; simpl; intros Hn; auto.
  destruct (uid o =? u) eqn:E1; simpl.
  - destruct (uid o =? v) eqn:E2; auto. lia.
  - destruct (uid o =? v); auto.
Qed.

Theorem destroy_frame : forall ver who st ph tgt g st' ph',
  step_item ver who st ph {| i_op := ODestroy tgt; i_gate := g |} = (RDestroyed, st', ph') ->
  exists u, resolve tgt ph = Some u /\
    objs st' = filter (fun o => negb (uid o =? u)) (objs st) /\
    next_uid st' = next_uid st /\ ph' = ph /\
    (forall o, uid o <> u -> (In o (objs st') <-> In o (objs st))) /\
    (forall v, v <> u -> find_obj v st' = find_obj v st) /\
    (forall w p v, v <> u -> access w p (Some v) st' = access w p (Some v) st).
Proof.
  intros ver who st ph tgt g st' ph' H. unfold step_item in H. simpl in H.
  destruct (access who PDestroy (resolve tgt ph) st) as [| |o] eqn:A; try discriminate.
  destruct g; try discriminate. inversion H; subst. clear H.
  apply access_ok_in in A. destruct A as (u & R & Hu & Hin). subst u.
  exists (uid o). split; auto. split; [reflexivity|]. split; [reflexivity|]. split; [reflexivity|].
  assert (F : forall v, v <> uid o -> find_obj v (remove_obj (uid o) st) = find_obj v st).
  { intros v Hv. unfold find_obj, remove_obj. simpl. apply find_remove_other; auto. }
  split; [|split; auto].
  - intros o' Hne. unfold remove_obj; simpl. rewrite filter_In. split; [tauto|].
    intro Hi. split; auto. destruct (uid o' =? uid o) eqn:E; auto. lia.
  - intros w p v Hv. unfold access. rewrite F; auto.
Qed.

(* items that do not refer to u answer the same before and after Destroy u (Locate aside, which loses u) *)
Theorem destroy_frame_answers : forall u st ver who ph k tgt g,
  resolve tgt ph <> Some u ->
  fst (fst (step_item ver who (remove_obj u st) ph {| i_op := OAddr k tgt; i_gate := g |})) =
  fst (fst (step_item ver who st ph {| i_op := OAddr k tgt; i_gate := g |})).
Proof.
  intros u st ver who ph k tgt g Hn. unfold step_item; simpl.
  destruct (ver <? min_version k); auto.
  assert (A : access who (pop_of k) (resolve tgt ph) (remove_obj u st) = access who (pop_of k) (resolve tgt ph) st).
  { destruct (resolve tgt ph) as [v|]; auto. unfold access, find_obj, remove_obj; simpl.
    rewrite find_remove_other; auto. congruence. }
  rewrite A. destruct (access who (pop_of k) (resolve tgt ph) st); auto.
Qed.

(* ------------------------------------------------------------------ the placeholder never denotes an old object *)

(* at the start of a request the placeholder is None; inside a batch it is None or an identifier issued in this batch *)
Lemma placeholder_fresh : forall ver who cont its st ph es st' ph',
  run_items ver who cont st ph its = (es, st', ph') ->
  Forall (fun e => e_ph e = ph \/ exists i, e_ph e = Some i /\ next_uid st <= i) es.
Proof.
  induction its as [|it rest IH]; simpl; intros st ph es st' ph' H.
  - inversion H; subst. constructor.
  - destruct (step_item ver who st ph it) as [[r st1] ph1] eqn:E1.
    assert (P1 : ph1 = ph \/ exists i, ph1 = Some i /\ next_uid st <= i).
    { clear H. unfold step_item in E1.
      assert (Cr : forall ts, create who ts (i_gate it) st ph = (r, st1, ph1) -> ph1 = ph \/ exists i, ph1 = Some i /\ next_uid st <= i).
      { intros ts Hc. unfold create in Hc. destruct (i_gate it).
        - destruct (add_objs who ts st) as [ids st2] eqn:EA. inversion Hc; subst.
          apply add_objs_spec in EA. destruct EA as (C & _ & _). apply consec_bounds in C.
          unfold last_id. destruct (rev ids) as [|x l] eqn:ER; auto. right. exists x. split; auto.
          rewrite Forall_forall in C. assert (Hx : In x ids). { apply in_rev. rewrite ER. left; auto. } apply C in Hx. lia.
        - inversion Hc; auto. }
      destruct (i_op it) as [pol|pol|t pol|bases t pol|tgt|k tgt|tgt w| |vs| |ft off mx]; eauto.
      - destruct (check_bases who st bases); eauto; inversion E1; auto.
      - destruct (access who PDestroy (resolve tgt ph) st); [| |destruct (i_gate it)]; inversion E1; auto.
      - destruct (ver <? min_version k); [|destruct (access who (pop_of k) (resolve tgt ph) st)]; inversion E1; auto.
      - destruct (access who PGet (resolve tgt ph) st); [| |destruct (access who PGet (Some w) st)]; inversion E1; auto.
      - inversion E1; auto.
      - destruct (ver <? 11); inversion E1; auto.
      - inversion E1; auto.
      - inversion E1; auto. }
    pose proof (step_item_spec _ _ _ _ _ _ _ _ E1) as (C1 & _ & _). apply consec_le in C1.
    destruct (failed it r && negb cont).
    + inversion H; subst. constructor; auto.
    + destruct (run_items ver who cont st1 ph1 rest) as [[es2 st2] ph2] eqn:E2.
      inversion H; subst. constructor; [simpl; auto|].
      apply IH in E2. eapply Forall_impl; [|exact E2]. simpl. intros e [He|(i & He & Hi)].
      * destruct P1 as [->|(j & -> & Hj)]; auto. right. exists j. rewrite He. auto.
      * right. exists i. split; auto. lia.
Qed.

(* ------------------------------------------------------------------ teeth *)

(* what the freshness theorems exclude: the allocator SQLite uses for an INTEGER PRIMARY KEY WITHOUT
   AUTOINCREMENT - largest existing rowid + 1.  After destroying the newest object it hands the dead
   identifier out again, while the persisted counter does not. *)
Definition next_of_max (st : store) : Z := fold_right Z.max 0 (uids st) + 1.

Example rowid_allocator_would_reuse :
  let st0 := snd (add_objs 0 [(TSym, 0); (TSym, 0)] init_store) in
  let st1 := remove_obj 2 st0 in
  uids st0 = [1; 2] /\ uids st1 = [1] /\ next_of_max st1 = 2 /\ next_uid st1 = 3.
Proof. vm_compute. auto. Qed.
