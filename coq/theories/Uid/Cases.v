(* Comparator for the C07 correspondence (tie K).  A case is a whole history: every event carries
   what the implementation answered (class of every batch item, identifiers issued, Locate ids)
   and what the database file held afterwards (sqlite_sequence, managed_objects.uid).  The model is
   run from the empty store and must agree at every event. *)
From PK Require Export Uid.Model.
From Coq Require Import ZArith List Bool.
Import ListNotations.
Open Scope Z_scope.

Fixpoint zlist_eqb (a b : list Z) : bool :=
  match a, b with
  | [], [] => true
  | x :: a', y :: b' => (x =? y) && zlist_eqb a' b'
  | _, _ => false
  end.

Definition resp_eqb (a b : resp) : bool :=
  match a, b with
  | RIssued x, RIssued y => zlist_eqb x y
  | RLocated x, RLocated y => zlist_eqb x y
  | RVersions x, RVersions y => zlist_eqb x y
  | RFailed, RFailed | RNotFound, RNotFound | RDenied, RDenied | RFound, RFound
  | RDestroyed, RDestroyed | RRefused, RRefused | RWrapNotFound, RWrapNotFound
  | RNotSupported, RNotSupported => true
  | _, _ => false
  end.

Fixpoint resps_eqb (a b : list resp) : bool :=
  match a, b with
  | [], [] => true
  | x :: a', y :: b' => resp_eqb x y && resps_eqb a' b'
  | _, _ => false
  end.

(* implementation side of one event *)
Record obs := { ob_seen : bool;                    (* false: the server process was killed while it handled the request -
                                                      nobody saw an answer; only the database file is compared *)
                ob_resps : option (list resp);    (* None = request-level error *)
                ob_next : Z;                       (* sqlite_sequence.seq + 1 after the event *)
                ob_uids : list Z }.                (* managed_objects.uid, ascending, after the event *)

Definition obs_agrees (o : option (list entry)) (st : store) (ob : obs) : bool :=
  (if ob_seen ob then
     match o, ob_resps ob with
     | Some es, Some rs => resps_eqb (map e_resp es) rs
     | None, None => true
     | _, _ => false
     end
   else true) && (next_uid st =? ob_next ob) && zlist_eqb (uids st) (ob_uids ob).

Fixpoint check_from (st : store) (h : list (event * obs)) : bool :=
  match h with
  | [] => true
  | (ev, ob) :: rest =>
      let '(o, st1) := step_event st ev in
      obs_agrees o st1 ob && check_from st1 rest
  end.

Definition check_history (h : list (event * obs)) : bool := check_from init_store h.

(* index of the first disagreeing event (for replay files) *)
Fixpoint first_bad_from (st : store) (h : list (event * obs)) (k : Z) : Z :=
  match h with
  | [] => -1
  | (ev, ob) :: rest =>
      let '(o, st1) := step_event st ev in
      if obs_agrees o st1 ob then first_bad_from st1 rest (k + 1) else k
  end.
Definition first_bad (h : list (event * obs)) : Z := first_bad_from init_store h 0.

(* what the model answers, for replay files *)
Definition model_trace (h : list (event * obs)) : list (option (list resp) * Z * list Z) :=
  (fix go st h := match h with
                  | [] => []
                  | (ev, _) :: rest => let '(o, st1) := step_event st ev in
                      (match o with Some es => Some (map e_resp es) | None => None end, next_uid st1, uids st1) :: go st1 rest
                  end) init_store h.

(* shorthands that keep the case files small *)
Definition It (o : op) (g : bool) : item := {| i_op := o; i_gate := g |}.
Definition Rq (who ver : Z) (cont : bool) (its : list item) : event :=
  EReq {| rq_who := who; rq_ver := ver; rq_cont := cont; rq_items := its |}.
Definition Ob (rs : option (list resp)) (n : Z) (us : list Z) : obs := {| ob_seen := true; ob_resps := rs; ob_next := n; ob_uids := us |}.
(* a request during which the server was killed: its item's gate says whether the transaction reached the file *)
Definition ObK (n : Z) (us : list Z) : obs := {| ob_seen := false; ob_resps := None; ob_next := n; ob_uids := us |}.
