(* C07 - identifier allocation and liveness: code model of the parts of
   kmip/services/server/engine.py and kmip/pie/objects.py that decide which
   identifier a new object gets and whether an identifier denotes an object.

     store        = rows of managed_objects (uid, owner, object type) in uid order
                    + next_uid  (sqlite_sequence.seq + 1; SQLite AUTOINCREMENT, trusted)
     placeholder  = KmipEngine._id_placeholder, threaded through the items of ONE request
     step_item    = one _process_<operation> call, projected to the C07 observation
                    (identifiers issued / found - denied - not-found class / Locate ids)
     process      = process_request + _process_batch (Stop / Continue)
     run_history  = requests of several identities and engine restarts

   Everything that is not about identifiers (lifecycle state, usage masks, attribute
   values, crypto) is abstracted into the per-item oracle bit i_gate: "once every
   addressed object has been reached under access control, do the remaining checks of
   the handler pass?".  It is taken from the implementation's success flag by the
   harness; the model decides what an operation may do GIVEN that bit, and the
   comparison (Cases.v) checks the class the implementation answered with.

   Definitions only.  Tie K: harness/c07.py. *)
From Coq Require Import ZArith List Bool.
Import ListNotations.
Open Scope Z_scope.

(* ---------- objects and the store ---------- *)

Inductive otype := TSym | TPub | TPriv | TSplit | TCert | TSecret | TOpaque.

Record obj := { uid : Z; owner : Z; oty : otype; opol : Z }.    (* opol: Operation Policy Name, 0 = 'default', 1 = 'team' *)
Record store := { objs : list obj; next_uid : Z }.

Definition init_store : store := {| objs := []; next_uid := 1 |}.
Definition uids (st : store) : list Z := map uid (objs st).

Definition find_obj (u : Z) (st : store) : option obj := find (fun o => uid o =? u) (objs st).
Definition live (u : Z) (st : store) : bool := existsb (fun o => uid o =? u) (objs st).

(* ---------- access control ----------
   Two operation policies are in force (harness/c07.py POLICIES, re-checked against kmip/core/policy.py every run):
     'default' (shipped): preset only - every operation on every stored type is ALLOW_OWNER, except
        Locate / Get / GetAttributes / GetAttributeList on PublicKey and Certificate (ALLOW_ALL); no group sections.
     'team': the same preset, plus a section for the group 'custodians' with ALLOW_ALL for every operation.
   A requester is a user with a group list; _is_allowed_by_operation_policy asks the preset when the list is None
   and otherwise each group's section (a policy without that section allows nothing - also not to the owner).
   Requesters are encoded as  user + 100 * group_code :
     0 = groups None, 1 = ['custodians'], 2 = ['other'], 3 = ['other', 'custodians'], 4 = []. *)

Definition user_of (w : Z) : Z := w mod 100.
Definition group_code (w : Z) : Z := w / 100.

Inductive pop := PGet | PGetAttributes | PGetAttributeList | PLocate | PActivate | PRevoke | PDestroy
               | PDeleteAttribute | PModifyAttribute | PSetAttribute.

Definition world_readable (t : otype) : bool := match t with TPub | TCert => true | _ => false end.
Definition read_op (p : pop) : bool :=
  match p with PGet | PGetAttributes | PGetAttributeList | PLocate => true | _ => false end.
Definition permitted (who : Z) (p : pop) (o : obj) : bool :=
  let g := group_code who in
  if (g =? 1) || (g =? 3) then opol o =? 1                       (* the 'custodians' section exists in 'team' only *)
  else if (g =? 2) || (g =? 4) then false                         (* no section for 'other'; empty list: nothing asked *)
  else (user_of who =? owner o) || (world_readable (oty o) && read_op p).     (* preset of either policy *)

(* _get_object_with_access_controls: _get_object_type (ItemNotFound) then the policy (PermissionDenied) *)
Inductive access_r := ANotFound | ADenied | AOk (o : obj).
Definition access (who : Z) (p : pop) (tgt : option Z) (st : store) : access_r :=
  match tgt with
  | None => ANotFound                                   (* placeholder None: "Could not locate object: None" *)
  | Some u => match find_obj u st with
              | None => ANotFound
              | Some o => if permitted who p o then AOk o else ADenied
              end
  end.

(* ---------- operations ---------- *)

(* operations that address one object by identifier or, without one, by the ID placeholder *)
Inductive akind := AGet | AGetAttributes | AGetAttributeList | AActivate | ARevoke
                 | AEncrypt | ADecrypt | ASign | ASignatureVerify | AMac
                 | ADeleteAttribute | AModifyAttribute | ASetAttribute.

(* the operation the handler passes to _get_object_with_access_controls *)
Definition pop_of (k : akind) : pop :=
  match k with
  | AGet | AEncrypt | ADecrypt | ASign | ASignatureVerify | AMac => PGet
  | AGetAttributes => PGetAttributes | AGetAttributeList => PGetAttributeList
  | AActivate => PActivate | ARevoke => PRevoke
  | ADeleteAttribute => PDeleteAttribute | AModifyAttribute => PModifyAttribute | ASetAttribute => PSetAttribute
  end.

(* protocol versions as 10*major + minor *)
Definition supported_version (v : Z) : bool :=
  (v =? 10) || (v =? 11) || (v =? 12) || (v =? 13) || (v =? 14) || (v =? 20).

(* @_kmip_version_supported(...) of the handler *)
Definition min_version (k : akind) : Z :=
  match k with
  | AEncrypt | ADecrypt | ASign | ASignatureVerify | AMac => 12
  | ASetAttribute => 20
  | _ => 10
  end.

(* KmipEngine._protocol_versions: a constant of the engine, newest first *)
Definition server_versions : list Z := [20; 14; 13; 12; 11; 10].

Inductive op :=
| OCreate (pol : Z)                         (* symmetric key; pol = Operation Policy Name of the template *)
| OCreateKeyPair (pol : Z)                  (* public key first, then private key *)
| ORegister (t : otype) (pol : Z)
| ODeriveKey (bases : list Z) (t : otype) (pol : Z)
| ODestroy (tgt : option Z)
| OAddr (k : akind) (tgt : option Z)
| OGetWrapped (tgt : option Z) (w : Z)      (* Get with a key wrapping specification naming encryption key w *)
| OLocate
| ODiscover (vs : list Z)                   (* DiscoverVersions; vs = the versions the client lists, [] = no list *)
| OQuery
| OLocatePage (ft : option otype) (off : Z) (mx : option Z).   (* Locate with an Object Type filter, Offset Items, Maximum Items *)

Record item := { i_op : op; i_gate : bool }.

Inductive resp :=
| RIssued (ids : list Z)      (* success of a creating operation, identifiers in response order (public, private) *)
| RFailed                     (* creating operation refused after every addressed object was reached *)
| RNotFound                   (* ITEM_NOT_FOUND "Could not locate object: u" *)
| RDenied                     (* PERMISSION_DENIED "Could not locate object: u" *)
| RFound                      (* the object was reached: success, or a refusal that is not about the identifier *)
| RDestroyed
| RRefused                    (* Destroy reached the object and refused (Active) *)
| RWrapNotFound               (* ITEM_NOT_FOUND "Wrapping key does not exist." *)
| RLocated (ids : list Z)     (* ascending *)
| RNotSupported               (* OPERATION_NOT_SUPPORTED by the protocol version *)
| RVersions (vs : list Z).    (* DiscoverVersions answer, server preference order *)

Definition mk (u who : Z) (t : otype * Z) : obj := {| uid := u; owner := user_of who; oty := fst t; opol := snd t |}.

(* session.add + commit: AUTOINCREMENT hands out next_uid, next_uid+1, ... and never goes back *)
Definition add_one (who : Z) (t : otype * Z) (st : store) : Z * store :=
  let n := next_uid st in (n, {| objs := objs st ++ [mk n who t]; next_uid := n + 1 |}).

Fixpoint add_objs (who : Z) (ts : list (otype * Z)) (st : store) : list Z * store :=
  match ts with
  | [] => ([], st)
  | t :: ts' => let '(n, st1) := add_one who t st in
                let '(ids, st2) := add_objs who ts' st1 in (n :: ids, st2)
  end.

Definition remove_obj (u : Z) (st : store) : store :=
  {| objs := filter (fun o => negb (uid o =? u)) (objs st); next_uid := next_uid st |}.

(* DeriveKey looks every base up (policy operation Get) before it derives anything *)
Inductive bases_r := BNotFound | BDenied | BOk.
Fixpoint check_bases (who : Z) (st : store) (bases : list Z) : bases_r :=
  match bases with
  | [] => BOk
  | b :: bs => match access who PGet (Some b) st with
               | ANotFound => BNotFound
               | ADenied => BDenied
               | AOk _ => check_bases who st bs
               end
  end.

Definition otype_code (t : otype) : Z :=
  match t with TSym => 2 | TPub => 3 | TPriv => 4 | TSplit => 5 | TCert => 1 | TSecret => 7 | TOpaque => 8 end.
Definition otype_matches (ft : option otype) (t : otype) : bool :=
  match ft with None => true | Some f => otype_code f =? otype_code t end.

Definition resolve (tgt ph : option Z) : option Z := match tgt with Some u => Some u | None => ph end.

Definition last_id (ids : list Z) : option Z := match rev ids with x :: _ => Some x | [] => None end.

Definition create (who : Z) (ts : list (otype * Z)) (gate : bool) (st : store) (ph : option Z)
  : resp * store * option Z :=
  if gate then let '(ids, st') := add_objs who ts st in (RIssued ids, st', match last_id ids with Some x => Some x | None => ph end)
  else (RFailed, st, ph).

(* one _process_<operation> call.  ver = self._protocol_version, who = self._client_identity[0],
   ph = self._id_placeholder: all three are parameters here; Isolation/Model.v reads them from the
   engine object's transient fields. *)
Definition step_item (ver who : Z) (st : store) (ph : option Z) (it : item) : resp * store * option Z :=
  let gate := i_gate it in
  match i_op it with
  | OCreate pol => create who [(TSym, pol)] gate st ph
  | OCreateKeyPair pol => create who [(TPub, pol); (TPriv, pol)] gate st ph
  | ORegister t pol => create who [(t, pol)] gate st ph
  | ODeriveKey bases t pol =>
      match check_bases who st bases with
      | BOk => create who [(t, pol)] gate st ph
      | BNotFound => (RNotFound, st, ph)
      | BDenied => (RDenied, st, ph)
      end
  | ODestroy tgt =>
      match access who PDestroy (resolve tgt ph) st with
      | ANotFound => (RNotFound, st, ph)
      | ADenied => (RDenied, st, ph)
      | AOk o => if gate then (RDestroyed, remove_obj (uid o) st, ph) else (RRefused, st, ph)
      end
  | OAddr k tgt =>
      if ver <? min_version k then (RNotSupported, st, ph)
      else match access who (pop_of k) (resolve tgt ph) st with
           | ANotFound => (RNotFound, st, ph)
           | ADenied => (RDenied, st, ph)
           | AOk _ => (RFound, st, ph)
           end
  | OGetWrapped tgt w =>
      match access who PGet (resolve tgt ph) st with
      | ANotFound => (RNotFound, st, ph)
      | ADenied => (RDenied, st, ph)
      | AOk _ => match access who PGet (Some w) st with
                 | AOk _ => (RFound, st, ph)
                 | _ => (RWrapNotFound, st, ph)
                 end
      end
  | OLocate => (RLocated (map uid (filter (permitted who PLocate) (objs st))), st, ph)
  | ODiscover vs =>
      if ver <? 11 then (RNotSupported, st, ph)
      else (RVersions (match vs with
                       | [] => server_versions
                       | _ => filter (fun v => existsb (Z.eqb v) vs) server_versions
                       end), st, ph)
  | OQuery => (RFound, st, ph)
  | OLocatePage ft off mx =>
      (* all objects have the same Initial Date in the histories of this check, so "newest first" keeps table order *)
      let all := map uid (filter (fun o => permitted who PLocate o && otype_matches ft (oty o)) (objs st)) in
      let rest := skipn (Z.to_nat off) all in
      (RLocated (match mx with Some m => firstn (Z.to_nat m) rest | None => rest end), st, ph)
  end.

(* did the batch item fail (decides Stop)? *)
Definition failed (it : item) (r : resp) : bool :=
  match r with
  | RIssued _ | RDestroyed | RLocated _ | RVersions _ => false
  | RFound => negb (i_gate it)
  | _ => true
  end.

(* _process_batch; cont = BatchErrorContinuationOption.CONTINUE.  The log keeps, for every executed
   item, the placeholder it saw - the theorems about addressing are stated over this log. *)
Record entry := { e_item : item; e_ph : option Z; e_store : store; e_resp : resp }.

Fixpoint run_items (ver who : Z) (cont : bool) (st : store) (ph : option Z) (its : list item)
  : list entry * store * option Z :=
  match its with
  | [] => ([], st, ph)
  | it :: rest =>
      let '(r, st1, ph1) := step_item ver who st ph it in
      let e := {| e_item := it; e_ph := ph; e_store := st; e_resp := r |} in
      if failed it r && negb cont then ([e], st1, ph1)
      else let '(es, st2, ph2) := run_items ver who cont st1 ph1 rest in (e :: es, st2, ph2)
  end.

(* ---------- requests, restarts, histories ---------- *)

Record request := { rq_who : Z; rq_ver : Z; rq_cont : bool; rq_items : list item }.

(* process_request: the placeholder starts as None in every request (fix 668324a); an unsupported
   protocol version is a request-level error before any item runs. *)
Definition process (st : store) (rq : request) : option (list entry) * store :=
  if supported_version (rq_ver rq)
  then let '(es, st', _) := run_items (rq_ver rq) (rq_who rq) (rq_cont rq) st None (rq_items rq) in (Some es, st')
  else (None, st).

Inductive event := EReq (rq : request) | ERestart.

(* a restart is a new KmipEngine object on the same database file: the store, including the
   allocator, is what the file holds *)
Definition step_event (st : store) (ev : event) : option (list entry) * store :=
  match ev with
  | EReq rq => process st rq
  | ERestart => (Some [], st)
  end.

Fixpoint run_history (st : store) (evs : list event) : list (option (list entry)) * store :=
  match evs with
  | [] => ([], st)
  | ev :: rest =>
      let '(o, st1) := step_event st ev in
      let '(os, st2) := run_history st1 rest in (o :: os, st2)
  end.

Definition final_store (st : store) (evs : list event) : store := snd (run_history st evs).

(* every entry executed in a history, in order *)
Definition entries_of (os : list (option (list entry))) : list entry :=
  flat_map (fun o => match o with Some es => es | None => [] end) os.
Definition history_entries (st : store) (evs : list event) : list entry := entries_of (fst (run_history st evs)).

Definition issued_of (r : resp) : list Z := match r with RIssued ids => ids | _ => [] end.
(* the issue log: every identifier handed out in the history, in order *)
Definition issue_log (es : list entry) : list Z := flat_map (fun e => issued_of (e_resp e)) es.
