(* C05 - comparator for the correspondence run (tie K): a case is one history of the real client/server/SQLite stack,
   every event carrying what the implementation answered; check_history replays it on the model. *)
From Coq Require Import ZArith List Bool.
From PKGen Require Import PieColumns.
From PK Require Import Persist.Model.
Import ListNotations.
Open Scope Z_scope.

Definition cparams_eq_dec (a b : cparams) : {a = b} + {a <> b}. Proof. unfold cparams in *. repeat decide equality. Defined.
Definition secret_eq_dec (a b : secret) : {a = b} + {a <> b}. Proof. repeat decide equality. Defined.
Definition prow_eq_dec (a b : prow) : {a = b} + {a <> b}. Proof. unfold prow. repeat decide equality. Defined.
Definition pobj_eq_dec (a b : pobj) : {a = b} + {a <> b}. Proof. unfold pobj. repeat decide equality. Defined.
Definition aval_eq_dec (a b : aval) : {a = b} + {a <> b}. Proof. repeat decide equality. Defined.
Definition rattr_eq_dec (a b : rattr) : {a = b} + {a <> b}. Proof. unfold rattr. repeat decide equality. Defined.
Definition deq {A} (d : forall a b : A, {a = b} + {a <> b}) (a b : A) : bool := if d a b then true else false.
Definition res_eqb {A} (e : A -> A -> bool) (a b : res A) : bool :=
  match a, b with Ok x, Ok y => e x y | Err, Err => true | _, _ => false end.

(* monomorphic constructors for the printers *)
Definition CP (a b c d e f : option Z) (r : option bool) (g h i j k l : option Z) : cparams := mkCP a b c d e f r g h i j k l.
Definition RCP (a b c d e f : Z) (r : option bool) (g h i j k l : option Z) : cparams_ Z := mkCP a b c d e f r g h i j k l.
Definition KC (m : option Z) (eu : option str) (ec : cparams) (mu : option str) (mc : cparams) (mac iv : option bytes) (enc : option Z) : kcols :=
  mkKC m eu ec mu mc mac iv enc.
Definition RKC (m : Z) (eu : option str) (ec : cparams_ Z) (mu : option str) (mc : cparams_ Z) (mac iv : option bytes) (enc : Z) : kcols_ Z :=
  mkKC m eu ec mu mc mac iv enc.
Definition rkc_null : kcols_ Z := kc_map sql_enum_out kc_none.
Definition ROW (c : oclass) (v : bytes) (alg : Z) (len : option Z) (fmt : Z) (k : kcols_ Z) (pa pi pt : option Z) (spm : Z) (prime : option Z)
               (sub st mask : Z) (names : list namerow) (groups : list str) (asi : list (str * str)) (sens : bool)
               (pol : option str) (ini : Z) (own : option str) : prow :=
  mkP c v alg len fmt k pa pi pt spm prime sub st mask names groups asi sens pol ini own.
Definition POBJ (c : oclass) (v : bytes) (alg : option Z) (len : option Z) (fmt : option Z) (k : kcols) (pa pi pt : option Z) (spm : option Z)
                (prime : option Z) (sub : option Z) : pobj :=
  let p := p_new c v in
  mkP c v alg len fmt k pa pi pt spm prime sub (p_state p) (p_masks p) (p_names p) (p_groups p) (p_asi p) (p_sensitive p) (p_policy p)
      (p_initial p) (p_owner p).

Inductive event :=
| ERegister (v : ver) (owner : str) (now : Z) (s : secret) (l : list tattr) (obs : option Z)
| EGet (u : Z) (obs : res secret)
| EAttrs (v : ver) (u : Z) (obs : res (list rattr))
| EAttrList (v : ver) (u : Z) (obs : res (list nat))
| ERow (u : Z) (otype_col : Z) (obs : prow)
| EActivate (u : Z)
| EDestroy (u : Z)
| ERestart
| EOther
| EForeign
| EMake (k : ckind) (v : ver) (owner : str) (now : Z) (mat : bytes) (l : list tattr) (obs : Z)
| EMakePair (v : ver) (owner : str) (now : Z) (fu : Z) (mu : bytes) (fr : Z) (mr : bytes) (lc lu lr : list tattr) (obs : Z * Z).

(* the row as the raw dump shows it: columns of tables the class does not own are printed with the model's NULL images *)
Definition row_view (r : prow) : prow :=
  let c := p_class r in
  let k := is_key c in
  mkP c (p_value r) (if k then p_alg r else enum_null) (if k then p_len r else None) (if k then p_fmt r else enum_null)
      (if k then p_kc r else rkc_null) (p_parts r) (p_ident r) (p_thresh r)
      (match c with CSplit => p_spm r | _ => enum_null end) (p_prime r)
      (if k then enum_null else p_sub r) (if is_crypto c then p_state r else enum_null) (if is_crypto c then p_masks r else 0)
      (p_names r) (p_groups r) (p_asi r) (p_sensitive r) (p_policy r) (p_initial r) (p_owner r).

Definition check_event (st : store) (e : event) : bool * store :=
  match e with
  | ERegister v o n s l obs =>
      match srv_register v o n s l st, obs with
      | Ok (st', u), Some u' => (u =? u', st')
      | Err, None => (true, st)
      | Ok (st', _), None => (false, st')
      | Err, Some _ => (false, st)
      end
  | EGet u obs => (res_eqb (deq secret_eq_dec) (srv_get st u) obs, step st HRead)
  | EAttrs v u obs => (res_eqb (list_eqb (deq rattr_eq_dec)) (get_attributes v st u) obs, step st HRead)
  | EAttrList v u obs => (res_eqb (list_eqb Nat.eqb) (srv_attr_list v st u) obs, step st HRead)
  | ERow u oc obs =>
      (match find_row u (s_rows st) with
       | Some r => deq prow_eq_dec (row_view r) obs && (oc =? otype_of (p_class r))
       | None => false
       end, st)
  | EActivate u => (true, step st (HActivate u))
  | EDestroy u => (true, step st (HDestroy u))
  | ERestart => (true, step st HRestart)
  | EOther => (true, step st HRead)
  | EForeign => (true, step st HForeign)
  | EMake k v o n mat l obs =>
      match srv_make k v o n mat l st with Ok (st', u) => (u =? obs, st') | Err => (false, st) end
  | EMakePair v o n fu mu fr mr lc lu lr obs =>
      match srv_make_pair v o n fu mu fr mr lc lu lr st with
      | Ok (st', (u1, u2)) => ((u1 =? fst obs) && (u2 =? snd obs), st')
      | Err => (false, st)
      end
  end.

Fixpoint check_from (st : store) (l : list event) : bool :=
  match l with [] => true | e :: r => let (b, st') := check_event st e in b && check_from st' r end.
Definition check_history (l : list event) : bool := check_from store0 l.

Fixpoint first_bad_from (st : store) (i : Z) (l : list event) : option Z :=
  match l with [] => None | e :: r => let (b, st') := check_event st e in if b then first_bad_from st' (i + 1) r else Some i end.
Definition first_bad (l : list event) : option Z := first_bad_from store0 0 l.

(* what the model answers at event i (for replay files) *)
Inductive answer := AReg (r : res Z) | AGet (r : res secret) | AAttrs (r : res (list rattr)) | AList (r : res (list nat))
                  | ARow (r : option prow) (otype_col : option Z) | ANone.
Definition model_answer (st : store) (e : event) : answer :=
  match e with
  | ERegister v o n s l _ => AReg (match srv_register v o n s l st with Ok (_, u) => Ok u | Err => Err end)
  | EGet u _ => AGet (srv_get st u)
  | EAttrs v u _ => AAttrs (get_attributes v st u)
  | EAttrList v u _ => AList (srv_attr_list v st u)
  | EMake k v o n mat l _ => AReg (match srv_make k v o n mat l st with Ok (_, u) => Ok u | Err => Err end)
  | EMakePair v o n fu mu fr mr lc lu lr _ => AReg (match srv_make_pair v o n fu mu fr mr lc lu lr st with Ok (_, (u, _)) => Ok u | Err => Err end)
  | ERow u _ _ => ARow (option_map row_view (find_row u (s_rows st))) (option_map (fun r => otype_of (p_class r)) (find_row u (s_rows st)))
  | _ => ANone
  end.
Fixpoint answer_from (st : store) (i : Z) (l : list event) : answer :=
  match l with
  | [] => ANone
  | e :: r => if i =? 0 then model_answer st e else answer_from (snd (check_event st e)) (i - 1) r
  end.
Definition answer_at (l : list event) (i : Z) : answer := answer_from store0 i l.

(* the two conversions of ObjectFactory observed in isolation (client side) *)
Inductive ccase :=
| CToPie (s : secret) (obs : res pobj)
| CToCore (p : pobj) (obs : res secret).
Definition check_convert (c : ccase) : bool :=
  match c with
  | CToPie s obs => res_eqb (deq pobj_eq_dec) (core_to_pie s) obs
  | CToCore p obs => res_eqb (deq secret_eq_dec) (pie_to_core p) obs
  end.

(* the decorators observed in isolation *)
Inductive dcase :=
| DEnumOut (v : option Z) (obs : Z) | DEnumIn (z : Z) (obs : option Z)
| DMaskOut (l : list Z) (obs : Z) | DMaskIn (z : Z) (obs : list Z).
Definition check_decorator (c : dcase) : bool :=
  match c with
  | DEnumOut v obs => sql_enum_out v =? obs
  | DEnumIn z obs => opt_eqb Z.eqb (sql_enum_in z) obs
  | DMaskOut l obs => sql_mask_out l =? obs
  | DMaskIn z obs => list_eqb Z.eqb (sql_mask_in z) obs
  end.
