(* C05 - the SQL hop on whole objects, Register followed by Get, and any later point of any history *)
From Coq Require Import ZArith List Bool Lia.
From PKGen Require Import PieColumns.
From PK Require Import Persist.Model Persist.DecoratorProofs Persist.ChainProofs.
Import ListNotations.
Open Scope Z_scope.

Lemma bind_ok : forall (A B : Type) (a : A) (f : A -> res B), bind (Ok a) f = f a. Proof. reflexivity. Qed.
Lemma bind_err : forall (A B : Type) (f : A -> res B), bind Err f = Err. Proof. reflexivity. Qed.
(* like ChainProofs.inv_bind but without `simpl` (which would unfold the mask table) *)
Ltac inv_bind H ::=
  match type of H with
  | bind ?r _ = Ok _ => let E := fresh "E" in destruct r eqn:E; [rewrite bind_ok in H; cbv beta in H|rewrite bind_err in H; discriminate H]
  end.

(* ------------------------------------------------------------------ sql_in (sql_out q) on the fields Get depends on *)
Lemma sql_core_roundtrip : forall q, shape_ok q -> penums_ok q -> same_core (sql_in (sql_out q)) q.
Proof.
  intros q (S1 & S2 & S3) (E1 & E2 & E3 & E4 & E5).
  destruct q as [c v alg len fmt kc pa pi pt spm pr sub st ma na gr asi se po ini ow]. simpl in *.
  unfold same_core; simpl.
  destruct c; simpl in *;
    try (destruct (S2 eq_refl) as [-> _]); try (destruct (S1 eq_refl) as (-> & -> & -> & ->));
    try (rewrite (S3 ltac:(discriminate)));
    rewrite ?sql_enum_roundtrip_l, ?kc_sql_roundtrip by assumption; repeat split; reflexivity.
Qed.

Lemma same_core_sym : forall p q, same_core p q -> same_core q p.
Proof. intros p q H. unfold same_core in *. intuition congruence. Qed.
Lemma same_core_trans : forall p q r, same_core p q -> same_core q r -> same_core p r.
Proof. intros p q r H1 H2. unfold same_core in *. intuition congruence. Qed.
Lemma same_core_shape : forall p q, same_core q p -> shape_ok p -> shape_ok q.
Proof.
  intros p q (H1 & H2 & H3 & H4 & H5 & H6 & H7 & H8 & H9 & H10 & H11 & H12). unfold shape_ok.
  rewrite H1, H3, H4, H5, H6, H10, H12. tauto.
Qed.
Lemma same_core_enums : forall p q, same_core q p -> penums_ok p -> penums_ok q.
Proof.
  intros p q (H1 & H2 & H3 & H4 & H5 & H6 & H7 & H8 & H9 & H10 & H11 & H12). unfold penums_ok.
  rewrite H3, H5, H6, H10, H12. tauto.
Qed.

(* ------------------------------------------------------------------ what core_to_pie builds *)
Lemma core_to_pie_shape : forall s p, core_to_pie s = Ok p -> enums_ok s -> shape_ok p /\ penums_ok p.
Proof.
  intros s p H He. destruct s as [c kb|kb sp|ct v|dt kb|ot v]; simpl in *.
  - assert (K : exists c', is_key c' = true /\ c' <> CSplit /\ key_to_pie c' kb = Ok p).
    { destruct c; try discriminate H.
      - inv_bind H. exists CSym. repeat split; try discriminate.
        case_if H. destruct (kc_get (p_kc a)); [injection H as <-; exact E|]. case_if H. injection H as <-. exact E.
      - case_if H. exists CPub. repeat split; try discriminate. exact H.
      - case_if H. exists CPriv. repeat split; try discriminate. exact H. }
    destruct K as (c' & K1 & K2 & K3). destruct (key_to_pie_shape _ _ _ K3 He) as (C & A & S & M & E1 & E2 & E3).
    split.
    + unfold shape_ok. rewrite C, K1. repeat split; intros; try assumption; try discriminate; try congruence.
    + unfold penums_ok. rewrite M, S. split; [exact E1|split; [exact E2|split; [exact E3|split; apply none_ok]]].
  - destruct He as [Hk Hm]. inv_bind H. destruct (key_to_pie_shape _ _ _ E Hk) as (C & A & S & M & E1 & E2 & E3).
    case_if H. injection H as <-. split.
    + unfold shape_ok; simpl. repeat split; intros; try assumption; try discriminate; try congruence.
    + unfold penums_ok; simpl. rewrite S. split; [exact E1|split; [exact E2|split; [exact E3|split; [exact Hm|apply none_ok]]]].
  - case_if H. injection H as <-. split.
    + unfold shape_ok; simpl. repeat split; intros; try reflexivity; try discriminate; try congruence.
    + unfold penums_ok; simpl. split; [apply none_ok|split; [apply none_ok|split; [apply kc_none_ok|split; [apply none_ok|assumption]]]].
  - injection H as <-. split.
    + unfold shape_ok; simpl. repeat split; intros; try reflexivity; try discriminate; try congruence.
    + unfold penums_ok; simpl. split; [apply none_ok|split; [apply none_ok|split; [apply kc_none_ok|split; [apply none_ok|assumption]]]].
  - injection H as <-. split.
    + unfold shape_ok; simpl. repeat split; intros; try reflexivity; try discriminate; try congruence.
    + unfold penums_ok; simpl. split; [apply none_ok|split; [apply none_ok|split; [apply kc_none_ok|split; [apply none_ok|assumption]]]].
Qed.

(* ------------------------------------------------------------------ attributes do not touch the object itself *)
Lemma apply_attrs_core : forall v p l q, apply_attrs v p l = Ok q ->
  (is_key (p_class p) = true -> p_alg p <> None) ->
  (sel_len l = None \/ sel_len l = p_len p) ->
  same_core q p.
Proof.
  intros v p l q H Ha Hl. unfold apply_attrs in H.
  case_if H. case_if H. case_if H.
  inv_bind H. inv_bind H. inv_bind H. inv_bind H. inv_bind H. injection H as <-.
  unfold same_core; simpl. repeat split; try reflexivity.
  - destruct (sel_alg l) as [z|]; [|injection E as <-; reflexivity].
    destruct (negb (is_key (p_class p))) eqn:K; [discriminate E|].
    destruct (p_alg p) as [x|] eqn:PA.
    + destruct (x =? z); [injection E as <-; reflexivity|discriminate E].
    + exfalso. apply Ha; [apply negb_false_iff in K; exact K|reflexivity].
  - destruct (sel_len l) as [z|]; [|injection E0 as <-; reflexivity].
    destruct Hl as [Hl|Hl]; [discriminate Hl|].
    destruct (negb (is_key (p_class p))); [discriminate E0|].
    destruct (t_int (p_len p)).
    + destruct (opt_eqb Z.eqb (p_len p) (Some z)); [injection E0 as <-; reflexivity|discriminate E0].
    + injection E0 as <-. exact Hl.
Qed.

Lemma sel_len_wire : forall v l, sel_len (wire_attrs v l) = sel_len l.
Proof.
  intros v l. unfold wire_attrs. destruct (ver_ge v (2, 0)); [|reflexivity]. unfold sel_len. f_equal.
  induction l as [|t l IH]; simpl; [reflexivity|]. rewrite IH. reflexivity.
Qed.

Definition len_attr_consistent (s : secret) (l : list tattr) : Prop := sel_len l = None \/ sel_len l = secret_len s.

Lemma core_to_pie_len : forall s p, core_to_pie s = Ok p -> is_key (p_class p) = true -> p_len p = secret_len s.
Proof.
  intros s p H K. destruct s as [c kb|kb sp|ct v|dt kb|ot v]; simpl in *.
  - assert (X : exists c', key_to_pie c' kb = Ok p).
    { destruct c; try discriminate H.
      - inv_bind H. exists CSym. case_if H. destruct (kc_get (p_kc a)); [injection H as <-; exact E|]. case_if H. injection H as <-. exact E.
      - case_if H. exists CPub. exact H.
      - case_if H. exists CPriv. exact H. }
    destruct X as [c' X]. unfold key_to_pie in X. destruct (kb_alg kb); destruct (kb_len kb); simpl in X; try discriminate X.
    inv_bind X. injection X as <-. reflexivity.
  - inv_bind H. case_if H. injection H as <-. simpl. unfold key_to_pie in E. destruct (kb_alg kb); destruct (kb_len kb); simpl in E; try discriminate E.
    inv_bind E. injection E as <-. reflexivity.
  - case_if H. injection H as <-. discriminate K.
  - injection H as <-. discriminate K.
  - injection H as <-. discriminate K.
Qed.

Lemma register_pie_core : forall v o n s l q, register_pie v o n s l = Ok q -> enums_ok s -> len_attr_consistent s l ->
  exists p, core_to_pie s = Ok p /\ same_core q p.
Proof.
  intros v o n s l q H He Hl. unfold register_pie in H. inv_bind H. inv_bind H. injection H as <-.
  exists a. split; [reflexivity|].
  destruct (core_to_pie_shape _ _ E He) as [(S1 & S2 & S3) _].
  assert (C : same_core a0 a).
  { apply (apply_attrs_core _ _ _ _ E0).
    - intro K. apply S2. exact K.
    - destruct Hl as [Hl|Hl]; [left; exact Hl|].
      destruct (is_key (p_class a)) eqn:K.
      + right. rewrite Hl. symmetry. apply core_to_pie_len; assumption.
      + (* a non-key class refuses a length attribute *)
        unfold apply_attrs in E0. case_if E0. case_if E0. case_if E0. inv_bind E0. inv_bind E0.
        destruct (sel_len l) as [z|] eqn:SL; [|left; reflexivity]. rewrite K in E2. simpl in E2. discriminate E2. }
  destruct C as (H1 & H2 & H3 & H4 & H5 & H6 & H7 & H8 & H9 & H10 & H11 & H12). unfold same_core; simpl. tauto.
Qed.

(* ------------------------------------------------------------------ the store *)
Definition store_ok (st : store) : Prop := Forall (fun kr => fst kr < s_next st) (s_rows st).

Lemma find_row_app_fresh : forall rows u r, Forall (fun kr => fst kr < u) rows -> find_row u (rows ++ [(u, r)]) = Some r.
Proof.
  induction rows as [|[k x] rows IH]; intros u r F; simpl.
  - rewrite Z.eqb_refl. reflexivity.
  - inversion F; subst. simpl in H1. destruct (k =? u) eqn:E; [apply Z.eqb_eq in E; lia|]. apply IH. assumption.
Qed.
Lemma find_row_app_old : forall rows u r x, find_row u rows = Some x -> find_row u (rows ++ r) = Some x.
Proof.
  induction rows as [|[k y] rows IH]; intros u r x H; simpl in *; [discriminate H|].
  destruct (k =? u); [exact H|]. apply IH. exact H.
Qed.
Lemma find_row_bound : forall rows u x n, Forall (fun kr => fst kr < n) rows -> find_row u rows = Some x -> u < n.
Proof.
  induction rows as [|[k y] rows IH]; intros u x n F H; simpl in *; [discriminate H|]. inversion F; subst. simpl in H2.
  destruct (k =? u) eqn:E; [apply Z.eqb_eq in E; lia|]. eapply IH; eassumption.
Qed.

Lemma register_store_ok : forall v o n s l st st' u, store_ok st -> srv_register v o n s l st = Ok (st', u) -> store_ok st' /\ u = s_next st.
Proof.
  intros v o n s l st st' u F H. unfold srv_register in H. inv_bind H. injection H as <- <-. split; [|reflexivity].
  unfold store_ok in *; simpl. apply Forall_app. split.
  - eapply Forall_impl; [|exact F]. simpl. intros; lia.
  - constructor; [simpl; lia|constructor].
Qed.

(* Register followed by Get *)
Lemma get_after_register_l : forall v o n s l st st' u,
  store_ok st -> wf_secret s -> enums_ok s -> len_attr_consistent s l ->
  srv_register v o n s l st = Ok (st', u) -> srv_get st' u = Ok s.
Proof.
  intros v o n s l st st' u F Hwf He Hl H. unfold srv_register in H. inv_bind H. injection H as <- <-.
  unfold srv_get; simpl. rewrite find_row_app_fresh by exact F.
  assert (Hl' : len_attr_consistent s (wire_attrs v l)) by (unfold len_attr_consistent; rewrite sel_len_wire; exact Hl).
  destruct (register_pie_core _ _ _ _ _ _ E He Hl') as [p [C S]].
  destruct (core_to_pie_shape _ _ C He) as [Sh En].
  rewrite (same_core_get _ a).
  - rewrite (same_core_get _ _ S). apply convert_roundtrip_l; assumption.
  - apply sql_core_roundtrip; [eapply same_core_shape; eassumption|eapply same_core_enums; eassumption].
Qed.

(* ------------------------------------------------------------------ any later point of any history, restarts included *)
Definition core_of_row (r : prow) : res secret := pie_to_core (sql_in r).

Definition activate_row (r : prow) : prow :=
  if is_crypto (p_class r) && (p_state r =? ST_PRE_ACTIVE) then
    mkP (p_class r) (p_value r) (p_alg r) (p_len r) (p_fmt r) (p_kc r) (p_parts r) (p_ident r) (p_thresh r) (p_spm r)
        (p_prime r) (p_sub r) ST_ACTIVE (p_masks r) (p_names r) (p_groups r) (p_asi r) (p_sensitive r) (p_policy r)
        (p_initial r) (p_owner r) else r.

Lemma core_of_activate : forall r, core_of_row (activate_row r) = core_of_row r.
Proof.
  intro r. unfold activate_row. destruct (is_crypto (p_class r) && (p_state r =? ST_PRE_ACTIVE)); [|reflexivity].
  unfold core_of_row. apply same_core_get. unfold same_core; simpl. repeat split.
Qed.

Lemma find_update_row : forall rows u u' f, find_row u (update_row u' f rows) =
  match find_row u rows with Some r => Some (if u =? u' then f r else r) | None => None end.
Proof.
  induction rows as [|[k y] rows IH]; intros u u' f; simpl; [reflexivity|].
  destruct (k =? u') eqn:E1; simpl.
  - apply Z.eqb_eq in E1. subst k. destruct (u' =? u) eqn:E2.
    + apply Z.eqb_eq in E2. subst. rewrite Z.eqb_refl. reflexivity.
    + destruct (find_row u rows) eqn:Fr; [|reflexivity].
      (* rows after the first hit are untouched *) assert (u =? u' = false) as -> by (rewrite Z.eqb_sym; exact E2). reflexivity.
  - destruct (k =? u) eqn:E2.
    + apply Z.eqb_eq in E2. subst k. assert (u =? u' = false) as -> by exact E1. reflexivity.
    + apply IH.
Qed.
Lemma find_remove_row : forall rows u u', u <> u' -> find_row u (remove_row u' rows) = find_row u rows.
Proof.
  induction rows as [|[k y] rows IH]; intros u u' Ne; simpl; [reflexivity|].
  destruct (k =? u') eqn:E1; simpl.
  - apply Z.eqb_eq in E1. subst k. destruct (u' =? u) eqn:E2; [apply Z.eqb_eq in E2; congruence|reflexivity].
  - destruct (k =? u); [reflexivity|]. apply IH. exact Ne.
Qed.
Lemma update_row_bound : forall rows u f n, Forall (fun kr : Z * prow => fst kr < n) rows -> Forall (fun kr => fst kr < n) (update_row u f rows).
Proof.
  induction rows as [|[k y] rows IH]; intros u f n F; simpl; [constructor|]. inversion F; subst.
  destruct (k =? u); constructor; simpl in *; try assumption. apply IH. assumption.
Qed.
Lemma remove_row_bound : forall rows u n, Forall (fun kr : Z * prow => fst kr < n) rows -> Forall (fun kr => fst kr < n) (remove_row u rows).
Proof.
  induction rows as [|[k y] rows IH]; intros u n F; simpl; [constructor|]. inversion F; subst.
  destruct (k =? u); [assumption|]. constructor; [assumption|]. apply IH. assumption.
Qed.

Definition not_destroying (u : Z) (h : hop) : Prop := match h with HDestroy u' => u' <> u | _ => True end.

(* ------------------------------------------------------------------ steps that are made of Register steps *)
Lemma step_make_cases : forall st k v o n mat l,
  step st (HMake k v o n mat l) = st \/
  exists s, made_secret k mat l = Ok s /\ step st (HMake k v o n mat l) = step st (HRegister v o n s (made_attrs k l)).
Proof.
  intros st k v o n mat l. unfold step. unfold srv_make. destruct (made_secret k mat l) as [s|] eqn:M.
  - right. exists s. split; [reflexivity|]. rewrite bind_ok. reflexivity.
  - left. rewrite bind_err. reflexivity.
Qed.

Lemma make_pair_inv : forall v o n fu mu fr mr lc lu lr st st' u1 u2,
  srv_make_pair v o n fu mu fr mr lc lu lr st = Ok (st', (u1, u2)) ->
  exists su sr st1,
    pair_secret CPub fu mu (resolve lc lu) = Ok su /\ pair_secret CPriv fr mr (resolve lc lr) = Ok sr /\
    srv_register v o n su (resolve lc lu) st = Ok (st1, u1) /\ srv_register v o n sr (resolve lc lr) st1 = Ok (st', u2).
Proof.
  intros v o n fu mu fr mr lc lu lr st st' u1 u2 H. unfold srv_make_pair in H.
  case_if H. cbv zeta in H.
  destruct (pair_secret CPub fu mu (resolve lc lu)) as [su|] eqn:P1; [rewrite bind_ok in H|rewrite bind_err in H; discriminate H].
  destruct (pair_secret CPriv fr mr (resolve lc lr)) as [sr|] eqn:P2; [rewrite bind_ok in H|rewrite bind_err in H; discriminate H].
  case_if H.
  destruct (srv_register v o n su (resolve lc lu) st) as [[st1 x1]|] eqn:R1; [rewrite bind_ok in H|rewrite bind_err in H; discriminate H].
  cbv beta in H. simpl fst in H. simpl snd in H.
  destruct (srv_register v o n sr (resolve lc lr) st1) as [[st2 x2]|] eqn:R2; [rewrite bind_ok in H|rewrite bind_err in H; discriminate H].
  cbv beta in H. simpl fst in H. simpl snd in H. injection H as <- <- <-.
  exists su, sr, st1. repeat split; assumption.
Qed.

Lemma step_pair_cases : forall st v o n fu mu fr mr lc lu lr,
  step st (HMakePair v o n fu mu fr mr lc lu lr) = st \/
  exists su sr, step st (HMakePair v o n fu mu fr mr lc lu lr) =
                step (step st (HRegister v o n su (resolve lc lu))) (HRegister v o n sr (resolve lc lr)).
Proof.
  intros st v o n fu mu fr mr lc lu lr. unfold step.
  destruct (srv_make_pair v o n fu mu fr mr lc lu lr st) as [[st' [u1 u2]]|] eqn:H; [|left; reflexivity].
  right. destruct (make_pair_inv _ _ _ _ _ _ _ _ _ _ _ _ _ _ H) as (su & sr & st1 & _ & _ & R1 & R2).
  exists su, sr. rewrite R1. rewrite R2. reflexivity.
Qed.

Lemma frame_reg : forall st v o n s' l u s,
  store_ok st ->
  (exists r, find_row u (s_rows st) = Some r /\ core_of_row r = Ok s) ->
  store_ok (step st (HRegister v o n s' l)) /\
  (exists r, find_row u (s_rows (step st (HRegister v o n s' l))) = Some r /\ core_of_row r = Ok s).
Proof.
  intros st v o n s' l u s F [r [Fr Cr]]. simpl.
  destruct (srv_register v o n s' l st) as [[st' u']|] eqn:R; [|split; [exact F|exists r; split; assumption]].
  destruct (register_store_ok _ _ _ _ _ _ _ _ F R) as [F' _]. split; [exact F'|].
  unfold srv_register in R. inv_bind R. injection R as <- <-. simpl. exists r. split; [|exact Cr].
  apply find_row_app_old. exact Fr.
Qed.

(* frame lemma: one step of any other operation leaves what Get answers for u unchanged *)
Lemma step_frame : forall st h u s,
  store_ok st -> not_destroying u h ->
  (exists r, find_row u (s_rows st) = Some r /\ core_of_row r = Ok s) ->
  store_ok (step st h) /\ (exists r, find_row u (s_rows (step st h)) = Some r /\ core_of_row r = Ok s).
Proof.
  intros st h u s F Nd Inv. destruct h as [v o n s' l| |u'|u'| | |k v o n mat l|v o n fu mu fr mr lc lu lr].
  - apply frame_reg; assumption.
  - simpl. split; assumption.
  - destruct Inv as [r [Fr Cr]]. simpl. split; [unfold store_ok in *; simpl; apply update_row_bound; exact F|].
    simpl. rewrite find_update_row. rewrite Fr. eexists. split; [reflexivity|].
    destruct (u =? u'); [|exact Cr]. fold (activate_row r). rewrite core_of_activate. exact Cr.
  - destruct Inv as [r [Fr Cr]]. simpl. split; [unfold store_ok in *; simpl; apply remove_row_bound; exact F|].
    simpl. rewrite find_remove_row by (simpl in Nd; congruence). exists r. split; assumption.
  - simpl. split; assumption.
  - destruct Inv as [r [Fr Cr]]. simpl. split; [unfold store_ok in *; simpl; eapply Forall_impl; [|exact F]; simpl; intros; lia|exists r; split; assumption].
  - destruct (step_make_cases st k v o n mat l) as [E|[s0 [_ E]]]; rewrite E; [split; assumption|].
    apply frame_reg; assumption.
  - destruct (step_pair_cases st v o n fu mu fr mr lc lu lr) as [E|[su [sr E]]]; rewrite E; [split; assumption|].
    destruct (frame_reg st v o n su (resolve lc lu) u s F Inv) as [F1 Inv1].
    apply frame_reg; assumption.
Qed.

Lemma run_frame : forall h st u s,
  store_ok st -> Forall (not_destroying u) h ->
  (exists r, find_row u (s_rows st) = Some r /\ core_of_row r = Ok s) ->
  srv_get (run st h) u = Ok s.
Proof.
  induction h as [|x h IH]; intros st u s F Nd Inv; simpl.
  - destruct Inv as [r [Fr Cr]]. unfold srv_get. rewrite Fr. exact Cr.
  - inversion Nd; subst. destruct (step_frame st x u s F H1 Inv) as [F' Inv']. apply IH; assumption.
Qed.

Lemma get_at_any_later_point_l : forall v o n s l st st' u h,
  store_ok st -> wf_secret s -> enums_ok s -> len_attr_consistent s l ->
  srv_register v o n s l st = Ok (st', u) ->
  Forall (not_destroying u) h ->
  srv_get (run st' h) u = Ok s.
Proof.
  intros v o n s l st st' u h F Hwf He Hl R Nd.
  destruct (register_store_ok _ _ _ _ _ _ _ _ F R) as [F' _].
  pose proof (get_after_register_l _ _ _ _ _ _ _ _ F Hwf He Hl R) as G.
  apply run_frame; try assumption. unfold srv_get in G. destruct (find_row u (s_rows st')) as [r|] eqn:Fr; [|discriminate G].
  exists r. split; [reflexivity|exact G].
Qed.

Lemma store0_ok : store_ok store0. Proof. constructor. Qed.
Lemma run_store_ok : forall h st, store_ok st -> store_ok (run st h).
Proof.
  induction h as [|x h IH]; intros st F; simpl; [exact F|]. apply IH.
  assert (Reg : forall st0 v o n s' l, store_ok st0 -> store_ok (step st0 (HRegister v o n s' l))).
  { intros st0 v o n s' l F0. simpl. destruct (srv_register v o n s' l st0) as [[st' u']|] eqn:R; [|exact F0].
    apply (register_store_ok _ _ _ _ _ _ _ _ F0 R). }
  destruct x as [v o n s' l| |u'|u'| | |k v o n mat l|v o n fu mu fr mr lc lu lr]; try (simpl; exact F).
  - apply Reg. exact F.
  - unfold store_ok in *; simpl; apply update_row_bound; exact F.
  - unfold store_ok in *; simpl; apply remove_row_bound; exact F.
  - unfold store_ok in *; simpl; eapply Forall_impl; [|exact F]; simpl; intros; lia.
  - destruct (step_make_cases st k v o n mat l) as [E|[s0 [_ E]]]; rewrite E; [exact F|apply Reg; exact F].
  - destruct (step_pair_cases st v o n fu mu fr mr lc lu lr) as [E|[su [sr E]]]; rewrite E; [exact F|apply Reg; apply Reg; exact F].
Qed.

(* a restart changes nothing that is stored *)
Lemma restart_keeps_rows : forall st, s_rows (step st HRestart) = s_rows st /\ s_next (step st HRestart) = s_next st.
Proof. intro st. split; reflexivity. Qed.
