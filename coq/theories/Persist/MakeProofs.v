(* C05 - objects made from templates (Create, DeriveKey, CreateKeyPair): the attribute side reduces to Register *)
From Coq Require Import ZArith List Bool Lia.
From PKGen Require Import PieColumns.
From PK Require Import Persist.Model Persist.DecoratorProofs Persist.ChainProofs Persist.StoreProofs Persist.AttrProofs.
Import ListNotations.
Open Scope Z_scope.

Definition alg_attr_ok (l : list tattr) : Prop := match sel_alg l with Some a => enum_ok (Some a) | None => True end.

Lemma sel_len_no_len : forall l, sel_len (filter (fun t => match ta_val t with TLen _ => false | _ => true end) l) = None.
Proof.
  intro l. unfold sel_len.
  assert (E : flat_map (fun t : tattr => match ta_val t with TLen z => [z] | _ => [] end)
                (filter (fun t => match ta_val t with TLen _ => false | _ => true end) l) = []).
  { induction l as [|t l IH]; simpl; [reflexivity|]. destruct t as [i tv]. destruct tv; simpl; try exact IH. }
  rewrite E. reflexivity.
Qed.

Lemma made_secret_facts : forall k mat l s, made_secret k mat l = Ok s -> alg_attr_ok l ->
  enums_ok s /\ wf_secret s /\ len_attr_consistent s (made_attrs k l).
Proof.
  intros k mat l s H Ha. unfold alg_attr_ok in Ha. destruct k; simpl in H.
  - destruct (sel_alg l) as [a|] eqn:A; [|discriminate H]. destruct (sel_len l) as [n|] eqn:N; [|discriminate H].
    destruct (sel_mask l); [|discriminate H]. injection H as <-. simpl.
    split; [split; [intro X; discriminate X|split; [exact Ha|exact I]]|]. split; [exact I|]. right. exact N.
  - destruct (sel_alg l) as [a|] eqn:A; [|discriminate H]. destruct (sel_len l) as [n|] eqn:N; [|discriminate H].
    destruct (n mod 8 =? 0); [|discriminate H]. injection H as <-. simpl.
    split; [split; [intro X; discriminate X|split; [exact Ha|exact I]]|]. split; [exact I|]. right. exact N.
  - destruct (sel_len l) as [n|] eqn:N; [|discriminate H]. destruct (n mod 8 =? 0); [|discriminate H]. injection H as <-. simpl.
    split; [intro X; discriminate X|]. split; [repeat split|]. left. apply sel_len_no_len.
Qed.

(* what the made object carries itself comes from the template *)
Lemma made_secret_shape : forall k mat l s, made_secret k mat l = Ok s ->
  match k with
  | KDeriveSecret => secret_class s = CSecret /\ secret_alg s = None /\ secret_len s = None
  | _ => secret_class s = CSym /\ secret_alg s = sel_alg l /\ secret_len s = sel_len l
  end.
Proof.
  intros k mat l s H. destruct k; simpl in H.
  - destruct (sel_alg l); [|discriminate H]. destruct (sel_len l); [|discriminate H]. destruct (sel_mask l); [|discriminate H].
    injection H as <-. repeat split.
  - destruct (sel_alg l); [|discriminate H]. destruct (sel_len l) as [n|]; [|discriminate H]. destruct (n mod 8 =? 0); [|discriminate H].
    injection H as <-. repeat split.
  - destruct (sel_len l) as [n|]; [|discriminate H]. destruct (n mod 8 =? 0); [|discriminate H]. injection H as <-. repeat split.
Qed.

Lemma make_as_register : forall k v o n mat l st st' u, srv_make k v o n mat l st = Ok (st', u) ->
  exists s, made_secret k mat l = Ok s /\ srv_register v o n s (made_attrs k l) st = Ok (st', u).
Proof.
  intros k v o n mat l st st' u H. unfold srv_make in H. destruct (made_secret k mat l) as [s|]; [|rewrite bind_err in H; discriminate H].
  rewrite bind_ok in H. exists s. split; [reflexivity|exact H].
Qed.

(* Create / DeriveKey: at any later point of any history, across restarts *)
Lemma made_at_any_later_point_l : forall k v o n mat l st st' u h v',
  store_ok st -> alg_attr_ok l -> names_untyped (made_attrs k l) -> mask_attr_defined (made_attrs k l) ->
  srv_make k v o n mat l st = Ok (st', u) -> Forall (not_destroying u) h ->
  exists s, made_secret k mat l = Ok s /\
            srv_attrs v' (run st' h) u = Ok (expected_attrs v' u n (state_after u s h) s (made_attrs k l)) /\
            srv_get (run st' h) u = Ok s.
Proof.
  intros k v o n mat l st st' u h v' F Ha Hn Hm H Nd.
  destruct (make_as_register _ _ _ _ _ _ _ _ _ H) as [s [M R]]. exists s. split; [exact M|].
  destruct (made_secret_facts _ _ _ _ M Ha) as (He & Hw & Hl). split.
  - exact (attrs_at_any_later_point_l v o n s (made_attrs k l) st st' u h v' F He Hl Hn Hm R Nd).
  - exact (get_at_any_later_point_l v o n s (made_attrs k l) st st' u h F Hw He Hl R Nd).
Qed.

(* CreateKeyPair *)
Lemma pair_secret_facts : forall c fmt mat l s, pair_secret c fmt mat l = Ok s -> enum_ok (Some fmt) -> alg_attr_ok l ->
  enums_ok s /\ wf_secret s /\ len_attr_consistent s l /\ secret_class s = c /\ secret_alg s = sel_alg l /\ secret_len s = sel_len l.
Proof.
  intros c fmt mat l s H Hf Ha. unfold pair_secret in H. unfold alg_attr_ok in Ha.
  destruct (sel_alg l) as [a|] eqn:A; [|discriminate H]. destruct (sel_len l) as [n|] eqn:N; [|discriminate H].
  destruct (sel_mask l); [|discriminate H]. injection H as <-. simpl.
  split; [split; [exact Hf|split; [exact Ha|exact I]]|]. split; [exact I|]. split; [right; exact N|]. repeat split.
Qed.

Lemma pair_at_any_later_point_l : forall v o n fu mu fr mr lc lu lr st st' u1 u2 h v',
  store_ok st -> enum_ok (Some fu) -> enum_ok (Some fr) ->
  alg_attr_ok (resolve lc lu) -> alg_attr_ok (resolve lc lr) ->
  names_untyped (resolve lc lu) -> names_untyped (resolve lc lr) ->
  mask_attr_defined (resolve lc lu) -> mask_attr_defined (resolve lc lr) ->
  srv_make_pair v o n fu mu fr mr lc lu lr st = Ok (st', (u1, u2)) ->
  Forall (not_destroying u1) h -> Forall (not_destroying u2) h ->
  exists su sr,
    pair_secret CPub fu mu (resolve lc lu) = Ok su /\ pair_secret CPriv fr mr (resolve lc lr) = Ok sr /\
    srv_attrs v' (run st' h) u1 = Ok (expected_attrs v' u1 n (state_after u1 su h) su (resolve lc lu)) /\
    srv_attrs v' (run st' h) u2 = Ok (expected_attrs v' u2 n (state_after u2 sr h) sr (resolve lc lr)) /\
    srv_get (run st' h) u1 = Ok su /\ srv_get (run st' h) u2 = Ok sr.
Proof.
  intros v o n fu mu fr mr lc lu lr st st' u1 u2 h v' F Hfu Hfr Hau Har Hnu Hnr Hmu Hmr H N1 N2.
  destruct (make_pair_inv _ _ _ _ _ _ _ _ _ _ _ _ _ _ H) as (su & sr & st1 & P1 & P2 & R1 & R2).
  exists su, sr. split; [exact P1|]. split; [exact P2|].
  destruct (pair_secret_facts _ _ _ _ _ P1 Hfu Hau) as (Eu & Wu & Lu & _).
  destruct (pair_secret_facts _ _ _ _ _ P2 Hfr Har) as (Er & Wr & Lr & _).
  destruct (register_store_ok _ _ _ _ _ _ _ _ F R1) as [F1 _].
  (* the private key's registration is the first step of the public key's later history *)
  assert (Run : run st' h = run st1 (HRegister v o n sr (resolve lc lr) :: h)) by (simpl; rewrite R2; reflexivity).
  assert (N1' : Forall (not_destroying u1) (HRegister v o n sr (resolve lc lr) :: h)) by (constructor; [exact I|exact N1]).
  repeat split.
  - rewrite Run. rewrite (attrs_at_any_later_point_l _ _ _ _ _ _ _ _ _ v' F Eu Lu Hnu Hmu R1 N1'). reflexivity.
  - exact (attrs_at_any_later_point_l v o n sr (resolve lc lr) st1 st' u2 h v' F1 Er Lr Hnr Hmr R2 N2).
  - rewrite Run. exact (get_at_any_later_point_l v o n su (resolve lc lu) st st1 u1 _ F Wu Eu Lu R1 N1').
  - exact (get_at_any_later_point_l v o n sr (resolve lc lr) st1 st' u2 h F1 Wr Er Lr R2 N2).
Qed.

(* the resolution rule of KMIP 4.2, attribute by attribute *)
Definition of_attr (a : nat) (l : list tattr) : list tattr := filter (fun t => Nat.eqb (tval_attr (ta_val t)) a) l.

Lemma count_attr_none : forall a l, count_attr a l = O -> of_attr a l = [].
Proof.
  intros a l. induction l as [|t l IH]; simpl; intro H; [reflexivity|].
  unfold of_attr in *. simpl. destruct (Nat.eqb (tval_attr (ta_val t)) a); [discriminate H|]. apply IH. exact H.
Qed.

Lemma resolve_rule : forall a common spec,
  of_attr a (resolve common spec) = if has_attr a spec then of_attr a spec else of_attr a common.
Proof.
  intros a common spec. unfold resolve, of_attr. rewrite filter_app.
  assert (E : filter (fun t => Nat.eqb (tval_attr (ta_val t)) a) (filter (fun t => negb (has_attr (tval_attr (ta_val t)) spec)) common) =
              if has_attr a spec then [] else filter (fun t => Nat.eqb (tval_attr (ta_val t)) a) common).
  { induction common as [|t c IH]; simpl; [destruct (has_attr a spec); reflexivity|].
    destruct (Nat.eqb (tval_attr (ta_val t)) a) eqn:Ea.
    - apply Nat.eqb_eq in Ea. rewrite Ea. destruct (has_attr a spec) eqn:Hs; simpl.
      + exact IH.
      + rewrite Ea. rewrite Nat.eqb_refl. rewrite IH. reflexivity.
    - destruct (negb (has_attr (tval_attr (ta_val t)) spec)); simpl; [rewrite Ea|]; exact IH. }
  rewrite E. unfold has_attr. destruct (Nat.eqb (count_attr a spec) 0) eqn:C; simpl.
  - apply Nat.eqb_eq in C. pose proof (count_attr_none a spec C) as Z0. unfold of_attr in Z0. rewrite Z0. reflexivity.
  - rewrite app_nil_r. reflexivity.
Qed.
