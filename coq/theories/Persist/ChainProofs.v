(* C05 - key wrapping data, pie/core conversion, SQL hop, Register/Get composition, histories *)
From Coq Require Import ZArith List Bool Lia.
From PKGen Require Import PieColumns.
From PK Require Import Persist.Model Persist.DecoratorProofs.
Import ListNotations.
Open Scope Z_scope.

Ltac inv_bind H :=
  match type of H with
  | bind ?r _ = Ok _ => let E := fresh "E" in destruct r eqn:E; simpl in H; [|discriminate H]
  end.

Ltac case_if H :=
  match type of H with
  | (if ?b then _ else _) = _ => let B := fresh "B" in destruct b eqn:B; try discriminate H
  end.

(* ------------------------------------------------------------------ key wrapping data *)
Definition ki_ok (k : option keyinfo) : Prop :=
  match k with
  | None => True
  | Some ki => match ki_cp ki with Some c => cp_any c = true | None => True end
  end.
(* the hypothesis that excludes exactly the remaining known finding: a cryptographic-parameters structure that is present
   has at least one field set (a present but completely empty structure cannot be told from an absent one in the columns) *)
Definition kwd_no_empty_params (w : option kwd) : Prop :=
  match w with None => True | Some w => ki_ok (kw_eki w) /\ ki_ok (kw_mski w) end.

Lemma ki_roundtrip : forall k, ki_ok k ->
  exists d, ki_to_dict k = Ok d /\ dict_to_ki (ki_get (kid_uid d) (kid_cp d)) = Ok k.
Proof.
  intros [[u [c|]]|] H; simpl in *.
  - exists (Some (mkKID (Some u) (Some c))). split; [reflexivity|].
    simpl. unfold ki_get. rewrite H. reflexivity.
  - exists (Some (mkKID (Some u) None)). split; [reflexivity|]. reflexivity.
  - exists None. split; [reflexivity|]. reflexivity.
Qed.

Lemma kwd_roundtrip_l : forall w, kwd_no_empty_params w -> exists k, kwd_flatten w = Ok k /\ kwd_unflatten k = Ok w.
Proof.
  intros [w|] H.
  - destruct w as [m e s mac iv enc]. simpl in H. destruct H as [He Hs].
    destruct (ki_roundtrip e He) as [de [E1 E2]]. destruct (ki_roundtrip s Hs) as [ds [S1 S2]].
    unfold kwd_flatten, kwd_to_dict. simpl. rewrite E1, S1. simpl. eexists. split; [reflexivity|].
    unfold kwd_unflatten, kc_get. simpl. unfold dict_to_kwd. simpl. rewrite E2, S2. reflexivity.
  - exists kc_none. split; reflexivity.
Qed.

Definition kwd_witness : option kwd :=
  Some (mkKW 1 (Some (mkKI [55] (Some cp_none))) None None None (Some 1)).
(* what used to be lost before fix 46c741e now survives *)
Definition kwd_falsy : option kwd :=
  Some (mkKW 1 (Some (mkKI [] (Some (mkCP None None None None None None (Some false) (Some 0) None None None None None)))) None (Some []) None (Some 1)).
Lemma kwd_roundtrip_refuted_l : exists w k, kwd_flatten w = Ok k /\ kwd_unflatten k <> Ok w.
Proof. exists kwd_witness. eexists. split; [vm_compute; reflexivity|]. vm_compute. intro H. discriminate H. Qed.

(* enumerations inside the wrapping data survive the EnumType columns *)
Definition cp_enums_ok (c : cparams) : Prop :=
  enum_ok (cp_bcm c) /\ enum_ok (cp_pad c) /\ enum_ok (cp_hash c) /\ enum_ok (cp_role c) /\ enum_ok (cp_dsa c) /\ enum_ok (cp_alg c).
Definition kc_enums_ok (k : kcols) : Prop :=
  enum_ok (kc_method k) /\ enum_ok (kc_enc k) /\ cp_enums_ok (kc_ecp k) /\ cp_enums_ok (kc_mcp k).

Lemma cp_sql_roundtrip : forall c, cp_enums_ok c -> cp_map sql_enum_in (cp_map sql_enum_out c) = c.
Proof.
  intros c (H1 & H2 & H3 & H4 & H5 & H6). destruct c; simpl in *. unfold cp_map; simpl.
  rewrite !sql_enum_roundtrip_l by assumption. reflexivity.
Qed.
Lemma kc_sql_roundtrip : forall k, kc_enums_ok k -> kc_map sql_enum_in (kc_map sql_enum_out k) = k.
Proof.
  intros k (H1 & H2 & H3 & H4). destruct k; simpl in *. unfold kc_map; simpl.
  rewrite !cp_sql_roundtrip by assumption. rewrite !sql_enum_roundtrip_l by assumption. reflexivity.
Qed.
Lemma cp_none_ok : cp_enums_ok cp_none. Proof. repeat split; intro H; discriminate H. Qed.
Lemma kc_none_ok : kc_enums_ok kc_none. Proof. repeat split; intro H; discriminate H. Qed.

Definition ki_enums_ok (k : option keyinfo) : Prop :=
  match k with Some ki => match ki_cp ki with Some c => cp_enums_ok c | None => True end | None => True end.
Definition kwd_enums_ok (w : option kwd) : Prop :=
  match w with
  | None => True
  | Some w => enum_ok (Some (kw_method w)) /\ enum_ok (kw_enc w) /\ ki_enums_ok (kw_eki w) /\ ki_enums_ok (kw_mski w)
  end.

Lemma ki_dict_enums : forall k d, ki_to_dict k = Ok d -> ki_enums_ok k -> cp_enums_ok (kid_cp d).
Proof.
  intros [[u [c|]]|] d H Ok'; simpl in *; injection H as <-; simpl; [exact Ok'|apply cp_none_ok|apply cp_none_ok].
Qed.
Lemma flatten_enums_ok : forall w k, kwd_flatten w = Ok k -> kwd_enums_ok w -> kc_enums_ok k.
Proof.
  intros [w|] k H Hok; unfold kwd_flatten in H; simpl in H.
  - destruct w as [m e s mac iv enc]. simpl in *. destruct Hok as (Hm & Henc & He & Hs).
    destruct (ki_to_dict e) eqn:E1; simpl in H; [|discriminate H]. destruct (ki_to_dict s) eqn:E2; simpl in H; [|discriminate H].
    injection H as <-. unfold kc_enums_ok; simpl. repeat split; try assumption;
      first [apply (ki_dict_enums _ _ E1 He) | apply (ki_dict_enums _ _ E2 Hs)].
  - injection H as <-. apply kc_none_ok.
Qed.

(* ------------------------------------------------------------------ well-formed secrets *)
Definition kb_wf (kb : keyblock) : Prop := kwd_no_empty_params (kb_kwd kb).
(* excludes exactly the two known findings about Get: empty parameter structures, and Secret Data key block extras *)
Definition wf_secret (s : secret) : Prop :=
  match s with
  | SKey _ kb => kb_wf kb
  | SSplit kb _ => kb_wf kb
  | SCert _ _ => True
  | SSecret _ kb => kb_fmt kb = KFT_OPAQUE /\ kb_alg kb = None /\ kb_len kb = None /\ kb_kwd kb = None
  | SOpaque _ _ => True
  end.
(* every enumeration value is an integer other than the NULL sentinel (true of every member: stored_members_never_null) *)
Definition kb_enums_ok (kb : keyblock) : Prop := enum_ok (Some (kb_fmt kb)) /\ enum_ok (kb_alg kb) /\ kwd_enums_ok (kb_kwd kb).
Definition enums_ok (s : secret) : Prop :=
  match s with
  | SKey _ kb => kb_enums_ok kb
  | SSplit kb sp => kb_enums_ok kb /\ enum_ok (Some (sp_method sp))
  | SCert ct _ => enum_ok (Some ct)
  | SSecret dt _ => enum_ok (Some dt)
  | SOpaque ot _ => enum_ok (Some ot)
  end.

(* ------------------------------------------------------------------ ObjectFactory.convert: core -> pie -> core *)
Lemma key_to_pie_back : forall c kb p, kb_wf kb -> key_to_pie c kb = Ok p ->
  p_class p = c /\ pie_keyblock p = Ok kb /\ p_parts p = None /\ p_sub p = None.
Proof.
  intros c kb p Hwf H. unfold key_to_pie in H. destruct kb as [f v a l w]. simpl in *.
  destruct a as [a|]; destruct l as [l|]; simpl in H; try discriminate H.
  destruct (kwd_roundtrip_l w Hwf) as [k [F U]]. rewrite F in H. simpl in H. injection H as <-. simpl.
  repeat split; try reflexivity. unfold pie_keyblock. simpl. rewrite U. reflexivity.
Qed.

Lemma convert_roundtrip_l : forall s p, wf_secret s -> core_to_pie s = Ok p -> pie_to_core p = Ok s.
Proof.
  intros s p Hwf H. destruct s as [c kb|kb sp|ct v|dt kb|ot v]; simpl in *.
  - destruct c; try discriminate H.
    + inv_bind H. destruct (key_to_pie_back _ _ _ Hwf E) as (C & K & _).
      assert (a = p) as ->.
      { case_if H. destruct (kc_get (p_kc a)); [injection H as <-; reflexivity|]. case_if H. injection H as <-; reflexivity. }
      unfold pie_to_core. rewrite C, K. reflexivity.
    + case_if H.
      destruct (key_to_pie_back _ _ _ Hwf H) as (C & K & _). unfold pie_to_core. rewrite C, K. reflexivity.
    + case_if H.
      destruct (key_to_pie_back _ _ _ Hwf H) as (C & K & _). unfold pie_to_core. rewrite C, K. reflexivity.
  - inv_bind H. destruct (key_to_pie_back _ _ _ Hwf E) as (C & K & _). case_if H. injection H as <-.
    unfold pie_to_core; simpl. unfold pie_keyblock in *. simpl. destruct (p_fmt a); [|discriminate K].
    destruct (kwd_unflatten (p_kc a)); simpl in *; [|discriminate K]. injection K as <-. destruct sp; reflexivity.
  - case_if H. injection H as <-. reflexivity.
  - injection H as <-. destruct Hwf as (F & A & L & W). destruct kb; simpl in *; subst. reflexivity.
  - injection H as <-. reflexivity.
Qed.

(* ------------------------------------------------------------------ the fields Get depends on *)
Definition same_core (p q : pobj) : Prop :=
  p_class p = p_class q /\ p_value p = p_value q /\ p_alg p = p_alg q /\ p_len p = p_len q /\ p_fmt p = p_fmt q /\ p_kc p = p_kc q /\
  p_parts p = p_parts q /\ p_ident p = p_ident q /\ p_thresh p = p_thresh q /\ p_spm p = p_spm q /\ p_prime p = p_prime q /\ p_sub p = p_sub q.

Lemma same_core_refl : forall p, same_core p p. Proof. intro; repeat split. Qed.
Lemma same_core_get : forall p q, same_core p q -> pie_to_core p = pie_to_core q.
Proof.
  intros p q (H1 & H2 & H3 & H4 & H5 & H6 & H7 & H8 & H9 & H10 & H11 & H12).
  unfold pie_to_core, pie_keyblock. rewrite H1, H2, H3, H4, H5, H6, H7, H8, H9, H10, H11, H12. reflexivity.
Qed.

(* shape of what core_to_pie builds, and enumerations of the result *)
Definition shape_ok (p : pobj) : Prop :=
  (is_key (p_class p) = false -> p_alg p = None /\ p_len p = None /\ p_fmt p = None /\ p_kc p = kc_none) /\
  (is_key (p_class p) = true -> p_sub p = None /\ p_alg p <> None) /\
  (p_class p <> CSplit -> p_spm p = None).
Definition penums_ok (p : pobj) : Prop :=
  enum_ok (p_alg p) /\ enum_ok (p_fmt p) /\ kc_enums_ok (p_kc p) /\ enum_ok (p_spm p) /\ enum_ok (p_sub p).

Lemma none_ok : enum_ok None. Proof. intro H; discriminate H. Qed.

Lemma key_to_pie_shape : forall c kb p, key_to_pie c kb = Ok p -> kb_enums_ok kb ->
  p_class p = c /\ p_alg p <> None /\ p_sub p = None /\ p_spm p = None /\
  enum_ok (p_alg p) /\ enum_ok (p_fmt p) /\ kc_enums_ok (p_kc p).
Proof.
  intros c kb p H (Hf & Ha & Hw). unfold key_to_pie in H. destruct kb as [f v a l w]. simpl in *.
  destruct a as [a|]; destruct l as [l|]; simpl in H; try discriminate H. inv_bind H. injection H as <-. simpl.
  repeat split; try assumption; try reflexivity; try (intro X; discriminate X).
  all: destruct (flatten_enums_ok _ _ E Hw) as (K1 & K2 & K3 & K4); try assumption.
  - destruct K3 as (? & ? & ? & ? & ? & ?); assumption.
  - destruct K3 as (? & ? & ? & ? & ? & ?); assumption.
  - destruct K3 as (? & ? & ? & ? & ? & ?); assumption.
  - destruct K3 as (? & ? & ? & ? & ? & ?); assumption.
  - destruct K3 as (? & ? & ? & ? & ? & ?); assumption.
  - destruct K3 as (? & ? & ? & ? & ? & ?); assumption.
  - destruct K4 as (? & ? & ? & ? & ? & ?); assumption.
  - destruct K4 as (? & ? & ? & ? & ? & ?); assumption.
  - destruct K4 as (? & ? & ? & ? & ? & ?); assumption.
  - destruct K4 as (? & ? & ? & ? & ? & ?); assumption.
  - destruct K4 as (? & ? & ? & ? & ? & ?); assumption.
  - destruct K4 as (? & ? & ? & ? & ? & ?); assumption.
Qed.
