(* C05 - the two type decorators of kmip/pie/sqltypes.py *)
From Coq Require Import ZArith List Bool Lia.
From PKGen Require Import PieColumns.
From PK Require Import Persist.Model.
Import ListNotations.
Open Scope Z_scope.

(* ------------------------------------------------------------------ EnumType *)
Definition enum_ok (o : option Z) : Prop := o <> Some enum_null.

Lemma sql_enum_roundtrip_l : forall o, enum_ok o -> sql_enum_in (sql_enum_out o) = o.
Proof.
  intros [v|] H; unfold sql_enum_in, sql_enum_out.
  - destruct (v =? enum_null) eqn:E; [apply Z.eqb_eq in E; subst; exfalso; apply H; reflexivity | reflexivity].
  - rewrite Z.eqb_refl. reflexivity.
Qed.

Lemma sql_enum_out_in : forall z, sql_enum_out (sql_enum_in z) = z.
Proof.
  intro z. unfold sql_enum_in, sql_enum_out. destruct (z =? enum_null) eqn:E; [apply Z.eqb_eq in E; subst|]; reflexivity.
Qed.

(* without the hypothesis the round trip fails: a value equal to the sentinel reads back as NULL *)
Lemma sql_enum_sentinel_collides : sql_enum_in (sql_enum_out (Some enum_null)) = None.
Proof. reflexivity. Qed.

(* tie T: no member of any enumeration stored through EnumType equals the sentinel *)
Definition members_nonnull : bool :=
  forallb (fun c => forallb (fun v => negb (v =? enum_null)) (snd c)) stored_enum_members.
Lemma stored_members_never_null : members_nonnull = true.
Proof. vm_compute. reflexivity. Qed.

Lemma stored_member_ok : forall cls ms v, In (cls, ms) stored_enum_members -> In v ms -> enum_ok (Some v).
Proof.
  intros cls ms v Hc Hv. pose proof stored_members_never_null as H. unfold members_nonnull in H.
  rewrite forallb_forall in H. specialize (H _ Hc). simpl in H. rewrite forallb_forall in H. specialize (H _ Hv).
  intro E. inversion E; subst. rewrite Z.eqb_refl in H. discriminate.
Qed.

(* ------------------------------------------------------------------ UsageMaskType *)
(* tie T: the members are pairwise disjoint non-zero bit patterns *)
Definition bits_disjoint : bool :=
  forallb (fun b => negb (b =? 0) && forallb (fun c => if b =? c then true else Z.land b c =? 0) mask_bits) mask_bits.
Lemma mask_bits_disjoint : bits_disjoint = true.
Proof. vm_compute. reflexivity. Qed.
Fixpoint nodup_z (l : list Z) : bool := match l with [] => true | x :: r => negb (existsb (Z.eqb x) r) && nodup_z r end.
Lemma nodup_z_sound : forall l, nodup_z l = true -> NoDup l.
Proof.
  induction l as [|x l IH]; simpl; intro H; [constructor|]. apply andb_true_iff in H. destruct H as [H1 H2].
  constructor; [|apply IH; assumption]. intro Hin. apply negb_true_iff in H1.
  assert (existsb (Z.eqb x) l = true) by (apply existsb_exists; exists x; split; [assumption|apply Z.eqb_refl]). congruence.
Qed.
Lemma mask_bits_nodup : NoDup mask_bits.
Proof. apply nodup_z_sound. vm_compute. reflexivity. Qed.

Lemma land_self_bit : forall b, Z.land b b = b. Proof. intro; apply Z.land_diag. Qed.

Lemma bit_facts : forall b c, In b mask_bits -> In c mask_bits -> b <> 0 /\ (b <> c -> Z.land b c = 0).
Proof.
  intros b c Hb Hc. pose proof mask_bits_disjoint as H. unfold bits_disjoint in H. rewrite forallb_forall in H.
  specialize (H _ Hb). apply andb_true_iff in H. destruct H as [H0 H1]. split.
  - intro E. subst. discriminate.
  - intro Ne. rewrite forallb_forall in H1. specialize (H1 _ Hc). destruct (b =? c) eqn:E; [apply Z.eqb_eq in E; contradiction|].
    apply Z.eqb_eq in H1. exact H1.
Qed.

Lemma land_fold_lor : forall l b a, Z.land b (fold_left Z.lor l a) = fold_left Z.lor (map (Z.land b) l) (Z.land b a).
Proof.
  induction l as [|x l IH]; intros b a; simpl; [reflexivity|]. rewrite IH. rewrite Z.land_lor_distr_r. reflexivity.
Qed.

Lemma fold_lor_zero : forall l a, fold_left Z.lor l a = 0 <-> a = 0 /\ Forall (fun x => x = 0) l.
Proof.
  induction l as [|x l IH]; intros a; simpl.
  - split; [intro; split; [assumption|constructor] | intros [H _]; exact H].
  - rewrite IH. rewrite Z.lor_eq_0_iff. split.
    + intros [[Ha Hx] Hl]. split; [assumption|constructor; assumption].
    + intros [Ha Hl]. inversion Hl; subst. repeat split; try reflexivity; assumption.
Qed.

Lemma bit_set_mask_out : forall l b, Forall (fun x => In x mask_bits) l -> In b mask_bits ->
  bit_set (sql_mask_out l) b = mem_z b l.
Proof.
  intros l b Hl Hb. unfold bit_set, sql_mask_out. rewrite land_fold_lor. rewrite Z.land_0_r.
  destruct (mem_z b l) eqn:M.
  - unfold mem_z in M. apply existsb_exists in M. destruct M as [x [Hx E]]. apply Z.eqb_eq in E. subst x.
    apply negb_true_iff. apply Z.eqb_neq. intro Z0. apply fold_lor_zero in Z0. destruct Z0 as [_ F].
    rewrite Forall_forall in F. specialize (F (Z.land b b)). rewrite land_self_bit in F.
    assert (b = 0) by (apply F; apply in_map_iff; exists b; split; [apply land_self_bit|assumption]).
    destruct (bit_facts b b Hb Hb) as [Nz _]. contradiction.
  - apply negb_false_iff. apply Z.eqb_eq. apply fold_lor_zero. split; [reflexivity|].
    rewrite Forall_forall. intros y Hy. apply in_map_iff in Hy. destruct Hy as [x [E Hx]]. subst y.
    rewrite Forall_forall in Hl. specialize (Hl _ Hx). destruct (bit_facts b x Hb Hl) as [_ D]. apply D.
    intro E. subst x. unfold mem_z in M. assert (existsb (Z.eqb b) l = true); [|congruence].
    apply existsb_exists. exists b. split; [assumption|apply Z.eqb_refl].
Qed.

Definition canon_mask (l : list Z) : list Z := filter (fun b => mem_z b l) mask_bits.

Lemma filter_ext_in' : forall (A : Type) (f g : A -> bool) l, (forall a, In a l -> f a = g a) -> filter f l = filter g l.
Proof. intros A f g l. induction l as [|x l IH]; intro H; simpl; [reflexivity|]. rewrite (H x (or_introl eq_refl)). rewrite IH; [reflexivity|]. intros; apply H; right; assumption. Qed.

(* result = the set bits in canonical enumeration order *)
Lemma sql_mask_roundtrip_l : forall l, Forall (fun x => In x mask_bits) l -> sql_mask_in (sql_mask_out l) = canon_mask l.
Proof.
  intros l Hl. unfold sql_mask_in, canon_mask.
  assert (E : filter (bit_set (sql_mask_out l)) mask_bits = filter (fun b => mem_z b l) mask_bits).
  { apply filter_ext_in'. intros b Hb. apply bit_set_mask_out; assumption. }
  destruct (sql_mask_out l =? 0) eqn:Z0; [|exact E].
  apply Z.eqb_eq in Z0. rewrite <- E. rewrite Z0.
  clear. induction mask_bits as [|x m IH]; simpl; [reflexivity|]. unfold bit_set at 1. rewrite Z.land_0_r. simpl. exact IH.
Qed.

Lemma canon_mask_nodup : forall l, NoDup (canon_mask l).
Proof. intro l. unfold canon_mask. apply NoDup_filter. apply mask_bits_nodup. Qed.

Lemma canon_mask_same_set : forall l b, Forall (fun x => In x mask_bits) l -> (In b (canon_mask l) <-> In b l).
Proof.
  intros l b Hl. unfold canon_mask. rewrite filter_In. unfold mem_z. rewrite existsb_exists. split.
  - intros [_ [x [Hx E]]]. apply Z.eqb_eq in E. subst. assumption.
  - intro Hb. split; [rewrite Forall_forall in Hl; apply Hl; assumption|]. exists b. split; [assumption|apply Z.eqb_refl].
Qed.

(* the OR of a list of bit patterns only depends on the set of its members *)
Lemma testbit_fold_lor : forall l a i, Z.testbit (fold_left Z.lor l a) i = Z.testbit a i || existsb (fun b => Z.testbit b i) l.
Proof.
  induction l as [|x l IH]; intros a i; simpl; [rewrite orb_false_r; reflexivity|].
  rewrite IH. rewrite Z.lor_spec. rewrite orb_assoc. reflexivity.
Qed.

Lemma mask_out_same_set : forall l1 l2, (forall b, In b l1 <-> In b l2) -> sql_mask_out l1 = sql_mask_out l2.
Proof.
  intros l1 l2 H. unfold sql_mask_out. apply Z.bits_inj. intro i. rewrite !testbit_fold_lor. f_equal.
  destruct (existsb (fun b => Z.testbit b i) l1) eqn:E1; destruct (existsb (fun b => Z.testbit b i) l2) eqn:E2; try reflexivity.
  - apply existsb_exists in E1. destruct E1 as [x [Hx T]]. apply H in Hx.
    assert (existsb (fun b => Z.testbit b i) l2 = true) by (apply existsb_exists; exists x; split; assumption). congruence.
  - apply existsb_exists in E2. destruct E2 as [x [Hx T]]. apply H in Hx.
    assert (existsb (fun b => Z.testbit b i) l1 = true) by (apply existsb_exists; exists x; split; assumption). congruence.
Qed.

Lemma mask_out_canon : forall l, Forall (fun x => In x mask_bits) l -> sql_mask_out (canon_mask l) = sql_mask_out l.
Proof. intros l Hl. apply mask_out_same_set. intro b. apply canon_mask_same_set. assumption. Qed.

(* an integer mask made of defined bits only: decoding and re-encoding gives it back *)
Definition mask_defined (z : Z) : Prop := exists l, Forall (fun x => In x mask_bits) l /\ z = sql_mask_out l.
Lemma mask_int_roundtrip : forall z, mask_defined z -> sql_mask_out (filter (bit_set z) mask_bits) = z.
Proof.
  intros z [l [Hl E]]. subst z.
  assert (F : filter (bit_set (sql_mask_out l)) mask_bits = canon_mask l).
  { unfold canon_mask. apply filter_ext_in'. intros b Hb. apply bit_set_mask_out; assumption. }
  rewrite F. apply mask_out_canon. assumption.
Qed.

Lemma filter_bits_in : forall z, Forall (fun x => In x mask_bits) (filter (bit_set z) mask_bits).
Proof. intro z. rewrite Forall_forall. intros x Hx. apply filter_In in Hx. tauto. Qed.

Lemma filter_mem_filter : forall (f : Z -> bool) (m : list Z), filter (fun b => mem_z b (filter f m)) m = filter f m.
Proof.
  intros f m. apply filter_ext_in'. intros b Hb. destruct (f b) eqn:B.
  - apply existsb_exists. exists b. split; [apply filter_In; split; assumption|apply Z.eqb_refl].
  - destruct (mem_z b (filter f m)) eqn:M; [|reflexivity].
    apply existsb_exists in M. destruct M as [x [Hx E]]. apply Z.eqb_eq in E. subst x. apply filter_In in Hx. destruct Hx. congruence.
Qed.

Lemma mask_in_out_filter : forall z, sql_mask_in (sql_mask_out (filter (bit_set z) mask_bits)) = filter (bit_set z) mask_bits.
Proof.
  intro z. rewrite sql_mask_roundtrip_l by apply filter_bits_in. unfold canon_mask. generalize mask_bits. intro m. apply filter_mem_filter.
Qed.
