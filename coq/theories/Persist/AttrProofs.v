(* C05 - GetAttributes after Register = supplied + server-assigned attributes *)
From Coq Require Import ZArith List Bool Lia.
From PKGen Require Import PieColumns.
From PK Require Import Persist.Model Persist.DecoratorProofs Persist.ChainProofs Persist.StoreProofs.
Import ListNotations.
Open Scope Z_scope.

Definition init_ok (c : oclass) (p : pobj) : Prop :=
  p_class p = c /\ p_names p = [] /\ p_groups p = [] /\ p_asi p = [] /\ p_sensitive p = false /\ p_policy p = None /\
  p_masks p = [] /\ p_state p = (if is_crypto c then Some ST_PRE_ACTIVE else None).

Lemma key_to_pie_init : forall c kb p, key_to_pie c kb = Ok p -> init_ok c p.
Proof.
  intros c kb p H. unfold key_to_pie in H. destruct (kb_alg kb); destruct (kb_len kb); simpl in H; try discriminate H.
  inv_bind H. injection H as <-. unfold init_ok; simpl. repeat split.
Qed.

Lemma core_to_pie_init : forall s p, core_to_pie s = Ok p -> init_ok (secret_class s) p.
Proof.
  intros s p H. destruct s as [c kb|kb sp|ct v|dt kb|ot v]; simpl in *.
  - destruct c; try discriminate H.
    + inv_bind H. case_if H. destruct (kc_get (p_kc a)); [injection H as <-; apply key_to_pie_init with kb; exact E|].
      case_if H. injection H as <-. apply key_to_pie_init with kb; exact E.
    + case_if H. apply key_to_pie_init with kb; exact H.
    + case_if H. apply key_to_pie_init with kb; exact H.
  - inv_bind H. case_if H. injection H as <-. destruct (key_to_pie_init _ _ _ E) as (I1 & I2 & I3 & I4 & I5 & I6 & I7 & I8).
    unfold init_ok; simpl. repeat split; assumption.
  - case_if H. injection H as <-. unfold init_ok; simpl. repeat split.
  - injection H as <-. unfold init_ok; simpl. repeat split.
  - injection H as <-. unfold init_ok; simpl. repeat split.
Qed.

Definition mask_list (l : list tattr) : list Z := match sel_mask l with Some z => filter (bit_set z) mask_bits | None => [] end.

Lemma apply_attrs_fields : forall v p l q c, apply_attrs v p l = Ok q -> init_ok c p ->
  p_class q = c /\ p_names q = sel_names l /\ p_groups q = sel_groups l /\ p_asi q = sel_asi l /\
  p_sensitive q = (match sel_sens l with Some b => b | None => false end) /\ p_policy q = sel_policy l /\
  p_masks q = mask_list l /\ p_state q = p_state p.
Proof.
  intros v p l q c H (I1 & I2 & I3 & I4 & I5 & I6 & I7 & I8). unfold apply_attrs in H.
  case_if H. case_if H. case_if H.
  inv_bind H. inv_bind H. inv_bind H. inv_bind H. inv_bind H. injection H as <-. simpl.
  rewrite I2, I3, I4 in *. simpl. repeat split; try assumption; try reflexivity.
  - rewrite I5 in E3. destruct (sel_sens l); injection E3 as <-; reflexivity.
  - rewrite I6 in E2. destruct (sel_policy l); injection E2 as <-; reflexivity.
  - rewrite I7 in E1. unfold mask_list. destruct (sel_mask l); cbv beta iota zeta in E1; congruence.
Qed.

Lemma names_roundtrip : forall l k, names_in (names_out k l) = l.
Proof. induction l as [|n l IH]; intro k; simpl; [reflexivity|]. rewrite IH. reflexivity. Qed.

(* the wire hop of KMIP 2.0 only drops indices *)
Lemma flat_map_wire : forall (A : Type) (f : tval -> list A) v l,
  flat_map (fun t => f (ta_val t)) (wire_attrs v l) = flat_map (fun t => f (ta_val t)) l.
Proof.
  intros A f v l. unfold wire_attrs. destruct (ver_ge v (2, 0)); [|reflexivity].
  induction l as [|t l IH]; simpl; [reflexivity|]. rewrite IH. reflexivity.
Qed.
Lemma sel_names_wire : forall v l, sel_names (wire_attrs v l) = sel_names l.
Proof. intros. apply (flat_map_wire _ (fun x => match x with TName n _ => [n] | _ => [] end)). Qed.
Lemma sel_typed_names_wire : forall v l, sel_typed_names (wire_attrs v l) = sel_typed_names l.
Proof. intros. apply (flat_map_wire _ (fun x => match x with TName n t => [(n, t)] | _ => [] end)). Qed.
Lemma sel_groups_wire : forall v l, sel_groups (wire_attrs v l) = sel_groups l.
Proof. intros. apply (flat_map_wire _ (fun x => match x with TGroup n => [n] | _ => [] end)). Qed.
Lemma sel_asi_wire : forall v l, sel_asi (wire_attrs v l) = sel_asi l.
Proof. intros. apply (flat_map_wire _ (fun x => match x with TAsi a b => [(a, b)] | _ => [] end)). Qed.
Lemma sel_mask_wire : forall v l, sel_mask (wire_attrs v l) = sel_mask l.
Proof. intros. unfold sel_mask. f_equal. apply (flat_map_wire _ (fun x => match x with TMask z => [z] | _ => [] end)). Qed.
Lemma sel_policy_wire : forall v l, sel_policy (wire_attrs v l) = sel_policy l.
Proof. intros. unfold sel_policy. f_equal. apply (flat_map_wire _ (fun x => match x with TPolicy z => [z] | _ => [] end)). Qed.
Lemma sel_sens_wire : forall v l, sel_sens (wire_attrs v l) = sel_sens l.
Proof. intros. unfold sel_sens. f_equal. apply (flat_map_wire _ (fun x => match x with TSens z => [z] | _ => [] end)). Qed.

(* hypotheses that exclude exactly the known finding about names, and values outside the attribute's domain *)
Definition names_untyped (l : list tattr) : Prop := Forall (fun nt => snd nt = NT_TEXT) (sel_typed_names l).
Definition mask_attr_defined (l : list tattr) : Prop := match sel_mask l with Some z => mask_defined z | None => True end.

Lemma indexed_names : forall l i, Forall (fun nt => snd nt = NT_TEXT) (sel_typed_names l) ->
  indexed A_NAME i (fun n => VName n NT_TEXT) (sel_names l) = indexed A_NAME i (fun n => VName (fst n) (snd n)) (sel_typed_names l).
Proof.
  induction l as [|t l IH]; intros i F; simpl; [reflexivity|].
  destruct t as [ix tv]. destruct tv; simpl in *; try (apply IH; exact F).
  inversion F; subst. simpl in H1. rewrite H1. rewrite IH by assumption. reflexivity.
Qed.

Lemma mask_value : forall l, mask_attr_defined l ->
  sql_mask_out (sql_mask_in (sql_mask_out (mask_list l))) = (match sel_mask l with Some m => m | None => 0 end).
Proof.
  intros l H. unfold mask_list, mask_attr_defined in *. destruct (sel_mask l) as [z|].
  - rewrite mask_in_out_filter. apply mask_int_roundtrip. exact H.
  - reflexivity.
Qed.

Lemma core_to_pie_alg : forall s p, core_to_pie s = Ok p ->
  (if is_key (p_class p) then p_alg p = secret_alg s /\ p_len p = secret_len s else secret_alg s = None /\ secret_len s = None) /\
  (match s with SCert ct _ => p_sub p = Some ct | _ => True end).
Proof.
  intros s p H. destruct s as [c kb|kb sp|ct v|dt kb|ot v]; simpl in *.
  - assert (X : exists c', is_key c' = true /\ key_to_pie c' kb = Ok p).
    { destruct c; try discriminate H.
      - inv_bind H. exists CSym. split; [reflexivity|]. case_if H. destruct (kc_get (p_kc a)); [injection H as <-; exact E|]. case_if H. injection H as <-. exact E.
      - case_if H. exists CPub. split; [reflexivity|exact H].
      - case_if H. exists CPriv. split; [reflexivity|exact H]. }
    destruct X as (c' & K & X). unfold key_to_pie in X. destruct (kb_alg kb); destruct (kb_len kb); simpl in X; try discriminate X.
    inv_bind X. injection X as <-. simpl. rewrite K. repeat split.
  - inv_bind H. case_if H. injection H as <-. simpl. unfold key_to_pie in E. destruct (kb_alg kb); destruct (kb_len kb); simpl in E; try discriminate E.
    inv_bind E. injection E as <-. simpl. repeat split.
  - case_if H. injection H as <-. simpl. repeat split.
  - injection H as <-. simpl. repeat split.
  - injection H as <-. simpl. repeat split.
Qed.

(* the row of a registered object with its state column set to z *)
Definition with_state (z : Z) (r : prow) : prow :=
  mkP (p_class r) (p_value r) (p_alg r) (p_len r) (p_fmt r) (p_kc r) (p_parts r) (p_ident r) (p_thresh r) (p_spm r)
      (p_prime r) (p_sub r) z (p_masks r) (p_names r) (p_groups r) (p_asi r) (p_sensitive r) (p_policy r) (p_initial r) (p_owner r).

(* GetAttributes computed from the stored row of a registered object, whatever (valid) state the row carries *)
Lemma attrs_row_gen : forall v o n s l a u v' z,
  enums_ok s -> len_attr_consistent s l -> names_untyped l -> mask_attr_defined l ->
  register_pie v o n s (wire_attrs v l) = Ok a -> sql_enum_in z = Some z ->
  pie_attrs v' u (sql_in (with_state z (sql_out a))) = expected_attrs v' u n z s l.
Proof.
  intros v o n s l a u v' z He Hl Hn Hm E Hz.
  assert (Hl' : len_attr_consistent s (wire_attrs v l)) by (unfold len_attr_consistent; rewrite sel_len_wire; exact Hl).
  destruct (register_pie_core _ _ _ _ _ _ E He Hl') as [p [C S]].
  destruct (core_to_pie_shape _ _ C He) as [Sh En].
  pose proof (sql_core_roundtrip a (same_core_shape _ _ S Sh) (same_core_enums _ _ S En)) as R.
  pose proof (same_core_trans _ _ _ R S) as RS. clear R.
  destruct RS as (R1 & R2 & R3 & R4 & R5 & R6 & R7 & R8 & R9 & R10 & R11 & R12).
  destruct (core_to_pie_alg _ _ C) as [Alg Sub].
  pose proof (core_to_pie_init _ _ C) as Init.
  unfold register_pie in E. rewrite C in E. simpl in E. inv_bind E. injection E as <-.
  destruct (apply_attrs_fields _ _ _ _ _ E0 Init) as (A1 & A2 & A3 & A4 & A5 & A6 & A7 & A8).
  destruct Init as (I1 & _ & _ & _ & _ & _ & _ & I8).
  rewrite sel_names_wire in A2. rewrite sel_groups_wire in A3. rewrite sel_asi_wire in A4. rewrite sel_sens_wire in A5.
  rewrite sel_policy_wire in A6. unfold mask_list in A7. rewrite sel_mask_wire in A7. fold (mask_list l) in A7.
  simpl in R1, R3, R4, R12. rewrite A1 in R1.
  unfold pie_attrs, expected_attrs.
  (* the class, hence every applicability test, agrees *)
  match goal with |- context [pie_attrs] => idtac | _ => idtac end.
  match goal with |- context [a_applicable A_UID (p_class ?R)] => assert (Cl : p_class R = secret_class s) by (simpl; exact A1) end.
  rewrite Cl. simpl p_names. simpl p_groups. simpl p_asi. simpl p_sensitive. simpl p_policy. simpl p_initial. simpl p_masks. simpl p_state.
  simpl p_alg. simpl p_len. simpl p_sub. rewrite A1.
  rewrite names_roundtrip, A2, A3, A4, A5, A6, A7. rewrite ?A8, ?I8.
  rewrite (indexed_names l 0 Hn).
  (* per class *)
  rewrite A1 in *. rewrite I1 in *.
  destruct s as [c kb|kb sp|ct vv|dt kb|ot vv]; simpl secret_class in *.
  - assert (K : is_key c = true) by (simpl in C; destruct c; try discriminate C; reflexivity).
    assert (Cr : is_crypto c = true) by (destruct c; try discriminate K; reflexivity).
    rewrite K in *. rewrite ?Cr. destruct Alg as [Al Le]. rewrite R3, R4, Al, Le.
    rewrite (mask_value l Hm).
    rewrite ?Hz.
    destruct (sel_policy l); reflexivity.
  - change (is_key CSplit) with true in *. change (is_crypto CSplit) with true in *. cbv iota in R3, R4, Alg |- *.
    destruct Alg as [Al Le]. rewrite R3, R4, Al, Le.
    rewrite (mask_value l Hm).
    rewrite ?Hz.
    destruct (sel_policy l); reflexivity.
  - change (is_key CCert) with false in *. change (is_crypto CCert) with true in *. cbv iota in R12 |- *.
    rewrite R12, Sub. rewrite (mask_value l Hm).
    rewrite ?Hz.
    destruct (sel_policy l); reflexivity.
  - change (is_key CSecret) with false in *. change (is_crypto CSecret) with true in *. cbv iota.
    rewrite (mask_value l Hm).
    rewrite ?Hz.
    replace (a_applicable A_CTYPE CSecret) with false by reflexivity. rewrite !andb_false_r.
    destruct (sel_policy l); reflexivity.
  - change (is_key COpaque) with false in *. change (is_crypto COpaque) with false in *. cbv iota.
    replace (a_applicable A_CTYPE COpaque) with false by reflexivity.
    replace (a_applicable A_MASK COpaque) with false by reflexivity.
    replace (a_applicable A_STATE COpaque) with false by reflexivity.
    rewrite !andb_false_r.
    destruct (sel_policy l); reflexivity.
Qed.

(* ------------------------------------------------------------------ the registered row and its state *)
Lemma reg_facts : forall v o n s l a, register_pie v o n s l = Ok a ->
  p_class a = secret_class s /\ p_state a = (if is_crypto (secret_class s) then Some ST_PRE_ACTIVE else None).
Proof.
  intros v o n s l a H. unfold register_pie in H. inv_bind H. inv_bind H. injection H as <-. simpl.
  pose proof (core_to_pie_init _ _ E) as Init.
  destruct (apply_attrs_fields _ _ _ _ _ E0 Init) as (A1 & _ & _ & _ & _ & _ & _ & A8).
  destruct Init as (_ & _ & _ & _ & _ & _ & _ & I8). split; [exact A1|]. rewrite A8. exact I8.
Qed.

Lemma sql_in_with_state_noncrypto : forall z r, is_crypto (p_class r) = false -> sql_in (with_state z r) = sql_in r.
Proof. intros z r H. destruct r. simpl in H. unfold with_state, sql_in. simpl. rewrite H. reflexivity. Qed.

Lemma with_state_same : forall r, with_state (p_state r) r = r.
Proof. intro r. destruct r. reflexivity. Qed.

Lemma attrs_of_registered_row : forall v o n s l a u v',
  enums_ok s -> len_attr_consistent s l -> names_untyped l -> mask_attr_defined l ->
  register_pie v o n s (wire_attrs v l) = Ok a ->
  pie_attrs v' u (sql_in (sql_out a)) = expected_attrs v' u n ST_PRE_ACTIVE s l.
Proof.
  intros v o n s l a u v' He Hl Hn Hm E.
  destruct (reg_facts _ _ _ _ _ _ E) as [C S].
  rewrite <- (attrs_row_gen v o n s l a u v' ST_PRE_ACTIVE He Hl Hn Hm E eq_refl).
  destruct (is_crypto (secret_class s)) eqn:Cr.
  - rewrite <- (with_state_same (sql_out a)) at 1. simpl p_state. rewrite S. reflexivity.
  - rewrite sql_in_with_state_noncrypto; [reflexivity|]. simpl. rewrite C. exact Cr.
Qed.

(* GetAttributes right after Register *)
Lemma attrs_after_register_l : forall v o n s l st st' u v',
  store_ok st -> enums_ok s -> len_attr_consistent s l -> names_untyped l -> mask_attr_defined l ->
  srv_register v o n s l st = Ok (st', u) ->
  srv_attrs v' st' u = Ok (expected_attrs v' u n ST_PRE_ACTIVE s l).
Proof.
  intros v o n s l st st' u v' F He Hl Hn Hm H. unfold srv_register in H. inv_bind H. injection H as <- <-.
  unfold srv_attrs; simpl. rewrite find_row_app_fresh by exact F. f_equal.
  eapply attrs_of_registered_row; eassumption.
Qed.

(* ------------------------------------------------------------------ any later point of any history *)
Definition acted (u : Z) (h : list hop) : bool :=
  existsb (fun x => match x with HActivate u' => u' =? u | _ => false end) h.
Definition rowb (r0 : prow) (b : bool) : prow := if b then activate_row r0 else r0.

Lemma activate_row_idem : forall r, activate_row (activate_row r) = activate_row r.
Proof.
  intro r. unfold activate_row. destruct (is_crypto (p_class r) && (p_state r =? ST_PRE_ACTIVE)) eqn:E; simpl.
  - rewrite andb_false_r. reflexivity.
  - rewrite E. reflexivity.
Qed.

Lemma reg_keeps_row : forall st v o n s l u r,
  find_row u (s_rows st) = Some r -> find_row u (s_rows (step st (HRegister v o n s l))) = Some r.
Proof.
  intros st v o n s l u r Fr. simpl. destruct (srv_register v o n s l st) as [[st' u']|] eqn:R; [|exact Fr].
  unfold srv_register in R. inv_bind R. injection R as <- <-. simpl. apply find_row_app_old. exact Fr.
Qed.

Lemma run_row : forall u r0 h st b,
  Forall (not_destroying u) h ->
  find_row u (s_rows st) = Some (rowb r0 b) ->
  find_row u (s_rows (run st h)) = Some (rowb r0 (b || acted u h)).
Proof.
  intros u r0. induction h as [|x h IH]; intros st b Nd Fr; simpl.
  - rewrite orb_false_r. exact Fr.
  - inversion Nd; subst. destruct x as [v o n s' l| |u'|u'| | |k v o n mat l|v o n fu mu fr mr lc lu lr].
    + simpl acted. rewrite (IH _ b H2); [reflexivity|]. apply reg_keeps_row. exact Fr.
    + simpl. rewrite (IH _ b H2); [reflexivity|exact Fr].
    + simpl. destruct (u' =? u) eqn:Eu.
      * apply Z.eqb_eq in Eu. subst u'. rewrite (IH _ true H2).
        -- rewrite orb_true_r. reflexivity.
        -- simpl. rewrite find_update_row. rewrite Fr. rewrite Z.eqb_refl.
           change (Some (activate_row (rowb r0 b)) = Some (rowb r0 true)). f_equal.
           destruct b; simpl; [apply activate_row_idem|reflexivity].
      * rewrite (IH _ b H2); [reflexivity|].
        simpl. rewrite find_update_row. rewrite Fr. rewrite Z.eqb_sym in Eu. rewrite Eu. reflexivity.
    + simpl. rewrite (IH _ b H2); [reflexivity|]. simpl. rewrite find_remove_row by (simpl in H1; congruence). exact Fr.
    + simpl. rewrite (IH _ b H2); [reflexivity|exact Fr].
    + simpl. rewrite (IH _ b H2); [reflexivity|exact Fr].
    + simpl acted. rewrite (IH _ b H2); [reflexivity|].
      destruct (step_make_cases st k v o n mat l) as [E|[s0 [_ E]]]; rewrite E; [exact Fr|apply reg_keeps_row; exact Fr].
    + simpl acted. rewrite (IH _ b H2); [reflexivity|].
      destruct (step_pair_cases st v o n fu mu fr mr lc lu lr) as [E|[su [sr E]]]; rewrite E; [exact Fr|].
      apply reg_keeps_row. apply reg_keeps_row. exact Fr.
Qed.

Definition state_after (u : Z) (s : secret) (h : list hop) : Z :=
  if acted u h && is_crypto (secret_class s) then ST_ACTIVE else ST_PRE_ACTIVE.

Lemma attrs_at_any_later_point_l : forall v o n s l st st' u h v',
  store_ok st -> enums_ok s -> len_attr_consistent s l -> names_untyped l -> mask_attr_defined l ->
  srv_register v o n s l st = Ok (st', u) -> Forall (not_destroying u) h ->
  srv_attrs v' (run st' h) u = Ok (expected_attrs v' u n (state_after u s h) s l).
Proof.
  intros v o n s l st st' u h v' F He Hl Hn Hm H Nd. unfold srv_register in H. inv_bind H. injection H as <- <-.
  destruct (reg_facts _ _ _ _ _ _ E) as [C S].
  match goal with |- srv_attrs _ (run ?ST _) _ = _ =>
    assert (Fr : find_row (s_next st) (s_rows ST) = Some (rowb (sql_out a) false))
      by (simpl; apply find_row_app_fresh; exact F);
    pose proof (run_row _ _ h ST false Nd Fr) as Fh end.
  unfold srv_attrs. rewrite Fh. f_equal. simpl orb. unfold state_after.
  destruct (acted (s_next st) h); simpl.
  - unfold activate_row. simpl p_class. rewrite C. simpl p_state. rewrite S.
    destruct (is_crypto (secret_class s)) eqn:Cr; simpl.
    + rewrite <- C.
      change (pie_attrs v' (s_next st) (sql_in (with_state ST_ACTIVE (sql_out a))) = expected_attrs v' (s_next st) n ST_ACTIVE s l).
      apply (attrs_row_gen v o n s l a (s_next st) v' ST_ACTIVE He Hl Hn Hm E eq_refl).
    + eapply attrs_of_registered_row; eassumption.
  - eapply attrs_of_registered_row; eassumption.
Qed.
