(* C05 - GetAttributes after Register = supplied + server-assigned attributes *)
From Coq Require Import ZArith List Bool Lia.
From PKGen Require Import PieColumns.
From PK Require Import Persist.Model Persist.DecoratorProofs Persist.ChainProofs Persist.StoreProofs.
Import ListNotations.
Open Scope Z_scope.

Definition init_ok (c : oclass) (p : pobj) : Prop :=
  p_class p = c /\ p_names p = [] /\ p_groups p = [] /\ p_asi p = [] /\ p_sensitive p = false /\ p_policy p = None /\
  p_masks p = [] /\ p_state p = (if is_crypto c then Some ST_PRE_ACTIVE else None).

Lemma key_to_pie_init : forall c kb p, key_to_pie c kb = Ok p -> init_ok c p.
Proof.
  intros c kb p H. unfold key_to_pie in H. destruct (kb_alg kb); destruct (kb_len kb); simpl in H; try discriminate H.
  inv_bind H. injection H as <-. unfold init_ok; simpl. repeat split.
Qed.

Lemma core_to_pie_init : forall s p, core_to_pie s = Ok p -> init_ok (secret_class s) p.
Proof.
  intros s p H. destruct s as [c kb|kb sp|ct v|dt kb|ot v]; simpl in *.
  - destruct c; try discriminate H.
    + inv_bind H. case_if H. destruct (kc_get (p_kc a)); [injection H as <-; apply key_to_pie_init with kb; exact E|].
      case_if H. injection H as <-. apply key_to_pie_init with kb; exact E.
    + case_if H. apply key_to_pie_init with kb; exact H.
    + case_if H. apply key_to_pie_init with kb; exact H.
  - inv_bind H. injection H as <-. destruct (key_to_pie_init _ _ _ E) as (I1 & I2 & I3 & I4 & I5 & I6 & I7 & I8).
    unfold init_ok; simpl. repeat split; assumption.
  - case_if H. injection H as <-. unfold init_ok; simpl. repeat split.
  - injection H as <-. unfold init_ok; simpl. repeat split.
  - injection H as <-. unfold init_ok; simpl. repeat split.
Qed.

Definition mask_list (l : list tattr) : list Z := match sel_mask l with Some z => filter (bit_set z) mask_bits | None => [] end.

Lemma apply_attrs_fields : forall v p l q c, apply_attrs v p l = Ok q -> init_ok c p ->
  p_class q = c /\ p_names q = sel_names l /\ p_groups q = sel_groups l /\ p_asi q = sel_asi l /\
  p_sensitive q = (match sel_sens l with Some b => b | None => false end) /\ p_policy q = sel_policy l /\
  p_masks q = mask_list l /\ p_state q = p_state p.
Proof.
  intros v p l q c H (I1 & I2 & I3 & I4 & I5 & I6 & I7 & I8). unfold apply_attrs in H.
  case_if H. case_if H. case_if H.
  inv_bind H. inv_bind H. inv_bind H. inv_bind H. inv_bind H. injection H as <-. simpl.
  rewrite I2, I3, I4 in *. simpl. repeat split; try assumption; try reflexivity.
  - rewrite I5 in E3. destruct (sel_sens l); injection E3 as <-; reflexivity.
  - rewrite I6 in E2. destruct (sel_policy l); injection E2 as <-; reflexivity.
  - rewrite I7 in E1. unfold mask_list. destruct (sel_mask l); cbv beta iota zeta in E1; congruence.
Qed.

Lemma names_roundtrip : forall l k, names_in (names_out k l) = l.
Proof. induction l as [|n l IH]; intro k; simpl; [reflexivity|]. rewrite IH. reflexivity. Qed.

(* the wire hop of KMIP 2.0 only drops indices *)
Lemma flat_map_wire : forall (A : Type) (f : tval -> list A) v l,
  flat_map (fun t => f (ta_val t)) (wire_attrs v l) = flat_map (fun t => f (ta_val t)) l.
Proof.
  intros A f v l. unfold wire_attrs. destruct (ver_ge v (2, 0)); [|reflexivity].
  induction l as [|t l IH]; simpl; [reflexivity|]. rewrite IH. reflexivity.
Qed.
Lemma sel_names_wire : forall v l, sel_names (wire_attrs v l) = sel_names l.
Proof. intros. apply (flat_map_wire _ (fun x => match x with TName n _ => [n] | _ => [] end)). Qed.
Lemma sel_typed_names_wire : forall v l, sel_typed_names (wire_attrs v l) = sel_typed_names l.
Proof. intros. apply (flat_map_wire _ (fun x => match x with TName n t => [(n, t)] | _ => [] end)). Qed.
Lemma sel_groups_wire : forall v l, sel_groups (wire_attrs v l) = sel_groups l.
Proof. intros. apply (flat_map_wire _ (fun x => match x with TGroup n => [n] | _ => [] end)). Qed.
Lemma sel_asi_wire : forall v l, sel_asi (wire_attrs v l) = sel_asi l.
Proof. intros. apply (flat_map_wire _ (fun x => match x with TAsi a b => [(a, b)] | _ => [] end)). Qed.
Lemma sel_mask_wire : forall v l, sel_mask (wire_attrs v l) = sel_mask l.
Proof. intros. unfold sel_mask. f_equal. apply (flat_map_wire _ (fun x => match x with TMask z => [z] | _ => [] end)). Qed.
Lemma sel_policy_wire : forall v l, sel_policy (wire_attrs v l) = sel_policy l.
Proof. intros. unfold sel_policy. f_equal. apply (flat_map_wire _ (fun x => match x with TPolicy z => [z] | _ => [] end)). Qed.
Lemma sel_sens_wire : forall v l, sel_sens (wire_attrs v l) = sel_sens l.
Proof. intros. unfold sel_sens. f_equal. apply (flat_map_wire _ (fun x => match x with TSens z => [z] | _ => [] end)). Qed.

(* hypotheses that exclude exactly the known finding about names, and values outside the attribute's domain *)
Definition names_untyped (l : list tattr) : Prop := Forall (fun nt => snd nt = NT_TEXT) (sel_typed_names l).
Definition mask_attr_defined (l : list tattr) : Prop := match sel_mask l with Some z => mask_defined z | None => True end.

Lemma indexed_names : forall l i, Forall (fun nt => snd nt = NT_TEXT) (sel_typed_names l) ->
  indexed A_NAME i (fun n => VName n NT_TEXT) (sel_names l) = indexed A_NAME i (fun n => VName (fst n) (snd n)) (sel_typed_names l).
Proof.
  induction l as [|t l IH]; intros i F; simpl; [reflexivity|].
  destruct t as [ix tv]. destruct tv; simpl in *; try (apply IH; exact F).
  inversion F; subst. simpl in H1. rewrite H1. rewrite IH by assumption. reflexivity.
Qed.

Lemma mask_value : forall l, mask_attr_defined l ->
  sql_mask_out (sql_mask_in (sql_mask_out (mask_list l))) = (match sel_mask l with Some m => m | None => 0 end).
Proof.
  intros l H. unfold mask_list, mask_attr_defined in *. destruct (sel_mask l) as [z|].
  - rewrite mask_in_out_filter. apply mask_int_roundtrip. exact H.
  - reflexivity.
Qed.

Lemma core_to_pie_alg : forall s p, core_to_pie s = Ok p ->
  (if is_key (p_class p) then p_alg p = secret_alg s /\ p_len p = secret_len s else secret_alg s = None /\ secret_len s = None) /\
  (match s with SCert ct _ => p_sub p = Some ct | _ => True end).
Proof.
  intros s p H. destruct s as [c kb|kb sp|ct v|dt kb|ot v]; simpl in *.
  - assert (X : exists c', is_key c' = true /\ key_to_pie c' kb = Ok p).
    { destruct c; try discriminate H.
      - inv_bind H. exists CSym. split; [reflexivity|]. case_if H. destruct (kc_get (p_kc a)); [injection H as <-; exact E|]. case_if H. injection H as <-. exact E.
      - case_if H. exists CPub. split; [reflexivity|exact H].
      - case_if H. exists CPriv. split; [reflexivity|exact H]. }
    destruct X as (c' & K & X). unfold key_to_pie in X. destruct (kb_alg kb); destruct (kb_len kb); simpl in X; try discriminate X.
    inv_bind X. injection X as <-. simpl. rewrite K. repeat split.
  - inv_bind H. injection H as <-. simpl. unfold key_to_pie in E. destruct (kb_alg kb); destruct (kb_len kb); simpl in E; try discriminate E.
    inv_bind E. injection E as <-. simpl. repeat split.
  - case_if H. injection H as <-. simpl. repeat split.
  - injection H as <-. simpl. repeat split.
  - injection H as <-. simpl. repeat split.
Qed.

(* GetAttributes (server side) right after Register *)
Lemma attrs_after_register_l : forall v o n s l st st' u v',
  store_ok st -> enums_ok s -> len_attr_consistent s l -> names_untyped l -> mask_attr_defined l ->
  srv_register v o n s l st = Ok (st', u) ->
  srv_attrs v' st' u = Ok (expected_attrs v' u n ST_PRE_ACTIVE s l).
Proof.
  intros v o n s l st st' u v' F He Hl Hn Hm H. unfold srv_register in H. inv_bind H. injection H as <- <-.
  unfold srv_attrs; simpl. rewrite find_row_app_fresh by exact F. f_equal.
  assert (Hl' : len_attr_consistent s (wire_attrs v l)) by (unfold len_attr_consistent; rewrite sel_len_wire; exact Hl).
  destruct (register_pie_core _ _ _ _ _ _ E He Hl') as [p [C S]].
  destruct (core_to_pie_shape _ _ C He) as [Sh En].
  pose proof (sql_core_roundtrip a (same_core_shape _ _ S Sh) (same_core_enums _ _ S En)) as R.
  pose proof (same_core_trans _ _ _ R S) as RS. clear R.
  destruct RS as (R1 & R2 & R3 & R4 & R5 & R6 & R7 & R8 & R9 & R10 & R11 & R12).
  destruct (core_to_pie_alg _ _ C) as [Alg Sub].
  pose proof (core_to_pie_init _ _ C) as Init.
  unfold register_pie in E. rewrite C in E. simpl in E. inv_bind E. injection E as <-.
  destruct (apply_attrs_fields _ _ _ _ _ E0 Init) as (A1 & A2 & A3 & A4 & A5 & A6 & A7 & A8).
  destruct Init as (I1 & _ & _ & _ & _ & _ & _ & I8).
  rewrite sel_names_wire in A2. rewrite sel_groups_wire in A3. rewrite sel_asi_wire in A4. rewrite sel_sens_wire in A5.
  rewrite sel_policy_wire in A6. unfold mask_list in A7. rewrite sel_mask_wire in A7. fold (mask_list l) in A7.
  simpl in R1, R3, R4, R12. rewrite A1 in R1.
  unfold pie_attrs, expected_attrs.
  (* the class, hence every applicability test, agrees *)
  assert (Cl : p_class (sql_in (sql_out {| p_class := p_class a0; p_value := p_value a0; p_alg := p_alg a0; p_len := p_len a0; p_fmt := p_fmt a0;
     p_kc := p_kc a0; p_parts := p_parts a0; p_ident := p_ident a0; p_thresh := p_thresh a0; p_spm := p_spm a0; p_prime := p_prime a0;
     p_sub := p_sub a0; p_state := p_state a0; p_masks := p_masks a0; p_names := p_names a0; p_groups := p_groups a0; p_asi := p_asi a0;
     p_sensitive := p_sensitive a0; p_policy := p_policy a0; p_initial := n; p_owner := Some o |})) = secret_class s) by (simpl; exact A1).
  rewrite Cl. simpl p_names. simpl p_groups. simpl p_asi. simpl p_sensitive. simpl p_policy. simpl p_initial. simpl p_masks. simpl p_state.
  simpl p_alg. simpl p_len. simpl p_sub. rewrite A1.
  rewrite names_roundtrip, A2, A3, A4, A5, A6, A7, A8, I8.
  rewrite (indexed_names l 0 Hn).
  (* per class *)
  rewrite A1 in *. rewrite I1 in *.
  destruct s as [c kb|kb sp|ct vv|dt kb|ot vv]; simpl secret_class in *.
  - assert (K : is_key c = true) by (simpl in C; destruct c; try discriminate C; reflexivity).
    assert (Cr : is_crypto c = true) by (destruct c; try discriminate K; reflexivity).
    rewrite K in *. rewrite ?Cr. destruct Alg as [Al Le]. rewrite R3, R4, Al, Le.
    rewrite (mask_value l Hm).
    replace (sql_enum_in (sql_enum_out (Some ST_PRE_ACTIVE))) with (Some ST_PRE_ACTIVE) by reflexivity.
    destruct (sel_policy l); reflexivity.
  - change (is_key CSplit) with true in *. change (is_crypto CSplit) with true in *. cbv iota in R3, R4, Alg |- *.
    destruct Alg as [Al Le]. rewrite R3, R4, Al, Le.
    rewrite (mask_value l Hm).
    replace (sql_enum_in (sql_enum_out (Some ST_PRE_ACTIVE))) with (Some ST_PRE_ACTIVE) by reflexivity.
    destruct (sel_policy l); reflexivity.
  - change (is_key CCert) with false in *. change (is_crypto CCert) with true in *. cbv iota in R12 |- *.
    rewrite R12, Sub. rewrite (mask_value l Hm).
    replace (sql_enum_in (sql_enum_out (Some ST_PRE_ACTIVE))) with (Some ST_PRE_ACTIVE) by reflexivity.
    destruct (sel_policy l); reflexivity.
  - change (is_key CSecret) with false in *. change (is_crypto CSecret) with true in *. cbv iota.
    rewrite (mask_value l Hm).
    replace (sql_enum_in (sql_enum_out (Some ST_PRE_ACTIVE))) with (Some ST_PRE_ACTIVE) by reflexivity.
    replace (a_applicable A_CTYPE CSecret) with false by reflexivity. rewrite !andb_false_r.
    destruct (sel_policy l); reflexivity.
  - change (is_key COpaque) with false in *. change (is_crypto COpaque) with false in *. cbv iota.
    replace (a_applicable A_CTYPE COpaque) with false by reflexivity.
    replace (a_applicable A_MASK COpaque) with false by reflexivity.
    replace (a_applicable A_STATE COpaque) with false by reflexivity.
    rewrite !andb_false_r.
    destruct (sel_policy l); reflexivity.
Qed.
