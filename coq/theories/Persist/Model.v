(* C05 - executable model of the conversion chain of a stored object.

   client                     server                                   SQLite
   pie --pie_to_core--> core ==wire==> core --core_to_pie--> pie --apply_attrs--> pie --sql_out--> row
   pie <--core_to_pie-- core <==wire== core <--pie_to_core-- pie <------------------- sql_in ------ row

   Mirrors, as they are today:
     kmip/pie/sqltypes.py   EnumType / UsageMaskType                      sql_enum_out/in, sql_mask_out/in
     kmip/pie/objects.py    Key.key_wrapping_data setter / getter         kc_set / kc_get (the _any_set collapsing rule)
     kmip/pie/factory.py    ObjectFactory._build_key_wrapping_data        kwd_to_dict
                            ObjectFactory._build_pie_* / _build_core_*    core_to_pie / pie_to_core
     kmip/core/objects.py   KeyWrappingData(dict), EncryptionKeyInformation(dict)  (the `if not value` rules)  dict_to_kwd
     kmip/core/factories/secrets.py SecretFactory.create + engine._build_core_object   pie_to_core
     engine._process_template_attribute, _set_attributes_on_managed_object             apply_attrs
     engine._process_register / _process_get / _get_attributes_from_managed_object     srv_register / srv_get / srv_attrs
   Enumerations are their integer values, strings and byte strings are lists of byte values.
   SQLAlchemy's unit of work and SQLite's column affinity are NOT modelled: a row holds exactly what the
   type decorator returned, and reading a row feeds exactly that to the decorator (trusted; tied by K against
   the raw sqlite3 dump on every run). *)
From Coq Require Import ZArith List Bool Lia.
From Coq Require String.
From PKGen Require Import PieColumns.
Import ListNotations.
Open Scope Z_scope.
Set Implicit Arguments.

Definition bytes := list Z.
Definition str := list Z.

Inductive res (A : Type) : Type := Ok (a : A) | Err.
Arguments Ok {A} a.
Arguments Err {A}.
Definition bind {A B} (r : res A) (f : A -> res B) : res B := match r with Ok a => f a | Err => Err end.
Notation "'do' x <- r ; k" := (bind r (fun x => k)) (at level 200, x name, r at level 100, k at level 200).

Fixpoint list_eqb {A} (e : A -> A -> bool) (a b : list A) : bool :=
  match a, b with
  | [], [] => true
  | x :: a', y :: b' => e x y && list_eqb e a' b'
  | _, _ => false
  end.
Definition str_eqb : str -> str -> bool := list_eqb Z.eqb.
Definition opt_eqb {A} (e : A -> A -> bool) (a b : option A) : bool :=
  match a, b with Some x, Some y => e x y | None, None => true | _, _ => false end.

(* ------------------------------------------------------------------ 1. type decorators (sqltypes.py) *)
Definition sql_enum_out (o : option Z) : Z := match o with Some v => v | None => enum_null end.
Definition sql_enum_in (z : Z) : option Z := if z =? enum_null then None else Some z.
Definition sql_mask_out (l : list Z) : Z := fold_left Z.lor l 0.
Definition bit_set (z b : Z) : bool := negb (Z.land b z =? 0).
Definition sql_mask_in (z : Z) : list Z := if z =? 0 then [] else filter (bit_set z) mask_bits.

(* ------------------------------------------------------------------ 2. key wrapping data *)
Record cparams_ (E : Type) := mkCP {
  cp_bcm : E; cp_pad : E; cp_hash : E; cp_role : E; cp_dsa : E; cp_alg : E;
  cp_riv : option bool; cp_ivl : option Z; cp_tagl : option Z; cp_fixl : option Z; cp_invl : option Z;
  cp_ctrl : option Z; cp_icv : option Z }.
Definition cparams := cparams_ (option Z).
Definition cp_map {E F} (f : E -> F) (c : cparams_ E) : cparams_ F :=
  mkCP (f (cp_bcm c)) (f (cp_pad c)) (f (cp_hash c)) (f (cp_role c)) (f (cp_dsa c)) (f (cp_alg c))
       (cp_riv c) (cp_ivl c) (cp_tagl c) (cp_fixl c) (cp_invl c) (cp_ctrl c) (cp_icv c).
Definition cp_none : cparams := mkCP None None None None None None None None None None None None None.

(* Python truthiness of the stored values *)
Definition t_enum (o : option Z) : bool := match o with Some _ => true | None => false end.       (* Enum members are always truthy *)
Definition t_int (o : option Z) : bool := match o with Some z => negb (z =? 0) | None => false end.
Definition t_bool (o : option bool) : bool := match o with Some b => b | None => false end.
Definition t_seq (o : option (list Z)) : bool := match o with Some (_ :: _) => true | _ => false end.
(* `_any_set` of kmip/pie/objects.py (fix 46c741e): a stored field counts when it is not None (and not the empty dict);
   False, 0, b'' and '' are values *)
Definition is_set {A : Type} (o : option A) : bool := match o with Some _ => true | None => false end.
Definition cp_any (c : cparams) : bool :=
  is_set (cp_bcm c) || is_set (cp_pad c) || is_set (cp_hash c) || is_set (cp_role c) || is_set (cp_dsa c) || is_set (cp_alg c)
  || is_set (cp_riv c) || is_set (cp_ivl c) || is_set (cp_tagl c) || is_set (cp_fixl c) || is_set (cp_invl c)
  || is_set (cp_ctrl c) || is_set (cp_icv c).

(* kmip.core structures as they arrive from the wire: wrapping method and the key identifiers are mandatory there *)
Record keyinfo := mkKI { ki_uid : str; ki_cp : option cparams }.
Record kwd := mkKW { kw_method : Z; kw_eki : option keyinfo; kw_mski : option keyinfo;
                     kw_mac : option bytes; kw_iv : option bytes; kw_enc : option Z }.

(* the `_kdw_*` columns of class Key *)
Record kcols_ (E : Type) := mkKC {
  kc_method : E; kc_euid : option str; kc_ecp : cparams_ E; kc_muid : option str; kc_mcp : cparams_ E;
  kc_mac : option bytes; kc_iv : option bytes; kc_enc : E }.
Definition kcols := kcols_ (option Z).
Definition kc_map {E F} (f : E -> F) (k : kcols_ E) : kcols_ F :=
  mkKC (f (kc_method k)) (kc_euid k) (cp_map f (kc_ecp k)) (kc_muid k) (cp_map f (kc_mcp k)) (kc_mac k) (kc_iv k) (f (kc_enc k)).
Definition kc_none : kcols := mkKC None None cp_none None cp_none None None None.

(* the dictionary form exchanged between factory, pie object and SecretFactory *)
Record kidict := mkKID { kd_uid : option str; kd_cp : option cparams }.     (* kd_cp = None is the empty dict {} *)
Record kwdict := mkKWD { wd_method : option Z; wd_eki : option kidict; wd_mski : option kidict;   (* None = {} *)
                         wd_mac : option bytes; wd_iv : option bytes; wd_enc : option Z }.

(* ObjectFactory._build_key_wrapping_data: core -> dict.  A key information structure without cryptographic parameters gives
   'cryptographic_parameters': None (since the fix: commit 546e738; it used to raise AttributeError). *)
Definition ki_to_dict (k : option keyinfo) : res (option kidict) :=
  match k with
  | None => Ok None
  | Some ki => Ok (Some (mkKID (Some (ki_uid ki)) (ki_cp ki)))
  end.
Definition kwd_to_dict (w : option kwd) : res (option kwdict) :=
  match w with
  | None => Ok None
  | Some w => do e <- ki_to_dict (kw_eki w); do m <- ki_to_dict (kw_mski w);
              Ok (Some (mkKWD (Some (kw_method w)) e m (kw_mac w) (kw_iv w) (kw_enc w)))
  end.

(* Key.key_wrapping_data setter: dict -> columns (.get on missing keys gives None) *)
Definition kid_uid (d : option kidict) : option str := match d with Some k => kd_uid k | None => None end.
Definition kid_cp (d : option kidict) : cparams := match d with Some k => match kd_cp k with Some c => c | None => cp_none end | None => cp_none end.
Definition kc_set (d : option kwdict) : kcols :=
  match d with
  | None => kc_none
  | Some d => mkKC (wd_method d) (kid_uid (wd_eki d)) (kid_cp (wd_eki d)) (kid_uid (wd_mski d)) (kid_cp (wd_mski d))
                   (wd_mac d) (wd_iv d) (wd_enc d)
  end.

(* Key.key_wrapping_data getter: columns -> dict; a sub-dictionary none of whose fields is set collapses to {} *)
Definition ki_get (uid : option str) (cp : cparams) : option kidict :=
  let cpd := if cp_any cp then Some cp else None in
  if is_set uid || cp_any cp then Some (mkKID uid cpd) else None.
Definition t_kid (d : option kidict) : bool := match d with Some _ => true | None => false end.
Definition kc_get (k : kcols) : option kwdict :=
  let e := ki_get (kc_euid k) (kc_ecp k) in
  let m := ki_get (kc_muid k) (kc_mcp k) in
  if is_set (kc_method k) || t_kid e || t_kid m || is_set (kc_mac k) || is_set (kc_iv k) || is_set (kc_enc k)
  then Some (mkKWD (kc_method k) e m (kc_mac k) (kc_iv k) (kc_enc k)) else None.

(* `if key_wrapping_data: KeyWrappingData(dict)`: dict -> core.  `if not value` turns {} into absent;
   a structure lacking a mandatory field cannot be written to the wire: Err. *)
Definition dict_to_ki (d : option kidict) : res (option keyinfo) :=
  match d with
  | None => Ok None
  | Some k => match kd_uid k with None => Err | Some u => Ok (Some (mkKI u (kd_cp k))) end
  end.
Definition dict_to_kwd (d : option kwdict) : res (option kwd) :=
  match d with
  | None => Ok None
  | Some d => match wd_method d with
              | None => Err
              | Some m => do e <- dict_to_ki (wd_eki d); do s <- dict_to_ki (wd_mski d);
                          Ok (Some (mkKW m e s (wd_mac d) (wd_iv d) (wd_enc d)))
              end
  end.

Definition kwd_flatten (w : option kwd) : res kcols := do d <- kwd_to_dict w; Ok (kc_set d).
Definition kwd_unflatten (k : kcols) : res (option kwd) := dict_to_kwd (kc_get k).

(* ------------------------------------------------------------------ 3. objects *)
Inductive oclass := CSym | CPub | CPriv | CSplit | CCert | CSecret | COpaque.
Definition oclass_eqb (a b : oclass) : bool :=
  match a, b with CSym, CSym | CPub, CPub | CPriv, CPriv | CSplit, CSplit | CCert, CCert | CSecret, CSecret | COpaque, COpaque => true | _, _ => false end.
Definition otype_of (c : oclass) : Z :=
  match c with CSym => OT_SYMMETRIC_KEY | CPub => OT_PUBLIC_KEY | CPriv => OT_PRIVATE_KEY | CSplit => OT_SPLIT_KEY
             | CCert => OT_CERTIFICATE | CSecret => OT_SECRET_DATA | COpaque => OT_OPAQUE_DATA end.
Definition is_key (c : oclass) : bool := match c with CSym | CPub | CPriv | CSplit => true | _ => false end.
Definition is_crypto (c : oclass) : bool := match c with COpaque => false | _ => true end.

Record keyblock := mkKB { kb_fmt : Z; kb_value : bytes; kb_alg : option Z; kb_len : option Z; kb_kwd : option kwd }.
Record splitinfo := mkSP { sp_parts : Z; sp_ident : Z; sp_thresh : Z; sp_method : Z; sp_prime : option Z }.
Inductive secret :=
| SKey (c : oclass) (kb : keyblock)              (* c in CSym | CPub | CPriv *)
| SSplit (kb : keyblock) (sp : splitinfo)
| SCert (ctype : Z) (v : bytes)
| SSecret (dtype : Z) (kb : keyblock)
| SOpaque (ot : Z) (v : bytes).
Definition secret_class (s : secret) : oclass :=
  match s with SKey c _ => c | SSplit _ _ => CSplit | SCert _ _ => CCert | SSecret _ _ => CSecret | SOpaque _ _ => COpaque end.

(* the pie object (E = option Z, M = list of mask members, N = list of names) and its row (E = Z, M = Z, N = name rows) *)
Record pobj_ (E M N : Type) := mkP {
  p_class : oclass; p_value : bytes;
  p_alg : E; p_len : option Z; p_fmt : E; p_kc : kcols_ E;
  p_parts : option Z; p_ident : option Z; p_thresh : option Z; p_spm : E; p_prime : option Z;
  p_sub : E;                                   (* certificate_type | data_type | opaque_type *)
  p_state : E; p_masks : M; p_names : N;
  p_groups : list str; p_asi : list (str * str);
  p_sensitive : bool; p_policy : option str; p_initial : Z; p_owner : option str }.
Definition pobj := pobj_ (option Z) (list Z) (list str).
Definition namerow := (str * Z * Z)%type.         (* name, name_index, name_type *)
Definition prow := pobj_ Z Z (list namerow).

Definition p_new (c : oclass) (v : bytes) : pobj :=
  mkP c v None None None kc_none None None None None None None
      (if is_crypto c then Some ST_PRE_ACTIVE else None) [] [] [] [] false None 0 None.

Definition len8 (v : bytes) : Z := 8 * Z.of_nat (List.length v).
Definition mem_z (x : Z) (l : list Z) : bool := existsb (Z.eqb x) l.

(* ObjectFactory.convert, core -> pie (server side at Register, client side after Get), with the constructors' validate() *)
Definition key_to_pie (c : oclass) (kb : keyblock) : res pobj :=
  match kb_alg kb, kb_len kb with
  | Some a, Some l =>
      do k <- kwd_flatten (kb_kwd kb);
      let p := p_new c (kb_value kb) in
      let p := mkP c (kb_value kb) (Some a) (Some l) (Some (kb_fmt kb)) k
                   (p_parts p) (p_ident p) (p_thresh p) (p_spm p) (p_prime p) (p_sub p) (p_state p) (p_masks p) (p_names p)
                   (p_groups p) (p_asi p) (p_sensitive p) (p_policy p) (p_initial p) (p_owner p) in
      Ok p
  | _, _ => Err
  end.
Definition prime_ok (o : option Z) : bool :=
  match o with None => true | Some z => (- 9223372036854775808 <=? z) && (z <? 9223372036854775808) end.
Definition core_to_pie (s : secret) : res pobj :=
  match s with
  | SKey CSym kb =>
      do p <- key_to_pie CSym kb;
      if negb (kb_fmt kb =? KFT_RAW) then Err
      else match kc_get (p_kc p) with
           | Some _ => Ok p
           | None => if opt_eqb Z.eqb (kb_len kb) (Some (len8 (kb_value kb))) then Ok p else Err
           end
  | SKey CPub kb => if mem_z (kb_fmt kb) [KFT_RAW; KFT_X_509; KFT_PKCS_1] then key_to_pie CPub kb else Err
  | SKey CPriv kb => if mem_z (kb_fmt kb) [KFT_RAW; KFT_PKCS_1; KFT_PKCS_8] then key_to_pie CPriv kb else Err
  | SKey _ _ => Err
  | SSplit kb sp =>
      do p <- key_to_pie CSplit kb;
      (* SplitKey.prime_field_size setter: the BigInteger column is 64 bits signed (fix 7aebdbf) *)
      if negb (prime_ok (sp_prime sp)) then Err else
      Ok (mkP CSplit (p_value p) (p_alg p) (p_len p) (p_fmt p) (p_kc p)
              (Some (sp_parts sp)) (Some (sp_ident sp)) (Some (sp_thresh sp)) (Some (sp_method sp)) (sp_prime sp)
              (p_sub p) (p_state p) (p_masks p) (p_names p) (p_groups p) (p_asi p) (p_sensitive p) (p_policy p) (p_initial p) (p_owner p))
  | SCert ct v => if ct =? CT_X_509 then
                    let p := p_new CCert v in
                    Ok (mkP CCert v (p_alg p) (p_len p) (p_fmt p) (p_kc p) (p_parts p) (p_ident p) (p_thresh p) (p_spm p) (p_prime p)
                            (Some ct) (p_state p) (p_masks p) (p_names p) (p_groups p) (p_asi p) (p_sensitive p) (p_policy p) (p_initial p) (p_owner p))
                  else Err
  | SSecret dt kb =>
      let p := p_new CSecret (kb_value kb) in
      Ok (mkP CSecret (kb_value kb) (p_alg p) (p_len p) (p_fmt p) (p_kc p) (p_parts p) (p_ident p) (p_thresh p) (p_spm p) (p_prime p)
              (Some dt) (p_state p) (p_masks p) (p_names p) (p_groups p) (p_asi p) (p_sensitive p) (p_policy p) (p_initial p) (p_owner p))
  | SOpaque ot v =>
      let p := p_new COpaque v in
      Ok (mkP COpaque v (p_alg p) (p_len p) (p_fmt p) (p_kc p) (p_parts p) (p_ident p) (p_thresh p) (p_spm p) (p_prime p)
              (Some ot) (p_state p) (p_masks p) (p_names p) (p_groups p) (p_asi p) (p_sensitive p) (p_policy p) (p_initial p) (p_owner p))
  end.

(* engine._build_core_object + SecretFactory.create (server side at Get); ObjectFactory._build_core_* (client side) agrees on
   every pie object its constructors accept *)
Definition pie_keyblock (p : pobj) : res keyblock :=
  match p_fmt p with
  | None => Err
  | Some f => do w <- kwd_unflatten (p_kc p); Ok (mkKB f (p_value p) (p_alg p) (p_len p) w)
  end.
Definition pie_to_core (p : pobj) : res secret :=
  match p_class p with
  | CSym | CPub | CPriv => do kb <- pie_keyblock p; Ok (SKey (p_class p) kb)
  | CSplit =>
      do kb <- pie_keyblock p;
      match p_parts p, p_ident p, p_thresh p, p_spm p with
      | Some a, Some b, Some c, Some m => Ok (SSplit kb (mkSP a b c m (p_prime p)))
      | _, _, _, _ => Err
      end
  | CCert => match p_sub p with Some ct => Ok (SCert ct (p_value p)) | None => Err end
  | CSecret => match p_sub p with Some dt => Ok (SSecret dt (mkKB KFT_OPAQUE (p_value p) None None None)) | None => Err end
  | COpaque => match p_sub p with Some ot => Ok (SOpaque ot (p_value p)) | None => Err end
  end.

(* ------------------------------------------------------------------ 4. attributes supplied at Register *)
Inductive tval :=
| TName (v : str) (t : Z) | TGroup (v : str) | TAsi (ns d : str)
| TAlg (z : Z) | TLen (z : Z) | TMask (z : Z) | TPolicy (s : str) | TSens (b : bool).
Record tattr := mkTA { ta_idx : option Z; ta_val : tval }.

(* index into c05_attr_rules *)
Definition A_UID := 0%nat. Definition A_NAME := 1%nat. Definition A_OTYPE := 2%nat. Definition A_ALG := 3%nat.
Definition A_LEN := 4%nat. Definition A_CTYPE := 5%nat. Definition A_POLICY := 6%nat. Definition A_MASK := 7%nat.
Definition A_STATE := 8%nat. Definition A_INITIAL := 9%nat. Definition A_GROUP := 10%nat. Definition A_ASI := 11%nat.
Definition A_SENS := 12%nat.
Definition tval_attr (v : tval) : nat :=
  match v with TName _ _ => A_NAME | TGroup _ => A_GROUP | TAsi _ _ => A_ASI | TAlg _ => A_ALG | TLen _ => A_LEN
             | TMask _ => A_MASK | TPolicy _ => A_POLICY | TSens _ => A_SENS end.

Definition ver := (Z * Z)%type.
Definition ver_ge (a b : ver) : bool := (fst b <? fst a) || ((fst a =? fst b) && (snd b <=? snd a)).
Definition rule_of (a : nat) := snd (nth a c05_attr_rules (String.EmptyString, (false, [], (99, 0), None))).
Definition a_multi (a : nat) : bool := fst (fst (fst (rule_of a))).
Definition a_types (a : nat) : list Z := snd (fst (fst (rule_of a))).
Definition a_supported (v : ver) (a : nat) : bool := ver_ge v (snd (fst (rule_of a))).
Definition a_deprecated (v : ver) (a : nat) : bool := match snd (rule_of a) with Some d => ver_ge v d | None => false end.
Definition a_applicable (a : nat) (c : oclass) : bool := mem_z (otype_of c) (a_types a).

(* engine._process_template_attribute: the checks (the dictionary it builds is recomputed by the selectors below) *)
Fixpoint count_attr (a : nat) (l : list tattr) : nat :=
  match l with [] => O | t :: r => (if Nat.eqb (tval_attr (ta_val t)) a then 1 else 0) + count_attr a r end.
Fixpoint template_ok (v : ver) (seen : list tattr) (l : list tattr) : bool :=
  match l with
  | [] => true
  | t :: r =>
      let a := tval_attr (ta_val t) in
      a_supported v a &&
      (if a_multi a
       then negb (match ta_idx t with None => true | Some _ => false end && negb (Nat.eqb (count_attr a seen) 0))
       else (match ta_idx t with Some i => i =? 0 | None => true end) && Nat.eqb (count_attr a seen) 0) &&
      template_ok v (seen ++ [t]) r
  end.

Definition sel_names (l : list tattr) : list str := flat_map (fun t => match ta_val t with TName v _ => [v] | _ => [] end) l.
Definition sel_groups (l : list tattr) : list str := flat_map (fun t => match ta_val t with TGroup v => [v] | _ => [] end) l.
Definition sel_asi (l : list tattr) : list (str * str) := flat_map (fun t => match ta_val t with TAsi a b => [(a, b)] | _ => [] end) l.
Definition sel_alg (l : list tattr) : option Z := hd_error (flat_map (fun t => match ta_val t with TAlg z => [z] | _ => [] end) l).
Definition sel_len (l : list tattr) : option Z := hd_error (flat_map (fun t => match ta_val t with TLen z => [z] | _ => [] end) l).
Definition sel_mask (l : list tattr) : option Z := hd_error (flat_map (fun t => match ta_val t with TMask z => [z] | _ => [] end) l).
Definition sel_policy (l : list tattr) : option str := hd_error (flat_map (fun t => match ta_val t with TPolicy s => [s] | _ => [] end) l).
Definition sel_sens (l : list tattr) : option bool := hd_error (flat_map (fun t => match ta_val t with TSens b => [b] | _ => [] end) l).

Fixpoint nodup_str (l : list str) : bool :=
  match l with [] => true | x :: r => negb (existsb (str_eqb x) r) && nodup_str r end.

(* engine._set_attributes_on_managed_object.  Every failure leaves the store untouched, so the order in which the
   dictionary is walked only selects the error; the model reports Err. *)
Definition apply_attrs (v : ver) (p : pobj) (l : list tattr) : res pobj :=
  let c := p_class p in
  if negb (template_ok v [] l) then Err
  else if negb (forallb (fun t => a_applicable (tval_attr (ta_val t)) c) l) then Err
  else
    let names := p_names p ++ sel_names l in
    if negb (nodup_str names) then Err
    else
      (* Cryptographic Algorithm / Length: getattr fails on classes without the column; `if existing_value:` *)
      do alg <- match sel_alg l with
                | None => Ok (p_alg p)
                | Some z => if negb (is_key c) then Err
                            else match p_alg p with Some a => if a =? z then Ok (Some a) else Err | None => Ok (Some z) end
                end;
      do len <- match sel_len l with
                | None => Ok (p_len p)
                | Some z => if negb (is_key c) then Err
                            else if t_int (p_len p) then (if opt_eqb Z.eqb (p_len p) (Some z) then Ok (p_len p) else Err) else Ok (Some z)
                end;
      do masks <- match sel_mask l with
                  | None => Ok (p_masks p)
                  | Some z => let m := filter (bit_set z) mask_bits in
                              match p_masks p with [] => Ok m | e => if list_eqb Z.eqb e m then Ok e else Err end
                  end;
      do pol <- match sel_policy l with
                | None => Ok (p_policy p)
                | Some s => match p_policy p with
                            | Some (x :: e) => if str_eqb (x :: e) s then Ok (p_policy p) else Err
                            | _ => Ok (Some s)
                            end
                end;
      do sens <- match sel_sens l with
                 | None => Ok (p_sensitive p)
                 | Some b => if p_sensitive p then (if b then Ok true else Err) else Ok b
                 end;
      Ok (mkP c (p_value p) alg len (p_fmt p) (p_kc p) (p_parts p) (p_ident p) (p_thresh p) (p_spm p) (p_prime p) (p_sub p)
              (p_state p) masks names (p_groups p ++ sel_groups l) (p_asi p ++ sel_asi l) sens pol (p_initial p) (p_owner p)).

(* ------------------------------------------------------------------ 5. the SQL hop *)
Definition default_policy : str := [100; 101; 102; 97; 117; 108; 116].    (* "default" *)
Fixpoint names_out (first : Z) (l : list str) : list namerow :=
  match l with [] => [] | n :: r => (n, first, sql_enum_out (Some NT_TEXT)) :: names_out (first + 1) r end.
Definition names_in (l : list namerow) : list str := map (fun r => fst (fst r)) l.

(* INSERT: every EnumType / UsageMaskType column through process_bind_param; Column(default='default') fills a None policy *)
Definition sql_out (p : pobj) : prow :=
  mkP (p_class p) (p_value p) (sql_enum_out (p_alg p)) (p_len p) (sql_enum_out (p_fmt p)) (kc_map sql_enum_out (p_kc p))
      (p_parts p) (p_ident p) (p_thresh p) (sql_enum_out (p_spm p)) (p_prime p) (sql_enum_out (p_sub p))
      (sql_enum_out (p_state p)) (sql_mask_out (p_masks p)) (names_out 1 (p_names p))
      (p_groups p) (p_asi p) (p_sensitive p)
      (match p_policy p with None => Some default_policy | x => x end) (p_initial p) (p_owner p).
(* SELECT: process_result_value.  Columns of tables the class does not have read as absent. *)
Definition sql_in (r : prow) : pobj :=
  let c := p_class r in
  let k := is_key c in
  mkP c (p_value r) (if k then sql_enum_in (p_alg r) else None) (if k then p_len r else None) (if k then sql_enum_in (p_fmt r) else None)
      (if k then kc_map sql_enum_in (p_kc r) else kc_none)
      (p_parts r) (p_ident r) (p_thresh r) (match c with CSplit => sql_enum_in (p_spm r) | _ => None end) (p_prime r)
      (if k then None else sql_enum_in (p_sub r))
      (if is_crypto c then sql_enum_in (p_state r) else None) (if is_crypto c then sql_mask_in (p_masks r) else [])
      (names_in (p_names r)) (p_groups r) (p_asi r) (p_sensitive r) (p_policy r) (p_initial r) (p_owner r).

(* ------------------------------------------------------------------ 6. the store and the three operations *)
Record store := mkS { s_rows : list (Z * prow); s_next : Z; s_placeholder : option Z }.
Definition store0 : store := mkS [] 1 None.

Fixpoint find_row (u : Z) (l : list (Z * prow)) : option prow :=
  match l with [] => None | (k, r) :: t => if k =? u then Some r else find_row u t end.
Fixpoint update_row (u : Z) (f : prow -> prow) (l : list (Z * prow)) : list (Z * prow) :=
  match l with [] => [] | (k, r) :: t => if k =? u then (k, f r) :: t else (k, r) :: update_row u f t end.
Fixpoint remove_row (u : Z) (l : list (Z * prow)) : list (Z * prow) :=
  match l with [] => [] | (k, r) :: t => if k =? u then t else (k, r) :: remove_row u t end.

Definition register_pie (v : ver) (owner : str) (now : Z) (s : secret) (l : list tattr) : res pobj :=
  do p <- core_to_pie s;
  do q <- apply_attrs v p l;
  Ok (mkP (p_class q) (p_value q) (p_alg q) (p_len q) (p_fmt q) (p_kc q) (p_parts q) (p_ident q) (p_thresh q) (p_spm q) (p_prime q)
          (p_sub q) (p_state q) (p_masks q) (p_names q) (p_groups q) (p_asi q) (p_sensitive q) (p_policy q) now (Some owner)).

(* the wire hop of the attribute list: KMIP 2.0 sends an Attributes structure, which has no attribute indices *)
Definition wire_attrs (v : ver) (l : list tattr) : list tattr :=
  if ver_ge v (2, 0) then map (fun t => mkTA None (ta_val t)) l else l.

Definition srv_register (v : ver) (owner : str) (now : Z) (s : secret) (l : list tattr) (st : store) : res (store * Z) :=
  do p <- register_pie v owner now s (wire_attrs v l);
  let u := s_next st in
  Ok (mkS (s_rows st ++ [(u, sql_out p)]) (u + 1) (Some u), u).

Definition secret_alg_ (s : secret) : option Z := match s with SKey _ kb | SSplit kb _ => kb_alg kb | _ => None end.
Definition secret_len_ (s : secret) : option Z := match s with SKey _ kb | SSplit kb _ => kb_len kb | _ => None end.

(* ------------------------------------------------------------------ 6b. objects made from templates: Create, DeriveKey, CreateKeyPair
   The generated key material (and, for pairs, the key format chosen by the cryptography engine) is an input of the model;
   everything else the server stores comes from the template(s), through the same attribute path as Register
   (engine._process_create / _process_derive_key / _process_create_key_pair: build the pie object from algorithm and length,
   names := [], _set_attributes_on_managed_object with the whole attribute dictionary, one commit). *)
Inductive ckind := KCreate | KDeriveSym | KDeriveSecret.

Definition made_secret (k : ckind) (mat : bytes) (l : list tattr) : res secret :=
  match k with
  | KCreate =>                       (* algorithm, length and usage mask are mandatory *)
      match sel_alg l, sel_len l, sel_mask l with
      | Some a, Some n, Some _ => Ok (SKey CSym (mkKB KFT_RAW mat (Some a) (Some n) None))
      | _, _, _ => Err
      end
  | KDeriveSym =>                    (* algorithm and length are mandatory; the length must be a whole number of bytes *)
      match sel_alg l, sel_len l with
      | Some a, Some n => if n mod 8 =? 0 then Ok (SKey CSym (mkKB KFT_RAW mat (Some a) (Some n) None)) else Err
      | _, _ => Err
      end
  | KDeriveSecret =>
      match sel_len l with
      | Some n => if n mod 8 =? 0 then Ok (SSecret SDT_SEED (mkKB KFT_OPAQUE mat None None None)) else Err
      | None => Err
      end
  end.
(* DeriveKey of Secret Data deletes the Cryptographic Length entry before setting the attributes *)
Definition made_attrs (k : ckind) (l : list tattr) : list tattr :=
  match k with
  | KDeriveSecret => filter (fun t => match ta_val t with TLen _ => false | _ => true end) l
  | _ => l
  end.
Definition srv_make (k : ckind) (v : ver) (owner : str) (now : Z) (mat : bytes) (l : list tattr) (st : store) : res (store * Z) :=
  do s <- made_secret k mat l; srv_register v owner now s (made_attrs k l) st.

(* CreateKeyPair (KMIP 4.2): per key, an attribute of the key's own template wins over the same attribute of the common template;
   attributes are resolved by name, so all instances of a multi-valued attribute come from one template, in its order *)
Definition has_attr (a : nat) (l : list tattr) : bool := negb (Nat.eqb (count_attr a l) 0).
Definition resolve (common spec : list tattr) : list tattr :=
  spec ++ filter (fun t => negb (has_attr (tval_attr (ta_val t)) spec)) common.
Definition pair_secret (c : oclass) (fmt : Z) (mat : bytes) (l : list tattr) : res secret :=
  match sel_alg l, sel_len l, sel_mask l with
  | Some a, Some n, Some _ => Ok (SKey c (mkKB fmt mat (Some a) (Some n) None))
  | _, _, _ => Err
  end.
Definition srv_make_pair (v : ver) (owner : str) (now : Z) (fu : Z) (mu : bytes) (fr : Z) (mr : bytes)
                         (lc lu lr : list tattr) (st : store) : res (store * (Z * Z)) :=
  if negb (template_ok v [] (wire_attrs v lc) && template_ok v [] (wire_attrs v lu) && template_ok v [] (wire_attrs v lr)) then Err
  else
    let ru := resolve lc lu in
    let rr := resolve lc lr in
    do su <- pair_secret CPub fu mu ru;
    do sr <- pair_secret CPriv fr mr rr;
    if negb (opt_eqb Z.eqb (secret_alg_ su) (secret_alg_ sr) && opt_eqb Z.eqb (secret_len_ su) (secret_len_ sr)) then Err
    else
      do x1 <- srv_register v owner now su ru st;
      do x2 <- srv_register v owner now sr rr (fst x1);
      Ok (fst x2, (snd x1, snd x2)).

Definition srv_get (st : store) (u : Z) : res secret :=
  match find_row u (s_rows st) with None => Err | Some r => pie_to_core (sql_in r) end.

(* attribute values as GetAttributes reports them *)
Inductive aval := VText (s : str) | VInt (z : Z) | VEnum (z : Z) | VBool (b : bool) | VDate (z : Z)
                | VName (s : str) (t : Z) | VAsi (a b : str).
Definition rattr := (nat * Z * aval)%type.       (* attribute (index into c05_attr_rules), attribute index, value *)

Fixpoint indexed {A} (a : nat) (i : Z) (f : A -> aval) (l : list A) : list rattr :=
  match l with [] => [] | x :: r => (a, i, f x) :: indexed a (i + 1) f r end.
Definition one (a : nat) (o : option aval) : list rattr := match o with Some v => [(a, 0, v)] | None => [] end.
Fixpoint z_digits (fuel : nat) (z : Z) (acc : str) : str :=
  match fuel with O => acc | S f => let acc' := (48 + z mod 10) :: acc in if z <? 10 then acc' else z_digits f (z / 10) acc' end.
Definition uid_text (u : Z) : str := z_digits 40 u [].

(* engine._get_attributes_from_managed_object with an empty name list (all attributes), in policy order *)
Definition pie_attrs (v : ver) (u : Z) (p : pobj) : list rattr :=
  let c := p_class p in
  let keep (a : nat) (l : list rattr) := if a_supported v a && negb (a_deprecated v a) && a_applicable a c then l else [] in
  keep A_UID (one A_UID (Some (VText (uid_text u)))) ++
  keep A_NAME (indexed A_NAME 0 (fun n => VName n NT_TEXT) (p_names p)) ++
  keep A_OTYPE (one A_OTYPE (Some (VEnum (otype_of c)))) ++
  keep A_ALG (if is_key c then one A_ALG (option_map VEnum (p_alg p)) else []) ++
  keep A_LEN (if is_key c then one A_LEN (option_map VInt (p_len p)) else []) ++
  keep A_CTYPE (one A_CTYPE (option_map VEnum (p_sub p))) ++
  keep A_POLICY (one A_POLICY (option_map VText (p_policy p))) ++
  keep A_MASK (one A_MASK (Some (VInt (sql_mask_out (p_masks p))))) ++
  keep A_STATE (one A_STATE (option_map VEnum (p_state p))) ++
  keep A_INITIAL (one A_INITIAL (Some (VDate (p_initial p)))) ++
  keep A_GROUP (indexed A_GROUP 0 VText (p_groups p)) ++
  keep A_ASI (indexed A_ASI 0 (fun x => VAsi (fst x) (snd x)) (p_asi p)) ++
  keep A_SENS (one A_SENS (Some (VBool (p_sensitive p)))).

Definition srv_attrs (v : ver) (st : store) (u : Z) : res (list rattr) :=
  match find_row u (s_rows st) with None => Err | Some r => Ok (pie_attrs v u (sql_in r)) end.
(* what ProxyKmipClient.get_attributes hands to the application: the server's list (the client's KMIP 2.0 decoder handles
   every attribute the engine reports since fix 426caf8) *)
Definition get_attributes (v : ver) (st : store) (u : Z) : res (list rattr) := srv_attrs v st u.

(* GetAttributeListResponsePayload keeps the first occurrence of every name *)
Fixpoint dedup_nat (seen : list nat) (l : list nat) : list nat :=
  match l with [] => [] | x :: r => if existsb (Nat.eqb x) seen then dedup_nat seen r else x :: dedup_nat (x :: seen) r end.
Definition srv_attr_list (v : ver) (st : store) (u : Z) : res (list nat) :=
  do l <- srv_attrs v st u; Ok (dedup_nat [] (map (fun x => fst (fst x)) l)).

(* ------------------------------------------------------------------ 7. histories *)
Inductive hop :=
| HRegister (v : ver) (owner : str) (now : Z) (s : secret) (l : list tattr)
| HRead                                        (* Get / GetAttributes / GetAttributeList / Locate / Query ...: no write *)
| HActivate (u : Z)                            (* one UPDATE of crypto_objects.state *)
| HDestroy (u : Z)                             (* DELETE of the addressed base row *)
| HRestart                                     (* new engine object on the same database file *)
| HForeign                                     (* an operation this model does not describe that takes the next identifier *)
| HMake (k : ckind) (v : ver) (owner : str) (now : Z) (mat : bytes) (l : list tattr)           (* Create / DeriveKey *)
| HMakePair (v : ver) (owner : str) (now : Z) (fu : Z) (mu : bytes) (fr : Z) (mr : bytes) (lc lu lr : list tattr).   (* CreateKeyPair *)

Definition step (st : store) (h : hop) : store :=
  match h with
  | HRegister v o n s l => match srv_register v o n s l st with Ok (st', _) => st' | Err => st end
  | HRead => st
  | HActivate u => mkS (update_row u (fun r => if is_crypto (p_class r) && (p_state r =? ST_PRE_ACTIVE) then
                          mkP (p_class r) (p_value r) (p_alg r) (p_len r) (p_fmt r) (p_kc r) (p_parts r) (p_ident r) (p_thresh r) (p_spm r)
                              (p_prime r) (p_sub r) ST_ACTIVE (p_masks r) (p_names r) (p_groups r) (p_asi r) (p_sensitive r) (p_policy r)
                              (p_initial r) (p_owner r) else r) (s_rows st)) (s_next st) (Some u)
  | HDestroy u => mkS (remove_row u (s_rows st)) (s_next st) (s_placeholder st)
  | HRestart => mkS (s_rows st) (s_next st) None
  | HForeign => mkS (s_rows st) (s_next st + 1) (Some (s_next st))
  | HMake k v o n mat l => match srv_make k v o n mat l st with Ok (st', _) => st' | Err => st end
  | HMakePair v o n fu mu fr mr lc lu lr => match srv_make_pair v o n fu mu fr mr lc lu lr st with Ok (st', _) => st' | Err => st end
  end.
Definition run (st : store) (h : list hop) : store := fold_left step h st.

(* ------------------------------------------------------------------ 8. what the property promises, stated on the inputs alone *)
(* supplied attributes + server-assigned ones (identifier, object type, initial state, initial date, default policy name)
   + the attributes carried by the object itself (algorithm, length, certificate type) + the two documented defaults
   (usage mask 0 for cryptographic objects, sensitive = false) *)
Definition sel_typed_names (l : list tattr) : list (str * Z) := flat_map (fun t => match ta_val t with TName v ty => [(v, ty)] | _ => [] end) l.
Definition secret_alg (s : secret) : option Z := match s with SKey _ kb | SSplit kb _ => kb_alg kb | _ => None end.
Definition secret_len (s : secret) : option Z := match s with SKey _ kb | SSplit kb _ => kb_len kb | _ => None end.
Definition expected_attrs (v : ver) (u : Z) (now : Z) (state : Z) (s : secret) (l : list tattr) : list rattr :=
  let c := secret_class s in
  let keep (a : nat) (x : list rattr) := if a_supported v a && negb (a_deprecated v a) && a_applicable a c then x else [] in
  keep A_UID [(A_UID, 0, VText (uid_text u))] ++
  keep A_NAME (indexed A_NAME 0 (fun n => VName (fst n) (snd n)) (sel_typed_names l)) ++
  keep A_OTYPE [(A_OTYPE, 0, VEnum (otype_of c))] ++
  keep A_ALG (one A_ALG (option_map VEnum (secret_alg s))) ++
  keep A_LEN (one A_LEN (option_map VInt (secret_len s))) ++
  keep A_CTYPE (match s with SCert ct _ => [(A_CTYPE, 0, VEnum ct)] | _ => [] end) ++
  keep A_POLICY [(A_POLICY, 0, VText (match sel_policy l with Some p => p | None => default_policy end))] ++
  keep A_MASK [(A_MASK, 0, VInt (match sel_mask l with Some m => m | None => 0 end))] ++
  keep A_STATE [(A_STATE, 0, VEnum state)] ++
  keep A_INITIAL [(A_INITIAL, 0, VDate now)] ++
  keep A_GROUP (indexed A_GROUP 0 VText (sel_groups l)) ++
  keep A_ASI (indexed A_ASI 0 (fun x => VAsi (fst x) (snd x)) (sel_asi l)) ++
  keep A_SENS [(A_SENS, 0, VBool (match sel_sens l with Some b => b | None => false end))].
