(* C16 - version-conditional message fields: model over the guard table regenerated from the read/write methods
   (PKGen.VersionFields).  enums.KMIPVersion is an OrderedEnum over the floats 1.0 .. 2.0; on its six members the
   float order is the (major, minor) order used here. *)
From Coq Require Import ZArith List String Bool.
From PKGen Require Import Versions VersionFields.
From PK Require Import Version.Version.
Import ListNotations.
Open Scope Z_scope.

Definition str_in (s : string) (l : list string) : bool := existsb (String.eqb s) l.

Definition guard_holds (g : field_guard) (v : ver) : bool :=
  match fg_cmp g with VLt => ver_ltb v (fg_bound g) | VGe => ver_geb v (fg_bound g) end.

Definition class_guards (cls meth : string) : list field_guard :=
  filter (fun g => String.eqb (fg_class g) cls && String.eqb (fg_method g) meth) field_guards.

(* `if kmip_version < B: raise VersionNotSupported` at the top of read/write: the whole structure is refused *)
Definition class_refused_in (meth cls : string) (v : ver) : bool :=
  existsb (fun g => fg_then_raises g && guard_holds g v) (class_guards cls meth).
Definition class_refused (cls : string) (v : ver) : bool := class_refused_in "read" cls v.

Definition unguarded_in (cls meth : string) : list string :=
  flat_map (fun e => if String.eqb (fst (fst e)) cls && String.eqb (snd (fst e)) meth then snd e else []) unguarded_names.

(* a tag named by the read method of a class can be read under v iff it is named outside every version block, or
   some block naming it is entered under v (then-branch when the test holds, else-branch when it does not) *)
Definition tag_allowed (cls : string) (v : ver) (t : string) : bool :=
  str_in t (unguarded_in cls "read")
  || existsb (fun g => (str_in t (fg_then g) && guard_holds g v) || (str_in t (fg_else g) && negb (guard_holds g v)))
       (class_guards cls "read").

Definition tag_guarded (cls t : string) : bool :=
  existsb (fun g => str_in t (fg_then g) || str_in t (fg_else g)) (class_guards cls "read").

(* enums.is_attribute(tag, v) *)
Fixpoint index_of (v : ver) (l : list ver) : option nat :=
  match l with [] => None | x :: r => if ver_eqb v x then Some O else option_map S (index_of v r) end.

Definition attr_tag_allowed (tag : string) (v : ver) : bool :=
  match index_of v kmip_versions with
  | None => false
  | Some i =>
      match find (fun e => String.eqb (fst (fst e)) tag) attr_tag_versions with
      | None => false
      | Some e => nth i (snd e) false
      end
  end.

(* the version from which a tag is readable in a class: the least member of kmip_versions under which it is *)
Definition tag_min_version (cls t : string) : option ver := find (fun v => tag_allowed cls v t) kmip_versions.
Definition attr_tag_min_version (t : string) : option ver := find (fun v => attr_tag_allowed t v) kmip_versions.
Definition class_min_version (meth cls : string) : option ver :=
  find (fun v => negb (class_refused_in meth cls v)) kmip_versions.

(* "introduction" guards of a method: blocks whose entry requires a later version (>= B with a body, < B with an
   else-branch, < B raising).  read and write of a class must agree on them. *)
Definition intro_bounds (cls meth : string) : list ver :=
  flat_map (fun g => match fg_cmp g with
                     | VGe => match fg_then g with [] => [] | _ => [fg_bound g] end
                     | VLt => if fg_then_raises g then [fg_bound g]
                              else match fg_else g with [] => [] | _ => [fg_bound g] end
                     end) (class_guards cls meth).

Fixpoint dedup (l : list string) : list string :=
  match l with [] => [] | x :: r => if str_in x r then dedup r else x :: dedup r end.
Definition guarded_classes : list string := dedup (map fg_class field_guards).

(* a request of version v that carries the item t inside a structure of class cls, as the decoder treats it: consumed when
   the read method reaches the tag under v; otherwise it is in the way of the sequential walk and the message is refused
   by the final is_oversized check - unless the class's read never makes that check (tolerant_readers, regenerated), in
   which case the item and everything behind it is left unread and the request goes on to the engine *)
Definition wire_processed (cls : string) (v : ver) (t : string) : bool :=
  negb (class_refused cls v) && (tag_allowed cls v t || str_in cls tolerant_readers).
