(* C16 - comparators for the correspondence K: every case carries the input and what the real code did;
   `check_vcase` recomputes the model's answer and compares. *)
From Coq Require Import ZArith List String Bool.
From PKGen Require Import Enums AttrRuleTable Versions VersionFields.
From PK Require Import Version.Version Version.Fields.
Import ListNotations.
Open Scope Z_scope.

Inductive gclass := GRun | GVersion | GUnknown.
Definition gclass_eqb (a b : gclass) : bool :=
  match a, b with GRun, GRun | GVersion, GVersion | GUnknown, GUnknown => true | _, _ => false end.
Definition class_of (g : gate_result) : gclass :=
  match g with GateRun _ => GRun | GateVersion _ => GVersion | GateUnknownOp => GUnknown end.

Fixpoint list_eqb {A} (eqb : A -> A -> bool) (a b : list A) : bool :=
  match a, b with
  | [], [] => true
  | x :: a', y :: b' => eqb x y && list_eqb eqb a' b'
  | _, _ => false
  end.
Definition opt_eqb {A} (eqb : A -> A -> bool) (a b : option A) : bool :=
  match a, b with None, None => true | Some x, Some y => eqb x y | _, _ => false end.

(* handlers of the comparison instance: the payload says whether the real handler succeeded *)
Definition k_handler (h : string) (v : ver) (p : bool) (st : unit) : unit * outcome :=
  (st, if p then OutOk else OutErr 1).
Definition k_items (l : list (Z * bool)) : list (item bool) := map (fun p => Build_item (fst p) (snd p)) l.

Inductive vcase :=
| CFloat (a b : ver) (lt eq : bool)
| CVerCmp (a b : ver) (eq lt gt le ge : bool)
| CAccept (v : ver) (accepted : bool)
| CRequest (v : ver) (hdr_reject : option Z) (stop : bool) (items : list (Z * bool))
           (raised : option Z) (hdr : option ver) (classes : list gclass)
| CSession (v : ver) (known : bool) (hdr_reject : option Z) (stop : bool) (items : list (Z * bool))
           (hdr : ver) (err : option Z) (classes : list gclass)
| CSessionF (v : ver) (known : bool) (fault : session_fault) (hdr_reject : option Z) (stop : bool) (items : list (Z * bool))
            (hdr : ver) (err : option Z) (classes : list gclass)
| CQuery (v : ver) (ops : list Z)
| CDiscover (client answer : list ver)
| CTemplate (v : ver) (items : list tmpl_item) (observed : tmpl_result)
| CLocate (v : ver) (names : list string) (refused : option string)
| CReported (v : ver) (held requested observed : list string)
| CFieldWrite (cls : string) (v : ver) (set_tags emitted : list string) (raised : bool)
| CFieldRead (cls : string) (v : ver) (tag : string) (accepted : bool)
| CWireField (cls : string) (v : ver) (tag : string) (processed : bool)
| CStruct (meth cls : string) (v : ver) (refused : bool)
| CAttrTag (tag : string) (v : ver) (is_attr : bool).

Definition str_mem (s : string) (l : list string) : bool := existsb (String.eqb s) l.

Definition check_vcase (c : vcase) : bool :=
  match c with
  | CFloat a b lt eq => Bool.eqb (float_ltb a b) lt && Bool.eqb (float_eqb a b) eq
  | CVerCmp a b eq lt gt le ge =>
      Bool.eqb (ver_eqb a b) eq && Bool.eqb (ver_ltb a b) lt && Bool.eqb (ver_gtb a b) gt
      && Bool.eqb (ver_leb a b) le && Bool.eqb (ver_geb a b) ge
  | CAccept v acc => Bool.eqb (version_accepted v) acc
  | CRequest v hr stop items raised hdr classes =>
      let req := Build_request v hr stop (k_items items) in
      let '(_, r, _) := process_request unit bool k_handler req tt in
      match r with
      | RespRaised reason => opt_eqb Z.eqb raised (Some reason) && opt_eqb ver_eqb hdr None
                             && list_eqb gclass_eqb classes []
      | RespMessage hv os =>
          opt_eqb Z.eqb raised None && opt_eqb ver_eqb hdr (Some hv)
          && list_eqb gclass_eqb classes (map (fun p => class_of (gate v (fst p))) (firstn (List.length os) items))
      end
  | CSession v known hr stop items hdr err classes =>
      let req := Build_request v hr stop (k_items items) in
      let '(_, r, _) := session_handle unit bool k_handler (fun _ => known) req tt in
      match r with
      | WireError hv reason => ver_eqb hdr hv && opt_eqb Z.eqb err (Some reason) && list_eqb gclass_eqb classes []
      | WireMessage hv os =>
          ver_eqb hdr hv && opt_eqb Z.eqb err None
          && list_eqb gclass_eqb classes (map (fun p => class_of (gate v (fst p))) (firstn (List.length os) items))
      end
  | CSessionF v known f hr stop items hdr err classes =>
      let req := Build_request v hr stop (k_items items) in
      let '(_, r, _) := session_answer unit bool k_handler (fun _ => known) f req tt in
      match r with
      | WireError hv reason => ver_eqb hdr hv && opt_eqb Z.eqb err (Some reason) && list_eqb gclass_eqb classes []
      | WireMessage hv os =>
          ver_eqb hdr hv && opt_eqb Z.eqb err None
          && list_eqb gclass_eqb classes (map (fun p => class_of (gate v (fst p))) (firstn (List.length os) items))
      end
  | CQuery v ops => list_eqb Z.eqb (query_ops v) ops
  | CDiscover client answer => list_eqb ver_eqb (discover client) answer
  | CTemplate v items observed =>
      match template_walk v [] items, observed with
      | TOk, TOk | TOther, TOther => true
      | TUnsupported a, TUnsupported b => String.eqb a b
      | _, _ => false
      end
  | CLocate v names refused => opt_eqb String.eqb (locate_filter_gate v names) refused
  | CReported v held requested observed =>
      list_eqb String.eqb
        (reported v (fun n => str_mem n held) (match requested with [] => all_attr_names | _ => requested end))
        observed
  | CFieldWrite cls v set_tags emitted raised =>
      if class_refused cls v then raised
      else negb raised && list_eqb String.eqb (filter (fun t => tag_allowed cls v t) set_tags) emitted
  | CFieldRead cls v tag accepted => Bool.eqb (negb (class_refused cls v) && tag_allowed cls v tag) accepted
  | CWireField cls v tag processed => Bool.eqb (wire_processed cls v tag) processed
  | CStruct meth cls v refused => Bool.eqb (class_refused_in meth cls v) refused
  | CAttrTag tag v is_attr => Bool.eqb (attr_tag_allowed tag v) is_attr
  end.

(* the same case with every observed component replaced by the model's answer: printed next to the observed case when a
   correspondence disagrees, so that a replay shows both sides *)
Definition model_view (c : vcase) : vcase :=
  match c with
  | CFloat a b _ _ => CFloat a b (float_ltb a b) (float_eqb a b)
  | CVerCmp a b _ _ _ _ _ => CVerCmp a b (ver_eqb a b) (ver_ltb a b) (ver_gtb a b) (ver_leb a b) (ver_geb a b)
  | CAccept v _ => CAccept v (version_accepted v)
  | CRequest v hr stop items _ _ _ =>
      let req := Build_request v hr stop (k_items items) in
      let '(_, r, _) := process_request unit bool k_handler req tt in
      match r with
      | RespRaised reason => CRequest v hr stop items (Some reason) None []
      | RespMessage hv os => CRequest v hr stop items None (Some hv)
                               (map (fun p => class_of (gate v (fst p))) (firstn (List.length os) items))
      end
  | CSession v known hr stop items _ _ _ =>
      let req := Build_request v hr stop (k_items items) in
      let '(_, r, _) := session_handle unit bool k_handler (fun _ => known) req tt in
      match r with
      | WireError hv reason => CSession v known hr stop items hv (Some reason) []
      | WireMessage hv os => CSession v known hr stop items hv None
                               (map (fun p => class_of (gate v (fst p))) (firstn (List.length os) items))
      end
  | CSessionF v known f hr stop items _ _ _ =>
      let req := Build_request v hr stop (k_items items) in
      let '(_, r, _) := session_answer unit bool k_handler (fun _ => known) f req tt in
      match r with
      | WireError hv reason => CSessionF v known f hr stop items hv (Some reason) []
      | WireMessage hv os => CSessionF v known f hr stop items hv None
                               (map (fun p => class_of (gate v (fst p))) (firstn (List.length os) items))
      end
  | CQuery v _ => CQuery v (query_ops v)
  | CDiscover client _ => CDiscover client (discover client)
  | CTemplate v items _ => CTemplate v items (template_walk v [] items)
  | CLocate v names _ => CLocate v names (locate_filter_gate v names)
  | CReported v held requested _ =>
      CReported v held requested
        (reported v (fun n => str_mem n held) (match requested with [] => all_attr_names | _ => requested end))
  | CFieldWrite cls v set_tags _ _ =>
      if class_refused cls v then CFieldWrite cls v set_tags [] true
      else CFieldWrite cls v set_tags (filter (fun t => tag_allowed cls v t) set_tags) false
  | CFieldRead cls v tag _ => CFieldRead cls v tag (negb (class_refused cls v) && tag_allowed cls v tag)
  | CWireField cls v tag _ => CWireField cls v tag (wire_processed cls v tag)
  | CStruct meth cls v _ => CStruct meth cls v (class_refused_in meth cls v)
  | CAttrTag tag v _ => CAttrTag tag v (attr_tag_allowed tag v)
  end.
