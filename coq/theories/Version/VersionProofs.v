(* C16 - lemmas about the version model (Version.v, Fields.v) and its agreement with the specification tables (Spec.v). *)
From Coq Require Import ZArith List String Bool Lia ZifyBool Sorting.Sorted.
From PKGen Require Import Enums AttrRuleTable Versions VersionFields.
From PK Require Import Version.Version Version.Fields Version.Spec.
Import ListNotations.
Open Scope Z_scope.

(* ------------------------------------------------------------------ ProtocolVersion order *)
Lemma ver_eqb_eq : forall a b : ver, ver_eqb a b = true <-> a = b.
Proof.
  intros [a1 a2] [b1 b2]; unfold ver_eqb; simpl; split.
  - intro H; apply andb_true_iff in H; destruct H as [H1 H2].
    apply Z.eqb_eq in H1; apply Z.eqb_eq in H2; subst; reflexivity.
  - intro H; inversion H; subst; rewrite !Z.eqb_refl; reflexivity.
Qed.

Lemma ver_eqb_refl : forall a, ver_eqb a a = true.
Proof. intro a; apply ver_eqb_eq; reflexivity. Qed.

Lemma ver_ltb_spec : forall a b : ver,
  ver_ltb a b = true <-> (fst a < fst b \/ (fst a = fst b /\ snd a < snd b)).
Proof.
  intros [a1 a2] [b1 b2]; unfold ver_ltb; simpl.
  destruct (a1 <? b1) eqn:E1; [split; [intros _; left; lia | reflexivity]|].
  destruct (b1 <? a1) eqn:E2; [split; [discriminate | lia]|].
  split; intro H; [right; lia | lia].
Qed.

Lemma ver_geb_negb_ltb : forall a b, ver_geb a b = negb (ver_ltb a b).
Proof.
  intros [a1 a2] [b1 b2]; unfold ver_geb, ver_gtb, ver_eqb, ver_ltb; simpl.
  destruct (a1 <? b1) eqn:E1; destruct (b1 <? a1) eqn:E2; destruct (a1 =? b1) eqn:E3;
    destruct (a2 <? b2) eqn:E4; destruct (a2 =? b2) eqn:E5; simpl; try reflexivity; lia.
Qed.

Lemma ver_leb_spec : forall a b, ver_leb a b = true <-> (a = b \/ ver_ltb a b = true).
Proof.
  intros a b; unfold ver_leb; rewrite orb_true_iff, ver_eqb_eq; tauto.
Qed.

Lemma ver_leb_geb : forall a b, ver_leb a b = ver_geb b a.
Proof.
  intros [a1 a2] [b1 b2]; unfold ver_leb, ver_geb, ver_gtb, ver_eqb, ver_ltb; simpl.
  destruct (a1 <? b1) eqn:E1; destruct (b1 <? a1) eqn:E2; destruct (a1 =? b1) eqn:E3; destruct (b1 =? a1) eqn:E3';
    destruct (a2 <? b2) eqn:E4; destruct (b2 <? a2) eqn:E4'; destruct (a2 =? b2) eqn:E5; destruct (b2 =? a2) eqn:E5';
    simpl; try reflexivity; lia.
Qed.

Lemma ver_gtb_ltb : forall a b, ver_gtb a b = ver_ltb b a.
Proof.
  intros [a1 a2] [b1 b2]; unfold ver_gtb, ver_eqb, ver_ltb; simpl.
  destruct (a1 <? b1) eqn:E1; destruct (b1 <? a1) eqn:E2; destruct (a1 =? b1) eqn:E3;
    destruct (a2 <? b2) eqn:E4; destruct (b2 <? a2) eqn:E4'; destruct (a2 =? b2) eqn:E5;
    simpl; try reflexivity; lia.
Qed.

Lemma ver_ltb_trans : forall a b c, ver_ltb a b = true -> ver_ltb b c = true -> ver_ltb a c = true.
Proof. intros a b c H1 H2; apply ver_ltb_spec in H1; apply ver_ltb_spec in H2; apply ver_ltb_spec; lia. Qed.

Lemma ver_mem_In : forall v l, ver_mem v l = true <-> In v l.
Proof.
  intros v l; unfold ver_mem; rewrite existsb_exists; split.
  - intros [x [Hin He]]; apply ver_eqb_eq in He; subst; assumption.
  - intro H; exists v; split; [assumption | apply ver_eqb_refl].
Qed.

(* ------------------------------------------------------------------ float(str(v)) against the version order *)
Lemma digits_aux_small : forall f n, n < 10 -> digits_aux (S f) n = 1%nat.
Proof. intros f n H; simpl; destruct (n <? 10) eqn:E; [reflexivity | lia]. Qed.
Lemma digits_small : forall n, n < 10 -> digits n = 1%nat.
Proof. intros n H; unfold digits; apply (digits_aux_small 29 n H). Qed.

(* with one-digit minors, as in every KMIP version published so far, comparing the floats is comparing the versions *)
Lemma float_ltb_one_digit : forall a b : ver, snd a < 10 -> snd b < 10 -> 0 <= snd a -> 0 <= snd b ->
  float_ltb a b = ver_ltb a b.
Proof.
  intros [a1 a2] [b1 b2]; simpl; intros Ha Hb Ha0 Hb0.
  unfold float_ltb, dec_cmp, dec_scaled; simpl fst; simpl snd.
  rewrite (digits_small a2 Ha), (digits_small b2 Hb); simpl Nat.max; simpl Nat.sub.
  unfold pow10; simpl Z.of_nat; change (10 ^ 1) with 10; change (10 ^ 0) with 1.
  unfold ver_ltb; simpl fst; simpl snd.
  destruct (Z.compare_spec (a1 * 10 + a2 * 1) (b1 * 10 + b2 * 1)) as [H|H|H];
    destruct (a1 <? b1) eqn:E1; destruct (b1 <? a1) eqn:E2; destruct (a2 <? b2) eqn:E3; try reflexivity; lia.
Qed.

Lemma float_eqb_one_digit : forall a b : ver, snd a < 10 -> snd b < 10 -> 0 <= snd a -> 0 <= snd b ->
  float_eqb a b = ver_eqb a b.
Proof.
  intros [a1 a2] [b1 b2]; simpl; intros Ha Hb Ha0 Hb0.
  unfold float_eqb, dec_cmp, dec_scaled; simpl fst; simpl snd.
  rewrite (digits_small a2 Ha), (digits_small b2 Hb); simpl Nat.max; simpl Nat.sub.
  unfold pow10; simpl Z.of_nat; change (10 ^ 1) with 10; change (10 ^ 0) with 1.
  unfold ver_eqb; simpl fst; simpl snd.
  destruct (Z.compare_spec (a1 * 10 + a2 * 1) (b1 * 10 + b2 * 1)) as [H|H|H];
    destruct (a1 =? b1) eqn:E1; destruct (a2 =? b2) eqn:E2; simpl; try reflexivity; lia.
Qed.

(* ... and no longer with a two-digit minor: 1.10 reads as 1.1 *)
Lemma float_cmp_wrong_beyond_minor_9 : float_ltb (1, 10) (1, 2) = true /\ ver_ltb (1, 10) (1, 2) = false.
Proof. split; vm_compute; reflexivity. Qed.

Definition one_digit (v : ver) : bool := (0 <=? snd v) && (snd v <? 10).
Lemma supported_one_digit : forallb one_digit supported_versions = true.
Proof. vm_compute; reflexivity. Qed.
Lemma decorator_args_one_digit : forallb (fun e => forallb one_digit (snd e)) handler_min_versions = true.
Proof. vm_compute; reflexivity. Qed.

(* ------------------------------------------------------------------ acceptance *)
Lemma version_accepted_iff : forall v, version_accepted v = true <-> In v supported_versions.
Proof. intro v; unfold version_accepted; destruct version_check; apply ver_mem_In. Qed.

Lemma version_accepted_false : forall v, ~ In v supported_versions -> version_accepted v = false.
Proof.
  intros v H; destruct (version_accepted v) eqn:E; [|reflexivity].
  apply version_accepted_iff in E; contradiction.
Qed.

(* ------------------------------------------------------------------ association lists *)
Lemma assoc_z_In : forall A (l : list (Z * A)) k a, assoc_z k l = Some a -> In (k, a) l.
Proof.
  induction l as [|[k' a'] l IH]; simpl; intros k a H; [discriminate|].
  destruct (k =? k') eqn:E.
  - inversion H; subst; apply Z.eqb_eq in E; subst; left; reflexivity.
  - right; apply IH; assumption.
Qed.

Lemma forallb_In : forall A (f : A -> bool) l x, forallb f l = true -> In x l -> f x = true.
Proof. intros A f l x H Hin; rewrite forallb_forall in H; apply H; assumption. Qed.

(* ------------------------------------------------------------------ the gate *)
(* finite obligation over the regenerated tables: for every supported version and every dispatched handler the
   decorator stack refuses exactly when the version is below the largest decorator argument *)
Definition gate_table_ok : bool :=
  forallb (fun v => forallb (fun e =>
      Bool.eqb (existsb (decorator_refuses v) (handler_args (snd e)))
               (ver_ltb v (fold_right ver_max (0, 0) (handler_args (snd e))))) dispatch_table) supported_versions.
Lemma gate_table_ok_true : gate_table_ok = true.
Proof. vm_compute; reflexivity. Qed.

Lemma gate_char : forall v op, In v supported_versions ->
  match lookup_handler op with
  | None => gate v op = GateUnknownOp /\ op_min_version op = None
  | Some h => exists mv, op_min_version op = Some mv /\
                         gate v op = if ver_ltb v mv then GateVersion h else GateRun h
  end.
Proof.
  intros v op Hv; unfold gate, op_min_version.
  destruct (lookup_handler op) as [h|] eqn:E; [|split; reflexivity].
  exists (fold_right ver_max (0, 0) (handler_args h)); split; [reflexivity|].
  pose proof gate_table_ok_true as G; unfold gate_table_ok in G.
  pose proof (forallb_In _ _ _ v G Hv) as G1; cbv beta in G1; cbn [fst snd] in G1.
  unfold lookup_handler in E; apply assoc_z_In in E.
  pose proof (forallb_In _ _ _ (op, h) G1 E) as G2; cbv beta in G2; cbn [fst snd] in G2.
  apply eqb_prop in G2; rewrite G2; reflexivity.
Qed.

Lemma op_gated_gate : forall v op mv, In v supported_versions ->
  op_min_version op = Some mv -> ver_ltb v mv = true -> gate_runs v op = false.
Proof.
  intros v op mv Hv Hm Hlt; pose proof (gate_char v op Hv) as G; unfold gate_runs.
  destruct (lookup_handler op) as [h|].
  - destruct G as [mv' [Hm' Hg]]; rewrite Hm in Hm'; inversion Hm'; subst mv'.
    rewrite Hg, Hlt; reflexivity.
  - destruct G as [Hg _]; rewrite Hg; reflexivity.
Qed.

Lemma op_available_gate : forall v op mv, In v supported_versions ->
  op_min_version op = Some mv -> ver_leb mv v = true -> gate_runs v op = true.
Proof.
  intros v op mv Hv Hm Hle; pose proof (gate_char v op Hv) as G; unfold gate_runs.
  destruct (lookup_handler op) as [h|].
  - destruct G as [mv' [Hm' Hg]]; rewrite Hm in Hm'; inversion Hm'; subst mv'.
    rewrite Hg. rewrite ver_leb_geb, ver_geb_negb_ltb in Hle.
    destruct (ver_ltb v mv); [discriminate | reflexivity].
  - destruct G as [_ Hn]; rewrite Hn in Hm; discriminate.
Qed.

Lemma undispatched_gate : forall v op, op_min_version op = None -> gate v op = GateUnknownOp.
Proof.
  intros v op H; unfold op_min_version in H; unfold gate.
  destruct (lookup_handler op); [discriminate | reflexivity].
Qed.

(* ------------------------------------------------------------------ the engine *)
Section EngineProofs.
  Variable St : Type.
  Variable Payload : Type.
  Variable handler : string -> ver -> Payload -> St -> St * outcome.
  Variable known : ver -> bool.

  Notation run_item := (run_item St Payload handler).
  Notation run_batch := (run_batch St Payload handler).
  Notation process_request := (process_request St Payload handler).
  Notation session_handle := (session_handle St Payload handler known).

  Lemma unsupported_refused_engine : forall (req : request Payload) st,
    ~ In (rq_version req) supported_versions ->
    process_request req st = (st, RespRaised R_INVALID_MESSAGE, []).
  Proof.
    intros req st H; unfold Version.process_request; rewrite (version_accepted_false _ H); reflexivity.
  Qed.

  Lemma unsupported_refused_session : forall (req : request Payload) st,
    ~ In (rq_version req) supported_versions ->
    exists hv, session_handle req st = (st, WireError hv R_INVALID_MESSAGE, []).
  Proof.
    intros req st H; unfold Version.session_handle.
    pose proof (unsupported_refused_engine req st H) as E.
    destruct (rq_items req) as [|i r].
    - rewrite E; eexists; reflexivity.
    - destruct (known (rq_version req)).
      + rewrite E; eexists; reflexivity.
      + eexists; reflexivity.
  Qed.

  Lemma version_echo_engine : forall (req : request Payload) st,
    In (rq_version req) supported_versions -> rq_header_reject req = None ->
    exists st' os tr, process_request req st = (st', RespMessage (rq_version req) os, tr).
  Proof.
    intros req st H Hr; unfold Version.process_request.
    apply version_accepted_iff in H; rewrite H, Hr.
    destruct (Version.run_batch St Payload handler (rq_stop req) (rq_version req) (rq_items req) st) as [[st' os] tr].
    exists st', os, tr; unfold response_version; destruct response_version_source; reflexivity.
  Qed.

  (* every answer that reaches a client who spoke a version the codec knows carries that version, error or not *)
  Lemma version_echo_session : forall (req : request Payload) st,
    known (rq_version req) = true ->
    match snd (fst (session_handle req st)) with
    | WireError hv _ => hv = rq_version req
    | WireMessage hv _ => hv = rq_version req
    end.
  Proof.
    intros req st Hk; unfold Version.session_handle.
    assert (E : forall r, match r with RespRaised _ => True | RespMessage hv _ => hv = rq_version req end ->
              forall st' tr,
              match snd (fst (match r with
                              | RespRaised reason => (st', WireError (rq_version req) reason, tr)
                              | RespMessage hv os => (st', WireMessage hv os, tr) end : St * wire_response * list string)) with
              | WireError hv _ => hv = rq_version req | WireMessage hv _ => hv = rq_version req end).
    { intros r Hr st' tr; destruct r; simpl; [reflexivity | assumption]. }
    assert (P : match snd (fst (process_request req st)) with RespRaised _ => True | RespMessage hv _ => hv = rq_version req end).
    { unfold Version.process_request.
      destruct (version_accepted (rq_version req)); [|simpl; exact I].
      destruct (rq_header_reject req); [simpl; exact I|].
      destruct (Version.run_batch St Payload handler (rq_stop req) (rq_version req) (rq_items req) st) as [[s o] t]; simpl.
      unfold response_version; destruct response_version_source; reflexivity. }
    destruct (rq_items req) as [|i r0].
    - destruct (process_request req st) as [[s r] t]; simpl in P; apply E; assumption.
    - rewrite Hk. destruct (process_request req st) as [[s r] t]; simpl in P; apply E; assumption.
  Qed.

  Notation session_answer := (session_answer St Payload handler known).

  Definition wire_version (r : wire_response) : ver :=
    match r with WireError hv _ => hv | WireMessage hv _ => hv end.

  Lemma version_echo_session' : forall (req : request Payload) st, known (rq_version req) = true ->
    wire_version (snd (fst (session_handle req st))) = rq_version req.
  Proof.
    intros req st Hk; pose proof (version_echo_session req st Hk) as H.
    destruct (snd (fst (session_handle req st))); simpl; assumption.
  Qed.

  (* every answer path after decoding carries the request's version *)
  Lemma version_echo_all_paths : forall f (req : request Payload) st, known (rq_version req) = true ->
    wire_version (snd (fst (session_answer f req st))) = rq_version req.
  Proof.
    intros f req st Hk; unfold Version.session_answer.
    assert (D : request_decodes Payload known req = true).
    { unfold request_decodes; destruct (rq_items req); [reflexivity | assumption]. }
    rewrite D; simpl.
    pose proof (version_echo_session' req st Hk) as E.
    destruct f; try reflexivity.
    - exact E.
    - destruct (session_handle req st) as [[s r] t]; simpl in *; destruct r; simpl in *; assumption.
    - destruct (session_handle req st) as [[s r] t]; simpl in *; destruct r; simpl in *; [assumption | reflexivity].
  Qed.

  (* one item: a refused operation leaves the state alone and enters no handler *)
  Lemma run_item_refused : forall v it st, gate_runs v (it_op it) = false ->
    run_item v it st = (st, OutErr R_OPERATION_NOT_SUPPORTED, []).
  Proof.
    intros v it st H; unfold Version.run_item, gate_runs in *.
    destruct (gate v (it_op it)); [discriminate | reflexivity | reflexivity].
  Qed.

  (* all batches, by induction: every handler entered was let through by the gate for an operation of the batch *)
  Lemma run_batch_trace_gated : forall stop v items st h,
    In h (snd (run_batch stop v items st)) ->
    exists it, In it items /\ gate v (it_op it) = GateRun h.
  Proof.
    intros stop v items; induction items as [|it rest IH]; intros st h Hin; simpl in Hin; [contradiction|].
    destruct (Version.run_item St Payload handler v it st) as [[st1 o] tr] eqn:E1.
    assert (Htr : forall x, In x tr -> gate v (it_op it) = GateRun x).
    { intros x Hx; unfold Version.run_item in E1.
      destruct (gate v (it_op it)) as [h0| |] eqn:G.
      - destruct (handler h0 v (it_payload it) st) as [s' o']; inversion E1; subst; destruct Hx as [Hx|[]]; subst; reflexivity.
      - inversion E1; subst; contradiction.
      - inversion E1; subst; contradiction. }
    destruct (outcome_failed o && stop).
    - simpl in Hin; exists it; split; [left; reflexivity | apply Htr; assumption].
    - destruct (Version.run_batch St Payload handler stop v rest st1) as [[st2 os] tr2] eqn:E2; simpl in Hin.
      apply in_app_or in Hin; destruct Hin as [Hin|Hin].
      + exists it; split; [left; reflexivity | apply Htr; assumption].
      + specialize (IH st1 h); rewrite E2 in IH; simpl in IH; destruct (IH Hin) as [it' [Hi Hg]].
        exists it'; split; [right; assumption | assumption].
  Qed.

  Lemma process_request_trace_gated : forall (req : request Payload) st h,
    In h (snd (process_request req st)) ->
    In (rq_version req) supported_versions /\
    exists it, In it (rq_items req) /\ gate (rq_version req) (it_op it) = GateRun h.
  Proof.
    intros req st h Hin; unfold Version.process_request in Hin.
    destruct (version_accepted (rq_version req)) eqn:A; [|simpl in Hin; contradiction].
    split; [apply version_accepted_iff; assumption|].
    destruct (rq_header_reject req); [simpl in Hin; contradiction|].
    pose proof (run_batch_trace_gated (rq_stop req) (rq_version req) (rq_items req) st h) as L.
    destruct (Version.run_batch St Payload handler (rq_stop req) (rq_version req) (rq_items req) st) as [[s o] t].
    simpl in *; apply L; assumption.
  Qed.
End EngineProofs.

(* ------------------------------------------------------------------ Query *)
Definition query_table_ok : bool :=
  forallb (fun v => forallb (fun op =>
      gate_runs v op
      && match op_min_version op with Some mv => ver_leb mv v | None => false end
      && match spec_op_min op with Some s => ver_leb s v | None => false end) (query_ops v)) supported_versions.
Lemma query_table_ok_true : query_table_ok = true.
Proof. vm_compute; reflexivity. Qed.

Lemma query_ops_available_lemma : forall v op, In v supported_versions -> In op (query_ops v) ->
  (exists h, gate v op = GateRun h) /\
  (exists mv, op_min_version op = Some mv /\ ver_leb mv v = true) /\
  (exists s, spec_op_min op = Some s /\ ver_leb s v = true).
Proof.
  intros v op Hv Hop; pose proof query_table_ok_true as Q; unfold query_table_ok in Q.
  pose proof (forallb_In _ _ _ v Q Hv) as Q1; cbv beta in Q1; cbn [fst snd] in Q1.
  pose proof (forallb_In _ _ _ op Q1 Hop) as Q2; cbv beta in Q2; cbn [fst snd] in Q2.
  apply andb_true_iff in Q2; destruct Q2 as [Q2 Q3]; apply andb_true_iff in Q2; destruct Q2 as [Q2 Q4].
  split; [|split].
  - unfold gate_runs in Q2; destruct (gate v op) as [h| |]; try discriminate; exists h; reflexivity.
  - destruct (op_min_version op) as [mv|]; [exists mv; split; [reflexivity | assumption] | discriminate].
  - destruct (spec_op_min op) as [s|]; [exists s; split; [reflexivity | assumption] | discriminate].
Qed.

(* ------------------------------------------------------------------ DiscoverVersions *)
Definition newer (a b : ver) : Prop := ver_ltb b a = true.

Lemma supported_sorted : StronglySorted newer supported_versions.
Proof.
  unfold supported_versions.
  repeat (apply SSorted_cons; [|repeat (apply Forall_cons; [vm_compute; reflexivity|]); apply Forall_nil]).
  apply SSorted_nil.
Qed.

Lemma filter_sorted : forall A (R : A -> A -> Prop) f l, StronglySorted R l -> StronglySorted R (filter f l).
Proof.
  intros A R f l H; induction H as [|a l Hs IH Hf]; simpl; [constructor|].
  destruct (f a); [|assumption].
  constructor; [assumption|].
  rewrite Forall_forall in *; intros x Hx; apply filter_In in Hx; apply Hf; tauto.
Qed.

Lemma discover_sound : forall client,
  (forall v, In v (discover client) -> In v supported_versions /\ version_accepted v = true
                                       /\ (client <> [] -> In v client))
  /\ StronglySorted newer (discover client)
  /\ (forall v, In v supported_versions -> (client = [] \/ In v client) -> In v (discover client)).
Proof.
  intro client; unfold discover; destruct client as [|c cs].
  - split; [|split].
    + intros v H; split; [assumption|split; [apply version_accepted_iff; assumption | intro N; contradiction N; reflexivity]].
    + apply supported_sorted.
    + intros v H _; assumption.
  - split; [|split].
    + intros v H; apply filter_In in H; destruct H as [H1 H2]; split; [assumption|split].
      * apply version_accepted_iff; assumption.
      * intros _; apply ver_mem_In; assumption.
    + apply filter_sorted; apply supported_sorted.
    + intros v H [N|Hc]; [discriminate|]; apply filter_In; split; [assumption | apply ver_mem_In; assumption].
Qed.

(* ------------------------------------------------------------------ attributes *)
Lemma attr_supported_spec : forall v n, attr_supported v n = true <->
  exists r, find_rule n = Some r /\ ver_leb (ar_version_added r) v = true.
Proof.
  intros v n; unfold attr_supported; destruct (find_rule n) as [r|]; split.
  - intro H; exists r; split; [reflexivity | rewrite ver_leb_geb; assumption].
  - intros [r' [E H]]; inversion E; subst; rewrite <- ver_leb_geb; assumption.
  - discriminate.
  - intros [r' [E _]]; discriminate.
Qed.

Lemma attr_later_unsupported : forall v n r, find_rule n = Some r -> ver_ltb v (ar_version_added r) = true ->
  attr_supported v n = false.
Proof. intros v n r E H; unfold attr_supported; rewrite E, ver_geb_negb_ltb, H; reflexivity. Qed.

Lemma attr_unknown_unsupported : forall v n, find_rule n = None -> attr_supported v n = false.
Proof. intros v n E; unfold attr_supported; rewrite E; reflexivity. Qed.

Lemma template_gate_refuses : forall v names n, In n names -> attr_supported v n = false ->
  exists m, template_gate v names = Some m /\ In m names /\ attr_supported v m = false.
Proof.
  intros v names n Hin Hn; unfold template_gate.
  destruct (find (fun n0 => negb (attr_supported v n0)) names) as [m|] eqn:F.
  - apply find_some in F; destruct F as [F1 F2]; exists m; split; [reflexivity|split; [assumption|]].
    destruct (attr_supported v m); [discriminate | reflexivity].
  - pose proof (find_none _ _ F n Hin) as N; simpl in N; rewrite Hn in N; discriminate.
Qed.

Lemma template_gate_passes : forall v names, template_gate v names = None ->
  forall n, In n names -> attr_supported v n = true.
Proof.
  intros v names F n Hin; unfold template_gate in F.
  pose proof (find_none _ _ F n Hin) as N; simpl in N; destruct (attr_supported v n); [reflexivity | discriminate].
Qed.

(* the walk of _process_template_attribute: any attribute the version does not have makes the template fail (with the
   version error, or with the multiplicity error of an earlier position); a version error names an attribute of the
   template that the version does not have, namely the first one; success means every attribute is supported *)
Lemma template_walk_rejects : forall v items seen n, In n (map ti_name items) -> attr_supported v n = false ->
  template_walk v seen items <> TOk.
Proof.
  intros v items; induction items as [|[[m hi] nz] rest IH]; intros seen n Hin Hn; simpl in Hin; [contradiction|].
  simpl. destruct (attr_supported v m) eqn:Sm; simpl; [|discriminate].
  assert (Hrest : In n (map ti_name rest)).
  { destruct Hin as [E|H]; [|assumption]. unfold ti_name in E; simpl in E; subst m; rewrite Hn in Sm; discriminate. }
  destruct (attr_multivalued m).
  - destruct (negb hi && existsb (String.eqb m) seen); [discriminate | apply (IH _ n Hrest Hn)].
  - destruct (hi && nz); [discriminate|].
    destruct (existsb (String.eqb m) seen); [discriminate | apply (IH _ n Hrest Hn)].
Qed.

Lemma template_walk_unsupported : forall v items seen m, template_walk v seen items = TUnsupported m ->
  In m (map ti_name items) /\ attr_supported v m = false /\ template_gate v (map ti_name items) = Some m.
Proof.
  intros v items; induction items as [|[[n hi] nz] rest IH]; intros seen m H; simpl in H; [discriminate|].
  unfold template_gate; simpl; unfold ti_name at 1 3; simpl.
  destruct (attr_supported v n) eqn:Sn; simpl in *.
  - assert (R : exists seen', template_walk v seen' rest = TUnsupported m).
    { destruct (attr_multivalued n).
      - destruct (negb hi && existsb (String.eqb n) seen); [discriminate | eexists; exact H].
      - destruct (hi && nz); [discriminate|]. destruct (existsb (String.eqb n) seen); [discriminate | eexists; exact H]. }
    destruct R as [seen' R]; destruct (IH _ _ R) as [A [B C]].
    split; [right; assumption|split; [assumption | exact C]].
  - inversion H; subst; split; [left; reflexivity|split; [assumption | reflexivity]].
Qed.

Lemma template_walk_ok : forall v items seen, template_walk v seen items = TOk ->
  forall n, In n (map ti_name items) -> attr_supported v n = true.
Proof.
  intros v items seen H n Hin; destruct (attr_supported v n) eqn:S; [reflexivity|].
  exfalso; exact (template_walk_rejects v items seen n Hin S H).
Qed.

Lemma reported_sound : forall v held cands n, In n (reported v held cands) ->
  In n cands /\ held n = true /\
  exists r, find_rule n = Some r /\ ver_leb (ar_version_added r) v = true /\
            (forall d, ar_version_deprecated r = Some d -> ver_ltb v d = true).
Proof.
  intros v held cands n H; unfold reported in H; apply filter_In in H; destruct H as [H1 H2].
  apply andb_true_iff in H2; destruct H2 as [H2 H3]; apply andb_true_iff in H2; destruct H2 as [H2 H4].
  split; [assumption|split; [assumption|]].
  apply attr_supported_spec in H2; destruct H2 as [r [E Hle]]; exists r; split; [assumption|split; [assumption|]].
  intros d Hd; unfold attr_deprecated in H4; rewrite E, Hd in H4.
  rewrite ver_geb_negb_ltb in H4; destruct (ver_ltb v d); [reflexivity | discriminate].
Qed.

(* the gated names of the table today, for the non-vacuity examples *)
Lemma sensitive_gated : attr_supported (1, 3) "Sensitive" = false /\ attr_supported (1, 4) "Sensitive" = true
  /\ attr_deprecated (2, 0) "Operation Policy Name" = true /\ attr_deprecated (1, 4) "Operation Policy Name" = false.
Proof. repeat split; vm_compute; reflexivity. Qed.

