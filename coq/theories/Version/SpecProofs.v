(* C16 - the regenerated tables agree with the hand-written specification tables (Spec.v); consequences. *)
From Coq Require Import ZArith List String Bool Lia ZifyBool.
From PKGen Require Import Enums AttrRuleTable Versions VersionFields.
From PK Require Import Version.Version Version.Fields Version.Spec Version.VersionProofs.
Import ListNotations.
Open Scope Z_scope.

(* ------------------------------------------------------------------ agreement with the specification tables *)
Lemma tables_agree : ops_agree_with_spec = true /\ supported_agree_with_spec = true /\ attrs_agree_with_spec = true
  /\ attr_tags_agree_with_spec = true /\ fields_agree_with_spec = true /\ classes_agree_with_spec = true
  /\ read_write_symmetric = true /\ spec_covers_intro_guards = true.
Proof. repeat split; vm_compute; reflexivity. Qed.

(* an operation is never let through under a version older than the specification that introduced it *)
Definition spec_gate_ok : bool :=
  forallb (fun v => forallb (fun e =>
      match spec_op_min (fst e) with
      | Some s => implb (ver_ltb v s) (negb (gate_runs v (fst e)))
      | None => false
      end) dispatch_table) supported_versions.
Lemma spec_gate_ok_true : spec_gate_ok = true.
Proof. vm_compute; reflexivity. Qed.

Lemma op_gated_spec : forall v op s, In v supported_versions -> spec_op_min op = Some s -> ver_ltb v s = true ->
  gate_runs v op = false.
Proof.
  intros v op s Hv Hs Hlt; unfold gate_runs, gate.
  destruct (lookup_handler op) as [h|] eqn:E; [|reflexivity].
  pose proof spec_gate_ok_true as G; unfold spec_gate_ok in G.
  pose proof (forallb_In _ _ _ v G Hv) as G1; cbv beta in G1; cbn [fst snd] in G1.
  unfold lookup_handler in E; pose proof (assoc_z_In _ _ _ _ E) as E'.
  pose proof (forallb_In _ _ _ (op, h) G1 E') as G2; cbv beta in G2; cbn [fst snd] in G2.
  rewrite Hs, Hlt in G2; simpl in G2; unfold gate_runs, gate, lookup_handler in G2; rewrite E in G2.
  destruct (existsb (decorator_refuses v) (handler_args h)); [reflexivity | discriminate].
Qed.

Lemma attr_gated_spec : forall v n, ver_ltb v (spec_attr_min n) = true -> attr_supported v n = false.
Proof.
  intros v n H; unfold attr_supported; destruct (find_rule n) as [r|] eqn:E; [|reflexivity].
  destruct tables_agree as [_ [_ [A _]]]; unfold attrs_agree_with_spec in A.
  unfold find_rule in E; apply find_some in E; destruct E as [E1 E2]; apply String.eqb_eq in E2.
  pose proof (forallb_In _ _ _ r A E1) as A1; cbv beta in A1; cbn [fst snd] in A1; apply andb_true_iff in A1; destruct A1 as [A1 _].
  apply ver_eqb_eq in A1; rewrite A1, E2, ver_geb_negb_ltb, H; reflexivity.
Qed.

(* fields: the specification tables are finite, every row is checked by computation *)
Ltac each_row H := simpl in H; repeat (destruct H as [H|H]; [inversion H; subst; try clear H|]); try (exfalso; exact H).

Lemma field_gated_lemma : forall cls t v0 v, In (cls, t, v0) SpecFieldVersions -> In v kmip_versions ->
  tag_allowed cls v t = ver_leb v0 v.
Proof.
  intros cls t v0 v Hin Hv.
  each_row Hv; each_row Hin; vm_compute; reflexivity.
Qed.

Lemma class_gated_lemma : forall cls v0, In (cls, v0) SpecClassVersions ->
  class_min_version "read" cls = Some v0 /\ class_min_version "write" cls = Some v0.
Proof.
  intros cls v0 Hin; each_row Hin; split; vm_compute; reflexivity.
Qed.

Lemma class_refused_lemma : forall cls v0 v, In (cls, v0) SpecClassVersions -> In v kmip_versions ->
  class_refused_in "read" cls v = ver_ltb v v0 /\ class_refused_in "write" cls v = ver_ltb v v0.
Proof.
  intros cls v0 v Hin Hv; each_row Hv; each_row Hin; split; vm_compute; reflexivity.
Qed.

(* all requests, all batches: a handler is only ever entered for an operation of the batch whose introducing
   specification version is at most the version of the request, which is a supported one *)
Lemma handlers_entered_respect_spec : forall St Payload handler (req : request Payload) (st : St) h,
  In h (snd (process_request St Payload handler req st)) ->
  In (rq_version req) supported_versions /\
  exists it, In it (rq_items req) /\ lookup_handler (it_op it) = Some h /\
             forall s, spec_op_min (it_op it) = Some s -> ver_leb s (rq_version req) = true.
Proof.
  intros St Payload handler req st h Hin.
  destruct (process_request_trace_gated St Payload handler req st h Hin) as [Hv [it [Hi Hg]]].
  split; [assumption|]; exists it; split; [assumption|split].
  - unfold gate in Hg; destruct (lookup_handler (it_op it)) as [h'|]; [|discriminate].
    destruct (existsb (decorator_refuses (rq_version req)) (handler_args h')); [discriminate|].
    inversion Hg; reflexivity.
  - intros s Hs; rewrite ver_leb_geb, ver_geb_negb_ltb.
    destruct (ver_ltb (rq_version req) s) eqn:L; [|reflexivity].
    pose proof (op_gated_spec _ _ _ Hv Hs L) as N; unfold gate_runs in N; rewrite Hg in N; discriminate.
Qed.

(* Locate filters: _process_locate refuses a filter attribute the request's version does not have (fix 1a2a215) *)
Lemma locate_checked : locate_filter_checked = true.
Proof. vm_compute; reflexivity. Qed.

Lemma locate_filter_gated : forall v names n,
  In n names -> ver_ltb v (spec_attr_min n) = true ->
  exists m, locate_filter_gate v names = Some m /\ In m names /\ attr_supported v m = false.
Proof.
  intros v names n Hin Hlt; unfold locate_filter_gate; rewrite locate_checked.
  exact (template_gate_refuses v names n Hin (attr_gated_spec v n Hlt)).
Qed.

Lemma locate_filter_passes : forall v names, locate_filter_gate v names = None ->
  forall n, In n names -> attr_supported v n = true.
Proof.
  intros v names H; unfold locate_filter_gate in H; rewrite locate_checked in H; exact (template_gate_passes v names H).
Qed.

(* later fields inside a request on the wire: refused unless the class's reader is a tolerant one *)
Lemma wire_field_refused : forall cls t v0 v, In (cls, t, v0) SpecFieldVersions -> In v kmip_versions ->
  str_in cls tolerant_readers = false -> ver_ltb v v0 = true -> wire_processed cls v t = false.
Proof.
  intros cls t v0 v Hrow Hv Htol Hlt; unfold wire_processed.
  rewrite (field_gated_lemma cls t v0 v Hrow Hv), Htol, ver_leb_geb, ver_geb_negb_ltb, Hlt.
  simpl; apply andb_false_r.
Qed.

(* no reader of a class with version blocks leaves items unread (computed on the regenerated table) *)
Lemma no_tolerant_readers : tolerant_readers = [].
Proof. vm_compute; reflexivity. Qed.

Lemma wire_field_refused_if_none_tolerant : tolerant_readers = [] ->
  forall cls t v0 v, In (cls, t, v0) SpecFieldVersions -> In v kmip_versions -> ver_ltb v v0 = true ->
    wire_processed cls v t = false.
Proof.
  intros E cls t v0 v Hrow Hv Hlt; apply (wire_field_refused cls t v0 v Hrow Hv); [|assumption].
  rewrite E; reflexivity.
Qed.

Lemma wire_field_gated : forall cls t v0 v, In (cls, t, v0) SpecFieldVersions -> In v kmip_versions -> ver_ltb v v0 = true ->
  wire_processed cls v t = false.
Proof. exact (wire_field_refused_if_none_tolerant no_tolerant_readers). Qed.
