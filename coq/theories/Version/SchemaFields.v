(* C16 - field gating over the byte-level codec schemas (PK.Codec.Schema over PKGen.Schemas, the C01/C02 translator).

   The schema interpreter works, for a structure of class k under version v, on `filter (active v)` of the class's
   item list only (in `wr`, `rd`, and `wfv`): an item whose guard [i_lo, i_hi) excludes v is neither emitted nor
   looked for.  What remains to be shown is that the guards extracted from the source are the right ones: every
   occurrence, in any class of Schemas.E, of a tag of the hand-written SpecFieldVersions table carries i_lo = the
   version the specification introduced the field in (versions are 10*major+minor there). *)
From Coq Require Import ZArith List String Bool Lia.
From PKGen Require Import Enums Versions VersionFields.
From PK Require Import Version.Version Version.Fields Version.Spec Version.VersionProofs.
From PK Require Import Codec.Schema.
From PKGen Require Import Schemas.
Import ListNotations.
Open Scope Z_scope.

Definition v10 (v : ver) : Z := 10 * fst v + snd v.
Definition tag_value (n : string) : option Z := assoc_s n E_Tags.

Definition items_of (k : cls) : list item := (c_rd k ++ c_wr k)%list.

(* all (class, i_lo, i_hi) occurrences of a tag value among the items of the schemas *)
Definition occurrences (t : Z) : list (string * Z * Z) :=
  flat_map (fun k => map (fun it => (c_name k, i_lo it, i_hi it)) (filter (fun it => i_tag it =? t) (items_of k)))
           (e_classes Schemas.E).

(* occurrences known NOT to be guarded in the code as it is (known finding C16-attestation-credential-ungated): the
   Attestation credential is a KMIP 1.2 structure, AttestationCredential.read/write have no version test *)
Definition SchemaKnownUngated : list (string * string) := [("AttestationCredential", "ATTESTATION_TYPE")].
Definition known_ungated (c t : string) : bool :=
  existsb (fun e => String.eqb (fst e) c && String.eqb (snd e) t) SchemaKnownUngated.

Definition item_guard_ok (v0 : ver) (it : item) : bool := (i_lo it =? v10 v0) && (v10 (2, 0) <? i_hi it).

(* every occurrence of a listed tag, outside the known-ungated ones, is guarded by exactly the specification's version
   and never closes again *)
Definition schema_rows_ok : bool :=
  forallb (fun e => let '(_, t, v0) := e in
                    match tag_value t with
                    | None => false
                    | Some z => forallb (fun k => forallb (fun it => negb (i_tag it =? z) || known_ungated (c_name k) t || item_guard_ok v0 it)
                                                          (items_of k)) (e_classes Schemas.E)
                    end) SpecFieldVersions.

(* the same without the exception: false today *)
Definition schema_rows_ok_full : bool :=
  forallb (fun e => let '(_, t, v0) := e in
                    match tag_value t with
                    | None => false
                    | Some z => forallb (fun k => forallb (fun it => negb (i_tag it =? z) || item_guard_ok v0 it)
                                                          (items_of k)) (e_classes Schemas.E)
                    end) SpecFieldVersions.

(* each exception is real: the class is in the schemas and holds an unguarded item with that tag *)
Definition known_ungated_real : bool :=
  forallb (fun e => match tag_value (snd e), find_cls Schemas.E (fst e) with
                    | Some z, Some k => existsb (fun it => (i_tag it =? z) && (i_lo it =? 0)) (items_of k)
                    | _, _ => false
                    end) SchemaKnownUngated.

(* rows of the table that do occur in the schemas today *)
Definition schema_covered_rows : list (string * string) :=
  map (fun e => (fst (fst e), snd (fst e)))
      (filter (fun e => match tag_value (snd (fst e)) with
                        | Some z => existsb (fun k => String.eqb (c_name k) (fst (fst e)) && existsb (fun it => i_tag it =? z) (items_of k))
                                            (e_classes Schemas.E)
                        | None => false
                        end) SpecFieldVersions).

(* class-level refusals recorded by the schema translator: every row whose class the specification table knows must carry
   exactly the specification's version; rows of classes the table does not know are listed (reported in the evidence) *)
Definition schema_class_minver_ok : bool :=
  forallb (fun e => match assoc_s (fst e) SpecClassVersions with
                    | Some v0 => snd e =? v10 v0
                    | None => true
                    end) class_minver
  && forallb (fun e => existsb (fun r => String.eqb (fst r) (fst e)) class_minver
                       || negb (existsb (fun k => String.eqb (c_name k) (fst e)) (e_classes Schemas.E))) SpecClassVersions.
Definition schema_class_minver_uncovered : list (string * Z) :=
  filter (fun e => match assoc_s (fst e) SpecClassVersions with Some _ => false | None => true end) class_minver.

Lemma schema_rows_ok_true : schema_rows_ok = true.
Proof. vm_compute; reflexivity. Qed.
Lemma schema_rows_ok_full_false : schema_rows_ok_full = false.
Proof. vm_compute; reflexivity. Qed.
Lemma known_ungated_real_true : known_ungated_real = true.
Proof. vm_compute; reflexivity. Qed.
Lemma schema_class_minver_ok_true : schema_class_minver_ok = true.
Proof. vm_compute; reflexivity. Qed.

Lemma active_filter : forall v items it, In it (filter (active v) items) -> In it items /\ i_lo it <= v < i_hi it.
Proof.
  intros v items it H; apply filter_In in H; destruct H as [H1 H2]; split; [assumption|].
  unfold active in H2; apply andb_true_iff in H2; destruct H2 as [A B].
  apply Z.leb_le in A; apply Z.ltb_lt in B; lia.
Qed.

Lemma spec_rows_respected : forall c t v0 z k it,
  In (c, t, v0) SpecFieldVersions -> tag_value t = Some z -> In k (e_classes Schemas.E) ->
  known_ungated (c_name k) t = false ->
  In it (items_of k) -> i_tag it = z -> i_lo it = v10 v0 /\ v10 (2, 0) < i_hi it.
Proof.
  intros c t v0 z k it Hrow Ht Hk Hex Hit Htag.
  pose proof schema_rows_ok_true as R; unfold schema_rows_ok in R.
  pose proof (forallb_In _ _ _ (c, t, v0) R Hrow) as R1; cbv beta iota in R1; rewrite Ht in R1.
  pose proof (forallb_In _ _ _ k R1 Hk) as R2; cbv beta in R2.
  pose proof (forallb_In _ _ _ it R2 Hit) as R3; cbv beta in R3.
  rewrite Htag, Z.eqb_refl, Hex in R3; simpl in R3; unfold item_guard_ok in R3.
  apply andb_true_iff in R3; destruct R3 as [A B]; apply Z.eqb_eq in A; apply Z.ltb_lt in B; split; assumption.
Qed.

(* the statement over the schemas: under version v the reader and the writer of any class (outside the known-ungated
   occurrence) only consider an item carrying a tag of the specification table when v is at least the version that
   introduced the field *)
Lemma field_gated_schemas_lemma : forall c t v0 z k v it,
  In (c, t, v0) SpecFieldVersions -> tag_value t = Some z -> In k (e_classes Schemas.E) ->
  known_ungated (c_name k) t = false ->
  (In it (filter (active v) (c_rd k)) \/ In it (filter (active v) (c_wr k))) -> i_tag it = z ->
  v10 v0 <= v.
Proof.
  intros c t v0 z k v it Hrow Ht Hk Hex Hit Htag.
  assert (Hin : In it (items_of k) /\ i_lo it <= v < i_hi it).
  { destruct Hit as [H|H]; apply active_filter in H; destruct H as [H1 H2]; (split; [|exact H2]);
      unfold items_of; apply in_or_app; [left | right]; assumption. }
  destruct Hin as [Hin Hact].
  destruct (spec_rows_respected c t v0 z k it Hrow Ht Hk Hex Hin Htag) as [Hlo _]; lia.
Qed.

(* the unrestricted statement is false on the code as it is: witness AttestationCredential / ATTESTATION_TYPE under 1.0 *)
Definition ungated_witness : option (cls * item) :=
  match find_cls Schemas.E "AttestationCredential", tag_value "ATTESTATION_TYPE" with
  | Some k, Some z =>
      match find (fun it => (i_tag it =? z) && active 10 it) (c_rd k) with
      | Some it => Some (k, it)
      | None => None
      end
  | _, _ => None
  end.

Lemma field_gated_schemas_refuted : exists c t v0 z k v it,
  In (c, t, v0) SpecFieldVersions /\ tag_value t = Some z /\ In k (e_classes Schemas.E) /\
  In it (filter (active v) (c_rd k)) /\ i_tag it = z /\ v < v10 v0.
Proof.
  destruct ungated_witness as [[k it]|] eqn:W; [|vm_compute in W; discriminate].
  unfold ungated_witness in W.
  destruct (find_cls Schemas.E "AttestationCredential") as [k'|] eqn:F; [|discriminate].
  destruct (tag_value "ATTESTATION_TYPE") as [z|] eqn:Tz; [|discriminate].
  destruct (find (fun it0 => (i_tag it0 =? z) && active 10 it0) (c_rd k')) as [it'|] eqn:G; [|discriminate].
  inversion W; subst k' it'.
  unfold find_cls in F; apply find_some in F; destruct F as [Hk _].
  apply find_some in G; destruct G as [G1 G2]; apply andb_true_iff in G2; destruct G2 as [G2 G3]; apply Z.eqb_eq in G2.
  exists "QueryResponsePayload"%string, "ATTESTATION_TYPE"%string, (1, 2), z, k, 10, it.
  split; [vm_compute; tauto|]. split; [assumption|]. split; [assumption|].
  split; [apply filter_In; split; assumption|]. split; [assumption | vm_compute; reflexivity].
Qed.

Lemma field_active_from : forall c t v0 z k v it,
  In (c, t, v0) SpecFieldVersions -> tag_value t = Some z -> In k (e_classes Schemas.E) ->
  known_ungated (c_name k) t = false ->
  In it (items_of k) -> i_tag it = z -> v10 v0 <= v <= v10 (2, 0) -> active v it = true.
Proof.
  intros c t v0 z k v it Hrow Ht Hk Hex Hit Htag Hv.
  destruct (spec_rows_respected c t v0 z k it Hrow Ht Hk Hex Hit Htag) as [Hlo Hhi].
  unfold active; apply andb_true_iff; split; [apply Z.leb_le | apply Z.ltb_lt]; lia.
Qed.

Lemma schema_rows_nonvacuous : Nat.leb 8 (List.length schema_covered_rows) = true.
Proof. vm_compute; reflexivity. Qed.
