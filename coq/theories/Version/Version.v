(* C16 - protocol version handling of the server engine: executable model.

   Mirrors (as the code is today)
     kmip/core/messages/contents.py   ProtocolVersion.__eq__/__lt__/__gt__/__le__/__ge__/__str__
     kmip/services/server/engine.py   _set_protocol_version, _kmip_version_supported, _process_operation,
                                      _process_batch (gating aspect), process_request / _build_response (version aspect),
                                      _process_query (QUERY_OPERATIONS), _process_discover_versions,
                                      _process_template_attribute (is_attribute_supported gate),
                                      _get_attributes_from_managed_object (supported / deprecated filter)
     kmip/services/server/policy.py   is_attribute_supported, is_attribute_deprecated
     kmip/services/server/session.py  _handle_message_loop (which version the answer carries)
   over the tables regenerated from the source on every run (PKGen.Versions, PKGen.AttrRuleTable). *)
From Coq Require Import ZArith List String Bool.
From PKGen Require Import Enums AttrRuleTable Versions.
Import ListNotations.
Open Scope Z_scope.

Definition ver := (Z * Z)%type.

(* ---------------------------------------------------------------- ProtocolVersion comparisons (contents.py) *)
Definition ver_eqb (a b : ver) : bool := (fst a =? fst b) && (snd a =? snd b).
(* __lt__: major <, else major > -> False, else minor < *)
Definition ver_ltb (a b : ver) : bool :=
  if fst a <? fst b then true else if fst b <? fst a then false else snd a <? snd b.
(* __gt__: not (== or <) ; __le__: == or < ; __ge__: == or > *)
Definition ver_gtb (a b : ver) : bool := negb (ver_eqb a b || ver_ltb a b).
Definition ver_leb (a b : ver) : bool := ver_eqb a b || ver_ltb a b.
Definition ver_geb (a b : ver) : bool := ver_eqb a b || ver_gtb a b.

Definition ver_mem (v : ver) (l : list ver) : bool := existsb (ver_eqb v) l.      (* `v in list`, via __eq__ *)

(* ---------------------------------------------------------------- float(str(version))
   str(v) = "<major>.<minor>"; float() of that text is the decimal number major + minor / 10^digits(minor).
   Two such decimals are compared exactly here; Python compares their nearest doubles.  The conversion to double
   is monotone and two distinct decimals with at most 15 significant digits have distinct doubles, so both
   comparisons agree whenever major and minor are non-negative and digits(major) + digits(minor) <= 15
   (correspondence K checks a grid, including 1.10 against 1.2).  Only the six supported versions ever reach the
   comparison, because _set_protocol_version refuses everything else first. *)
Fixpoint digits_aux (fuel : nat) (n : Z) : nat :=
  match fuel with
  | O => 1%nat
  | S f => if n <? 10 then 1%nat else S (digits_aux f (n / 10))
  end.
Definition digits (n : Z) : nat := digits_aux 30 n.
Definition pow10 (k : nat) : Z := Z.pow 10 (Z.of_nat k).
(* value of "<major>.<minor>" scaled by 10^k, for k >= digits minor *)
Definition dec_scaled (v : ver) (k : nat) : Z := fst v * pow10 k + snd v * pow10 (k - digits (snd v)).
Definition dec_cmp (a b : ver) : comparison :=
  let k := Nat.max (digits (snd a)) (digits (snd b)) in Z.compare (dec_scaled a k) (dec_scaled b k).
Definition float_ltb (a b : ver) : bool := match dec_cmp a b with Lt => true | _ => false end.
Definition float_eqb (a b : ver) : bool := match dec_cmp a b with Eq => true | _ => false end.

(* the test of the decorator: True means "raise OperationNotSupported" *)
Definition decorator_refuses (v arg : ver) : bool :=
  match decorator_cmp with
  | DcFloatLt => float_ltb v arg
  | DcFloatLe => float_ltb v arg || float_eqb v arg
  | DcFloatGt => float_ltb arg v
  | DcFloatGe => float_ltb arg v || float_eqb v arg
  | DcFloatEq => float_eqb v arg
  | DcFloatNe => negb (float_eqb v arg)
  end.

(* ---------------------------------------------------------------- _set_protocol_version *)
Definition version_accepted (v : ver) : bool :=
  match version_check with VcMember => ver_mem v supported_versions end.

(* ---------------------------------------------------------------- _process_operation + decorators *)
Fixpoint assoc_z {A} (k : Z) (l : list (Z * A)) : option A :=
  match l with [] => None | (k', a) :: r => if k =? k' then Some a else assoc_z k r end.
Fixpoint assoc_s {A} (k : string) (l : list (string * A)) : option A :=
  match l with [] => None | (k', a) :: r => if String.eqb k k' then Some a else assoc_s k r end.

Definition lookup_handler (op : Z) : option string := assoc_z op dispatch_table.
Definition handler_args (h : string) : list ver := match assoc_s h handler_min_versions with Some l => l | None => [] end.

Inductive gate_result := GateRun (h : string) | GateVersion (h : string) | GateUnknownOp.

Definition gate (v : ver) (op : Z) : gate_result :=
  match lookup_handler op with
  | None => GateUnknownOp                                  (* "... operation is not supported by the server." *)
  | Some h => if existsb (decorator_refuses v) (handler_args h)
              then GateVersion h                           (* "... is not supported by KMIP x.y" *)
              else GateRun h
  end.

Definition gate_runs (v : ver) (op : Z) : bool := match gate v op with GateRun _ => true | _ => false end.

(* the version in which an operation becomes available according to the decorators: the largest argument *)
Definition ver_max (a b : ver) : ver := if ver_ltb a b then b else a.
Definition op_min_version (op : Z) : option ver :=
  match lookup_handler op with
  | None => None
  | Some h => Some (fold_right ver_max (0, 0) (handler_args h))
  end.

(* ---------------------------------------------------------------- Query / DiscoverVersions *)
Definition query_ops (v : ver) : list Z :=
  (query_base_ops ++ flat_map (fun e => if ver_geb v (fst e) then snd e else []) query_ext_ops)%list.

Definition discover (client : list ver) : list ver :=
  match client with
  | [] => supported_versions
  | _ => filter (fun s => ver_mem s client) supported_versions
  end.

(* ---------------------------------------------------------------- attributes (policy.py over AttrRuleTable) *)
Definition attr_supported (v : ver) (name : string) : bool :=
  match find_rule name with
  | None => false
  | Some r => ver_geb v (ar_version_added r)
  end.

(* is_attribute_deprecated dereferences the rule set: only meaningful for names of the table *)
Definition attr_deprecated (v : ver) (name : string) : bool :=
  match find_rule name with
  | None => false
  | Some r => match ar_version_deprecated r with Some d => ver_geb v d | None => false end
  end.

(* _process_template_attribute: first name that fails the gate -> InvalidField "The <name> attribute is unsupported." *)
Definition template_gate (v : ver) (names : list string) : option string :=
  find (fun n => negb (attr_supported v n)) names.

(* _process_template_attribute as it is written: ONE walk over the attributes in order; at each position first the
   version gate, then the multiplicity rules (multivalued: a repeated name needs an index; single-valued: no non-zero
   index, no second instance).  The first position that fails decides the error, so a duplicate in front of a later
   attribute is reported as the duplicate.  An item: (name, carries an index, that index is non-zero). *)
Definition attr_multivalued (name : string) : bool :=
  match find_rule name with Some r => ar_multivalued r | None => false end.

Inductive tmpl_result := TOk | TUnsupported (name : string) | TOther.

Definition tmpl_item := (string * bool * bool)%type.
Definition ti_name (i : tmpl_item) : string := fst (fst i).

Fixpoint template_walk (v : ver) (seen : list string) (items : list tmpl_item) : tmpl_result :=
  match items with
  | [] => TOk
  | (n, has_ix, ix_nz) :: rest =>
      if negb (attr_supported v n) then TUnsupported n
      else if attr_multivalued n then
        if negb has_ix && existsb (String.eqb n) seen then TOther        (* "Attribute index missing from multivalued attribute." *)
        else template_walk v (n :: seen) rest
      else
        if has_ix && ix_nz then TOther                                    (* "Non-zero attribute index found ..." *)
        else if existsb (String.eqb n) seen then TOther                  (* "Cannot set multiple instances of the ... attribute." *)
        else template_walk v (n :: seen) rest
  end.

(* Locate: the attribute filters of the request.  Whether _process_locate puts the names through
   is_attribute_supported before filtering (and refuses with InvalidField) is read from the source
   (PKGen.Versions.locate_filter_checked; true since fix 1a2a215). *)
Definition site_checks_supported (h : string) : bool :=
  match find (fun e => String.eqb (fst (fst e)) h) attr_support_sites with
  | Some e => snd (fst e)
  | None => false
  end.
Definition locate_filter_gate (v : ver) (names : list string) : option string :=
  if locate_filter_checked then template_gate v names else None.

(* _get_attributes_from_managed_object: of the candidate names (requested, or every name of the table) those that
   pass `supported` and `not deprecated`; applicability and "has a value" are per-object facts supplied as `held` *)
Definition reported (v : ver) (held : string -> bool) (candidates : list string) : list string :=
  filter (fun n => attr_supported v n && negb (attr_deprecated v n) && held n) candidates.

Definition all_attr_names : list string := map ar_name attr_rule_table.

(* ---------------------------------------------------------------- the engine, version aspect *)
Definition R_INVALID_MESSAGE : Z := 4.
Definition R_OPERATION_NOT_SUPPORTED : Z := 5.
Definition R_RESPONSE_TOO_LARGE : Z := 2.
Definition R_AUTHENTICATION_NOT_SUCCESSFUL : Z := 3.
Definition R_GENERAL_FAILURE : Z := 256.

Inductive outcome := OutOk | OutErr (reason : Z).
Definition outcome_failed (o : outcome) : bool := match o with OutOk => false | OutErr _ => true end.

Section Engine.
  Variable St : Type.
  Variable Payload : Type.
  (* the body of a _process_<operation> method, entered only through the gate *)
  Variable handler : string -> ver -> Payload -> St -> St * outcome.

  Record item := { it_op : Z; it_payload : Payload }.

  (* one batch item: state, outcome, handlers entered *)
  Definition run_item (v : ver) (it : item) (st : St) : St * outcome * list string :=
    match gate v (it_op it) with
    | GateRun h => let (st', o) := handler h v (it_payload it) st in (st', o, [h])
    | GateVersion _ | GateUnknownOp => (st, OutErr R_OPERATION_NOT_SUPPORTED, [])
    end.

  (* _process_batch: in order; after a failed item stop when the option is STOP *)
  Fixpoint run_batch (stop : bool) (v : ver) (items : list item) (st : St) : St * list outcome * list string :=
    match items with
    | [] => (st, [], [])
    | it :: rest =>
        let '(st1, o, tr) := run_item v it st in
        if outcome_failed o && stop then (st1, [o], tr)
        else let '(st2, os, tr2) := run_batch stop v rest st1 in (st2, o :: os, (tr ++ tr2)%list)
    end.

  Record request := { rq_version : ver; rq_header_reject : option Z; rq_stop : bool; rq_items : list item }.

  Inductive response :=
  | RespRaised (reason : Z)                         (* process_request raised a KmipError: nothing was processed *)
  | RespMessage (header_version : ver) (results : list outcome).

  Definition response_version (req : request) : ver :=
    match response_version_source with RsRequestHeader => rq_version req | RsEngineVersion => rq_version req end.

  (* process_request: the version is examined before anything else; rq_header_reject stands for the later
     request-level refusals (time stamp, asynchronous indicator, UNDO, missing batch item ids) *)
  Definition process_request (req : request) (st : St) : St * response * list string :=
    if version_accepted (rq_version req) then
      match rq_header_reject req with
      | Some r => (st, RespRaised r, [])
      | None => let '(st', os, tr) := run_batch (rq_stop req) (rq_version req) (rq_items req) st in
                (st', RespMessage (response_version req) os, tr)
      end
    else (st, RespRaised R_INVALID_MESSAGE, []).

  (* session.py: what the client receives.  A request whose version is no member of enums.KMIPVersion cannot be
     decoded when it carries at least one batch item (the per-item version tests compare None with a KMIPVersion),
     and the session answers InvalidMessage in a header of version 1.0 without calling the engine. *)
  Variable known_kmip_version : ver -> bool.

  Inductive wire_response :=
  | WireError (header_version : ver) (reason : Z)
  | WireMessage (header_version : ver) (results : list outcome).

  Definition session_handle (req : request) (st : St) : St * wire_response * list string :=
    match rq_items req with
    | _ :: _ =>
        if known_kmip_version (rq_version req) then
          let '(st', r, tr) := process_request req st in
          match r with
          | RespRaised reason => (st', WireError (rq_version req) reason, tr)
          | RespMessage hv os => (st', WireMessage hv os, tr)
          end
        else (st, WireError (1, 0) R_INVALID_MESSAGE, [])
    | [] =>
        let '(st', r, tr) := process_request req st in
        match r with
        | RespRaised reason => (st', WireError (rq_version req) reason, tr)
        | RespMessage hv os => (st', WireMessage hv os, tr)
        end
    end.
  (* every answer path of _handle_message_loop once the request has been decoded: authentication of the client fails;
     the engine fails unexpectedly; the response cannot be encoded; the encoded response exceeds the Maximum Response
     Size.  (The two paths in front of the decoding - no usable certificate, undecodable bytes - answer in a 1.0 header:
     there is no request version yet.) *)
  Inductive session_fault := SfNone | SfAuthFails | SfEngineCrash | SfUnencodable | SfTooLarge.

  Definition request_decodes (req : request) : bool :=
    match rq_items req with [] => true | _ :: _ => known_kmip_version (rq_version req) end.

  Definition session_answer (f : session_fault) (req : request) (st : St) : St * wire_response * list string :=
    if negb (request_decodes req) then (st, WireError (1, 0) R_INVALID_MESSAGE, [])
    else match f with
         | SfNone => session_handle req st
         | SfAuthFails => (st, WireError (rq_version req) R_AUTHENTICATION_NOT_SUCCESSFUL, [])
         | SfEngineCrash => (st, WireError (rq_version req) R_GENERAL_FAILURE, [])
         | SfUnencodable =>
             let '(st', r, tr) := session_handle req st in
             match r with
             | WireMessage hv _ => (st', WireError hv R_GENERAL_FAILURE, tr)         (* built from the response's own header *)
             | WireError _ _ => (st', r, tr)
             end
         | SfTooLarge =>
             let '(st', r, tr) := session_handle req st in
             match r with
             | WireMessage _ _ => (st', WireError (rq_version req) R_RESPONSE_TOO_LARGE, tr)   (* built from the request's header *)
             | WireError _ _ => (st', r, tr)
             end
         end.
End Engine.

Arguments Build_item {Payload}.
Arguments it_op {Payload}.
Arguments it_payload {Payload}.
Arguments Build_request {Payload}.
Arguments rq_version {Payload}.
Arguments rq_header_reject {Payload}.
Arguments rq_stop {Payload}.
Arguments rq_items {Payload}.
