(* C16 - tables written by hand from the OASIS KMIP specifications 1.0, 1.1, 1.2, 1.3, 1.4 and 2.0 (NOT from PyKMIP):
   in which version an operation, an attribute, a message field first appears.  The regenerated tables of
   PKGen.Versions / AttrRuleTable / VersionFields are compared against them, which is what makes a consistent
   ("symmetric") edit of a version bound in the source visible. *)
From Coq Require Import ZArith List String Bool.
From PKGen Require Import Enums AttrRuleTable Versions VersionFields.
From PK Require Import Version.Version Version.Fields.
Import ListNotations.
Open Scope Z_scope.
Open Scope string_scope.

(* ------------------------------------------------------------------ operations (enums.Operation values) *)
Definition range_z (a n : nat) : list Z := map Z.of_nat (seq a n).
Definition SpecMinVersions : list (Z * ver) :=
  map (fun o => (o, (1, 0))) (range_z 1 28)              (* Create .. Put *)
  ++ [(29, (1, 1)); (30, (1, 1))]                         (* ReKeyKeyPair, DiscoverVersions *)
  ++ map (fun o => (o, (1, 2))) (range_z 31 11)           (* Encrypt, Decrypt, Sign, SignatureVerify, MAC, MACVerify,
                                                             RNGRetrieve, RNGSeed, Hash, CreateSplitKey, JoinSplitKey *)
  ++ [(42, (1, 4)); (43, (1, 4))]                         (* Import, Export *)
  ++ map (fun o => (o, (2, 0))) (range_z 44 10).          (* Log, Login, Logout, DelegatedLogin, AdjustAttribute,
                                                             SetAttribute, SetEndpointRole, PKCS#11, Interop, ReProvision *)
Definition spec_op_min (op : Z) : option ver := assoc_z op SpecMinVersions.

(* the versions of the specification the server claims to implement *)
Definition SpecVersions : list ver := [(1, 0); (1, 1); (1, 2); (1, 3); (1, 4); (2, 0)].

(* ------------------------------------------------------------------ attributes, by name *)
Definition SpecAttrLater : list (string * ver) :=
  [("Certificate Length", (1, 1)); ("X.509 Certificate Identifier", (1, 1)); ("X.509 Certificate Subject", (1, 1));
   ("X.509 Certificate Issuer", (1, 1)); ("Digital Signature Algorithm", (1, 1)); ("Fresh", (1, 1));
   ("Alternative Name", (1, 2)); ("Key Value Present", (1, 2)); ("Key Value Location", (1, 2)); ("Original Creation Date", (1, 2));
   ("Random Number Generator", (1, 3));
   ("PKCS#12 Friendly Name", (1, 4)); ("Description", (1, 4)); ("Comment", (1, 4)); ("Sensitive", (1, 4));
   ("Always Sensitive", (1, 4)); ("Extractable", (1, 4)); ("Never Extractable", (1, 4))].
Definition spec_attr_min (name : string) : ver := match assoc_s name SpecAttrLater with Some v => v | None => (1, 0) end.

(* (deprecated in, no longer present in): a server may stop reporting anywhere in that window, and must at its end *)
Definition SpecAttrDeprecated : list (string * (ver * ver)) :=
  [("Certificate Identifier", ((1, 1), (2, 0))); ("Certificate Subject", ((1, 1), (2, 0)));
   ("Certificate Issuer", ((1, 1), (2, 0))); ("Operation Policy Name", ((1, 3), (2, 0)))].

(* ------------------------------------------------------------------ attributes, by tag (enums.is_attribute) *)
Definition SpecAttrTags10 : list string :=
  ["UNIQUE_IDENTIFIER"; "NAME"; "OBJECT_TYPE"; "CRYPTOGRAPHIC_ALGORITHM"; "CRYPTOGRAPHIC_LENGTH"; "CRYPTOGRAPHIC_PARAMETERS";
   "CRYPTOGRAPHIC_DOMAIN_PARAMETERS"; "CERTIFICATE_TYPE"; "CERTIFICATE_IDENTIFIER"; "CERTIFICATE_SUBJECT"; "CERTIFICATE_ISSUER";
   "DIGEST"; "OPERATION_POLICY_NAME"; "CRYPTOGRAPHIC_USAGE_MASK"; "LEASE_TIME"; "USAGE_LIMITS"; "STATE"; "INITIAL_DATE";
   "ACTIVATION_DATE"; "PROCESS_START_DATE"; "PROTECT_STOP_DATE"; "DEACTIVATION_DATE"; "DESTROY_DATE";
   "COMPROMISE_OCCURRENCE_DATE"; "COMPROMISE_DATE"; "REVOCATION_REASON"; "ARCHIVE_DATE"; "OBJECT_GROUP"; "LINK";
   "APPLICATION_SPECIFIC_INFORMATION"; "CONTACT_INFORMATION"; "LAST_CHANGE_DATE"; "CUSTOM_ATTRIBUTE"].
Definition SpecAttrTagsLater : list (string * ver) :=
  [("CERTIFICATE_LENGTH", (1, 1)); ("X_509_CERTIFICATE_IDENTIFIER", (1, 1)); ("X_509_CERTIFICATE_SUBJECT", (1, 1));
   ("X_509_CERTIFICATE_ISSUER", (1, 1)); ("DIGITAL_SIGNATURE_ALGORITHM", (1, 1)); ("FRESH", (1, 1));
   ("ALTERNATIVE_NAME", (1, 2)); ("KEY_VALUE_PRESENT", (1, 2)); ("KEY_VALUE_LOCATION", (1, 2)); ("ORIGINAL_CREATION_DATE", (1, 2));
   ("RANDOM_NUMBER_GENERATOR", (1, 3));
   ("PKCS12_FRIENDLY_NAME", (1, 4)); ("DESCRIPTION", (1, 4)); ("COMMENT", (1, 4)); ("SENSITIVE", (1, 4));
   ("ALWAYS_SENSITIVE", (1, 4)); ("EXTRACTABLE", (1, 4)); ("NEVER_EXTRACTABLE", (1, 4))].
(* every other attribute tag is new in 2.0 *)
Definition spec_attr_tag_min (t : string) : ver :=
  if str_in t SpecAttrTags10 then (1, 0)
  else match assoc_s t SpecAttrTagsLater with Some v => v | None => (2, 0) end.
(* no longer attributes of 2.0 (custom attributes became vendor attributes) *)
Definition SpecAttrTagsRemoved20 : list string :=
  ["CERTIFICATE_IDENTIFIER"; "CERTIFICATE_SUBJECT"; "CERTIFICATE_ISSUER"; "OPERATION_POLICY_NAME"; "CUSTOM_ATTRIBUTE"].

(* ------------------------------------------------------------------ message fields: (class, tag, first version) *)
Definition SpecFieldVersions : list (string * string * ver) :=
  [ ("CreateRequestPayload", "ATTRIBUTES", (2, 0)); ("CreateRequestPayload", "PROTECTION_STORAGE_MASKS", (2, 0));
    ("RegisterRequestPayload", "ATTRIBUTES", (2, 0)); ("RegisterRequestPayload", "PROTECTION_STORAGE_MASKS", (2, 0));
    ("DeriveKeyRequestPayload", "ATTRIBUTES", (2, 0));
    ("CreateKeyPairRequestPayload", "COMMON_ATTRIBUTES", (2, 0)); ("CreateKeyPairRequestPayload", "PRIVATE_KEY_ATTRIBUTES", (2, 0));
    ("CreateKeyPairRequestPayload", "PUBLIC_KEY_ATTRIBUTES", (2, 0));
    ("CreateKeyPairRequestPayload", "COMMON_PROTECTION_STORAGE_MASKS", (2, 0));
    ("CreateKeyPairRequestPayload", "PRIVATE_PROTECTION_STORAGE_MASKS", (2, 0));
    ("CreateKeyPairRequestPayload", "PUBLIC_PROTECTION_STORAGE_MASKS", (2, 0));
    ("LocateRequestPayload", "ATTRIBUTES", (2, 0)); ("GetAttributesResponsePayload", "ATTRIBUTES", (2, 0));
    ("GetAttributesRequestPayload", "ATTRIBUTE_REFERENCE", (2, 0)); ("GetAttributeListResponsePayload", "ATTRIBUTE_REFERENCE", (2, 0));
    ("DeleteAttributeRequestPayload", "CURRENT_ATTRIBUTE", (2, 0)); ("DeleteAttributeRequestPayload", "ATTRIBUTE_REFERENCE", (2, 0));
    ("ModifyAttributeRequestPayload", "CURRENT_ATTRIBUTE", (2, 0)); ("ModifyAttributeRequestPayload", "NEW_ATTRIBUTE", (2, 0));
    ("RequestBatchItem", "EPHEMERAL", (2, 0)); ("ResponseHeader", "SERVER_HASHED_PASSWORD", (2, 0));
    ("EncryptRequestPayload", "AUTHENTICATED_ENCRYPTION_ADDITIONAL_DATA", (1, 4));
    ("EncryptResponsePayload", "AUTHENTICATED_ENCRYPTION_TAG", (1, 4));
    ("DecryptRequestPayload", "AUTHENTICATED_ENCRYPTION_ADDITIONAL_DATA", (1, 4));
    ("DecryptRequestPayload", "AUTHENTICATED_ENCRYPTION_TAG", (1, 4));
    ("QueryResponsePayload", "EXTENSION_INFORMATION", (1, 1)); ("QueryResponsePayload", "ATTESTATION_TYPE", (1, 2));
    ("QueryResponsePayload", "RNG_PARAMETERS", (1, 3)); ("QueryResponsePayload", "PROFILE_INFORMATION", (1, 3));
    ("QueryResponsePayload", "VALIDATION_INFORMATION", (1, 3)); ("QueryResponsePayload", "CAPABILITY_INFORMATION", (1, 3));
    ("QueryResponsePayload", "CLIENT_REGISTRATION_METHOD", (1, 3));
    ("QueryResponsePayload", "DEFAULTS_INFORMATION", (2, 0)); ("QueryResponsePayload", "PROTECTION_STORAGE_MASK", (2, 0));
    ("CapabilityInformation", "BATCH_UNDO_CAPABILITY", (1, 4)); ("CapabilityInformation", "BATCH_CONTINUE_CAPABILITY", (1, 4)) ].

(* structures that exist only from a version on: (class, first version) *)
Definition SpecClassVersions : list (string * ver) :=
  [ ("Attributes", (2, 0)); ("CurrentAttribute", (2, 0)); ("NewAttribute", (2, 0)); ("AttributeReference", (2, 0));
    ("ProtectionStorageMasks", (2, 0)); ("ObjectDefaults", (2, 0)); ("DefaultsInformation", (2, 0));
    ("SetAttributeRequestPayload", (2, 0)); ("SetAttributeResponsePayload", (2, 0));
    ("RNGParameters", (1, 3)); ("ProfileInformation", (1, 3)); ("ValidationInformation", (1, 3)); ("CapabilityInformation", (1, 3)) ].

(* ------------------------------------------------------------------ agreement checks (booleans over the regenerated tables) *)
Definition ver_opt_eqb (a b : option ver) : bool :=
  match a, b with Some x, Some y => ver_eqb x y | None, None => true | _, _ => false end.

(* every dispatched operation becomes available exactly in the version that introduced it *)
Definition ops_agree_with_spec : bool :=
  forallb (fun e => match spec_op_min (fst e), op_min_version (fst e) with
                    | Some s, Some m => ver_eqb s m
                    | _, _ => false
                    end) dispatch_table.

Definition supported_agree_with_spec : bool :=
  forallb (fun v => ver_mem v SpecVersions) supported_versions && forallb (fun v => ver_mem v supported_versions) SpecVersions.

Definition attrs_agree_with_spec : bool :=
  forallb (fun r => ver_eqb (ar_version_added r) (spec_attr_min (ar_name r))
                    && match ar_version_deprecated r, assoc_s (ar_name r) SpecAttrDeprecated with
                       | None, None => true
                       | Some d, Some (lo, hi) => ver_leb lo d && ver_leb d hi
                       | _, _ => false
                       end) attr_rule_table.

Definition attr_tags_agree_with_spec : bool :=
  forallb (fun e => let t := fst (fst e) in
                    ver_opt_eqb (attr_tag_min_version t) (Some (spec_attr_tag_min t))
                    && forallb (fun v => Bool.eqb (attr_tag_allowed t v)
                                           (ver_geb v (spec_attr_tag_min t)
                                            && negb (ver_geb v (2, 0) && str_in t SpecAttrTagsRemoved20))) kmip_versions)
          attr_tag_versions
  && forallb (fun t => existsb (fun e => String.eqb (fst (fst e)) t) attr_tag_versions)
       (SpecAttrTags10 ++ map fst SpecAttrTagsLater).

Definition fields_agree_with_spec : bool :=
  forallb (fun e => let '(cls, t, v0) := e in
                    tag_guarded cls t && ver_opt_eqb (tag_min_version cls t) (Some v0)
                    && forallb (fun v => Bool.eqb (tag_allowed cls v t) (ver_geb v v0)) kmip_versions) SpecFieldVersions.

Definition classes_agree_with_spec : bool :=
  forallb (fun e => ver_opt_eqb (class_min_version "read" (fst e)) (Some (snd e))
                    && ver_opt_eqb (class_min_version "write" (fst e)) (Some (snd e))) SpecClassVersions.

(* read and write of every class with version blocks agree on which later versions open a block *)
Fixpoint vers_eqb (a b : list ver) : bool :=
  match a, b with [] , [] => true | x :: a', y :: b' => ver_eqb x y && vers_eqb a' b' | _, _ => false end.
Definition read_write_symmetric : bool :=
  forallb (fun cls => vers_eqb (intro_bounds cls "read") (intro_bounds cls "write")) guarded_classes.

(* every guarded tag that the specification table does not know is reported here, so that a new version block in the
   source shows up as a failed check instead of silently widening the table *)
Definition spec_covers_intro_guards : bool :=
  forallb (fun g => if String.eqb (fg_method g) "read" then
                      forallb (fun t => existsb (fun e => String.eqb (fst (fst e)) (fg_class g) && String.eqb (snd (fst e)) t) SpecFieldVersions)
                        (match fg_cmp g with VGe => fg_then g | VLt => filter (fun t => negb (str_in t (fg_then g))) (fg_else g) end)
                    else true) field_guards.
