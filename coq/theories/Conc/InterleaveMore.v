(* C10 - further proofs about the interleaving model of Interleave.v:
   (1) AT EVERY MOMENT (not only when all clients are done) the responses handed back so far are a prefix of the
       responses of the one-at-a-time execution in entry order, and at most one more response is outstanding;
   (2) under the lock the system never gets stuck: whenever some client still has work, some thread can step, and
       the lock is held only by a thread that is inside process_request (a lock is never left behind). *)
From PK Require Import Conc.Interleave Conc.InterleaveProofs.
From Coq Require Import ZArith List Bool Lia Arith.
Import ListNotations.
Open Scope Z_scope.

Section WithCred.
Variable cred : nat -> Z.

(* ---------------------------------------------------------------- (1) prefix at every reachable state *)
Theorem locked_prefix_serializable : forall sched s0 s,
  initial s0 -> run cred true sched s0 = Some s ->
  exists tail, snd (seq_run cred (hist s) (sh s0, [])) = (log s ++ tail)%list /\ (List.length tail <= 1)%nat /\
               (lock s = None -> tail = [] /\ fst (seq_run cred (hist s) (sh s0, [])) = sh s).
Proof.
  intros sched s0 s I R.
  destruct (run_inv cred sched s0 s0 s (inv_init cred s0 I) R) as [Ho Ha Hm].
  rewrite <- Ha. unfold abs. destruct (lock s) as [t|] eqn:L.
  - destruct (running (thr s t)) as [[[r ms] l]|].
    + destruct (finish ms (sh s, l)) as [sh' l']. exists [(t, r, l_out l')]. simpl.
      split; [reflexivity|]. split; [lia|]. intros X; discriminate X.
    + exists []. simpl. rewrite app_nil_r. split; [reflexivity|]. split; [lia|]. intros X; discriminate X.
  - exists []. simpl. rewrite app_nil_r. split; [reflexivity|]. split; [lia|]. intros _. split; reflexivity.
Qed.

(* ---------------------------------------------------------------- (2) the lock is never left behind *)
Definition held_ok (s : state) : Prop := forall t, lock s = Some t -> running (thr s t) <> None.

Lemma step_held : forall s0 s t s', Inv cred s0 s -> held_ok s -> step cred true t s = Some s' -> held_ok s'.
Proof.
  intros s0 s t s' [Ho _ _] Hh Hs. unfold step in Hs.
  destruct (running (thr s t)) as [[[r ms] l]|] eqn:R.
  - assert (L : lock s = Some t) by (apply Ho; rewrite R; discriminate).
    destruct ms as [|m ms].
    + injection Hs as <-. intros t' Ht'. simpl in Ht'. discriminate.
    + destruct (interp m (sh s, l)) as [sh' l'] eqn:I. injection Hs as <-.
      intros t' Ht'. simpl in Ht'. rewrite L in Ht'. injection Ht' as <-.
      simpl. rewrite upd_same. simpl. discriminate.
  - destruct (queue (thr s t)) as [|r q] eqn:Q; [discriminate|].
    destruct (lock s) as [o|] eqn:L; unfold lock_free in Hs; rewrite L in Hs; simpl in Hs; [discriminate|].
    injection Hs as <-. intros t' Ht'. simpl in Ht'. injection Ht' as <-.
    simpl. rewrite upd_same. simpl. discriminate.
Qed.

Lemma run_held : forall sched s0 s s', Inv cred s0 s -> held_ok s -> run cred true sched s = Some s' -> held_ok s'.
Proof.
  induction sched as [|t tl IH]; intros s0 s s' H Hh R; simpl in R.
  - injection R as <-. exact Hh.
  - destruct (step cred true t s) as [s1|] eqn:S; [|discriminate].
    eapply IH; [| |exact R].
    + eapply step_inv; eassumption.
    + eapply step_held; eassumption.
Qed.

Lemma initial_held : forall s, initial s -> held_ok s.
Proof. intros s [L _] t Ht. congruence. Qed.

Theorem lock_never_left_behind : forall sched s0 s t,
  initial s0 -> run cred true sched s0 = Some s -> lock s = Some t -> running (thr s t) <> None.
Proof.
  intros sched s0 s t I R L.
  exact (run_held sched s0 s0 s (inv_init cred s0 I) (initial_held s0 I) R t L).
Qed.

(* whoever still has something to do can be served: the lock owner can always step, and when nobody is inside
   every client with a queued request can enter *)
Theorem locked_no_deadlock : forall sched s0 s t,
  initial s0 -> run cred true sched s0 = Some s ->
  (queue (thr s t) <> [] \/ running (thr s t) <> None) ->
  exists t', step cred true t' s <> None.
Proof.
  intros sched s0 s t I R W.
  pose proof (run_inv cred sched s0 s0 s (inv_init cred s0 I) R) as [Ho _ _].
  destruct (lock s) as [o|] eqn:L.
  - exists o. pose proof (lock_never_left_behind sched s0 s o I R L) as Ro.
    unfold step. destruct (running (thr s o)) as [[[r ms] l]|]; [|congruence].
    destruct ms as [|m ms]; [discriminate|]. destruct (interp m (sh s, l)). discriminate.
  - exists t. unfold step. destruct (running (thr s t)) as [[[r ms] l]|] eqn:Rt.
    + exfalso. assert (X : None = Some t) by (apply Ho; rewrite Rt; discriminate). discriminate X.
    + destruct W as [W|W]; [|congruence].
      destruct (queue (thr s t)); [congruence|]. unfold lock_free. rewrite L. simpl. discriminate.
Qed.

End WithCred.
