(* C10 - comparator for the correspondence (tie K): the harness runs real threads against the real engine, records
   the order in which requests entered process_request (under the lock) together with every response and the final
   store; Coq decides whether the model's sequential execution in that order says the same, and whether the order
   is a merge of the clients' own sequences. *)
From PK Require Export Conc.Interleave.
From Coq Require Import ZArith List Bool.
Import ListNotations.
Open Scope Z_scope.

Definition cred_of (creds : list Z) (t : nat) : Z := nth t creds 0.

(* rebuild the (client, request) order from the observed sequence of client numbers, consuming each client's queue *)
Fixpoint take_order (tids : list nat) (queues : list (list req)) : option (list (nat * req) * list (list req)) :=
  match tids with
  | [] => Some ([], queues)
  | t :: tl =>
      match nth_error queues t with
      | Some (r :: q) =>
          let queues' := firstn t queues ++ [q] ++ skipn (S t) queues in
          match take_order tl queues' with
          | Some (o, rest) => Some ((t, r) :: o, rest)
          | None => None
          end
      | _ => None
      end
  end.

Definition obs_item := (Z * Z * Z * Z)%type.       (* operation, result code, identifier, extra *)
Definition item_eqb (it : item) (o : obs_item) : bool :=
  match o with (op, code, uid, extra) =>
    (i_op it =? op) && (i_code it =? code) && (i_uid it =? uid) && (i_extra it =? extra) end.

Fixpoint list_eqb {A B} (f : A -> B -> bool) (a : list A) (b : list B) : bool :=
  match a, b with
  | [], [] => true
  | x :: ta, y :: tb => f x y && list_eqb f ta tb
  | _, _ => false
  end.

Definition obj_eqb (o : obj) (p : Z * Z * Z) : bool :=
  match p with (u, w, st) => (o_uid o =? u) && (o_owner o =? w) && (o_state o =? st) end.

Definition store_sub (a : list obj) (b : list (Z * Z * Z)) : bool := forallb (fun o => existsb (obj_eqb o) b) a.

Inductive ccase :=
| CRun (creds : list Z) (sh0 : shared) (queues : list (list req))
       (tids : list nat)                          (* clients in the order they entered process_request *)
       (responses : list (list obs_item))         (* the response each of those requests got *)
       (final_store : list (Z * Z * Z))           (* identifier, owner, state *)
       (final_next : Z).

Definition check_ccase (c : ccase) : bool :=
  match c with
  | CRun creds sh0 queues tids responses final_store final_next =>
      match take_order tids queues with
      | Some (order, rest) =>
          forallb (fun q => match q with [] => true | _ => false end) rest &&       (* every request was served: a full merge *)
          let (shf, lg) := seq_run (cred_of creds) order (sh0, []) in
          list_eqb (fun (e : entry) (o : list obs_item) => list_eqb item_eqb (snd e) o) lg responses &&
          Nat.eqb (length (s_store shf)) (length final_store) && store_sub (s_store shf) final_store &&
          (s_next shf =? final_next)
      | None => false
      end
  end.
