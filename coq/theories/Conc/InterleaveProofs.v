(* C10 - proofs about the interleaving model of Interleave.v. *)
From PK Require Import Conc.Interleave.
From Coq Require Import ZArith List Bool Lia Arith.
Import ListNotations.
Open Scope Z_scope.

Section WithCred.
Variable cred : nat -> Z.

(* ---------------------------------------------------------------- basic facts *)
Lemma upd_same : forall f t v, upd f t v t = v.
Proof. intros. unfold upd. now rewrite Nat.eqb_refl. Qed.

Lemma upd_other : forall f t v x, x <> t -> upd f t v x = f x.
Proof. intros. unfold upd. destruct (Nat.eqb x t) eqn:E; [apply Nat.eqb_eq in E; contradiction|reflexivity]. Qed.

Lemma finish_cons : forall m ms p, finish (m :: ms) p = finish ms (interp m p).
Proof. reflexivity. Qed.

Lemma seq_run_snoc : forall order p tr, seq_run cred (order ++ [tr]) p = exec1 cred (seq_run cred order p) tr.
Proof. intros. unfold seq_run. rewrite fold_left_app. reflexivity. Qed.

(* ---------------------------------------------------------------- the abstraction: let the lock owner finish *)
Definition abs (s : state) : shared * list entry :=
  match lock s with
  | None => (sh s, log s)
  | Some t =>
      match running (thr s t) with
      | Some (r, ms, l) => let (sh', l') := finish ms (sh s, l) in (sh', log s ++ [(t, r, l_out l')])
      | None => (sh s, log s)
      end
  end.

Record Inv (s0 s : state) : Prop := mkInv {
  inv_owner : forall t, running (thr s t) <> None -> lock s = Some t;
  inv_abs : abs s = seq_run cred (hist s) (sh s0, []);
  inv_merge : forall t, proj t (hist s) ++ queue (thr s t) = queue (thr s0 t) }.

Definition initial (s : state) : Prop :=
  lock s = None /\ log s = [] /\ hist s = [] /\ forall t, running (thr s t) = None.

Lemma inv_init : forall s, initial s -> Inv s s.
Proof.
  intros s [L [G [H R]]]. constructor.
  - intros t Ht. exfalso. apply Ht, R.
  - unfold abs. rewrite L, G, H. reflexivity.
  - intros t. rewrite H. reflexivity.
Qed.

Lemma proj_snoc_same : forall t h r, proj t (h ++ [(t, r)]) = proj t h ++ [r].
Proof. intros. unfold proj. rewrite filter_app, map_app. simpl. rewrite Nat.eqb_refl. reflexivity. Qed.

Lemma proj_snoc_other : forall t t' h r, t <> t' -> proj t (h ++ [(t', r)]) = proj t h.
Proof.
  intros. unfold proj. rewrite filter_app, map_app. simpl.
  destruct (Nat.eqb t' t) eqn:E; [apply Nat.eqb_eq in E; congruence|]. simpl. apply app_nil_r.
Qed.

(* the heart of the matter: under the lock every step preserves the invariant *)
Opaque interp finish.
Lemma step_inv : forall s0 s t s', Inv s0 s -> step cred true t s = Some s' -> Inv s0 s'.
Proof.
  intros s0 s t s' [Ho Ha Hm] Hs. unfold step in Hs.
  destruct (running (thr s t)) as [[[r ms] l]|] eqn:R.
  - (* the thread is inside process_request: it owns the lock *)
    assert (L : lock s = Some t) by (apply Ho; rewrite R; discriminate).
    destruct ms as [|m ms].
    + (* release *)
      injection Hs as <-. constructor; simpl.
      * intros t' Ht'. exfalso. destruct (Nat.eq_dec t' t) as [->|Ne].
        -- rewrite upd_same in Ht'. simpl in Ht'. congruence.
        -- rewrite upd_other in Ht' by exact Ne. apply Ho in Ht'. congruence.
      * rewrite <- Ha. unfold abs. simpl. rewrite L, R. reflexivity.
      * intros t'. destruct (Nat.eq_dec t' t) as [->|Ne].
        -- rewrite upd_same. simpl. apply Hm.
        -- rewrite upd_other by exact Ne. apply Hm.
    + (* one micro-operation *)
      destruct (interp m (sh s, l)) as [sh' l'] eqn:I. injection Hs as <-. constructor; simpl.
      * intros t' Ht'. destruct (Nat.eq_dec t' t) as [->|Ne]; [exact L|].
        rewrite upd_other in Ht' by exact Ne. apply Ho, Ht'.
      * rewrite <- Ha. unfold abs. simpl. rewrite L, R, upd_same. simpl.
        rewrite finish_cons, I. reflexivity.
      * intros t'. destruct (Nat.eq_dec t' t) as [->|Ne].
        -- rewrite upd_same. simpl. apply Hm.
        -- rewrite upd_other by exact Ne. apply Hm.
  - (* the thread is outside: it may enter only when the lock is free, and then nobody is inside *)
    destruct (queue (thr s t)) as [|r q] eqn:Q; [discriminate|].
    destruct (lock s) as [o|] eqn:L; unfold lock_free in Hs; rewrite L in Hs; simpl in Hs; [discriminate|].
    injection Hs as <-. constructor; simpl.
    + intros t' Ht'. destruct (Nat.eq_dec t' t) as [->|Ne]; [reflexivity|].
      rewrite upd_other in Ht' by exact Ne. apply Ho in Ht'. congruence.
    + rewrite seq_run_snoc, <- Ha. unfold abs. simpl. rewrite L, upd_same. simpl.
      unfold exec1. simpl. destruct (finish (prog r (cred t)) (sh s, loc0)) as [sh' l']. reflexivity.
    + intros t'. destruct (Nat.eq_dec t' t) as [->|Ne].
      * rewrite upd_same, proj_snoc_same. simpl. rewrite <- app_assoc. simpl. rewrite <- Q. apply Hm.
      * rewrite upd_other by exact Ne. rewrite proj_snoc_other by exact Ne. apply Hm.
Qed.
Transparent interp finish.

Lemma run_inv : forall sched s0 s s', Inv s0 s -> run cred true sched s = Some s' -> Inv s0 s'.
Proof.
  induction sched as [|t tl IH]; intros s0 s s' H R; simpl in R.
  - injection R as <-. exact H.
  - destruct (step cred true t s) as [s1|] eqn:S; [|discriminate].
    eapply IH; [|exact R]. eapply step_inv; eassumption.
Qed.

Definition final (s : state) : Prop := forall t, queue (thr s t) = [] /\ running (thr s t) = None.

(* EVERY schedule: responses and final store are those of serving the requests one at a time, in the order in
   which they entered process_request; that order contains each client's requests in the client's own order *)
Theorem locked_serializable : forall sched s0 s,
  initial s0 -> run cred true sched s0 = Some s -> final s ->
  (sh s, log s) = seq_run cred (hist s) (sh s0, []) /\
  forall t, proj t (hist s) = queue (thr s0 t).
Proof.
  intros sched s0 s I R F.
  destruct (run_inv sched s0 s0 s (inv_init s0 I) R) as [Ho Ha Hm]. split.
  - rewrite <- Ha. unfold abs. destruct (lock s) as [t|]; [|reflexivity].
    destruct (F t) as [_ Rn]. rewrite Rn. reflexivity.
  - intros t. specialize (Hm t). destruct (F t) as [Q _]. rewrite Q, app_nil_r in Hm. exact Hm.
Qed.

(* at any moment (not only at the end) at most the lock owner is inside process_request *)
Theorem mutual_exclusion : forall sched s0 s t1 t2,
  initial s0 -> run cred true sched s0 = Some s ->
  running (thr s t1) <> None -> running (thr s t2) <> None -> t1 = t2.
Proof.
  intros sched s0 s t1 t2 I R H1 H2.
  destruct (run_inv sched s0 s0 s (inv_init s0 I) R) as [Ho _ _].
  apply Ho in H1. apply Ho in H2. congruence.
Qed.

(* ---------------------------------------------------------------- sequential requests read their own identity/version *)
Definition items_ok (c v : Z) (its : list item) : Prop := Forall (fun it => who_ok c it /\ ver_ok v it) its.

Definition loc_ok (c v : Z) (l : local) : Prop :=
  (l_who l = None \/ l_who l = Some c) /\ (l_vseen l = None \/ l_vseen l = Some v) /\ items_ok c v (l_out l).

Definition sh_ok (c v : Z) (s : shared) : Prop := s_ident s = c /\ s_ver s = v /\ s_apol s = v.

Definition body_mop (m : mop) : bool :=
  match m with MReset | MSetVersion _ | MSetIdent _ => false | _ => true end.

Lemma fail_ok : forall c v l x, loc_ok c v l -> loc_ok c v (fail l x).
Proof. intros c v l x [A [B C]]. unfold loc_ok, fail. simpl. auto. Qed.

Lemma interp_body_ok : forall c v m s l s' l',
  body_mop m = true -> sh_ok c v s -> loc_ok c v l -> interp m (s, l) = (s', l') -> sh_ok c v s' /\ loc_ok c v l'.
Proof.
  intros c v m s l s' l' Hb [Si [Sv Sa]] Hl I.
  pose proof Hl as [A [B C]].
  destruct m; simpl in Hb; try discriminate; simpl in I.
  - (* MSetAsync *) injection I as <- <-. split; [repeat split; assumption|exact Hl].
  - (* MOpenSession *) injection I as <- <-. split; [repeat split; assumption|exact Hl].
  - (* MGate *)
    destruct (active l); [|injection I as <- <-; split; [repeat split; assumption|exact Hl]].
    injection I as <- <-. split; [repeat split; assumption|].
    assert (K : loc_ok c v (mkLocal (l_target l) (l_obj l) (l_fail l) (l_new l) (l_who l) (Some (s_ver s)) (l_extra l) (l_stop l) (l_out l))).
    { unfold loc_ok. simpl. rewrite Sv. auto. }
    destruct (s_ver s <? minv); [apply fail_ok|]; exact K.
  - (* MResolve *)
    destruct (active l); injection I as <- <-; (split; [repeat split; assumption|]); [|exact Hl].
    unfold loc_ok. simpl. auto.
  - (* MLoad *)
    destruct (active l); [|injection I as <- <-; split; [repeat split; assumption|exact Hl]].
    destruct (l_target l) as [u|].
    + destruct (find_obj u (s_store s)); injection I as <- <-; (split; [repeat split; assumption|]).
      * unfold loc_ok. simpl. auto.
      * apply fail_ok, Hl.
    + injection I as <- <-. split; [repeat split; assumption|apply fail_ok, Hl].
  - (* MCheck *)
    destruct (active l); [|injection I as <- <-; split; [repeat split; assumption|exact Hl]].
    assert (K : loc_ok c v (mkLocal (l_target l) (l_obj l) (l_fail l) (l_new l) (Some (s_ident s)) (l_vseen l) (l_extra l) (l_stop l) (l_out l))).
    { unfold loc_ok. simpl. rewrite Si. auto. }
    destruct (l_obj l) as [o|]; injection I as <- <-; (split; [repeat split; assumption|]).
    + destruct (allowed (o_owner o) (s_ident s)); [exact K|apply fail_ok, K].
    + apply fail_ok, K.
  - (* MCreate *)
    destruct (active l); injection I as <- <-; [|split; [repeat split; assumption|exact Hl]].
    split; [repeat split; assumption|]. unfold loc_ok. simpl. rewrite Si. auto.
  - (* MSetPh *)
    destruct (active l); injection I as <- <-; (split; [repeat split; assumption|exact Hl]).
  - (* MActivate *)
    destruct (active l); [|injection I as <- <-; split; [repeat split; assumption|exact Hl]].
    destruct (l_obj l) as [o|].
    + destruct (o_state o =? 1); injection I as <- <-; (split; [repeat split; assumption|]); [exact Hl|apply fail_ok, Hl].
    + injection I as <- <-. split; [repeat split; assumption|apply fail_ok, Hl].
  - (* MDestroy *)
    destruct (active l); [|injection I as <- <-; split; [repeat split; assumption|exact Hl]].
    destruct (l_obj l) as [o|].
    + destruct (o_state o =? 2); injection I as <- <-; (split; [repeat split; assumption|]); [apply fail_ok, Hl|exact Hl].
    + injection I as <- <-. split; [repeat split; assumption|apply fail_ok, Hl].
  - (* MRevoke *)
    destruct (active l); [|injection I as <- <-; split; [repeat split; assumption|exact Hl]].
    destruct (l_obj l) as [o|].
    + destruct (o_state o =? 2); injection I as <- <-; (split; [repeat split; assumption|]); [exact Hl|apply fail_ok, Hl].
    + injection I as <- <-. split; [repeat split; assumption|apply fail_ok, Hl].
  - (* MUse *)
    destruct (active l); [|injection I as <- <-; split; [repeat split; assumption|exact Hl]].
    destruct (l_obj l) as [o|].
    + destruct (o_state o =? 2); injection I as <- <-; (split; [repeat split; assumption|]); [exact Hl|apply fail_ok, Hl].
    + injection I as <- <-. split; [repeat split; assumption|apply fail_ok, Hl].
  - (* MAttrs *)
    destruct (active l); injection I as <- <-; (split; [repeat split; assumption|]); [|exact Hl].
    unfold loc_ok. simpl. rewrite Sa. auto.
  - (* MState *)
    destruct (active l); injection I as <- <-; (split; [repeat split; assumption|]); [|exact Hl].
    unfold loc_ok. simpl. auto.
  - (* MQuery *)
    destruct (active l); injection I as <- <-; (split; [repeat split; assumption|]); [|exact Hl].
    unfold loc_ok. simpl. rewrite Sv. auto.
  - (* MEmit *)
    destruct (l_stop l); injection I as <- <-; (split; [repeat split; assumption|]); [exact Hl|].
    unfold loc_ok. simpl. split; [auto|]. split; [auto|].
    unfold items_ok. apply Forall_app. split; [exact C|].
    constructor; [|constructor]. unfold who_ok, ver_ok. simpl. auto.
  - (* MClose *) injection I as <- <-. split; [repeat split; assumption|exact Hl].
Qed.

Lemma finish_body_ok : forall c v ms s l s' l',
  forallb body_mop ms = true -> sh_ok c v s -> loc_ok c v l -> finish ms (s, l) = (s', l') -> sh_ok c v s' /\ loc_ok c v l'.
Proof.
  induction ms as [|m ms IH]; intros s l s' l' Hb Hs Hl F.
  - simpl in F. injection F as <- <-. auto.
  - simpl in Hb. apply andb_true_iff in Hb. destruct Hb as [Hm Hms].
    rewrite finish_cons in F. destruct (interp m (s, l)) as [s1 l1] eqn:I.
    destruct (interp_body_ok c v m s l s1 l1 Hm Hs Hl I) as [Hs1 Hl1].
    eapply IH; eassumption.
Qed.

Lemma body_ops : forall ops, forallb body_mop (flat_map prog_of_op ops ++ [MClose]) = true.
Proof.
  induction ops as [|o ops IH]; [reflexivity|].
  simpl. rewrite <- app_assoc, forallb_app. rewrite IH. destruct o; reflexivity.
Qed.

(* a request served alone evaluates every item under its sender's identity and its own version *)
Lemma exec_items_ok : forall r c s s' l',
  finish (prog r c) (s, loc0) = (s', l') -> items_ok c (r_ver r) (l_out l').
Proof.
  intros r c s s' l' F. unfold prog in F.
  change ([MReset; MSetVersion (r_ver r); MSetAsync; MSetIdent c; MOpenSession] ++ flat_map prog_of_op (r_ops r) ++ [MClose])
    with (MReset :: MSetVersion (r_ver r) :: MSetAsync :: MSetIdent c :: (MOpenSession :: flat_map prog_of_op (r_ops r) ++ [MClose])) in F.
  rewrite !finish_cons in F. simpl interp in F.
  eapply finish_body_ok in F.
  - destruct F as [_ [_ [_ C]]]. exact C.
  - simpl. apply body_ops.
  - repeat split; reflexivity.
  - unfold loc_ok, loc0, items_ok. simpl. auto.
Qed.

Lemma seq_run_items_ok : forall order p,
  (forall t r its, In (t, r, its) (snd p) -> items_ok (cred t) (r_ver r) its) ->
  forall t r its, In (t, r, its) (snd (seq_run cred order p)) -> items_ok (cred t) (r_ver r) its.
Proof.
  induction order as [|[t0 r0] tl IH]; intros p Hp; [exact Hp|].
  intros t r its.
  change (seq_run cred ((t0, r0) :: tl) p) with (seq_run cred tl (exec1 cred p (t0, r0))).
  revert t r its. apply IH.
  intros t r its Hin. unfold exec1 in Hin. unfold entry in *.
  destruct (finish (prog r0 (cred t0)) (fst p, loc0)) as [s' l'] eqn:F. cbn [snd] in Hin.
  apply in_app_or in Hin. destruct Hin as [Hin|[Heq|[]]].
  - apply Hp, Hin.
  - injection Heq as <- <- <-. eapply exec_items_ok, F.
Qed.

(* never the identity or the version of a concurrently served session *)
Theorem identity_never_crossed : forall sched s0 s t r its it,
  initial s0 -> run cred true sched s0 = Some s -> final s ->
  In (t, r, its) (log s) -> In it its -> who_ok (cred t) it /\ ver_ok (r_ver r) it.
Proof.
  intros sched s0 s t r its it I R F Hin Hit.
  destruct (locked_serializable sched s0 s I R F) as [E _].
  assert (L : log s = snd (seq_run cred (hist s) (sh s0, []))) by (rewrite <- E; reflexivity).
  rewrite L in Hin.
  pose proof (seq_run_items_ok (hist s) (sh s0, []) (fun _ _ _ H => match H with end) t r its Hin) as K.
  unfold items_ok in K. rewrite Forall_forall in K. apply K, Hit.
Qed.

End WithCred.

(* ---------------------------------------------------------------- without the lock *)
(* two clients: 0 is alice (user 101, no groups: credential 1010) who owns object 1; 1 is bob (202 -> 2020) who asks for it *)
Definition cred2 (t : nat) : Z := match t with O => 1010 | _ => 2020 end.
Definition wit_store : shared := mkShared 0 12 12 0 false None [mkObj 1 101 1] 2.
Definition wit_queues (t : nat) : list req :=
  match t with
  | O => [mkReq 12 [QGet (Some 1)]]
  | S O => [mkReq 10 [QGet (Some 1)]]
  | _ => []
  end.
(* bob enters and passes the point where his identity is stored; alice enters, runs to completion (overwriting the
   identity field); bob continues: his policy check reads alice's identity and he is handed alice's key *)
Definition wit_sched : list nat :=
  [1; 1; 1; 1; 1; 1; 1; 1]%nat ++ [0; 0; 0; 0; 0; 0; 0; 0; 0; 0; 0; 0]%nat ++ [1; 1; 1; 1]%nat.

Definition crossed (cred : nat -> Z) (s : state) : bool :=
  existsb (fun e => match e with (t, r, its) =>
     existsb (fun it => match i_who it with Some w => negb (w =? cred t) | None => false end) its end) (log s).

Theorem unlocked_refuted :
  exists s, run cred2 false wit_sched (init wit_store wit_queues) = Some s /\
            crossed cred2 s = true /\
            In (1%nat, mkReq 10 [QGet (Some 1)], [mkItem OP_get 0 1 0 (Some 1010) None]) (log s).
Proof.
  eexists. split; [vm_compute; reflexivity|]. split; [vm_compute; reflexivity|]. vm_compute. auto.
Qed.

(* the same schedule is not even executable under the lock: alice cannot enter while bob is inside *)
Theorem witness_blocked_by_lock : run cred2 true wit_sched (init wit_store wit_queues) = None.
Proof. vm_compute. reflexivity. Qed.
