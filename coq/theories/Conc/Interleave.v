(* C10 - interleaving model of request processing on the shared engine object.

   kmip/services/server/engine.py keeps the per-request values (_client_identity, _protocol_version,
   _attribute_policy, _data_session, _id_placeholder, is_asynchronous) in fields of the ONE engine object
   all session threads share; process_request runs under self._lock.  Here a request is the list of
   micro-operations that read/write those fields in the order the sequential engine does, threads are
   interleaved at micro-operation granularity by an arbitrary schedule, and a flag turns the lock off.
   Definitions only; proofs in InterleaveProofs.v.

   The lock of the engine is an RLock; process_request never calls itself, so a thread that owns the lock
   never executes Acquire again and re-entrancy is unobservable: the model's lock is a plain owner field. *)
From Coq Require Import ZArith List Bool.
Import ListNotations.
Open Scope Z_scope.

(* ---------------------------------------------------------------- data *)
Record obj := mkObj { o_uid : Z; o_owner : Z; o_state : Z }.       (* state: 1 pre-active, 2 active *)

Record shared := mkShared {
  s_ident : Z;            (* _client_identity[0]; 0 = [None, None]            *)
  s_ver : Z;              (* _protocol_version, 10*major+minor                *)
  s_apol : Z;             (* version _attribute_policy was built for          *)
  s_sess : Z;             (* _data_session: serial number of the open session; 0 = none *)
  s_async : bool;         (* is_asynchronous                                  *)
  s_ph : option Z;        (* _id_placeholder                                  *)
  s_store : list obj;     (* the database                                     *)
  s_next : Z }.           (* AUTOINCREMENT counter                            *)

Inductive opreq :=
| QCreate                         (* Create a symmetric key                               *)
| QGet (u : option Z)             (* Get; None = use the ID placeholder                   *)
| QActivate (u : option Z)
| QDestroy (u : option Z)
| QAttrList (u : option Z)        (* GetAttributeList: depends on the attribute policy    *)
| QDiscover                       (* DiscoverVersions: needs KMIP 1.1                     *)
| QRevoke (u : option Z)          (* Revoke, reason other than key compromise: Active -> Deactivated         *)
| QEncrypt (u : option Z)         (* Encrypt (stands for Decrypt/Sign/SignatureVerify/MAC): the key must be Active NOW *)
| QGetState (u : option Z)        (* GetAttributes [Name; State]: the answer is the state the store holds NOW *)
| QQuery (with_ops : bool).       (* Query; with_ops: the function list contains QueryOperations - the operation list
                                     answered depends on the protocol version (1.0: 12, 1.1: 13, 1.2 and later: 18) *)

Record req := mkReq { r_ver : Z; r_ops : list opreq }.

(* result codes: 0 success, 1 ITEM_NOT_FOUND, 2 PERMISSION_DENIED, 3 OPERATION_NOT_SUPPORTED, 4 ILLEGAL_OPERATION *)
Record item := mkItem {
  i_op : Z;                 (* operation code (KMIP Operation enumeration value)                     *)
  i_code : Z;
  i_uid : Z;                (* identifier in the payload; 0 = none                                   *)
  i_extra : Z;              (* GetAttributeList: 1 when 'Sensitive' is listed (attribute policy >= 1.4) *)
  i_who : option Z;         (* GHOST: identity read from the shared field while evaluating the item  *)
  i_ver : option Z }.       (* GHOST: protocol version / attribute policy version read from the shared fields *)

Record local := mkLocal {
  l_target : option Z; l_obj : option obj; l_fail : option Z; l_new : Z;
  l_who : option Z; l_vseen : option Z; l_extra : Z;
  l_stop : bool;            (* batch error continuation STOP: a failed item ends the batch *)
  l_out : list item }.

Definition loc0 : local := mkLocal None None None 0 None None 0 false [].

Inductive mop :=
| MReset                    (* _client_identity := [None, None]; _id_placeholder := None  (engine.py process_request) *)
| MSetVersion (v : Z)       (* _set_protocol_version: _protocol_version, _attribute_policy                            *)
| MSetAsync                 (* is_asynchronous := False                                                                *)
| MSetIdent (c : Z)         (* _verify_credential: _client_identity := connection credential (user AND groups)         *)
| MOpenSession              (* _process_batch: _data_session := new session                                            *)
| MGate (minv : Z)          (* _kmip_version_supported: reads _protocol_version                                        *)
| MResolve (u : option Z)   (* identifier := payload value or _id_placeholder                                          *)
| MLoad                     (* query through _data_session                                                             *)
| MCheck                    (* _is_allowed_by_operation_policy: reads _client_identity (default policy: owner only)    *)
| MCreate                   (* owner := _client_identity[0]; add; commit                                               *)
| MSetPh                    (* _id_placeholder := new identifier                                                       *)
| MActivate | MDestroy | MRevoke
| MUse                      (* a cryptographic use: refused unless the object loaded for this request is Active       *)
| MAttrs                    (* reads _attribute_policy                                                                 *)
| MState                    (* the State attribute of the object just loaded                                           *)
| MQuery (with_ops : bool)  (* _process_query: reads _protocol_version twice (>= 1.1, >= 1.2)                          *)
| MEmit (opc : Z)           (* the batch item's result                                                                 *)
| MClose.                   (* end of `with session`                                                                   *)

Definition set_ident (sh : shared) v := mkShared v (s_ver sh) (s_apol sh) (s_sess sh) (s_async sh) (s_ph sh) (s_store sh) (s_next sh).
Definition set_ver (sh : shared) v := mkShared (s_ident sh) v v (s_sess sh) (s_async sh) (s_ph sh) (s_store sh) (s_next sh).
Definition set_sess (sh : shared) v := mkShared (s_ident sh) (s_ver sh) (s_apol sh) v (s_async sh) (s_ph sh) (s_store sh) (s_next sh).
Definition set_async (sh : shared) v := mkShared (s_ident sh) (s_ver sh) (s_apol sh) (s_sess sh) v (s_ph sh) (s_store sh) (s_next sh).
Definition set_ph (sh : shared) v := mkShared (s_ident sh) (s_ver sh) (s_apol sh) (s_sess sh) (s_async sh) v (s_store sh) (s_next sh).
Definition set_store (sh : shared) st n := mkShared (s_ident sh) (s_ver sh) (s_apol sh) (s_sess sh) (s_async sh) (s_ph sh) st n.

Definition fail (l : local) (c : Z) : local :=
  mkLocal (l_target l) (l_obj l) (match l_fail l with Some x => Some x | None => Some c end) (l_new l)
          (l_who l) (l_vseen l) (l_extra l) (l_stop l) (l_out l).

(* owner code of objects stored under an operation policy that allows every client every operation (ALLOW_ALL) *)
Definition PUBLIC := -1.

(* A credential is (user, groups); it is carried as ONE number 10*user + g with g = 0 (no group information: None),
   1 (member of the group 'ops'), 2 (an EMPTY group list: the engine's loop over the groups grants nothing).
   Objects of the operation policy 'grouped' (preset: owner only; group 'ops': everybody) owned by u have owner code -100-u. *)
Definition user_of (c : Z) : Z := c / 10.
Definition group_of (c : Z) : Z := c mod 10.
Definition GROUPED_BASE := -100.
Definition allowed (owner c : Z) : bool :=
  if group_of c =? 2 then false
  else if owner =? PUBLIC then true
  else if owner <=? GROUPED_BASE then (group_of c =? 1) || (user_of c =? GROUPED_BASE - owner)
  else (group_of c =? 0) && (user_of c =? owner).     (* default policy: no group sections, group information => refused *)

Definition find_obj (u : Z) (st : list obj) : option obj := find (fun o => o_uid o =? u) st.

Definition active (l : local) : bool := negb (l_stop l) && match l_fail l with None => true | Some _ => false end.

Definition interp (m : mop) (p : shared * local) : shared * local :=
  let (sh, l) := p in
  match m with
  | MReset => (set_ph (set_ident sh 0) None, l)
  | MSetVersion v => (set_ver sh v, l)
  | MSetAsync => (set_async sh false, l)
  | MSetIdent c => (set_ident sh c, l)
  | MOpenSession => (set_sess sh (s_sess sh + 1), l)
  | MClose => (sh, l)
  | MGate minv =>
      if active l then
        let l' := mkLocal (l_target l) (l_obj l) (l_fail l) (l_new l) (l_who l) (Some (s_ver sh)) (l_extra l) (l_stop l) (l_out l) in
        (sh, if s_ver sh <? minv then fail l' 3 else l')
      else (sh, l)
  | MResolve u =>
      if active l then
        (sh, mkLocal (match u with Some x => Some x | None => s_ph sh end) (l_obj l) (l_fail l) (l_new l)
                     (l_who l) (l_vseen l) (l_extra l) (l_stop l) (l_out l))
      else (sh, l)
  | MLoad =>
      if active l then
        match l_target l with
        | Some u =>
            match find_obj u (s_store sh) with
            | Some o => (sh, mkLocal (l_target l) (Some o) (l_fail l) (l_new l) (l_who l) (l_vseen l) (l_extra l) (l_stop l) (l_out l))
            | None => (sh, fail l 1)
            end
        | None => (sh, fail l 1)
        end
      else (sh, l)
  | MCheck =>
      if active l then
        let l' := mkLocal (l_target l) (l_obj l) (l_fail l) (l_new l) (Some (s_ident sh)) (l_vseen l) (l_extra l) (l_stop l) (l_out l) in
        match l_obj l with
        | Some o => (sh, if allowed (o_owner o) (s_ident sh) then l' else fail l' 2)
        | None => (sh, fail l' 1)
        end
      else (sh, l)
  | MCreate =>
      if active l then
        (set_store sh (s_store sh ++ [mkObj (s_next sh) (user_of (s_ident sh)) 1]) (s_next sh + 1),
         mkLocal (Some (s_next sh)) (l_obj l) (l_fail l) (s_next sh) (Some (s_ident sh)) (l_vseen l) (l_extra l) (l_stop l) (l_out l))
      else (sh, l)
  | MSetPh => if active l then (set_ph sh (Some (l_new l)), l) else (sh, l)
  | MActivate =>
      if active l then
        match l_obj l with
        | Some o =>
            if o_state o =? 1 then
              (set_store sh (map (fun x => if o_uid x =? o_uid o then mkObj (o_uid x) (o_owner x) 2 else x) (s_store sh)) (s_next sh), l)
            else (sh, fail l 2)
        | None => (sh, fail l 1)
        end
      else (sh, l)
  | MRevoke =>
      if active l then
        match l_obj l with
        | Some o =>
            if o_state o =? 2 then
              (set_store sh (map (fun x => if o_uid x =? o_uid o then mkObj (o_uid x) (o_owner x) 3 else x) (s_store sh)) (s_next sh), l)
            else (sh, fail l 4)
        | None => (sh, fail l 1)
        end
      else (sh, l)
  | MUse =>
      if active l then
        match l_obj l with
        | Some o => if o_state o =? 2 then (sh, l) else (sh, fail l 2)
        | None => (sh, fail l 1)
        end
      else (sh, l)
  | MDestroy =>
      if active l then
        match l_obj l with
        | Some o =>
            if o_state o =? 2 then (sh, fail l 2)
            else (set_store sh (filter (fun x => negb (o_uid x =? o_uid o)) (s_store sh)) (s_next sh), l)
        | None => (sh, fail l 1)
        end
      else (sh, l)
  | MAttrs =>
      if active l then
        (sh, mkLocal (l_target l) (l_obj l) (l_fail l) (l_new l) (l_who l) (Some (s_apol sh))
                     (if 14 <=? s_apol sh then 1 else 0) (l_stop l) (l_out l))
      else (sh, l)
  | MState =>
      if active l then
        (sh, mkLocal (l_target l) (l_obj l) (l_fail l) (l_new l) (l_who l) (l_vseen l)
                     (match l_obj l with Some o => o_state o | None => 0 end) (l_stop l) (l_out l))
      else (sh, l)
  | MQuery with_ops =>
      if active l then
        (sh, mkLocal (l_target l) (l_obj l) (l_fail l) (l_new l) (l_who l) (Some (s_ver sh))
                     (if with_ops then 12 + (if 11 <=? s_ver sh then 1 else 0) + (if 12 <=? s_ver sh then 5 else 0) else 0)
                     (l_stop l) (l_out l))
      else (sh, l)
  | MEmit opc =>
      if l_stop l then (sh, l)
      else
        let code := match l_fail l with Some c => c | None => 0 end in
        let uid := if code =? 0 then match l_target l with Some u => u | None => 0 end else 0 in
        let it := mkItem opc code uid (if code =? 0 then l_extra l else 0) (l_who l) (l_vseen l) in
        (sh, mkLocal None None None 0 None None 0 (negb (code =? 0)) (l_out l ++ [it]))
  end.

(* KMIP Operation enumeration values *)
Definition OP_create := 1.  Definition OP_get := 10.  Definition OP_attrlist := 12.
Definition OP_activate := 18.  Definition OP_destroy := 20.  Definition OP_discover := 30.  Definition OP_query := 24.  Definition OP_getattrs := 11.  Definition OP_revoke := 19.  Definition OP_encrypt := 31.

Definition prog_of_op (o : opreq) : list mop :=
  match o with
  | QCreate => [MCreate; MSetPh; MEmit OP_create]
  | QGet u => [MResolve u; MLoad; MCheck; MEmit OP_get]
  | QActivate u => [MGate 10; MResolve u; MLoad; MCheck; MActivate; MEmit OP_activate]
  | QDestroy u => [MGate 10; MResolve u; MLoad; MCheck; MDestroy; MEmit OP_destroy]
  | QAttrList u => [MResolve u; MLoad; MCheck; MAttrs; MEmit OP_attrlist]
  | QDiscover => [MGate 11; MEmit OP_discover]
  | QRevoke u => [MGate 10; MResolve u; MLoad; MCheck; MRevoke; MEmit OP_revoke]
  | QEncrypt u => [MGate 12; MResolve u; MLoad; MCheck; MUse; MEmit OP_encrypt]
  | QGetState u => [MResolve u; MLoad; MCheck; MState; MEmit OP_getattrs]
  | QQuery w => [MQuery w; MEmit OP_query]
  end.

Definition prog (r : req) (c : Z) : list mop :=
  [MReset; MSetVersion (r_ver r); MSetAsync; MSetIdent c; MOpenSession] ++ flat_map prog_of_op (r_ops r) ++ [MClose].

Definition finish (ms : list mop) (p : shared * local) : shared * local := fold_left (fun p m => interp m p) ms p.

(* ---------------------------------------------------------------- sequential reference: one request at a time *)
Definition entry := (nat * req * list item)%type.

Definition exec1 (cred : nat -> Z) (p : shared * list entry) (tr : nat * req) : shared * list entry :=
  let (t, r) := tr in
  let (sh', l') := finish (prog r (cred t)) (fst p, loc0) in
  (sh', snd p ++ [(t, r, l_out l')]).

Definition seq_run (cred : nat -> Z) (order : list (nat * req)) (p : shared * list entry) : shared * list entry :=
  fold_left (exec1 cred) order p.

(* ---------------------------------------------------------------- threads sharing the engine *)
Record thread := mkThread { queue : list req; running : option (req * list mop * local) }.

Record state := mkState {
  sh : shared;
  lock : option nat;                 (* owner of engine._lock *)
  thr : nat -> thread;
  log : list entry;                  (* responses in the order they were handed back *)
  hist : list (nat * req) }.         (* GHOST: order in which requests entered process_request *)

Definition upd (f : nat -> thread) (t : nat) (v : thread) : nat -> thread := fun x => if Nat.eqb x t then v else f x.

Definition lock_free (s : state) : bool := match lock s with None => true | Some _ => false end.

(* one step of thread t; `locked` = false models the engine with @_synchronize removed *)
Definition step (cred : nat -> Z) (locked : bool) (t : nat) (s : state) : option state :=
  let th := thr s t in
  match running th with
  | None =>
      match queue th with
      | [] => None
      | r :: q =>
          if locked && negb (lock_free s) then None
          else Some (mkState (sh s) (Some t) (upd (thr s) t (mkThread q (Some (r, prog r (cred t), loc0))))
                             (log s) (hist s ++ [(t, r)]))
      end
  | Some (r, [], l) =>
      Some (mkState (sh s) None (upd (thr s) t (mkThread (queue th) None)) (log s ++ [(t, r, l_out l)]) (hist s))
  | Some (r, m :: ms, l) =>
      let (sh', l') := interp m (sh s, l) in
      Some (mkState sh' (lock s) (upd (thr s) t (mkThread (queue th) (Some (r, ms, l')))) (log s) (hist s))
  end.

Fixpoint run (cred : nat -> Z) (locked : bool) (sched : list nat) (s : state) : option state :=
  match sched with
  | [] => Some s
  | t :: tl => match step cred locked t s with Some s' => run cred locked tl s' | None => None end
  end.

Definition init (sh0 : shared) (queues : nat -> list req) : state :=
  mkState sh0 None (fun t => mkThread (queues t) None) [] [].

Definition proj (t : nat) (h : list (nat * req)) : list req := map snd (filter (fun p => Nat.eqb (fst p) t) h).

Definition sh_init : shared := mkShared 0 12 12 0 false None [] 1.

(* what the property demands of an item: evaluated under the sender's identity and the request's version *)
Definition who_ok (c : Z) (it : item) : Prop := i_who it = None \/ i_who it = Some c.
Definition ver_ok (v : Z) (it : item) : Prop := i_ver it = None \/ i_ver it = Some v.
