(* C09 - proofs about the transaction-log model of Txn.v. *)
From PK Require Import Crash.Txn.
From Coq Require Import ZArith List Bool Lia ZifyBool.
Import ListNotations.
Open Scope Z_scope.

(* ---------------------------------------------------------------- the machine *)
Lemma run_app : forall a b m, run (a ++ b) m = run b (run a m).
Proof. intros; unfold run; apply fold_left_app. Qed.

Lemma run_writes : forall ws d p, run (map Write ws) (mkMach d p) = mkMach d (p ++ ws).
Proof.
  induction ws as [|w ws IH]; intros d p; simpl.
  - now rewrite app_nil_r.
  - unfold run in *; simpl. rewrite IH. now rewrite <- app_assoc.
Qed.

Lemma firstn_map_write : forall k ws, firstn k (map Write ws) = map Write (firstn k ws).
Proof. intros; apply firstn_map. Qed.

(* a successful run cut at k: nothing durable up to and including the last write, everything after the commit *)
Lemma recover_cut_success : forall ws s k,
  recover (crash_at k (map Write ws ++ [Commit; Ack])) s =
  if Nat.leb k (length ws) then s else apply_writes ws s.
Proof.
  intros ws s k. unfold recover, crash_at.
  rewrite firstn_app, map_length.
  destruct (Nat.leb k (length ws)) eqn:E.
  - apply Nat.leb_le in E.
    replace (k - length ws)%nat with 0%nat by lia. simpl. rewrite app_nil_r.
    rewrite firstn_map_write, run_writes. reflexivity.
  - apply Nat.leb_gt in E.
    rewrite firstn_all2 by (rewrite map_length; lia).
    rewrite run_app, run_writes. simpl.
    destruct (k - length ws)%nat as [|[|n]] eqn:K; try lia.
    + reflexivity.
    + destruct n; reflexivity.
Qed.

Lemma recover_cut_failure : forall s k, recover (crash_at k [Rollback; Ack]) s = s.
Proof. intros s [|[|[|k]]]; reflexivity. Qed.

Lemma acked_cut_success : forall ws k,
  acked (crash_at k (map Write ws ++ [Commit; Ack])) = true -> (length ws + 2 <= k)%nat.
Proof.
  intros ws k H. unfold acked, crash_at in H.
  destruct (Nat.leb (length ws + 2) k) eqn:E; [apply Nat.leb_le in E; exact E|].
  apply Nat.leb_gt in E. exfalso.
  rewrite firstn_app, map_length, existsb_app in H.
  apply orb_true_iff in H. destruct H as [H|H].
  - rewrite firstn_map_write in H. apply existsb_exists in H. destruct H as [e [Hin He]].
    apply in_map_iff in Hin. destruct Hin as [w [<- _]]. discriminate.
  - destruct (k - length ws)%nat as [|[|n]] eqn:K; simpl in H; try discriminate. lia.
Qed.

(* ---------------------------------------------------------------- one_commit *)
Definition is_commit (e : event) : bool := match e with Commit => true | _ => false end.
Definition is_write (e : event) : bool := match e with Write _ => true | _ => false end.
Definition commits (tr : list event) : nat := length (filter is_commit tr).

Lemma filter_commit_writes : forall ws, filter is_commit (map Write ws) = [].
Proof. induction ws; simpl; auto. Qed.

Lemma filter_ack_writes : forall ws, filter is_ack (map Write ws) = [].
Proof. induction ws; simpl; auto. Qed.

(* shape of every trace: all writes, then exactly one commit, then the acknowledgement - or no write and no commit *)
Lemma trace_shape : forall o s,
  (exists ws, writes_of o s = Some ws /\ trace_of o s = map Write ws ++ [Commit; Ack]) \/
  (writes_of o s = None /\ trace_of o s = [Rollback; Ack]).
Proof.
  intros o s. unfold trace_of. destruct (writes_of o s) as [ws|].
  - left. exists ws. split; reflexivity.
  - right. split; reflexivity.
Qed.

Lemma one_commit : forall o s,
  commits (trace_of o s) = (if succeeds o s then 1%nat else 0%nat) /\
  (forall i j, nth_error (trace_of o s) j = Some Commit ->
               (exists w, nth_error (trace_of o s) i = Some (Write w)) -> (i < j)%nat) /\
  (forall i j, nth_error (trace_of o s) j = Some Commit ->
               nth_error (trace_of o s) i = Some Ack -> (j < i)%nat) /\
  count_acks (trace_of o s) = 1%nat.
Proof.
  intros o s. unfold succeeds, trace_of, commits, count_acks.
  destruct (writes_of o s) as [ws|].
  - repeat split.
    + rewrite filter_app, filter_commit_writes. reflexivity.
    + intros i j Hj [w Hi].
      destruct (Nat.lt_ge_cases j (length (map Write ws))) as [L|L].
      * rewrite nth_error_app1 in Hj by exact L.
        apply nth_error_In, in_map_iff in Hj. destruct Hj as [x [Hx _]]. discriminate.
      * destruct (Nat.lt_ge_cases i (length (map Write ws))) as [L'|L']; [lia|].
        rewrite nth_error_app2 in Hi by exact L'.
        destruct (i - length (map Write ws))%nat as [|[|n]]; simpl in Hi; try discriminate.
        destruct n; discriminate.
    + intros i j Hj Hi.
      destruct (Nat.lt_ge_cases i (length (map Write ws))) as [L|L].
      * rewrite nth_error_app1 in Hi by exact L.
        apply nth_error_In, in_map_iff in Hi. destruct Hi as [x [Hx _]]. discriminate.
      * rewrite nth_error_app2 in Hi by exact L.
        destruct (Nat.lt_ge_cases j (length (map Write ws))) as [L'|L']; [lia|].
        rewrite nth_error_app2 in Hj by exact L'.
        destruct (i - length (map Write ws))%nat as [|[|n]] eqn:Ei; simpl in Hi; try discriminate.
        -- destruct (j - length (map Write ws))%nat as [|[|m]] eqn:Ej; simpl in Hj; try discriminate.
           ++ lia.
           ++ destruct m; discriminate.
        -- destruct n; discriminate.
    + rewrite filter_app, filter_ack_writes. reflexivity.
  - repeat split.
    + intros i j Hj. destruct j as [|[|j]]; simpl in Hj; try discriminate. destruct j; discriminate.
    + intros i j Hj. destruct j as [|[|j]]; simpl in Hj; try discriminate. destruct j; discriminate.
Qed.

(* ---------------------------------------------------------------- atomic / durable *)
Lemma atomic : forall o s k,
  recover (crash_at k (trace_of o s)) s = s \/ recover (crash_at k (trace_of o s)) s = post o s.
Proof.
  intros o s k. unfold trace_of, post. destruct (writes_of o s) as [ws|].
  - rewrite recover_cut_success. destruct (Nat.leb k (length ws)); auto.
  - left. apply recover_cut_failure.
Qed.

Lemma durable : forall o s k,
  acked (crash_at k (trace_of o s)) = true -> recover (crash_at k (trace_of o s)) s = post o s.
Proof.
  intros o s k H. unfold trace_of, post in *. destruct (writes_of o s) as [ws|].
  - apply acked_cut_success in H. rewrite recover_cut_success.
    destruct (Nat.leb k (length ws)) eqn:E; [apply Nat.leb_le in E; lia|reflexivity].
  - apply recover_cut_failure.
Qed.

(* nothing becomes durable before the commit: a cut that does not include the Commit event leaves the store as it was *)
Lemma nothing_before_commit : forall o s k,
  commits (crash_at k (trace_of o s)) = 0%nat -> recover (crash_at k (trace_of o s)) s = s.
Proof.
  intros o s k H. unfold trace_of in *. destruct (writes_of o s) as [ws|].
  - rewrite recover_cut_success. destruct (Nat.leb k (length ws)) eqn:E; [reflexivity|].
    apply Nat.leb_gt in E. exfalso. unfold commits, crash_at in H.
    rewrite firstn_app, map_length, filter_app, app_length in H.
    destruct (k - length ws)%nat as [|[|n]] eqn:K; try lia; simpl in H; lia.
  - apply recover_cut_failure.
Qed.

(* a complete run leaves the machine with the post state durable and nothing pending *)
Lemma run_trace : forall o s, run (trace_of o s) (mkMach s []) = mkMach (post o s) [].
Proof.
  intros o s. unfold trace_of, post. destruct (writes_of o s) as [ws|].
  - rewrite run_app, run_writes. reflexivity.
  - reflexivity.
Qed.

(* ---------------------------------------------------------------- workloads *)
Lemma op_crash : forall o s k,
  (recover (crash_at k (trace_of o s)) s = s /\ count_acks (crash_at k (trace_of o s)) = 0%nat) \/
  (recover (crash_at k (trace_of o s)) s = post o s /\ (count_acks (crash_at k (trace_of o s)) <= 1)%nat).
Proof.
  intros o s k. unfold trace_of, post, count_acks, crash_at. destruct (writes_of o s) as [ws|].
  - pose proof (recover_cut_success ws s k) as R. unfold crash_at in R. rewrite R.
    destruct (Nat.leb k (length ws)) eqn:E.
    + left. split; [reflexivity|]. apply Nat.leb_le in E.
      rewrite firstn_app, map_length. replace (k - length ws)%nat with 0%nat by lia.
      simpl. rewrite app_nil_r, firstn_map_write, filter_ack_writes. reflexivity.
    + right. split; [reflexivity|].
      rewrite firstn_app, filter_app, app_length, firstn_map_write, filter_ack_writes. simpl.
      destruct (k - length (map Write ws))%nat as [|[|[|n]]]; simpl; lia.
  - right. split; [apply (recover_cut_failure s k)|].
    destruct k as [|[|[|k]]]; simpl; lia.
Qed.

Lemma recover_app_complete : forall o s tr, recover (trace_of o s ++ tr) s = recover tr (post o s).
Proof. intros. unfold recover. rewrite run_app, run_trace. reflexivity. Qed.

Lemma count_acks_app : forall a b, count_acks (a ++ b) = (count_acks a + count_acks b)%nat.
Proof. intros. unfold count_acks. rewrite filter_app, app_length. reflexivity. Qed.

(* crash anywhere in a workload: what is found is the state after a prefix of the operations, containing
   every acknowledged one and at most one more (the operation in flight) *)
Lemma workload_crash : forall ops s k,
  exists j, (j <= length ops)%nat /\
    recover (crash_at k (workload_trace ops s)) s = posts (firstn j ops) s /\
    (count_acks (crash_at k (workload_trace ops s)) <= j)%nat /\
    (j <= count_acks (crash_at k (workload_trace ops s)) + 1)%nat.
Proof.
  induction ops as [|o tl IH]; intros s k.
  - exists 0%nat. unfold crash_at. simpl. rewrite firstn_nil.
    split; [simpl; lia|]. split; [reflexivity|]. unfold count_acks. split; simpl; lia.
  - simpl workload_trace. unfold crash_at. rewrite firstn_app.
    destruct (Nat.leb k (length (trace_of o s))) eqn:E.
    + apply Nat.leb_le in E.
      replace (k - length (trace_of o s))%nat with 0%nat by lia.
      change (firstn 0 (workload_trace tl (post o s))) with (@nil event). rewrite app_nil_r.
      destruct (op_crash o s k) as [[R A]|[R A]]; unfold crash_at in R, A.
      * exists 0%nat. rewrite R, A. simpl.
        split; [lia|]. split; [reflexivity|]. split; lia.
      * exists 1%nat. rewrite R. simpl.
        split; [lia|]. split; [reflexivity|]. split; lia.
    + apply Nat.leb_gt in E.
      rewrite firstn_all2 by lia.
      destruct (IH (post o s) (k - length (trace_of o s))%nat) as [j [Hj [R [A1 A2]]]].
      unfold crash_at in R, A1, A2.
      exists (S j). rewrite recover_app_complete, R, count_acks_app.
      destruct (one_commit o s) as [_ [_ [_ C]]]. rewrite C.
      split; [simpl; lia|]. split; [reflexivity|]. split; lia.
Qed.

(* ---------------------------------------------------------------- key pairs *)
Lemma rows_apply_ins : forall rs s, rows (apply_writes (map WIns rs) s) = rows s ++ rs.
Proof.
  induction rs as [|r rs IH]; intros s; simpl.
  - now rewrite app_nil_r.
  - unfold apply_writes in *. simpl. rewrite IH. simpl. now rewrite <- app_assoc.
Qed.

Lemma has_app : forall t k a b, has t k (a ++ b) = has t k a || has t k b.
Proof. intros. unfold has. apply existsb_app. Qed.

Lemma fresh_not_has : forall s t k, fresh s = true -> t <= T_opaque -> next_uid s <= k -> has t k (rows s) = false.
Proof.
  intros s t k F Ht Hk. unfold fresh in F. rewrite forallb_forall in F.
  unfold has. apply not_true_is_false. intro H. apply existsb_exists in H.
  destruct H as [r [Hin Hr]]. specialize (F r Hin). unfold key_below in F. unfold at_key in Hr.
  apply andb_true_iff in Hr. destruct Hr as [H1 H2].
  destruct (r_tbl r <=? T_opaque) eqn:E; lia.
Qed.

Lemma has_base_rows : forall uid ot, has T_managed uid (base_rows uid ot) = true.
Proof. intros. unfold base_rows, has. simpl. unfold at_key. simpl. rewrite !Z.eqb_refl. reflexivity. Qed.

(* both halves of a key pair, or neither: wherever the run of CreateKeyPair is cut *)
Lemma keypair_atomic : forall valid a b s k,
  fresh s = true ->
  let r := recover (crash_at k (trace_of (OCreateKeyPair valid a b) s)) s in
  has_object (next_uid s) r = has_object (next_uid s + 1) r.
Proof.
  intros valid a b s k F r. subst r.
  destruct (atomic (OCreateKeyPair valid a b) s k) as [R|R]; rewrite R.
  - unfold has_object. rewrite !fresh_not_has; auto; unfold T_managed, T_opaque; lia.
  - unfold post, writes_of. destruct valid; cbv beta iota zeta.
    + unfold has_object. rewrite rows_apply_ins. rewrite !has_app.
      rewrite has_base_rows. rewrite (has_base_rows (next_uid s + 1) OT_private).
      rewrite !orb_true_l, !orb_true_r. reflexivity.
    + unfold has_object. rewrite !fresh_not_has; auto; unfold T_managed, T_opaque; lia.
Qed.

(* ---------------------------------------------------------------- no partial object *)
Definition complete_rows (rs : list row) : bool := forallb (complete_row rs) rs.

Lemma class_tables_range : forall ot t, In t (class_tables ot) -> 1 <= t <= 10.
Proof.
  intros ot t H. unfold class_tables in H.
  repeat match type of H with
  | context [if ?c then _ else _] => destruct c
  end; simpl in H;
  repeat match type of H with
  | _ \/ _ => destruct H as [H|H]
  | False => contradiction
  end; subst;
  unfold T_crypto, T_keys, T_sym, T_pub, T_priv, T_split, T_cert, T_x509, T_secret, T_opaque; lia.
Qed.

Lemma has_mono_l : forall t k a b, has t k a = true -> has t k (a ++ b) = true.
Proof. intros. rewrite has_app, H. reflexivity. Qed.
Lemma has_mono_r : forall t k a b, has t k b = true -> has t k (a ++ b) = true.
Proof. intros. rewrite has_app, H. apply orb_true_r. Qed.

Lemma complete_row_mono_l : forall a b r, complete_row a r = true -> complete_row (a ++ b) r = true.
Proof.
  intros a b r H. unfold complete_row in *. destruct (r_tbl r =? T_managed); [|reflexivity].
  rewrite forallb_forall in *. intros t Ht. apply has_mono_l. apply H, Ht.
Qed.
Lemma complete_row_mono_r : forall a b r, complete_row b r = true -> complete_row (a ++ b) r = true.
Proof.
  intros a b r H. unfold complete_row in *. destruct (r_tbl r =? T_managed); [|reflexivity].
  rewrite forallb_forall in *. intros t Ht. apply has_mono_r. apply H, Ht.
Qed.

Lemma complete_rows_app : forall a b, complete_rows a = true -> complete_rows b = true -> complete_rows (a ++ b) = true.
Proof.
  intros a b Ha Hb. unfold complete_rows in *. rewrite forallb_app. apply andb_true_iff. split.
  - rewrite forallb_forall in *. intros r Hr. apply complete_row_mono_l. apply Ha, Hr.
  - rewrite forallb_forall in *. intros r Hr. apply complete_row_mono_r. apply Hb, Hr.
Qed.

Lemma complete_base_rows : forall uid ot, complete_rows (base_rows uid ot) = true.
Proof.
  intros uid ot. unfold complete_rows. rewrite forallb_forall. intros r Hr.
  unfold base_rows in Hr. destruct Hr as [<-|Hr].
  - unfold complete_row.
    change (r_tbl (T_managed, uid, ot)) with T_managed. change (r_key (T_managed, uid, ot)) with uid.
    change (r_val (T_managed, uid, ot)) with ot. rewrite Z.eqb_refl.
    rewrite forallb_forall. intros t Ht.
    unfold base_rows, has. simpl. apply orb_true_iff. right.
    apply existsb_exists. exists (t, uid, if t =? T_crypto then ST_pre_active else 0). split.
    + apply in_map_iff. exists t. split; [reflexivity|exact Ht].
    + unfold at_key. simpl. rewrite !Z.eqb_refl. reflexivity.
  - apply in_map_iff in Hr. destruct Hr as [t [<- Ht]].
    apply class_tables_range in Ht. unfold complete_row.
    change (r_tbl (t, uid, if t =? T_crypto then ST_pre_active else 0)) with t.
    destruct (t =? T_managed) eqn:E; [unfold T_managed in E; lia|reflexivity].
Qed.

Lemma complete_name_rows : forall uid f n, complete_rows (name_rows uid f n) = true.
Proof.
  intros. unfold complete_rows. rewrite forallb_forall. intros r Hr.
  unfold name_rows in Hr. apply in_map_iff in Hr. destruct Hr as [i [<- _]].
  reflexivity.
Qed.

Definition safe_write (w : write) : bool :=
  match w with
  | WIns r => negb (r_tbl r =? T_managed)
  | WUpd t _ _ => negb (t =? T_managed)
  | WDel t _ => (t =? T_managed) || (T_opaque <? t)
  | WTouch _ _ => true
  end.

Lemma has_map_upd : forall t k v t' k' rs,
  has t' k' (map (fun r => if at_key t k r then (t, k, v) else r) rs) = has t' k' rs.
Proof.
  intros. unfold has. induction rs as [|r rs IH]; simpl; [reflexivity|].
  rewrite IH. f_equal. destruct (at_key t k r) eqn:E; [|reflexivity].
  unfold at_key in *. simpl. apply andb_true_iff in E. destruct E as [E1 E2].
  apply Z.eqb_eq in E1. apply Z.eqb_eq in E2. rewrite E1, E2. reflexivity.
Qed.

Lemma complete_upd : forall t k v rs, t <> T_managed ->
  complete_rows rs = true -> complete_rows (apply_rows (WUpd t k v) rs) = true.
Proof.
  intros t k v rs Ht H. unfold complete_rows in *. simpl apply_rows.
  rewrite forallb_forall in *. intros r' Hr'. apply in_map_iff in Hr'. destruct Hr' as [r [<- Hr]].
  specialize (H r Hr). unfold complete_row in *.
  destruct (at_key t k r) eqn:E.
  - change (r_tbl (t, k, v)) with t. destruct (t =? T_managed) eqn:E'; [apply Z.eqb_eq in E'; contradiction|reflexivity].
  - destruct (r_tbl r =? T_managed); [|reflexivity].
    rewrite forallb_forall in *. intros t' Ht'. rewrite has_map_upd. apply H, Ht'.
Qed.

Lemma has_filter_other : forall t k t' k' rs, t' <> t ->
  has t' k' (filter (fun r => negb (at_key t k r)) rs) = has t' k' rs.
Proof.
  intros. unfold has. induction rs as [|r rs IH]; simpl; [reflexivity|].
  destruct (at_key t k r) eqn:E; simpl.
  - rewrite IH. unfold at_key in *. apply andb_true_iff in E. destruct E as [E1 _].
    apply Z.eqb_eq in E1. rewrite E1.
    destruct (t =? t') eqn:E'; [apply Z.eqb_eq in E'; congruence|reflexivity].
  - rewrite IH. reflexivity.
Qed.

Lemma complete_del : forall t k rs, (t = T_managed \/ T_opaque < t) ->
  complete_rows rs = true -> complete_rows (apply_rows (WDel t k) rs) = true.
Proof.
  intros t k rs Ht H. unfold complete_rows in *. simpl apply_rows.
  rewrite forallb_forall in *. intros r Hr. apply filter_In in Hr. destruct Hr as [Hr _].
  specialize (H r Hr). unfold complete_row in *.
  destruct (r_tbl r =? T_managed); [|reflexivity].
  rewrite forallb_forall in *. intros t' Ht'. rewrite has_filter_other; [apply H, Ht'|].
  apply class_tables_range in Ht'. unfold T_managed, T_opaque in Ht. lia.
Qed.

Lemma complete_ins : forall r rs, r_tbl r <> T_managed ->
  complete_rows rs = true -> complete_rows (apply_rows (WIns r) rs) = true.
Proof.
  intros r rs Hr H. simpl. apply complete_rows_app; [exact H|].
  unfold complete_rows. simpl. unfold complete_row.
  destruct (r_tbl r =? T_managed) eqn:E; [apply Z.eqb_eq in E; contradiction|reflexivity].
Qed.

Lemma complete_safe_write : forall w s, safe_write w = true ->
  complete_rows (rows s) = true -> complete_rows (rows (apply_write s w)) = true.
Proof.
  intros w s Hw H. unfold apply_write. simpl rows. destruct w as [r|t k v|t k|t k]; simpl in Hw; [| | |exact H].
  - apply complete_ins; [|exact H]. intro E. rewrite E in Hw. discriminate.
  - apply complete_upd; [|exact H]. intro E. rewrite E in Hw. discriminate.
  - apply complete_del; [|exact H]. apply orb_true_iff in Hw. destruct Hw as [E|E]; [left|right]; lia.
Qed.

Lemma complete_safe_writes : forall ws s, forallb safe_write ws = true ->
  complete_rows (rows s) = true -> complete_rows (rows (apply_writes ws s)) = true.
Proof.
  induction ws as [|w ws IH]; intros s Hs H; [exact H|].
  simpl in Hs. apply andb_true_iff in Hs. destruct Hs as [Hw Hs].
  unfold apply_writes. simpl. apply IH; [exact Hs|]. apply complete_safe_write; assumption.
Qed.

Lemma attr_write_safe : forall w, attr_write w = true -> safe_write w = true.
Proof.
  intros [r|t k v|t k|t k]; unfold attr_write, attr_table, safe_write, T_names, T_appmap, T_managed, T_opaque; lia.
Qed.

Lemma complete_object_rows : forall uid ot f n, complete_rows (object_rows uid ot f n) = true.
Proof. intros. unfold object_rows. apply complete_rows_app; [apply complete_base_rows|apply complete_name_rows]. Qed.

Lemma complete_ins_rows : forall rs s, complete_rows (rows s) = true -> complete_rows rs = true ->
  complete_rows (rows (apply_writes (map WIns rs) s)) = true.
Proof. intros. rewrite rows_apply_ins. apply complete_rows_app; assumption. Qed.

Lemma some_inj : forall (A : Type) (a b : A), Some a = Some b -> a = b.
Proof. intros A a b H. congruence. Qed.

Lemma post_complete : forall o s, complete s = true -> complete (post o s) = true.
Proof.
  intros o s H. change (complete_rows (rows s) = true) in H.
  change (complete_rows (rows (post o s)) = true).
  unfold post. destruct (writes_of o s) as [ws|] eqn:W; [|exact H].
  destruct o; unfold writes_of in W.
  - destruct valid; [|discriminate]. apply some_inj in W; subst ws.
    rewrite rows_apply_ins. apply complete_rows_app; [exact H|apply complete_object_rows].
  - destruct valid; [|discriminate]. apply some_inj in W; subst ws.
    rewrite rows_apply_ins. apply complete_rows_app; [exact H|].
    repeat apply complete_rows_app; try apply complete_base_rows; apply complete_name_rows.
  - destruct (valid && storable ot); [|discriminate]. apply some_inj in W; subst ws.
    rewrite rows_apply_ins. apply complete_rows_app; [exact H|apply complete_object_rows].
  - destruct (valid && ((ot =? OT_symmetric) || (ot =? OT_secret))); [|discriminate]. apply some_inj in W; subst ws.
    rewrite rows_apply_ins. apply complete_rows_app; [exact H|apply complete_object_rows].
  - destruct (live uid s); [|discriminate].
    destruct (lookup T_crypto uid (rows s)) as [st|]; [|discriminate].
    destruct (st =? ST_pre_active); [|discriminate]. apply some_inj in W; subst ws.
    apply complete_safe_writes; [reflexivity|exact H].
  - destruct (live uid s); [|discriminate].
    destruct (lookup T_crypto uid (rows s)) as [st|]; [|discriminate].
    destruct compromise.
    + destruct (st =? ST_destroyed); [apply some_inj in W; subst ws; apply complete_safe_writes; [reflexivity|exact H]|].
      destruct (st =? ST_compromised); apply some_inj in W; subst ws; apply complete_safe_writes; try reflexivity; exact H.
    + destruct (st =? ST_active); [|discriminate]. apply some_inj in W; subst ws.
      apply complete_safe_writes; [reflexivity|exact H].
  - destruct (live uid s); [|discriminate].
    destruct (lookup T_crypto uid (rows s)) as [st|].
    + destruct (st =? ST_active); [discriminate|].
      destruct (st =? ST_compromised); apply some_inj in W; subst ws; apply complete_safe_writes; try reflexivity; exact H.
    + apply some_inj in W; subst ws. apply complete_safe_writes; [reflexivity|exact H].
  - destruct valid; cbn [andb] in W; [|discriminate].
    destruct (forallb attr_write ws0) eqn:A; [|discriminate]. apply some_inj in W; subst ws.
    unfold apply_writes. rewrite fold_left_app. apply complete_safe_writes.
    + rewrite forallb_forall in *. intros w Hw. apply attr_write_safe, A, Hw.
    + change (fold_left apply_write (map WIns (object_rows (next_uid s) OT_symmetric (max_key T_names (rows s) + 1) names)) s)
        with (apply_writes (map WIns (object_rows (next_uid s) OT_symmetric (max_key T_names (rows s) + 1) names)) s).
      rewrite rows_apply_ins. apply complete_rows_app; [exact H|apply complete_object_rows].
  - destruct ok; simpl in W; [|discriminate].
    destruct (forallb attr_write ws0) eqn:A; [|discriminate]. apply some_inj in W; subst ws.
    apply complete_safe_writes; [|exact H].
    rewrite forallb_forall in *. intros w Hw. apply attr_write_safe, A, Hw.
Qed.

Lemma recovered_complete : forall o s k,
  complete s = true -> complete (recover (crash_at k (trace_of o s)) s) = true.
Proof.
  intros o s k H. destruct (atomic o s k) as [R|R]; rewrite R; [exact H|apply post_complete, H].
Qed.

Lemma posts_complete : forall ops s, complete s = true -> complete (posts ops s) = true.
Proof.
  induction ops as [|o tl IH]; intros s H; [exact H|].
  unfold posts in *. simpl. apply IH. apply post_complete, H.
Qed.

Lemma workload_recovered_complete : forall ops s k,
  complete s = true -> complete (recover (crash_at k (workload_trace ops s)) s) = true.
Proof.
  intros ops s k H. destruct (workload_crash ops s k) as [j [_ [R _]]]. rewrite R.
  apply posts_complete, H.
Qed.

(* ---------------------------------------------------------------- a refused COMMIT *)
Lemma run_no_commit : forall tr m, existsb is_commit tr = false -> dur (run tr m) = dur m.
Proof.
  induction tr as [|e tr IH]; intros m H; [reflexivity|].
  simpl in H. apply orb_false_iff in H. destruct H as [He Ht].
  unfold run in *. simpl. rewrite IH by exact Ht. destruct e; simpl in *; try reflexivity. discriminate.
Qed.

Lemma no_commit_firstn : forall k tr, existsb is_commit tr = false -> existsb is_commit (firstn k tr) = false.
Proof.
  induction k as [|k IH]; intros tr H; [reflexivity|].
  destruct tr as [|e tr]; [reflexivity|]. simpl in *.
  apply orb_false_iff in H. destruct H as [He Ht]. rewrite He. simpl. apply IH, Ht.
Qed.

Lemma no_commit_writes : forall ws, existsb is_commit (map Write ws) = false.
Proof. induction ws; simpl; auto. Qed.

(* an operation whose COMMIT the database refuses leaves nothing behind, wherever the process dies - and it is not
   acknowledged as a success (failed_commit_acks_success is false unless there was nothing to write) *)
Lemma failed_commit_absent : forall o s k w ws,
  writes_of o s = Some (w :: ws) ->
  recover (crash_at k (trace_of_failed_commit o s)) s = s /\ failed_commit_acks_success o s = false.
Proof.
  intros o s k w ws W. unfold trace_of_failed_commit, failed_commit_acks_success. rewrite W. split; [|reflexivity].
  unfold recover, crash_at. rewrite run_no_commit; [reflexivity|].
  apply no_commit_firstn. rewrite existsb_app, no_commit_writes. reflexivity.
Qed.

(* the retry that rolls back and commits again (what the model of a "commit retry" would be): acknowledged, nothing stored *)
Definition retry_trace (ws : list write) : list event := map Write ws ++ [CommitFail; Rollback; Commit; Ack].

Lemma retry_acks_nothing : forall ws s, recover (retry_trace ws) s = s /\ acked (retry_trace ws) = true.
Proof.
  intros ws s. unfold retry_trace, recover, acked. split.
  - rewrite run_app, run_writes. reflexivity.
  - rewrite existsb_app. simpl. apply orb_true_r.
Qed.

(* FIXED FINDING (regression witness): with the old run of a refused COMMIT the next request's COMMIT made the refused
   operation's changes durable together with its own - an operation answered with a failure was applied after all *)
Lemma old_refused_commit_applied_by_next : forall ws ws2 s,
  recover (old_failed_commit_trace ws ++ map Write ws2 ++ [Commit; Ack]) s = apply_writes (ws ++ ws2) s.
Proof.
  intros. unfold recover, old_failed_commit_trace. rewrite <- app_assoc, run_app, run_writes. simpl app.
  change (run (CommitFail :: Ack :: map Write ws2 ++ [Commit; Ack]) {| dur := s; pend := ws |})
    with (run (map Write ws2 ++ [Commit; Ack]) {| dur := s; pend := ws |}).
  rewrite run_app, run_writes. reflexivity.
Qed.

(* as the code is now: after a refused COMMIT the machine is back where it started - durable state unchanged, nothing
   pending - so NO later request, whatever it does, applies anything of the refused item *)
Lemma run_failed_commit : forall o s,
  run (trace_of_failed_commit o s) (mkMach s []) =
  mkMach (if failed_commit_acks_success o s then post o s else s) [].
Proof.
  intros o s. unfold trace_of_failed_commit, failed_commit_acks_success, post.
  destruct (writes_of o s) as [[|w ws]|]; try reflexivity.
  rewrite run_app, run_writes. reflexivity.
Qed.

Lemma refused_commit_never_applied_later : forall o s w ws tr,
  writes_of o s = Some (w :: ws) ->
  recover (trace_of_failed_commit o s ++ tr) s = recover tr s.
Proof.
  intros o s w ws tr W. unfold recover. rewrite run_app, run_failed_commit.
  unfold failed_commit_acks_success. rewrite W. reflexivity.
Qed.
