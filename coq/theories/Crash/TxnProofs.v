(* C09 - proofs about the transaction-log model of Txn.v. *)
From PK Require Import Crash.Txn.
From Coq Require Import ZArith List Bool Lia ZifyBool.
Import ListNotations.
Open Scope Z_scope.

(* ---------------------------------------------------------------- the machine *)
Lemma run_app : forall a b m, run (a ++ b) m = run b (run a m).
Proof. intros; unfold run; apply fold_left_app. Qed.

Lemma run_writes : forall ws d p, run (map Write ws) (mkMach d p) = mkMach d (p ++ ws).
Proof.
  induction ws as [|w ws IH]; intros d p; simpl.
  - now rewrite app_nil_r.
  - unfold run in *; simpl. rewrite IH. now rewrite <- app_assoc.
Qed.

Lemma firstn_map_write : forall k ws, firstn k (map Write ws) = map Write (firstn k ws).
Proof. intros; apply firstn_map. Qed.

(* a successful run cut at k: nothing durable up to and including the last write, everything after the commit *)
Lemma recover_cut_success : forall ws s k,
  recover (crash_at k (map Write ws ++ [Commit; Ack])) s =
  if Nat.leb k (length ws) then s else apply_writes ws s.
Proof.
  intros ws s k. unfold recover, crash_at.
  rewrite firstn_app, map_length.
  destruct (Nat.leb k (length ws)) eqn:E.
  - apply Nat.leb_le in E.
    replace (k - length ws)%nat with 0%nat by lia. simpl. rewrite app_nil_r.
    rewrite firstn_map_write, run_writes. reflexivity.
  - apply Nat.leb_gt in E.
    rewrite firstn_all2 by (rewrite map_length; lia).
    rewrite run_app, run_writes. simpl.
    destruct (k - length ws)%nat as [|[|n]] eqn:K; try lia.
    + reflexivity.
    + destruct n; reflexivity.
Qed.

Lemma recover_cut_failure : forall s k, recover (crash_at k [Rollback; Ack]) s = s.
Proof. intros s [|[|[|k]]]; reflexivity. Qed.

Lemma acked_cut_success : forall ws k,
  acked (crash_at k (map Write ws ++ [Commit; Ack])) = true -> (length ws + 2 <= k)%nat.
Proof.
  intros ws k H. unfold acked, crash_at in H.
  destruct (Nat.leb (length ws + 2) k) eqn:E; [apply Nat.leb_le in E; exact E|].
  apply Nat.leb_gt in E. exfalso.
  rewrite firstn_app, map_length, existsb_app in H.
  apply orb_true_iff in H. destruct H as [H|H].
  - rewrite firstn_map_write in H. apply existsb_exists in H. destruct H as [e [Hin He]].
    apply in_map_iff in Hin. destruct Hin as [w [<- _]]. discriminate.
  - destruct (k - length ws)%nat as [|[|n]] eqn:K; simpl in H; try discriminate. lia.
Qed.

(* ---------------------------------------------------------------- one_commit *)
Definition is_commit (e : event) : bool := match e with Commit => true | _ => false end.
Definition is_write (e : event) : bool := match e with Write _ => true | _ => false end.
Definition commits (tr : list event) : nat := length (filter is_commit tr).

Lemma filter_commit_writes : forall ws, filter is_commit (map Write ws) = [].
Proof. induction ws; simpl; auto. Qed.

Lemma filter_ack_writes : forall ws, filter is_ack (map Write ws) = [].
Proof. induction ws; simpl; auto. Qed.

(* shape of every trace: all writes, then exactly one commit, then the acknowledgement - or no write and no commit *)
Lemma trace_shape : forall o s,
  (exists ws, writes_of o s = Some ws /\ trace_of o s = map Write ws ++ [Commit; Ack]) \/
  (writes_of o s = None /\ trace_of o s = [Rollback; Ack]).
Proof.
  intros o s. unfold trace_of. destruct (writes_of o s) as [ws|].
  - left. exists ws. split; reflexivity.
  - right. split; reflexivity.
Qed.

Lemma one_commit : forall o s,
  commits (trace_of o s) = (if succeeds o s then 1%nat else 0%nat) /\
  (forall i j, nth_error (trace_of o s) j = Some Commit ->
               (exists w, nth_error (trace_of o s) i = Some (Write w)) -> (i < j)%nat) /\
  (forall i j, nth_error (trace_of o s) j = Some Commit ->
               nth_error (trace_of o s) i = Some Ack -> (j < i)%nat) /\
  count_acks (trace_of o s) = 1%nat.
Proof.
  intros o s. unfold succeeds, trace_of, commits, count_acks.
  destruct (writes_of o s) as [ws|].
  - repeat split.
    + rewrite filter_app, filter_commit_writes. reflexivity.
    + intros i j Hj [w Hi].
      destruct (Nat.lt_ge_cases j (length (map Write ws))) as [L|L].
      * rewrite nth_error_app1 in Hj by exact L.
        apply nth_error_In, in_map_iff in Hj. destruct Hj as [x [Hx _]]. discriminate.
      * destruct (Nat.lt_ge_cases i (length (map Write ws))) as [L'|L']; [lia|].
        rewrite nth_error_app2 in Hi by exact L'.
        destruct (i - length (map Write ws))%nat as [|[|n]]; simpl in Hi; try discriminate.
        destruct n; discriminate.
    + intros i j Hj Hi.
      destruct (Nat.lt_ge_cases i (length (map Write ws))) as [L|L].
      * rewrite nth_error_app1 in Hi by exact L.
        apply nth_error_In, in_map_iff in Hi. destruct Hi as [x [Hx _]]. discriminate.
      * rewrite nth_error_app2 in Hi by exact L.
        destruct (Nat.lt_ge_cases j (length (map Write ws))) as [L'|L']; [lia|].
        rewrite nth_error_app2 in Hj by exact L'.
        destruct (i - length (map Write ws))%nat as [|[|n]] eqn:Ei; simpl in Hi; try discriminate.
        -- destruct (j - length (map Write ws))%nat as [|[|m]] eqn:Ej; simpl in Hj; try discriminate.
           ++ lia.
           ++ destruct m; discriminate.
        -- destruct n; discriminate.
    + rewrite filter_app, filter_ack_writes. reflexivity.
  - repeat split.
    + intros i j Hj. destruct j as [|[|j]]; simpl in Hj; try discriminate. destruct j; discriminate.
    + intros i j Hj. destruct j as [|[|j]]; simpl in Hj; try discriminate. destruct j; discriminate.
Qed.

(* ---------------------------------------------------------------- atomic / durable *)
Lemma atomic : forall o s k,
  recover (crash_at k (trace_of o s)) s = s \/ recover (crash_at k (trace_of o s)) s = post o s.
Proof.
  intros o s k. unfold trace_of, post. destruct (writes_of o s) as [ws|].
  - rewrite recover_cut_success. destruct (Nat.leb k (length ws)); auto.
  - left. apply recover_cut_failure.
Qed.

Lemma durable : forall o s k,
  acked (crash_at k (trace_of o s)) = true -> recover (crash_at k (trace_of o s)) s = post o s.
Proof.
  intros o s k H. unfold trace_of, post in *. destruct (writes_of o s) as [ws|].
  - apply acked_cut_success in H. rewrite recover_cut_success.
    destruct (Nat.leb k (length ws)) eqn:E; [apply Nat.leb_le in E; lia|reflexivity].
  - apply recover_cut_failure.
Qed.

(* nothing becomes durable before the commit: a cut that does not include the Commit event leaves the store as it was *)
Lemma nothing_before_commit : forall o s k,
  commits (crash_at k (trace_of o s)) = 0%nat -> recover (crash_at k (trace_of o s)) s = s.
Proof.
  intros o s k H. unfold trace_of in *. destruct (writes_of o s) as [ws|].
  - rewrite recover_cut_success. destruct (Nat.leb k (length ws)) eqn:E; [reflexivity|].
    apply Nat.leb_gt in E. exfalso. unfold commits, crash_at in H.
    rewrite firstn_app, map_length, filter_app, app_length in H.
    destruct (k - length ws)%nat as [|[|n]] eqn:K; try lia; simpl in H; lia.
  - apply recover_cut_failure.
Qed.

(* a complete run leaves the machine with the post state durable and nothing pending *)
Lemma run_trace : forall o s, run (trace_of o s) (mkMach s []) = mkMach (post o s) [].
Proof.
  intros o s. unfold trace_of, post. destruct (writes_of o s) as [ws|].
  - rewrite run_app, run_writes. reflexivity.
  - reflexivity.
Qed.

(* ---------------------------------------------------------------- workloads *)
Lemma op_crash : forall o s k,
  (recover (crash_at k (trace_of o s)) s = s /\ count_acks (crash_at k (trace_of o s)) = 0%nat) \/
  (recover (crash_at k (trace_of o s)) s = post o s /\ (count_acks (crash_at k (trace_of o s)) <= 1)%nat).
Proof.
  intros o s k. unfold trace_of, post, count_acks, crash_at. destruct (writes_of o s) as [ws|].
  - pose proof (recover_cut_success ws s k) as R. unfold crash_at in R. rewrite R.
    destruct (Nat.leb k (length ws)) eqn:E.
    + left. split; [reflexivity|]. apply Nat.leb_le in E.
      rewrite firstn_app, map_length. replace (k - length ws)%nat with 0%nat by lia.
      simpl. rewrite app_nil_r, firstn_map_write, filter_ack_writes. reflexivity.
    + right. split; [reflexivity|].
      rewrite firstn_app, filter_app, app_length, firstn_map_write, filter_ack_writes. simpl.
      destruct (k - length (map Write ws))%nat as [|[|[|n]]]; simpl; lia.
  - right. split; [apply (recover_cut_failure s k)|].
    destruct k as [|[|[|k]]]; simpl; lia.
Qed.

Lemma recover_app_complete : forall o s tr, recover (trace_of o s ++ tr) s = recover tr (post o s).
Proof. intros. unfold recover. rewrite run_app, run_trace. reflexivity. Qed.

Lemma count_acks_app : forall a b, count_acks (a ++ b) = (count_acks a + count_acks b)%nat.
Proof. intros. unfold count_acks. rewrite filter_app, app_length. reflexivity. Qed.

(* crash anywhere in a workload: what is found is the state after a prefix of the operations, containing
   every acknowledged one and at most one more (the operation in flight) *)
Lemma workload_crash : forall ops s k,
  exists j, (j <= length ops)%nat /\
    recover (crash_at k (workload_trace ops s)) s = posts (firstn j ops) s /\
    (count_acks (crash_at k (workload_trace ops s)) <= j)%nat /\
    (j <= count_acks (crash_at k (workload_trace ops s)) + 1)%nat.
Proof.
  induction ops as [|o tl IH]; intros s k.
  - exists 0%nat. unfold crash_at. simpl. rewrite firstn_nil.
    split; [simpl; lia|]. split; [reflexivity|]. unfold count_acks. split; simpl; lia.
  - simpl workload_trace. unfold crash_at. rewrite firstn_app.
    destruct (Nat.leb k (length (trace_of o s))) eqn:E.
    + apply Nat.leb_le in E.
      replace (k - length (trace_of o s))%nat with 0%nat by lia.
      change (firstn 0 (workload_trace tl (post o s))) with (@nil event). rewrite app_nil_r.
      destruct (op_crash o s k) as [[R A]|[R A]]; unfold crash_at in R, A.
      * exists 0%nat. rewrite R, A. simpl.
        split; [lia|]. split; [reflexivity|]. split; lia.
      * exists 1%nat. rewrite R. simpl.
        split; [lia|]. split; [reflexivity|]. split; lia.
    + apply Nat.leb_gt in E.
      rewrite firstn_all2 by lia.
      destruct (IH (post o s) (k - length (trace_of o s))%nat) as [j [Hj [R [A1 A2]]]].
      unfold crash_at in R, A1, A2.
      exists (S j). rewrite recover_app_complete, R, count_acks_app.
      destruct (one_commit o s) as [_ [_ [_ C]]]. rewrite C.
      split; [simpl; lia|]. split; [reflexivity|]. split; lia.
Qed.

(* ---------------------------------------------------------------- key pairs *)
Lemma rows_apply_ins : forall rs s, rows (apply_writes (map WIns rs) s) = rows s ++ rs.
Proof.
  induction rs as [|r rs IH]; intros s; simpl.
  - now rewrite app_nil_r.
  - unfold apply_writes in *. simpl. rewrite IH. simpl. now rewrite <- app_assoc.
Qed.

Lemma has_app : forall t k a b, has t k (a ++ b) = has t k a || has t k b.
Proof. intros. unfold has. apply existsb_app. Qed.

Lemma fresh_not_has : forall s t k, fresh s = true -> t <= T_opaque -> next_uid s <= k -> has t k (rows s) = false.
Proof.
  intros s t k F Ht Hk. unfold fresh in F. rewrite forallb_forall in F.
  unfold has. apply not_true_is_false. intro H. apply existsb_exists in H.
  destruct H as [r [Hin Hr]]. specialize (F r Hin). unfold key_below in F. unfold at_key in Hr.
  apply andb_true_iff in Hr. destruct Hr as [H1 H2].
  destruct (r_tbl r <=? T_opaque) eqn:E; lia.
Qed.

Lemma has_base_rows : forall uid ot, has T_managed uid (base_rows uid ot) = true.
Proof. intros. unfold base_rows, has. simpl. unfold at_key. simpl. rewrite !Z.eqb_refl. reflexivity. Qed.

(* both halves of a key pair, or neither: wherever the run of CreateKeyPair is cut *)
Lemma keypair_atomic : forall valid a b s k,
  fresh s = true ->
  let r := recover (crash_at k (trace_of (OCreateKeyPair valid a b) s)) s in
  has_object (next_uid s) r = has_object (next_uid s + 1) r.
Proof.
  intros valid a b s k F r. subst r.
  destruct (atomic (OCreateKeyPair valid a b) s k) as [R|R]; rewrite R.
  - unfold has_object. rewrite !fresh_not_has; auto; unfold T_managed, T_opaque; lia.
  - unfold post, writes_of. destruct valid; cbv beta iota zeta.
    + unfold has_object. rewrite rows_apply_ins. rewrite !has_app.
      rewrite has_base_rows. rewrite (has_base_rows (next_uid s + 1) OT_private).
      rewrite !orb_true_l, !orb_true_r. reflexivity.
    + unfold has_object. rewrite !fresh_not_has; auto; unfold T_managed, T_opaque; lia.
Qed.
