(* C09 - comparator for the correspondence (tie K): the harness prints what the real engine did
   (statement/commit sequence from SQLAlchemy listeners, row dumps of reopened snapshots) and Coq
   decides whether the model of Txn.v says the same. *)
From PK Require Export Crash.Txn.
From Coq Require Import ZArith List Bool.
Import ListNotations.
Open Scope Z_scope.

(* shape of a trace: which kind of statement on which table, and where the transaction boundaries are *)
Inductive sh := SW (kind t : Z) | SC | SR | SA | SF.        (* kind: 0 INSERT, 1 UPDATE, 2 DELETE *)

Definition sh_of_write (w : write) : sh :=
  match w with
  | WIns r => SW 0 (r_tbl r)
  | WUpd t _ _ => SW 1 t
  | WDel t _ => SW 2 t
  | WTouch t _ => SW 1 t
  end.

Definition sh_of (e : event) : sh :=
  match e with Write w => sh_of_write w | Commit => SC | Rollback => SR | Ack => SA | CommitFail => SF end.

(* a ROLLBACK with nothing pending (end of a read-only transaction, e.g. the refresh SELECT after a commit,
   or a handler that raised before touching the database) has no effect on the durable state: dropped *)
Fixpoint norm (dirty : bool) (l : list sh) : list sh :=
  match l with
  | [] => []
  | SW k t :: tl => SW k t :: norm true tl
  | SC :: tl => SC :: norm false tl
  | SR :: tl => if dirty then SR :: norm false tl else norm false tl
  | SA :: tl => SA :: norm dirty tl
  | SF :: tl => SF :: norm dirty tl
  end.

Definition sh_code (x : sh) : Z :=
  match x with SW k t => 100 + 10 * t * 10 + k | SC => 1 | SR => 2 | SA => 3 | SF => 4 end.
Definition sh_eqb (a b : sh) : bool := sh_code a =? sh_code b.
Definition is_w (x : sh) : bool := match x with SW _ _ => true | _ => false end.

Definition count_sh (x : sh) (l : list sh) : nat := length (filter (sh_eqb x) l).
Definition perm_b (a b : list sh) : bool :=
  Nat.eqb (length a) (length b) && forallb (fun x => Nat.eqb (count_sh x a) (count_sh x b)) a.

(* split off the leading run of writes *)
Fixpoint take_w (l : list sh) : list sh * list sh :=
  match l with
  | x :: tl => if is_w x then let (a, b) := take_w tl in (x :: a, b) else ([], l)
  | [] => ([], [])
  end.

(* equal up to the order of the statements inside one transaction *)
Fixpoint shape_eq (fuel : nat) (a b : list sh) : bool :=
  match fuel with
  | O => false
  | S f =>
      let (wa, ra) := take_w a in
      let (wb, rb) := take_w b in
      perm_b wa wb &&
      match ra, rb with
      | [], [] => true
      | x :: ta, y :: tb => sh_eqb x y && shape_eq f ta tb
      | _, _ => false
      end
  end.

Definition row_eqb (a b : row) : bool := (r_tbl a =? r_tbl b) && (r_key a =? r_key b) && (r_val a =? r_val b).
Definition rows_sub (a b : list row) : bool := forallb (fun r => existsb (row_eqb r) b) a.
Definition store_eqb (a b : store) : bool :=
  Nat.eqb (length (rows a)) (length (rows b)) && rows_sub (rows a) (rows b) && rows_sub (rows b) (rows a)
  && (next_uid a =? next_uid b).

Inductive tcase :=
| CShape (pre : store) (o : op) (observed : list sh)                 (* real statement/commit sequence of one operation *)
| CState (pre : store) (o : op) (snaps : list (nat * store))         (* (events before the cut, rows a fresh engine finds) *)
| CWork (pre : store) (ops : list op) (lo hi : nat) (found : store)  (* killed workload: operations of acknowledged requests, plus those of
                                                                         the (batch) request in flight; rows found after restart *)
| CClass (ot : Z) (tables : list Z)                                  (* SQLAlchemy mapper tables of the class storing ot *)
| CFail (pre : store) (o : op) (observed : list sh) (success : bool) (found : store)
                                                                     (* the operation run while its COMMIT is refused ('database is locked'):
                                                                        statements seen, answer given, rows found after restart *)
| CConn (journal synchronous locking autocommit : Z).                (* durability settings of the live connection the engine uses *)

Definition zs_eqb (a b : list Z) : bool :=
  Nat.eqb (length a) (length b) && forallb (fun x => existsb (Z.eqb x) b) a && forallb (fun x => existsb (Z.eqb x) a) b.

Definition check_tcase (c : tcase) : bool :=
  match c with
  | CShape pre o observed =>
      let m := map sh_of (trace_of o pre) in
      shape_eq (S (length observed + length m)) (norm false m) (norm false observed)
  | CState pre o snaps =>
      forallb (fun p => store_eqb (recover (crash_at (fst p) (trace_of o pre)) pre) (snd p)) snaps
  | CWork pre ops lo hi found =>
      existsb (fun j => store_eqb (posts (firstn j ops) pre) found) (seq lo (S (hi - lo)))
  | CClass ot tables => zs_eqb (class_tables ot) tables
  | CFail pre o observed success found =>
      let m := map sh_of (trace_of_failed_commit o pre) in
      shape_eq (S (length observed + length m)) (norm false m) (norm false observed)
      && Bool.eqb success (failed_commit_acks_success o pre)
      && store_eqb (recover (trace_of_failed_commit o pre) pre) found
  | CConn j sy l a => settings_ok j sy l a
  end.
