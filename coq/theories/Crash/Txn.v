(* C09 - transaction-log model of the server's persistence discipline.

   The only persistent state of the server is the SQLite file.  This file
   models it as a set of rows (table, key, value) plus the AUTOINCREMENT
   counter of managed_objects, and models one run of a state-changing
   operation as a list of events

        Write w | Commit | Rollback | Ack

   The durable state after a crash at position k of a trace is the state
   after the last Commit among the first k events (SQLite's atomic commit:
   TRUSTED, see notes/C09.md).  Definitions only; proofs are in TxnProofs.v. *)
From Coq Require Import ZArith List Bool.
Import ListNotations.
Open Scope Z_scope.

(* ---------------------------------------------------------------- tables *)
Definition T_managed  := 0.   (* managed_objects        key uid   val object_type *)
Definition T_crypto   := 1.   (* crypto_objects         key uid   val state       *)
Definition T_keys     := 2.   (* keys                   key uid   val 0           *)
Definition T_sym      := 3.   (* symmetric_keys                                    *)
Definition T_pub      := 4.   (* public_keys                                       *)
Definition T_priv     := 5.   (* private_keys                                      *)
Definition T_split    := 6.   (* split_keys                                        *)
Definition T_cert     := 7.   (* certificates                                      *)
Definition T_x509     := 8.   (* x509_certificates                                 *)
Definition T_secret   := 9.   (* secret_data_objects                               *)
Definition T_opaque   := 10.  (* opaque_objects                                    *)
Definition T_names    := 11.  (* managed_object_names   key id    val mo_uid      *)
Definition T_groups   := 12.  (* object_groups          key id    val 0           *)
Definition T_groupmap := 13.  (* object_group_map       key rowid val object uid  *)
Definition T_app      := 14.  (* app_specific_info      key id    val 0           *)
Definition T_appmap   := 15.  (* app_specific_info_map  key rowid val object uid  *)

(* KMIP ObjectType / State enumeration values (checked against gen/Enums.v by the harness) *)
Definition OT_certificate := 1.
Definition OT_symmetric   := 2.
Definition OT_public      := 3.
Definition OT_private     := 4.
Definition OT_split       := 5.
Definition OT_secret      := 7.
Definition OT_opaque      := 8.
Definition ST_pre_active  := 1.
Definition ST_active      := 2.
Definition ST_deactivated := 3.
Definition ST_compromised := 4.
Definition ST_destroyed   := 5.
Definition ST_destroyed_compromised := 6.

(* joined-table inheritance: the tables (besides managed_objects) holding one row per object of a type.
   Tied to kmip/pie/objects.py by reflection on the SQLAlchemy mappers on every run. *)
Definition class_tables (ot : Z) : list Z :=
  if ot =? OT_symmetric then [T_crypto; T_keys; T_sym]
  else if ot =? OT_public then [T_crypto; T_keys; T_pub]
  else if ot =? OT_private then [T_crypto; T_keys; T_priv]
  else if ot =? OT_split then [T_crypto; T_keys; T_split]
  else if ot =? OT_certificate then [T_crypto; T_cert; T_x509]
  else if ot =? OT_secret then [T_crypto; T_secret]
  else if ot =? OT_opaque then [T_opaque]
  else [].

Definition storable (ot : Z) : bool := negb (match class_tables ot with [] => true | _ => false end).

(* ---------------------------------------------------------------- store *)
Definition row := (Z * Z * Z)%type.
Definition r_tbl (r : row) : Z := fst (fst r).
Definition r_key (r : row) : Z := snd (fst r).
Definition r_val (r : row) : Z := snd r.

Record store := mkStore { rows : list row; next_uid : Z }.

Inductive write :=
| WIns (r : row)
| WUpd (t k v : Z)
| WDel (t k : Z)
| WTouch (t k : Z).     (* UPDATE of columns outside the projection (name text, sensitive flag, name_index): row set unchanged *)

Definition at_key (t k : Z) (r : row) : bool := (r_tbl r =? t) && (r_key r =? k).

Definition apply_rows (w : write) (rs : list row) : list row :=
  match w with
  | WIns r => rs ++ [r]
  | WUpd t k v => map (fun r => if at_key t k r then (t, k, v) else r) rs
  | WDel t k => filter (fun r => negb (at_key t k r)) rs
  | WTouch _ _ => rs
  end.

(* inserting into managed_objects advances the AUTOINCREMENT counter (sqlite_sequence) in the same transaction *)
Definition apply_next (w : write) (n : Z) : Z :=
  match w with
  | WIns r => if r_tbl r =? T_managed then Z.max n (r_key r + 1) else n
  | _ => n
  end.

Definition apply_write (s : store) (w : write) : store :=
  mkStore (apply_rows w (rows s)) (apply_next w (next_uid s)).

Definition apply_writes (ws : list write) (s : store) : store := fold_left apply_write ws s.

Definition has (t k : Z) (rs : list row) : bool := existsb (at_key t k) rs.

Fixpoint lookup (t k : Z) (rs : list row) : option Z :=
  match rs with
  | [] => None
  | r :: tl => if at_key t k r then Some (r_val r) else lookup t k tl
  end.

(* rowid allocation of an INTEGER PRIMARY KEY without AUTOINCREMENT: largest key in the table + 1 *)
Definition max_key (t : Z) (rs : list row) : Z :=
  fold_left (fun m r => if r_tbl r =? t then Z.max m (r_key r) else m) rs 0.

(* ---------------------------------------------------------------- events and crash/recovery *)
Inductive event := Write (w : write) | Commit | Rollback | Ack
  | CommitFail.     (* COMMIT refused by the database (e.g. 'database is locked'): nothing becomes durable, the changes stay pending *)

Record mach := mkMach { dur : store; pend : list write }.

Definition step (m : mach) (e : event) : mach :=
  match e with
  | Write w  => mkMach (dur m) (pend m ++ [w])
  | Commit   => mkMach (apply_writes (pend m) (dur m)) []
  | Rollback => mkMach (dur m) []
  | Ack      => m
  | CommitFail => m
  end.

Definition run (tr : list event) (m : mach) : mach := fold_left step tr m.

Definition crash_at (k : nat) (tr : list event) : list event := firstn k tr.

(* what a restarted server finds: the durable state; everything pending is lost *)
Definition recover (tr : list event) (s : store) : store := dur (run tr (mkMach s [])).

Definition is_ack (e : event) : bool := match e with Ack => true | _ => false end.
Definition acked (tr : list event) : bool := existsb is_ack tr.

(* ---------------------------------------------------------------- operations *)
Inductive op :=
| OCreate (valid : bool) (names : nat)                          (* Create: symmetric key                           *)
| OCreateKeyPair (valid : bool) (pub_names priv_names : nat)     (* CreateKeyPair: public key first, then private   *)
| ORegister (valid : bool) (ot : Z) (names : nat)                (* Register of any stored type                     *)
| ODeriveKey (valid : bool) (ot : Z) (names : nat)               (* DeriveKey: symmetric key or secret data         *)
| OActivate (uid : Z)
| ORevoke (uid : Z) (compromise : bool)
| ODestroy (uid : Z)
| OCreateWith (valid : bool) (names : nat) (ws : list write)      (* Create with link-table attributes (object groups, application
                                                                    specific information): object rows modelled, link rows observed *)
| OAttr (ok : bool) (ws : list write).                           (* Set/Modify/DeleteAttribute and creations with link-table
                                                                    attributes: row changes observed, discipline modelled *)

Definition name_rows (uid : Z) (first_id : Z) (n : nat) : list row :=
  map (fun i => (T_names, first_id + Z.of_nat i, uid)) (seq 0 n).

Definition base_rows (uid ot : Z) : list row :=
  (T_managed, uid, ot) :: map (fun t => (t, uid, if t =? T_crypto then ST_pre_active else 0)) (class_tables ot).

Definition object_rows (uid ot : Z) (first_name_id : Z) (names : nat) : list row :=
  base_rows uid ot ++ name_rows uid first_name_id names.

Definition live (uid : Z) (s : store) : bool := has T_managed uid (rows s).

(* attribute operations touch only attribute tables (names, groups, application specific info and the two maps) *)
Definition attr_table (t : Z) : bool := (T_names <=? t) && (t <=? T_appmap).
Definition attr_write (w : write) : bool :=
  match w with
  | WIns r => attr_table (r_tbl r)
  | WUpd t _ _ => attr_table t
  | WDel t _ => attr_table t
  | WTouch t _ => attr_table t || (t =? T_managed)
  end.

(* None = the handler raises before commit (nothing written; session rolled back) *)
Definition writes_of (o : op) (s : store) : option (list write) :=
  let uid := next_uid s in
  let nid := max_key T_names (rows s) + 1 in
  match o with
  | OCreate valid n =>
      if valid then Some (map WIns (object_rows uid OT_symmetric nid n)) else None
  | OCreateKeyPair valid npub npriv =>
      if valid then
        Some (map WIns (base_rows uid OT_public ++ base_rows (uid + 1) OT_private
                        ++ name_rows uid nid npub ++ name_rows (uid + 1) (nid + Z.of_nat npub) npriv))
      else None
  | ORegister valid ot n =>
      if valid && storable ot then Some (map WIns (object_rows uid ot nid n)) else None
  | ODeriveKey valid ot n =>
      if valid && ((ot =? OT_symmetric) || (ot =? OT_secret)) then Some (map WIns (object_rows uid ot nid n)) else None
  | OActivate u =>
      if live u s then
        match lookup T_crypto u (rows s) with
        | Some st => if st =? ST_pre_active then Some [WUpd T_crypto u ST_active] else None
        | None => None
        end
      else None
  | ORevoke u compromise =>
      if live u s then
        match lookup T_crypto u (rows s) with
        | Some st =>
            if compromise then
              (if st =? ST_destroyed then Some [WUpd T_crypto u ST_destroyed_compromised]
               else if st =? ST_compromised then Some []      (* value unchanged: the ORM emits no UPDATE, still commits *)
               else Some [WUpd T_crypto u ST_compromised])
            else if st =? ST_active then Some [WUpd T_crypto u ST_deactivated] else None
        | None => None
        end
      else None
  | ODestroy u =>
      if live u s then
        match lookup T_crypto u (rows s) with
        | Some st =>
            if st =? ST_active then None
            else if st =? ST_compromised then Some [WUpd T_crypto u ST_destroyed_compromised; WDel T_managed u]
            else Some [WDel T_managed u]
        | None => Some [WDel T_managed u]
        end
      else None
  | OCreateWith valid n ws =>
      if valid && forallb attr_write ws then Some (map WIns (object_rows uid OT_symmetric nid n) ++ ws) else None
  | OAttr ok ws => if ok && forallb attr_write ws then Some ws else None
  end.

Definition trace_of (o : op) (s : store) : list event :=
  match writes_of o s with
  | Some ws => map Write ws ++ [Commit; Ack]
  | None => [Rollback; Ack]
  end.

(* the same handler when the database refuses its COMMIT: the exception leaves the handler, the batch item is answered
   with a failure and _process_batch rolls the data session back (`if error_occurred: self._data_session.rollback()`,
   /repo 52cb625).  Before that repair nothing rolled the DBAPI transaction back: see old_failed_commit_trace. *)
Definition trace_of_failed_commit (o : op) (s : store) : list event :=
  match writes_of o s with
  | Some [] => [Commit; Ack]                  (* nothing to write: the COMMIT needs no write lock and cannot be refused *)
  | Some ws => map Write ws ++ [CommitFail; Rollback; Ack]
  | None => [Rollback; Ack]
  end.

(* the run of a refused COMMIT as the code was before 52cb625 (kept as the regression witness of the fixed finding):
   SQLAlchemy marks its root transaction closed after the failed COMMIT, Session.close() and the pool's reset-on-return
   skip the ROLLBACK, the changes stay PENDING on the pooled connection *)
Definition old_failed_commit_trace (ws : list write) : list event := map Write ws ++ [CommitFail; Ack].

(* did the operation answer SUCCESS in that run? *)
Definition failed_commit_acks_success (o : op) (s : store) : bool :=
  match writes_of o s with Some [] => true | _ => false end.

(* the durability settings of the connection that `recover` presupposes (SQLite defaults):
   journal_mode DELETE/TRUNCATE/PERSIST (an on-disk rollback journal) or WAL, synchronous >= NORMAL... FULL by default,
   locking_mode NORMAL, driver not in autocommit mode (one transaction per operation) *)
Definition J_delete := 0.  Definition J_truncate := 1.  Definition J_persist := 2.  Definition J_wal := 3.
Definition J_memory := 4.  Definition J_off := 5.
Definition settings_ok (journal synchronous locking autocommit : Z) : bool :=
  (journal <=? J_wal) && (0 <=? journal) && (2 <=? synchronous) && (locking =? 0) && (autocommit =? 0).

Definition post (o : op) (s : store) : store :=
  match writes_of o s with
  | Some ws => apply_writes ws s
  | None => s
  end.

Definition succeeds (o : op) (s : store) : bool :=
  match writes_of o s with Some _ => true | None => false end.

(* workloads: operations one after the other; each starts from the state its predecessor left *)
Fixpoint workload_trace (ops : list op) (s : store) : list event :=
  match ops with
  | [] => []
  | o :: tl => trace_of o s ++ workload_trace tl (post o s)
  end.

Definition posts (ops : list op) (s : store) : store := fold_left (fun s o => post o s) ops s.

Definition count_acks (tr : list event) : nat := length (filter is_ack tr).

(* ---------------------------------------------------------------- invariant: no partial object *)
(* every object listed in managed_objects has its row in each table of its class *)
Definition complete_row (rs : list row) (r : row) : bool :=
  if r_tbl r =? T_managed then forallb (fun t => has t (r_key r) rs) (class_tables (r_val r)) else true.
Definition complete (s : store) : bool := forallb (complete_row (rows s)) (rows s).

(* all per-object keys were issued by the counter (C07's invariant, as far as this property needs it) *)
Definition key_below (n : Z) (r : row) : bool := if r_tbl r <=? T_opaque then r_key r <? n else true.
Definition fresh (s : store) : bool := forallb (key_below (next_uid s)) (rows s).

Definition has_object (uid : Z) (s : store) : bool := has T_managed uid (rows s).
