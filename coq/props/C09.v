(* C09 - crash consistency: acknowledged operations survive, others are all-or-nothing.
   Theorems about the transaction-log model (theories/Crash/Txn.v).  PARTIAL: SQLite's atomic commit
   (journal, fsync, file system) is trusted - `recover` IS that assumption; see notes/C09.md. *)
From PK Require Import Crash.Txn Crash.TxnProofs.
From Coq Require Import ZArith List Bool.
Import ListNotations.
Open Scope Z_scope.

(* every state-changing run: all writes, then exactly one commit, then the acknowledgement; refusals write and commit nothing *)
Theorem c09_one_commit : forall o s,
  commits (trace_of o s) = (if succeeds o s then 1%nat else 0%nat) /\
  (forall i j, nth_error (trace_of o s) j = Some Commit ->
               (exists w, nth_error (trace_of o s) i = Some (Write w)) -> (i < j)%nat) /\
  (forall i j, nth_error (trace_of o s) j = Some Commit ->
               nth_error (trace_of o s) i = Some Ack -> (j < i)%nat) /\
  count_acks (trace_of o s) = 1%nat.
Proof. exact one_commit. Qed.
Print Assumptions c09_one_commit.

(* process death at ANY position k of the run of ANY operation on ANY store: wholly absent or wholly applied *)
Theorem c09_atomic : forall o s k,
  recover (crash_at k (trace_of o s)) s = s \/ recover (crash_at k (trace_of o s)) s = post o s.
Proof. exact atomic. Qed.
Print Assumptions c09_atomic.

(* an operation whose success had been reported is in effect after restart *)
Theorem c09_durable : forall o s k,
  acked (crash_at k (trace_of o s)) = true -> recover (crash_at k (trace_of o s)) s = post o s.
Proof. exact durable. Qed.
Print Assumptions c09_durable.

Theorem c09_nothing_before_commit : forall o s k,
  commits (crash_at k (trace_of o s)) = 0%nat -> recover (crash_at k (trace_of o s)) s = s.
Proof. exact nothing_before_commit. Qed.
Print Assumptions c09_nothing_before_commit.

(* never half of a key pair *)
Theorem c09_keypair_atomic : forall valid a b s k,
  fresh s = true ->
  let r := recover (crash_at k (trace_of (OCreateKeyPair valid a b) s)) s in
  has_object (next_uid s) r = has_object (next_uid s + 1) r.
Proof. exact keypair_atomic. Qed.
Print Assumptions c09_keypair_atomic.

(* never a partial object: an object listed after recovery has its row in every table of its class *)
Theorem c09_no_partial_object : forall o s k,
  complete s = true ->
  complete (recover (crash_at k (trace_of o s)) s) = true.
Proof. exact recovered_complete. Qed.
Print Assumptions c09_no_partial_object.

(* workloads of any length, crash anywhere: the survivor is the state after a prefix of the operations that
   contains every acknowledged one and at most the one in flight *)
Theorem c09_workload_crash : forall ops s k,
  exists j, (j <= length ops)%nat /\
    recover (crash_at k (workload_trace ops s)) s = posts (firstn j ops) s /\
    (count_acks (crash_at k (workload_trace ops s)) <= j)%nat /\
    (j <= count_acks (crash_at k (workload_trace ops s)) + 1)%nat.
Proof. exact workload_crash. Qed.
Print Assumptions c09_workload_crash.

(* and the survivor of a workload started on a sound store is sound (can be listed: no dangling object) *)
Theorem c09_workload_complete : forall ops s k,
  complete s = true ->
  complete (recover (crash_at k (workload_trace ops s)) s) = true.
Proof. exact workload_recovered_complete. Qed.
Print Assumptions c09_workload_complete.

(* a COMMIT the database refuses ('database is locked'): nothing is stored at any cut, and the answer is not SUCCESS *)
Theorem c09_failed_commit_absent : forall o s k w ws,
  writes_of o s = Some (w :: ws) ->
  recover (crash_at k (trace_of_failed_commit o s)) s = s /\ failed_commit_acks_success o s = false.
Proof. exact failed_commit_absent. Qed.
Print Assumptions c09_failed_commit_absent.

(* after a refused COMMIT nothing of the item is applied by ANY later request (any continuation `tr` of the run) *)
Theorem c09_refused_commit_never_applied_later : forall o s w ws tr,
  writes_of o s = Some (w :: ws) ->
  recover (trace_of_failed_commit o s ++ tr) s = recover tr s.
Proof. exact refused_commit_never_applied_later. Qed.
Print Assumptions c09_refused_commit_never_applied_later.

(* FIXED FINDING C09-refused-commit-left-pending (/repo 52cb625), regression witness about the OLD run (no rollback after
   the refused COMMIT): the next request's COMMIT applied the refused operation's changes *)
Theorem c09_old_refused_commit_applied_by_next_refuted : forall ws ws2 s,
  recover (old_failed_commit_trace ws ++ map Write ws2 ++ [Commit; Ack]) s = apply_writes (ws ++ ws2) s.
Proof. exact old_refused_commit_applied_by_next. Qed.
Print Assumptions c09_old_refused_commit_applied_by_next_refuted.

(* why the order matters: rolling back and committing again acknowledges an operation of which nothing is stored *)
Theorem c09_retry_after_rollback_refuted : forall ws s,
  recover (retry_trace ws) s = s /\ acked (retry_trace ws) = true.
Proof. exact retry_acks_nothing. Qed.
Print Assumptions c09_retry_after_rollback_refuted.

(* ---- the hypotheses are satisfiable by non-trivial states, and the theorems are not vacuous *)
Definition ex_store : store :=
  mkStore [(T_managed, 1, OT_symmetric); (T_crypto, 1, ST_pre_active); (T_keys, 1, 0); (T_sym, 1, 0); (T_names, 1, 1);
           (T_managed, 2, OT_opaque); (T_opaque, 2, 0)] 3.

Example ex_store_sound : complete ex_store = true /\ fresh ex_store = true.
Proof. vm_compute. split; reflexivity. Qed.

(* a key pair run: 8 writes (two names), cut in the middle -> nothing; cut after the commit -> both *)
Example ex_keypair_cut_mid :
  recover (crash_at 5 (trace_of (OCreateKeyPair true 1 1) ex_store)) ex_store = ex_store.
Proof. vm_compute. reflexivity. Qed.

Example ex_keypair_cut_after_commit :
  let r := recover (crash_at 11 (trace_of (OCreateKeyPair true 1 1) ex_store)) ex_store in
  has_object 3 r = true /\ has_object 4 r = true /\ acked (crash_at 11 (trace_of (OCreateKeyPair true 1 1) ex_store)) = false.
Proof. vm_compute. repeat split; reflexivity. Qed.

Example ex_acked_durable :
  acked (crash_at 3 (trace_of (OActivate 1) ex_store)) = true /\
  lookup T_crypto 1 (rows (recover (crash_at 3 (trace_of (OActivate 1) ex_store)) ex_store)) = Some ST_active.
Proof. vm_compute. split; reflexivity. Qed.

(* the discipline matters: a run that commits between the two halves of a key pair (what the code would do with
   a commit after each add) leaves half a pair behind when cut after the first commit *)
Definition split_keypair_trace (s : store) : list event :=
  map (fun r => Write (WIns r)) (base_rows (next_uid s) OT_public) ++ [Commit] ++
  map (fun r => Write (WIns r)) (base_rows (next_uid s + 1) OT_private) ++ [Commit; Ack].

Theorem c09_two_commits_refuted :
  exists s k, fresh s = true /\
    let r := recover (crash_at k (split_keypair_trace s)) s in
    has_object (next_uid s) r = true /\ has_object (next_uid s + 1) r = false.
Proof. exists ex_store, 5%nat. vm_compute. repeat split; reflexivity. Qed.
Print Assumptions c09_two_commits_refuted.

Example ex_failed_commit_hyp : writes_of (OActivate 1) ex_store = Some [WUpd T_crypto 1 ST_active].
Proof. vm_compute. reflexivity. Qed.

