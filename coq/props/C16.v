From PK Require Import Version.Version Version.Fields Version.VersionCases.
Theorem c16_placeholder : True. Proof. exact I. Qed.
Print Assumptions c16_placeholder.
