(* C16 - Protocol version is honoured: echo, refusal, feature gating.
   Model: PK.Version.Version / Fields over the tables regenerated from /repo (PKGen.Versions, VersionFields,
   AttrRuleTable); independent tables: PK.Version.Spec (hand-written from the KMIP specifications). *)
From Coq Require Import ZArith List String Bool Sorting.Sorted.
From PKGen Require Import Enums AttrRuleTable Versions VersionFields.
From PK Require Import Version.Version Version.Fields Version.Spec Version.VersionProofs Version.SpecProofs.
From PK Require Codec.Schema Version.SchemaFields.
From PKGen Require Schemas.
Import ListNotations.
Open Scope Z_scope.
Open Scope string_scope.

(* ---------------------------------------------------------------- echo *)
(* every supported version, every batch, every handler behaviour: the answer's header carries the request's version *)
Theorem version_echo : forall St Payload handler (req : request Payload) (st : St),
  In (rq_version req) supported_versions -> rq_header_reject req = None ->
  exists st' os tr, process_request St Payload handler req st = (st', RespMessage (rq_version req) os, tr).
Proof. exact version_echo_engine. Qed.
Print Assumptions version_echo.
Example version_echo_hyp : In (1, 3) supported_versions /\ In (2, 0) supported_versions.
Proof. split; vm_compute; tauto. Qed.

(* what the session sends, error answers included, whenever the codec knows the version *)
Theorem version_echo_wire : forall St Payload handler known (req : request Payload) (st : St),
  known (rq_version req) = true ->
  match snd (fst (session_handle St Payload handler known req st)) with
  | WireError hv _ => hv = rq_version req
  | WireMessage hv _ => hv = rq_version req
  end.
Proof. exact version_echo_session. Qed.
Print Assumptions version_echo_wire.

(* every answer path of the session behind the decoding of the request - ordinary answer, request-level refusal by the
   engine, failed client authentication, unexpected engine failure, response that cannot be encoded, response larger than
   the Maximum Response Size - carries the request's version *)
Theorem version_echo_wire_all_paths : forall St Payload handler known f (req : request Payload) (st : St),
  known (rq_version req) = true ->
  wire_version (snd (fst (session_answer St Payload handler known f req st))) = rq_version req.
Proof. exact version_echo_all_paths. Qed.
Print Assumptions version_echo_wire_all_paths.

(* ---------------------------------------------------------------- refusal *)
(* any (major, minor) outside the list: InvalidMessage, the state is returned untouched, no handler is entered *)
Theorem unsupported_refused : forall St Payload handler (req : request Payload) (st : St),
  ~ In (rq_version req) supported_versions ->
  process_request St Payload handler req st = (st, RespRaised R_INVALID_MESSAGE, []).
Proof. exact unsupported_refused_engine. Qed.
Print Assumptions unsupported_refused.
Example unsupported_refused_hyp : ~ In (1, 5) supported_versions /\ ~ In (1, 10) supported_versions /\ ~ In (0, 9) supported_versions.
Proof. repeat split; intro H; vm_compute in H; repeat (destruct H as [H|H]; [discriminate H|]); exact H. Qed.

Theorem unsupported_refused_wire : forall St Payload handler known (req : request Payload) (st : St),
  ~ In (rq_version req) supported_versions ->
  exists hv, session_handle St Payload handler known req st = (st, WireError hv R_INVALID_MESSAGE, []).
Proof. exact unsupported_refused_session. Qed.
Print Assumptions unsupported_refused_wire.

Theorem accepted_iff_listed : forall v, version_accepted v = true <-> In v supported_versions.
Proof. exact version_accepted_iff. Qed.
Print Assumptions accepted_iff_listed.

(* ---------------------------------------------------------------- operations *)
(* min_version op > v  ->  OperationNotSupported, state untouched, handler not entered *)
Theorem op_gated : forall St Payload handler v (it : item Payload) (st : St) mv,
  In v supported_versions -> op_min_version (it_op it) = Some mv -> ver_ltb v mv = true ->
  run_item St Payload handler v it st = (st, OutErr R_OPERATION_NOT_SUPPORTED, []).
Proof.
  intros St Payload handler v it st mv Hv Hm Hlt.
  exact (run_item_refused St Payload handler v it st (op_gated_gate v (it_op it) mv Hv Hm Hlt)).
Qed.
Print Assumptions op_gated.
Example op_gated_hyp : op_min_version 31 = Some (1, 2) /\ ver_ltb (1, 1) (1, 2) = true /\ op_min_version 49 = Some (2, 0).
Proof. repeat split; vm_compute; reflexivity. Qed.

(* an operation the dispatcher does not know is refused the same way under every version *)
Theorem op_undispatched : forall St Payload handler v (it : item Payload) (st : St),
  op_min_version (it_op it) = None ->
  run_item St Payload handler v it st = (st, OutErr R_OPERATION_NOT_SUPPORTED, []).
Proof.
  intros St Payload handler v it st H; unfold run_item; rewrite (undispatched_gate v _ H); reflexivity.
Qed.
Print Assumptions op_undispatched.

(* the exact characterisation of the gate for supported versions *)
Theorem op_gate_exact : forall v op, In v supported_versions ->
  match lookup_handler op with
  | None => gate v op = GateUnknownOp /\ op_min_version op = None
  | Some h => exists mv, op_min_version op = Some mv /\ gate v op = if ver_ltb v mv then GateVersion h else GateRun h
  end.
Proof. exact gate_char. Qed.
Print Assumptions op_gate_exact.

(* against the specification table: under v no operation introduced after v gets through *)
Theorem op_gated_by_spec : forall v op s, In v supported_versions -> spec_op_min op = Some s -> ver_ltb v s = true ->
  gate_runs v op = false.
Proof. exact op_gated_spec. Qed.
Print Assumptions op_gated_by_spec.

(* all requests and batches (induction over the batch): whatever is entered belongs to an operation of the batch that the
   specification already had in the request's version *)
Theorem op_never_entered_early : forall St Payload handler (req : request Payload) (st : St) h,
  In h (snd (process_request St Payload handler req st)) ->
  In (rq_version req) supported_versions /\
  exists it, In it (rq_items req) /\ lookup_handler (it_op it) = Some h /\
             forall s, spec_op_min (it_op it) = Some s -> ver_leb s (rq_version req) = true.
Proof. exact handlers_entered_respect_spec. Qed.
Print Assumptions op_never_entered_early.

(* the decorator compares floats; with one-digit minors that is the version order ... *)
Theorem decorator_comparison_sound : forall a b : ver, 0 <= snd a < 10 -> 0 <= snd b < 10 ->
  float_ltb a b = ver_ltb a b /\ float_eqb a b = ver_eqb a b.
Proof.
  intros a b [Ha0 Ha] [Hb0 Hb]; split;
    [apply float_ltb_one_digit | apply float_eqb_one_digit]; assumption.
Qed.
Print Assumptions decorator_comparison_sound.
Theorem decorator_inputs_one_digit :
  forallb one_digit supported_versions = true /\ forallb (fun e => forallb one_digit (snd e)) handler_min_versions = true.
Proof. exact (conj supported_one_digit decorator_args_one_digit). Qed.
(* ... and stops being it as soon as a minor reaches 10 (KMIP 1.10 would read as 1.1) *)
Theorem decorator_comparison_general_refuted : exists a b, float_ltb a b = true /\ ver_ltb a b = false.
Proof. exists (1, 10), (1, 2); exact float_cmp_wrong_beyond_minor_9. Qed.

(* ---------------------------------------------------------------- Query *)
Theorem query_ops_available : forall v op, In v supported_versions -> In op (query_ops v) ->
  (exists h, gate v op = GateRun h) /\
  (exists mv, op_min_version op = Some mv /\ ver_leb mv v = true) /\
  (exists s, spec_op_min op = Some s /\ ver_leb s v = true).
Proof. exact query_ops_available_lemma. Qed.
Print Assumptions query_ops_available.
Example query_ops_hyp : In 31 (query_ops (1, 2)) /\ ~ In 31 (query_ops (1, 1)) /\ In 30 (query_ops (1, 1)).
Proof.
  repeat split; try (vm_compute; tauto).
  intro H; vm_compute in H; repeat (destruct H as [H|H]; [discriminate H|]); exact H.
Qed.

(* ---------------------------------------------------------------- DiscoverVersions *)
Theorem discover_versions_sound : forall client,
  (forall v, In v (discover client) ->
     In v supported_versions /\ version_accepted v = true /\ (client <> [] -> In v client))
  /\ StronglySorted newer (discover client)
  /\ (forall v, In v supported_versions -> (client = [] \/ In v client) -> In v (discover client)).
Proof. exact discover_sound. Qed.
Print Assumptions discover_versions_sound.

(* ---------------------------------------------------------------- attributes *)
(* in a template attribute (the walk of _process_template_attribute: version gate and multiplicity rules position by
   position): an attribute introduced after v - or unknown to the table - anywhere in the template makes the walk fail,
   whatever else the template holds; when it fails with the version error, the attribute named is one of the template
   that v does not have (the first such); when it succeeds every attribute of the template is one v has *)
Theorem attr_gated_template : forall v items seen n r,
  In n (map ti_name items) -> find_rule n = Some r -> ver_ltb v (ar_version_added r) = true ->
  template_walk v seen items <> TOk.
Proof.
  intros v items seen n r Hin Hr Hlt.
  exact (template_walk_rejects v items seen n Hin (attr_later_unsupported v n r Hr Hlt)).
Qed.
Print Assumptions attr_gated_template.
Example attr_gated_template_hyp :
  exists r, find_rule "Sensitive" = Some r /\ ver_ltb (1, 3) (ar_version_added r) = true
    /\ template_walk (1, 3) [] [("Name", true, false); ("Sensitive", false, false)] = TUnsupported "Sensitive"
    /\ template_walk (1, 0) [] [("State", false, false); ("State", false, false); ("Sensitive", false, false)] = TOther
    /\ template_walk (1, 4) [] [("Name", true, false); ("Sensitive", false, false)] = TOk.
Proof. eexists; repeat split; vm_compute; reflexivity. Qed.

Theorem attr_gated_template_unknown : forall v items seen n,
  In n (map ti_name items) -> find_rule n = None -> template_walk v seen items <> TOk.
Proof.
  intros v items seen n Hin Hr. exact (template_walk_rejects v items seen n Hin (attr_unknown_unsupported v n Hr)).
Qed.
Print Assumptions attr_gated_template_unknown.

Theorem attr_gated_template_error_names_it : forall v items seen m, template_walk v seen items = TUnsupported m ->
  In m (map ti_name items) /\ attr_supported v m = false /\ template_gate v (map ti_name items) = Some m.
Proof. exact template_walk_unsupported. Qed.
Print Assumptions attr_gated_template_error_names_it.

Theorem attr_gated_template_accepted : forall v items seen, template_walk v seen items = TOk ->
  forall n, In n (map ti_name items) -> attr_supported v n = true.
Proof. exact template_walk_ok. Qed.
Print Assumptions attr_gated_template_accepted.

(* GetAttributes / GetAttributeList: whatever is reported is in the table, was added no later than v and is not
   deprecated at v - for every object (held), every requested list *)
Theorem attr_gated_reported : forall v held cands n, In n (reported v held cands) ->
  In n cands /\ held n = true /\
  exists r, find_rule n = Some r /\ ver_leb (ar_version_added r) v = true /\
            (forall d, ar_version_deprecated r = Some d -> ver_ltb v d = true).
Proof. exact reported_sound. Qed.
Print Assumptions attr_gated_reported.
Example attr_gated_reported_hyp :
  reported (1, 3) (fun _ => true) ["Sensitive"; "State"; "Operation Policy Name"] = ["State"; "Operation Policy Name"]
  /\ reported (2, 0) (fun _ => true) ["Sensitive"; "State"; "Operation Policy Name"] = ["Sensitive"; "State"].
Proof. split; vm_compute; reflexivity. Qed.

(* against the specification table *)
Theorem attr_gated_by_spec : forall v n, ver_ltb v (spec_attr_min n) = true -> attr_supported v n = false.
Proof. exact attr_gated_spec. Qed.
Print Assumptions attr_gated_by_spec.

(* attribute names used as Locate filters (full statement; it was refuted before fix 1a2a215, finding
   C16-locate-attr-not-gated): a filter on an attribute introduced after v makes the request fail at the gate, and
   whatever passes the gate consists of attributes v has *)
Theorem attr_gated_locate : forall v names n,
  In n names -> ver_ltb v (spec_attr_min n) = true ->
  exists m, locate_filter_gate v names = Some m /\ In m names /\ attr_supported v m = false.
Proof. exact locate_filter_gated. Qed.
Print Assumptions attr_gated_locate.
Example attr_gated_locate_hyp : In "Sensitive" ["Name"; "Sensitive"] /\ ver_ltb (1, 0) (spec_attr_min "Sensitive") = true
  /\ locate_filter_gate (1, 0) ["Name"; "Sensitive"] = Some "Sensitive" /\ locate_filter_gate (1, 4) ["Name"; "Sensitive"] = None.
Proof. repeat split; vm_compute; tauto. Qed.
Theorem attr_gated_locate_passed : forall v names, locate_filter_gate v names = None ->
  forall n, In n names -> attr_supported v n = true.
Proof. exact locate_filter_passes. Qed.
Print Assumptions attr_gated_locate_passed.

(* ---------------------------------------------------------------- message fields *)
(* for every (class, tag, v0) of the specification table and every KMIPVersion v: the read method of the class reaches
   the tag exactly when v >= v0 *)
Theorem field_gated : forall cls t v0 v, In (cls, t, v0) SpecFieldVersions -> In v kmip_versions ->
  tag_allowed cls v t = ver_leb v0 v.
Proof. exact field_gated_lemma. Qed.
Print Assumptions field_gated.

(* a later field inside a request on the wire (full statement; refuted before fix 0c33f6b, finding
   C16-locate-unread-items): a request of version v carrying an item the specification introduces after v is not
   processed.  It rests on `tolerant_readers = []`, computed on the regenerated table: if a reader stops checking for
   unread items again, this obligation breaks and the wire family of the harness gives the request. *)
Theorem field_gated_wire : forall cls t v0 v, In (cls, t, v0) SpecFieldVersions -> In v kmip_versions -> ver_ltb v v0 = true ->
  wire_processed cls v t = false.
Proof. exact wire_field_gated. Qed.
Print Assumptions field_gated_wire.
Theorem field_gated_wire_if_none_tolerant : tolerant_readers = [] ->
  forall cls t v0 v, In (cls, t, v0) SpecFieldVersions -> In v kmip_versions -> ver_ltb v v0 = true ->
    wire_processed cls v t = false.
Proof. exact wire_field_refused_if_none_tolerant. Qed.
Example field_gated_wire_hyp : In ("RequestBatchItem", "EPHEMERAL", (2, 0)) SpecFieldVersions
  /\ In ("LocateRequestPayload", "ATTRIBUTES", (2, 0)) SpecFieldVersions /\ ver_ltb (1, 4) (2, 0) = true
  /\ wire_processed "LocateRequestPayload" (2, 0) "ATTRIBUTES" = true.
Proof. repeat split; vm_compute; tauto. Qed.

(* structures that only exist from v0 on are refused by read and by write exactly below v0 *)
Theorem structure_gated : forall cls v0 v, In (cls, v0) SpecClassVersions -> In v kmip_versions ->
  class_refused_in "read" cls v = ver_ltb v v0 /\ class_refused_in "write" cls v = ver_ltb v v0.
Proof. exact class_refused_lemma. Qed.
Print Assumptions structure_gated.

(* the regenerated tables agree with the hand-written specification tables: supported list, operation minima,
   attribute versions (names and tags), field and structure versions; read/write guards of each class match; no
   version block of the source is unknown to the specification table *)
Theorem spec_tables_agree :
  ops_agree_with_spec = true /\ supported_agree_with_spec = true /\ attrs_agree_with_spec = true
  /\ attr_tags_agree_with_spec = true /\ fields_agree_with_spec = true /\ classes_agree_with_spec = true
  /\ read_write_symmetric = true /\ spec_covers_intro_guards = true.
Proof. exact tables_agree. Qed.
Print Assumptions spec_tables_agree.

(* ---------------------------------------------------------------- message fields, byte-level codec schemas *)
(* PK.Codec.Schema's `wr` and `rd` run, for a structure of class k under version v, over `filter (active v)` of the
   class's items only (by construction, see Schema.v).  Full statement: for every class k of the regenerated
   PKGen.Schemas.E, every version v and every item the reader or the writer considers, an item carrying a tag of the
   specification table implies that v is at least the version that introduced the field (10*major+minor there). *)
Definition field_gated_schemas_statement : Prop :=
  forall c t v0 z (k : Codec.Schema.cls) v (it : Codec.Schema.item),
  In (c, t, v0) SpecFieldVersions -> SchemaFields.tag_value t = Some z -> In k (Codec.Schema.e_classes Schemas.E) ->
  (In it (filter (Codec.Schema.active v) (Codec.Schema.c_rd k)) \/ In it (filter (Codec.Schema.active v) (Codec.Schema.c_wr k))) ->
  Codec.Schema.i_tag it = z -> SchemaFields.v10 v0 <= v.
(* false on the code as it is (known finding C16-attestation-credential-ungated): AttestationCredential, a KMIP 1.2
   structure holding Attestation Type, is read and written under 1.0 and 1.1 *)
Theorem field_gated_schemas_refuted : exists c t v0 z (k : Codec.Schema.cls) v (it : Codec.Schema.item),
  In (c, t, v0) SpecFieldVersions /\ SchemaFields.tag_value t = Some z /\ In k (Codec.Schema.e_classes Schemas.E) /\
  In it (filter (Codec.Schema.active v) (Codec.Schema.c_rd k)) /\ Codec.Schema.i_tag it = z /\ v < SchemaFields.v10 v0.
Proof. exact SchemaFields.field_gated_schemas_refuted. Qed.
Print Assumptions field_gated_schemas_refuted.
(* it holds for every other occurrence: the extra hypothesis excludes exactly (AttestationCredential, ATTESTATION_TYPE) *)
Theorem field_gated_schemas_partial : forall c t v0 z (k : Codec.Schema.cls) v (it : Codec.Schema.item),
  In (c, t, v0) SpecFieldVersions -> SchemaFields.tag_value t = Some z -> In k (Codec.Schema.e_classes Schemas.E) ->
  SchemaFields.known_ungated (Codec.Schema.c_name k) t = false ->
  (In it (filter (Codec.Schema.active v) (Codec.Schema.c_rd k)) \/ In it (filter (Codec.Schema.active v) (Codec.Schema.c_wr k))) ->
  Codec.Schema.i_tag it = z -> SchemaFields.v10 v0 <= v.
Proof. exact SchemaFields.field_gated_schemas_lemma. Qed.
Print Assumptions field_gated_schemas_partial.
(* the guard of such an item is exactly the specification's version and does not close before 2.0 *)
Theorem spec_field_versions_respected_partial : forall c t v0 z (k : Codec.Schema.cls) (it : Codec.Schema.item),
  In (c, t, v0) SpecFieldVersions -> SchemaFields.tag_value t = Some z -> In k (Codec.Schema.e_classes Schemas.E) ->
  SchemaFields.known_ungated (Codec.Schema.c_name k) t = false ->
  In it (SchemaFields.items_of k) -> Codec.Schema.i_tag it = z ->
  Codec.Schema.i_lo it = SchemaFields.v10 v0 /\ SchemaFields.v10 (2, 0) < Codec.Schema.i_hi it.
Proof. exact SchemaFields.spec_rows_respected. Qed.
Print Assumptions spec_field_versions_respected_partial.
(* non-vacuity: at least 8 (class, tag) rows of the table occur in the schemas; the exception is a real unguarded item;
   every class-level refusal of the schemas whose class the specification table lists carries the specification's version
   and every listed class that is in the schemas has such a refusal (rows of other classes: evidence, uncovered list) *)
Example field_gated_schemas_hyp : Nat.leb 8 (List.length SchemaFields.schema_covered_rows) = true
  /\ SchemaFields.known_ungated_real = true /\ SchemaFields.schema_class_minver_ok = true.
Proof. exact (conj SchemaFields.schema_rows_nonvacuous (conj SchemaFields.known_ungated_real_true SchemaFields.schema_class_minver_ok_true)). Qed.
