From PK Require Import Client.Client Client.Framing.
Theorem c19_placeholder : True. Proof. exact I. Qed.
