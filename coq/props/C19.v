(* C19 - the client reports exactly what the server answered.
   Model: theories/Client/Client.v (KMIPProxy + ProxyKmipClient result handling), Framing.v (KMIPProtocol.read).
   Tie K: harness/c19.py (scripted responder and real server stack; Coq compares, ClientCases.check_ccase). *)
From PK Require Import Base.Bytes Client.Client Client.Framing Client.EndToEnd Client.ClientProofs Client.FramingProofs.
From PK Require Client.Request Client.RequestProofs.
From Coq Require Import ZArith List Bool.
Import ListNotations.
Open Scope Z_scope.

(* ---- tie T: the operation codes of the model are those of kmip/core/enums.py *)
Theorem opcodes_match_enums : forall o, in_table o = true.
Proof. exact ClientProofs.opcodes_match_enums. Qed.
Print Assumptions opcodes_match_enums.

(* ---- success: data comes back iff the status is Success, and it is exactly the payload's *)
Theorem success_iff_status :
  forall o it p, is_pie o = true -> legal_success o it p ->
    exists v, spec_return o p = Some v /\ interpret o (Decoded [it]) = Return v.
Proof. exact success_returns_payload_data. Qed.
Print Assumptions success_iff_status.

Example success_iff_status_inhabited :
  legal_success OMac
    {| ri_op := Some 35; ri_status := 0; ri_reason := None; ri_msg := None;
       ri_payload := Some [(PUniqueIdentifier, VBytes [49]); (PMacData, VBytes [1; 2; 3])] |}
    [(PUniqueIdentifier, VBytes [49]); (PMacData, VBytes [1; 2; 3])].
Proof. repeat split. Qed.

Theorem returns_only_on_success :
  forall o r v, interpret o r = Return v ->
    exists it rest, r = Decoded (it :: rest) /\ ri_status it = SUCCESS.
Proof. exact ClientProofs.returns_only_on_success. Qed.
Print Assumptions returns_only_on_success.

Example returns_only_on_success_inhabited :
  interpret OCreate (Decoded [{| ri_op := Some 1; ri_status := 0; ri_reason := None; ri_msg := None;
                                 ri_payload := Some [(PObjectType, VInt 2); (PUniqueIdentifier, VBytes [55]);
                                                     (PTemplateAttribute, VNone)] |}]) = Return (VBytes [55]).
Proof. vm_compute. reflexivity. Qed.

Theorem never_success_on_failure :
  forall o it rest v, ri_status it <> SUCCESS -> interpret o (Decoded (it :: rest)) <> Return v.
Proof. exact ClientProofs.never_success_on_failure. Qed.
Print Assumptions never_success_on_failure.

Theorem undecodable_raises : forall o, interpret o Undecodable = RaiseOther.
Proof. exact ClientProofs.undecodable_raises. Qed.
Print Assumptions undecodable_raises.

Theorem empty_response_raises : forall o, interpret o (Decoded []) = RaiseOther.
Proof. exact ClientProofs.empty_response_raises. Qed.
Print Assumptions empty_response_raises.

(* ---- failure: whenever an operation-failure error is raised it carries the response verbatim *)
Theorem raise_carries_exact :
  forall o r c st rs m, interpret o r = Raise c st rs m ->
    exists it rest, r = Decoded (it :: rest) /\
      ri_status it = st /\ st <> SUCCESS /\ ri_reason it = Some rs /\ ri_msg it = m.
Proof. exact ClientProofs.raise_carries_exact. Qed.
Print Assumptions raise_carries_exact.

Example raise_carries_exact_inhabited :
  interpret OEncrypt (Decoded [{| ri_op := Some 31; ri_status := 1; ri_reason := Some 12; ri_msg := None;
                                  ri_payload := None |}]) = Raise FPie 1 12 None.
Proof. vm_compute. reflexivity. Qed.

(* every legal failure - message present or absent, operation echoed or absent - is raised as an
   operation failure carrying exactly status, reason and message (full strength since the fix: commits
   for the missing Result Message and for Check) *)
Theorem failure_carries :
  forall o it rs, is_pie o = true -> legal_failure o it rs ->
    interpret o (Decoded [it]) = Raise (failure_class o) (ri_status it) rs (ri_msg it).
Proof. exact ClientProofs.failure_carries. Qed.
Print Assumptions failure_carries.

Example failure_carries_inhabited :
  legal_failure ODestroy {| ri_op := Some 20; ri_status := 1; ri_reason := Some 1; ri_msg := None; ri_payload := None |} 1.
Proof. repeat split; auto. discriminate. Qed.

(* ---- KMIPProxy: result objects / dictionaries carry exactly status, reason and message *)
Theorem proxy_copies_exactly : forall o it rest, copies it (proxy_call o (Decoded (it :: rest))).
Proof. exact ClientProofs.proxy_copies_exactly. Qed.
Print Assumptions proxy_copies_exactly.

Theorem proxy_failure_reported :
  forall o it rs, legal_failure o it rs -> proxy_call o (Decoded [it]) <> PExc.
Proof. exact ClientProofs.proxy_failure_reported. Qed.
Print Assumptions proxy_failure_reported.

Example proxy_failure_reported_inhabited :
  legal_failure ODiscoverVersions {| ri_op := Some 30; ri_status := 1; ri_reason := Some 5; ri_msg := None; ri_payload := None |} 5.
Proof. repeat split; auto. discriminate. Qed.

(* ---- framing: chunk independence, intact delivery, early end of stream *)
Theorem read_is_a_function_of_the_stream :
  forall cs, chunks_ok cs -> bytes_ok (concat cs) = true -> flatten (read cs) = read_stream (concat cs).
Proof. exact read_spec. Qed.
Print Assumptions read_is_a_function_of_the_stream.

Theorem client_framing :
  forall cs1 cs2, chunks_ok cs1 -> chunks_ok cs2 -> concat cs1 = concat cs2 -> bytes_ok (concat cs1) = true ->
    flatten (read cs1) = flatten (read cs2).
Proof. exact FramingProofs.client_framing. Qed.
Print Assumptions client_framing.

Example client_framing_inhabited :
  let a := [[66; 0; 123]; [1; 0; 0; 0]; [2; 9]; [9; 7]] in
  let b := [[66; 0; 123; 1; 0; 0; 0; 2; 9; 9; 7]] in
  concat a = concat b /\ read a = FOk [66; 0; 123; 1; 0; 0; 0; 2; 9; 9] [[7]] /\ read b = FOk [66; 0; 123; 1; 0; 0; 0; 2; 9; 9] [[7]].
Proof. vm_compute. auto. Qed.

Theorem frame_delivered_intact :
  forall cs f more, chunks_ok cs -> bytes_ok (f ++ more) = true -> is_frame f -> concat cs = f ++ more ->
    exists rest, read cs = FOk f rest /\ concat rest = more.
Proof. exact FramingProofs.frame_delivered_intact. Qed.
Print Assumptions frame_delivered_intact.

Example frame_delivered_intact_inhabited :
  let f := [66; 0; 123; 1; 0; 0; 0; 2; 9; 9] in
  chunks_ok [[66; 0]; [123; 1; 0; 0; 0; 2; 9]; [9; 5; 5]] /\ is_frame f /\ bytes_ok (f ++ [5; 5]) = true /\
  concat [[66; 0]; [123; 1; 0; 0; 0; 2; 9]; [9; 5; 5]] = f ++ [5; 5].
Proof.
  simpl. repeat split; try reflexivity.
  - repeat constructor; discriminate.
  - exists [66; 0; 123; 1; 0; 0; 0; 2], [9; 9]. repeat split.
Qed.

Theorem early_end_raises :
  forall cs f k, chunks_ok cs -> bytes_ok f = true -> is_frame f -> (k < length f)%nat -> concat cs = firstn k f ->
    read cs = FEof \/ exists e r, read cs = FShort e r.
Proof. exact FramingProofs.early_end_raises. Qed.
Print Assumptions early_end_raises.

Example early_end_raises_inhabited :
  is_frame [66; 0; 123; 1; 0; 0; 0; 2; 9; 9] /\ read [[66; 0; 123]; [1; 0; 0; 0; 2; 9]] = FShort 2 1.
Proof. split; [exists [66; 0; 123; 1; 0; 0; 0; 2], [9; 9]; repeat split | vm_compute; reflexivity]. Qed.

Theorem read_leaves_transport_ok : forall cs f rest, chunks_ok cs -> read cs = FOk f rest -> chunks_ok rest.
Proof. exact FramingProofs.read_leaves_transport_ok. Qed.
Print Assumptions read_leaves_transport_ok.

(* ---- end to end, for any response decoder *)
Theorem client_call_chunk_independent :
  forall decode o cs1 cs2, chunks_ok cs1 -> chunks_ok cs2 -> concat cs1 = concat cs2 -> bytes_ok (concat cs1) = true ->
    client_call decode o cs1 = client_call decode o cs2.
Proof. exact FramingProofs.client_call_chunk_independent. Qed.
Print Assumptions client_call_chunk_independent.

Theorem client_call_complete :
  forall decode o cs f more, chunks_ok cs -> bytes_ok (f ++ more) = true -> is_frame f -> concat cs = f ++ more ->
    client_call decode o cs = interpret o (decode f).
Proof. exact FramingProofs.client_call_complete. Qed.
Print Assumptions client_call_complete.

Theorem client_call_truncated_raises :
  forall decode o cs f k, chunks_ok cs -> bytes_ok f = true -> is_frame f -> (k < length f)%nat -> concat cs = firstn k f ->
    client_call decode o cs = RaiseOther.
Proof. exact FramingProofs.client_call_truncated_raises. Qed.
Print Assumptions client_call_truncated_raises.

(* ---- requests: the envelope the client writes (any version, any operation known to the server, any
   payload body) is read back by the server-side reader as the same version, operation and payload,
   and is one TTLV message.  Names of Client.Request / RequestProofs are used qualified because
   Base.Prim and Client.Client both have constructors called VInt / VBytes. *)
Theorem request_envelope_roundtrip :
  forall opmem v opc payload bs, opmem opc = true ->
    Request.enc_request v opc payload = Some bs ->
    Request.dec_request opmem bs = Some (Request.version_pair v, opc, payload).
Proof. exact RequestProofs.request_envelope_roundtrip. Qed.
Print Assumptions request_envelope_roundtrip.

Example request_envelope_roundtrip_inhabited :
  exists bs, Request.enc_request Request.V14 10 [66; 0; 148; 7; 0; 0; 0; 1; 49; 0; 0; 0; 0; 0; 0; 0] = Some bs /\ length bs = 120%nat.
Proof. eexists. split; vm_compute; reflexivity. Qed.

Theorem request_is_frame :
  forall v opc payload bs, Request.enc_request v opc payload = Some bs -> is_frame bs.
Proof. exact RequestProofs.request_is_frame. Qed.
Print Assumptions request_is_frame.

Theorem request_tags_match_enums : RequestProofs.tags_match_enums_statement.
Proof. exact RequestProofs.tags_match_enums. Qed.
Print Assumptions request_tags_match_enums.

(* requests_decodable: GIVEN that every request payload class round-trips under every version (C01's
   theorem; here a hypothesis, discharged on every run by correspondence K(a) against the real server
   stack: the server decoded each request and the decoded payload fields equal the arguments), every
   whole request the client emits is decoded by the server to the same version, operation and arguments. *)
Theorem requests_decodable_partial :
  forall (A : Type) (enc_payload : Request.kver -> Z -> A -> option bytes)
         (dec_payload : Request.kver -> Z -> bytes -> option A),
    (forall v opc a body, enc_payload v opc a = Some body -> dec_payload v opc body = Some a) ->
    forall opmem v opc a body bs, opmem opc = true -> enc_payload v opc a = Some body ->
      Request.enc_request v opc body = Some bs ->
      exists body', Request.dec_request opmem bs = Some (Request.version_pair v, opc, body') /\
                    dec_payload v opc body' = Some a.
Proof.
  intros A enc dec RT opmem v opc a body bs Hm He Hr. exists body. split.
  - apply RequestProofs.request_envelope_roundtrip; assumption.
  - apply RT; assumption.
Qed.
Print Assumptions requests_decodable_partial.

(* the full statement has no payload-codec hypothesis; it needs C01's schemas for the 21 request payloads *)
Definition requests_decodable_statement : Prop :=
  forall (A : Type) (enc_payload : Request.kver -> Z -> A -> option bytes)
         (dec_payload : Request.kver -> Z -> bytes -> option A)
         opmem v opc a body bs, opmem opc = true -> enc_payload v opc a = Some body ->
    Request.enc_request v opc body = Some bs ->
    exists body', Request.dec_request opmem bs = Some (Request.version_pair v, opc, body') /\
                  dec_payload v opc body' = Some a.
