(* placeholder until the proofs are in *)
From PK Require Import NoCrash.Model NoCrash.Cases.
