(* C13 - well-formed requests never hit the server's internal-error path (never answer GENERAL_FAILURE).

   Model: PK.NoCrash.Model.step (the 21 `_process_*` handlers of kmip/services/server/engine.py as guard sequences;
   `Crash site` = a non-KmipError exception raised at `site`, which the engine answers with GENERAL_FAILURE).
   The full-strength statement (DESIGN 6/C13) is refuted by the faithful model: the tree has internal-error sites that
   well-formed requests reach (findings.d/C13.json).  What is proved instead:
     no_crash_partial  : a well-formed request that does not hit the signature of a recorded finding does not crash
                         (crypto engine total), i.e. the recorded findings are ALL the internal-error sources of the model;
     crash_sites       : the same as an explicit per-operation list of sites;
     crash_sites_observed : without the totality hypothesis the only further site is the crypto engine's own exception;
     no_crash_clean_ops: twelve operations have no internal-error site at all (full-strength for them);
     no_crash_current_tree / no_crash_get_attributes_1x : on the tree as it is now (most findings repaired by fix:
                         commits) everything except the KMIP 2.0 GetAttributes empty response is crash-free;
   and each recorded signature has its `..._refuted` witness below (evaluated by vm_compute; a witness is stated through
   the generated `defect` / `policy_unknown` tables so that it stays true on a repaired tree, where it degenerates to Done). *)
From Coq Require Import ZArith List String Bool.
From PKGen Require Import AttrRuleTable PieClasses.
From PK Require Import NoCrash.Model NoCrash.Proofs.
Import ListNotations.
Open Scope string_scope.
Open Scope list_scope.
Open Scope Z_scope.

(* the full-strength statement, kept visible; refuted below *)
Definition no_crash_statement : Prop :=
  forall v s cr it, supported_version v = true -> wf_store s -> wf_item it -> crypto_total cr -> step_crash v s cr it = false.

Theorem no_crash_partial : forall v s cr it,
  supported_version v = true -> wf_store s -> wf_item it -> crypto_total cr ->
  known_crash v s cr it = false -> step_crash v s cr it = false.
Proof. exact PK.NoCrash.Proofs.no_crash_partial. Qed.
Print Assumptions no_crash_partial.

Theorem crash_sites : forall v s cr it site,
  supported_version v = true -> wf_store s -> wf_item it -> crypto_total cr ->
  step v s cr it = Crash site -> mem_s site (op_sites (op_of it)) = true.
Proof. exact PK.NoCrash.Proofs.crash_sites. Qed.
Print Assumptions crash_sites.

Theorem crash_sites_observed : forall v s cr it site,
  supported_version v = true -> wf_store s -> wf_item it -> crypto_observed cr ->
  step v s cr it = Crash site -> mem_s site (op_sites (op_of it)) = true \/ cr = CExc site.
Proof. exact PK.NoCrash.Proofs.crash_sites_observed. Qed.
Print Assumptions crash_sites_observed.

Theorem no_crash_clean_ops : forall v s cr it,
  supported_version v = true -> wf_store s -> wf_item it -> crypto_total cr -> clean_op it = true ->
  step_crash v s cr it = false.
Proof. exact PK.NoCrash.Proofs.no_crash_clean_ops. Qed.
Print Assumptions no_crash_clean_ops.

Theorem clean_ops_are : forall it,
  In (op_of it) ["CREATE"; "CREATE_KEY_PAIR"; "GET_ATTRIBUTE_LIST"; "ACTIVATE"; "REVOKE"; "DESTROY"; "QUERY"; "DISCOVER_VERSIONS";
                 "ENCRYPT"; "DECRYPT"; "SIGN"; "SIGNATURE_VERIFY"] -> clean_op it = true.
Proof. exact PK.NoCrash.Proofs.clean_ops_are. Qed.
Print Assumptions clean_ops_are.

(* The tree as it is now (after the fix: commits): every operation outside `dirty_now` is free of internal-error sites
   (crypto engine total).  `dirty_now` = GetAttributes only (KMIP 2.0 empty response, C13-get-attributes-empty-response-20);
   the Register sites (Key Block without algorithm / length / key value, Prime Field Size outside 64 bits) were repaired by
   repo commits a0be571 and 7aebdbf.
   Proved by computing the generated tables, so re-introducing a repaired defect breaks it. *)
Theorem no_crash_current_tree : forall v s cr it,
  supported_version v = true -> wf_store s -> wf_item it -> crypto_total cr -> ~ In (op_of it) dirty_now ->
  step_crash v s cr it = false.
Proof. exact PK.NoCrash.Proofs.no_crash_current_tree. Qed.
Print Assumptions no_crash_current_tree.

Theorem no_crash_get_attributes_1x : forall v s cr u names,
  wf_store s -> ver_ge v (2,0) = false -> step_crash v s cr (IGetAttributes u names) = false.
Proof. exact PK.NoCrash.Proofs.no_crash_get_attributes_1x. Qed.
Print Assumptions no_crash_get_attributes_1x.

(* every site of the per-operation lists is the signature of a finding recorded in findings.d/C13.json *)
Theorem sites_are_recorded_findings : forallb (fun op => forallb (finding_listed op) (op_sites op)) all_ops = true.
Proof. exact PK.NoCrash.Proofs.op_sites_listed. Qed.
Print Assumptions sites_are_recorded_findings.

Theorem sentinel_only_when_predicted : forall v s it,
  reaches_crypto v s it = true <-> step v s CNotCalled it = Crash sentinel.
Proof. exact PK.NoCrash.Proofs.sentinel_only_when_predicted. Qed.
Print Assumptions sentinel_only_when_predicted.

(* ------------------------------------------------------------------ the hypotheses are satisfiable by non-trivial states *)
Definition key1 : sobj := Build_sobj 1 "SymmetricKey" 2 true (Some 2) 959 ["k1"] [] ["g0"] false (Some 1) (Some 3) (Some 128) false.
Definition cert2 : sobj := Build_sobj 2 "X509Certificate" 1 true (Some 1) 0 ["c"] [] [] false None None None false.
Definition opaque3 : sobj := Build_sobj 3 "OpaqueObject" 8 true None 0 [] [] [] false None None None false.
Definition store0 : store := [key1; cert2; opaque3].
Definition nm (n : string) : attr := Build_attr n None 0 "".

Example hypotheses_satisfiable :
  supported_version (1,2) = true /\ wf_store store0 /\ wf_item (IEncrypt (Some 1) true) /\ crypto_total COk /\
  known_crash (1,2) store0 COk (IEncrypt (Some 1) true) = false /\ clean_op (IEncrypt (Some 1) true) = true /\
  reaches_crypto (1,2) store0 (IEncrypt (Some 1) true) = true /\ step (1,2) store0 COk (IEncrypt (Some 1) true) = Done.
Proof. repeat split; try reflexivity. repeat constructor. left; reflexivity. Qed.

Example hypotheses_satisfiable_modify :
  wf_item (IModifyAttribute1 (Some 1) (Build_attr "Name" (Some 0) 0 "new")) /\
  known_crash (1,4) store0 COk (IModifyAttribute1 (Some 1) (Build_attr "Name" (Some 0) 0 "new")) = false /\
  step (1,4) store0 COk (IModifyAttribute1 (Some 1) (Build_attr "Name" (Some 0) 0 "new")) = Done.
Proof. repeat split; reflexivity. Qed.

(* ------------------------------------------------------------------ refuted: one witness per recorded signature *)
Definition policy_site (f : string) : outcome :=
  match assoc_s f policy_unknown with Some (Some site) => Crash site | _ => Done end.
Definition when (n site : string) : outcome := if defect n then Crash site else Done.

Example modify_unknown_name_refuted :
  step (1,2) store0 COk (IModifyAttribute1 (Some 1) (nm "x-custom")) = policy_site "is_attribute_modifiable_by_client".
Proof. vm_compute. reflexivity. Qed.
Example delete_unknown_name_refuted :
  step (1,2) store0 COk (IDeleteAttribute1 (Some 1) "x-custom" None) = policy_site "is_attribute_applicable_to_object_type".
Proof. vm_compute. reflexivity. Qed.
(* since repo commit 1a2a215 Locate refuses a filter name the version does not have before looking at any object *)
Example locate_unknown_name_fixed : step (1,2) store0 COk (ILocate [nm "x-custom"]) = Done.
Proof. vm_compute. reflexivity. Qed.
Example set_unknown_name_refuted :
  step (2,0) store0 COk (ISetAttribute (Some 1) (nm "Always Sensitive")) = policy_site "is_attribute_multivalued".
Proof. vm_compute. reflexivity. Qed.
Example modify_unsupported_multivalued_refuted :
  step (1,0) store0 COk (IModifyAttribute1 (Some 1) (nm "Cryptographic Parameters")) =
  when "modify-unsupported-multivalued" "services/server/engine.py:_process_modify_attribute:TypeError".
Proof. vm_compute. reflexivity. Qed.
Example mac_stateless_object_refuted :
  step (1,2) store0 COk (IMAC (Some 3) true true) = when "mac-stateless-object" "services/server/engine.py:_process_mac:AttributeError(state)".
Proof. vm_compute. reflexivity. Qed.
Example locate_certificate_algorithm_refuted :
  step (1,2) store0 COk (ILocate [nm "Cryptographic Algorithm"]) =
  when "get-attribute-missing-field" "services/server/engine.py:_get_attribute_from_managed_object:AttributeError(cryptographic_algorithm)".
Proof. vm_compute. reflexivity. Qed.
Example locate_certificate_length_refuted :
  step (1,2) [cert2] COk (ILocate [nm "Cryptographic Length"]) =
  when "get-attribute-missing-field" "services/server/engine.py:_get_attribute_from_managed_object:AttributeError(cryptographic_length)".
Proof. vm_compute. reflexivity. Qed.
Example register_certificate_algorithm_refuted :
  step (1,2) [] COk (IRegister 1 (Some (SecCert 1)) (Some (Build_tattr false [nm "Cryptographic Algorithm"]))) =
  when "set-attribute-missing-field" "services/server/engine.py:_set_attribute_on_managed_object:AttributeError(cryptographic_algorithm)".
Proof. vm_compute. reflexivity. Qed.
Example register_certificate_length_refuted :
  step (1,2) [] COk (IRegister 1 (Some (SecCert 1)) (Some (Build_tattr false [nm "Cryptographic Length"]))) =
  when "set-attribute-missing-field" "services/server/engine.py:_set_attribute_on_managed_object:AttributeError(cryptographic_length)".
Proof. vm_compute. reflexivity. Qed.
Definition wrap_with (params : bool) : option wrapspec := Some (Build_wrapspec true (Some (Some 1, params)) false false true).
Definition wrapkey : sobj := Build_sobj 1 "SymmetricKey" 2 true (Some 2) 959 [] [] [] false (Some 1) (Some 3) (Some 128) false.
Example get_wrap_no_parameters_refuted :
  step (1,2) [wrapkey; cert2] COk (IGet (Some 1) None false (wrap_with false)) =
  when "get-wrap-no-parameters" "services/server/engine.py:_process_get:AttributeError(block_cipher_mode)".
Proof. vm_compute. reflexivity. Qed.
Example get_wrap_non_key_refuted :
  step (1,2) [wrapkey; cert2] COk (IGet (Some 2) None false (wrap_with true)) =
  when "get-wrap-non-key" "services/server/engine.py:_process_get:AttributeError(key_block)".
Proof. vm_compute. reflexivity. Qed.
Definition derive_ta : option tattr :=
  Some (Build_tattr false [Build_attr "Cryptographic Algorithm" None 3 ""; Build_attr "Cryptographic Length" None 128 "";
                           Build_attr "Cryptographic Usage Mask" None 4 ""]).
Example derive_no_parameters_refuted :
  step (1,2) store0 COk (IDeriveKey 2 [1] false false derive_ta) =
  when "derive-no-parameters" "services/server/engine.py:_process_derive_key:AttributeError(hashing_algorithm)".
Proof. vm_compute. reflexivity. Qed.
Example delete_current_name_refuted :
  step (2,0) store0 COk (IDeleteAttribute2 (Some 1) (Some (Build_attr "Name" None 0 "k1")) None) =
  when "delete-current-name" "services/server/engine.py:_delete_attribute_from_managed_object:AttributeError(value)".
Proof. vm_compute. reflexivity. Qed.
Example register_symmetric_format_refuted :
  step (1,2) [] COk (IRegister 2 (Some (SecKey 2 2 true 0 3 128 0 false)) None) = when "register-convert" "pie/factory.py:_build_pie_key:TypeError".
Proof. vm_compute. reflexivity. Qed.
Example register_validate_refuted :
  step (1,2) [] COk (IRegister 3 (Some (SecKey 3 4 true 0 4 1024 0 false)) None) = when "register-convert" "pie/objects.py:validate:ValueError".
Proof. vm_compute. reflexivity. Qed.
Example register_wrapping_data_refuted :
  step (1,2) [] COk (IRegister 2 (Some (SecKey 2 1 true 3 3 128 0 false)) None) =
  when "register-convert" "pie/factory.py:_build_cryptographic_parameters:AttributeError(block_cipher_mode)".
Proof. vm_compute. reflexivity. Qed.
Example register_certificate_type_refuted :
  step (1,2) [] COk (IRegister 1 (Some (SecCert 2)) None) = when "register-convert" "pie/factory.py:_build_pie_certificate:TypeError".
Proof. vm_compute. reflexivity. Qed.
Example get_attributes_empty_response_refuted :
  step (2,0) store0 COk (IGetAttributes (Some 1) ["Certificate Type"]) =
  when "get-attributes-empty-response" "core/messages/payloads/get_attributes.py:write:InvalidField".
Proof. vm_compute. reflexivity. Qed.
(* Register: optional Key Block parts left out; Prime Field Size SQLite cannot store *)
Definition convert_outcome (sec : secret_s) : outcome :=
  match convert sec with Some (Some site) => if String.eqb site KMIP_ERROR then Done else Crash site | _ => Done end.
Example register_keyblock_no_algorithm_refuted :
  step (1,2) [] COk (IRegister 2 (Some (SecKey 2 1 true 0 3 128 1 false)) None) = convert_outcome (SecKey 2 1 true 0 3 128 1 false).
Proof. vm_compute. reflexivity. Qed.
Example register_splitkey_no_key_value_refuted :
  step (1,2) [] COk (IRegister 5 (Some (SecKey 5 1 true 0 3 128 4 false)) None) = convert_outcome (SecKey 5 1 true 0 3 128 4 false).
Proof. vm_compute. reflexivity. Qed.
Example register_prime_field_size_overflow_refuted :
  step (1,2) [] COk (IRegister 5 (Some (SecKey 5 1 true 0 3 128 0 true)) None) = when "register-bigint-overflow" OVERFLOW_SITE.
Proof. vm_compute. reflexivity. Qed.
(* the crypto-engine findings: the handler reaches the call and lets its exception through *)
Example crypto_exception_refuted : forall site,
  step (1,2) store0 (CExc site) (IEncrypt (Some 1) true) = Crash site /\
  step (1,2) store0 (CExc site) (IDecrypt (Some 1) true) = Crash site /\
  step (1,2) store0 (CExc site) (IDeriveKey 2 [1] false true derive_ta) = Crash site.
Proof. intro site. repeat split; vm_compute; reflexivity. Qed.

(* on this tree the witnesses above are crashes, so the full-strength statement is false *)
Theorem no_crash_refuted : defect "mac-stateless-object" = true -> ~ no_crash_statement.
Proof.
  intros Hd H.
  assert (K : step_crash (1,2) store0 COk (IMAC (Some 3) true true) = true).
  { unfold step_crash. rewrite mac_stateless_object_refuted. unfold when. rewrite Hd. reflexivity. }
  assert (K2 : step_crash (1,2) store0 COk (IMAC (Some 3) true true) = false).
  { apply H; [reflexivity | repeat constructor | exact I | left; reflexivity]. }
  congruence.
Qed.
Print Assumptions no_crash_refuted.
