(* C02 - structure writers, instantiated at the schemas regenerated from /repo on this run (tie T).
   Only the WRITER schemas matter: env_wr_ok looks at c_wr and the any-attribute tables, so a change on the
   reader side of a class does not disturb this file.  The theorem holds for every version number. *)
From PK Require Import Base.Bytes Base.Prim Base.WfSpec Codec.Schema Codec.SchemaProofs.
From PKGen Require Import Schemas.
From Coq Require Import ZArith List.
Open Scope Z_scope.

Theorem c02_writer_schemas_ok : env_wr_ok Schemas.E = true.
Proof. vm_compute. reflexivity. Qed.

(* everything a translated write() method can emit, under any version, is a well-formed TTLV item *)
Theorem c02_wr_wf_E : forall v fuel tag k x bs, tag_ok tag = true -> wfv Schemas.E v fuel k x = true ->
  wr Schemas.E v fuel tag k x = Some bs -> wf_item bs.
Proof. intros v. exact (wr_wf_w Schemas.E v c02_writer_schemas_ok). Qed.
Print Assumptions c02_wr_wf_E.

(* the full static check implies the writer half (so C01's c01_E_ok subsumes the hypothesis above) *)
Theorem c02_env_ok_wr : forall E, env_ok E = true -> env_wr_ok E = true.
Proof. exact env_ok_wr. Qed.
Print Assumptions c02_env_ok_wr.
