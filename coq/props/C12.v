(* C12 - the session answers any bytes safely, once, and keeps going.
   Model: Session/Framing.v (receive loop), Session/Encode.v (error response), Session/Session.v (handle/serve);
   the request parser and the engine are parameters of every theorem below (universally quantified). *)
From Coq Require Import ZArith List Bool String.
From PK Require Import Base.Bytes Base.Prim Session.Framing Session.FramingProofs Session.Encode Session.EncodeProofs
                       Session.Session Session.SessionProofs Session.Connection Session.ConnectionProofs Session.Toy.
Import ListNotations.
Open Scope Z_scope.

(* 1. Framing does not depend on how the transport chunks the byte stream: any two chunkings (no empty chunk: an
      empty read is the peer closing) of the same stream give the same frames, namely those of the chunk-free
      specification `frames_stream` (8-byte header, big-endian length at offset 4).  Unbounded: all streams, all
      chunkings, all frame sizes; the 4096-byte receive buffer plays no role. *)
Theorem framing_chunk_independent : forall (stream : bytes) (cs1 cs2 : list bytes),
  concat cs1 = stream -> concat cs2 = stream -> Forall nonempty cs1 -> Forall nonempty cs2 ->
  fst (fst (frames_conn cs1)) = fst (fst (frames_conn cs2)) /\ fst (fst (frames_conn cs1)) = frames_stream stream.
Proof. exact framing_chunk_independent_lemma. Qed.
Print Assumptions framing_chunk_independent.
Example framing_chunk_independent_ex :
  let stream := [66;0;120;1;0;0;0;2;9;9; 66;0;120;1;0;0;0;0; 66;0;120] in
  fst (fst (frames_conn [[66];[0;120;1;0;0];[0;2;9;9;66;0;120;1;0];[0;0;0;66;0;120]])) = frames_stream stream
  /\ frames_stream stream = [[66;0;120;1;0;0;0;2;9;9]; [66;0;120;1;0;0;0;0]].
Proof. vm_compute. split; reflexivity. Qed.

(* 1b. A connection whose peer sends bytes in non-empty chunks always ends with ConnectionClosed - the ValueError of
       _receive_bytes cannot happen - and recv is never asked for more than the 4096-byte buffer nor for more than
       the frame still lacks (an absurd length field costs no memory and reads nothing beyond what the peer sent). *)
Theorem connection_ends_closed : forall cs,
  Forall nonempty cs -> bytes_ok (concat cs) = true -> snd (frames_conn cs) = EndClosed.
Proof. exact frames_conn_ends_closed. Qed.
Print Assumptions connection_ends_closed.
Example connection_ends_closed_ex :
  let cs := [[66;0;120;1];[0;0;0;200;1;2;3]] in      (* announces 200 bytes, delivers 3 *)
  Forall nonempty cs /\ bytes_ok (concat cs) = true /\ frames_conn cs = ([], [8; 4; 200; 197], EndClosed).
Proof. split; [repeat constructor; discriminate | vm_compute; split; reflexivity]. Qed.

Theorem reads_bounded : forall fuel remaining cs,
  Forall (fun n => 0 < n <= 4096 /\ n <= remaining) (asked_of (recv_loop fuel remaining cs)).
Proof. exact recv_asked_bounded. Qed.
Print Assumptions reads_bounded.

Section AnyParserAnyEngine.
  Variable request : Type.
  Variable parse : bytes -> option request.
  Variable rq_version : request -> Z * Z.
  Variable estate : Type.
  Variable engine : request -> identity -> estate -> eresult * estate.
  Notation handle := (handle request parse rq_version estate engine).
  Notation serve := (serve request parse rq_version estate engine).

  (* 2. Exactly one step per frame, and (given a clock and version numbers that fit their TTLV fields, and engine
        error messages that are encodable text) every step is one `sendall`: nothing but the end of the stream
        leaves the loop.  [loop_total] *)
  Theorem one_response_per_frame : forall g fs st,
    length (fst (serve g fs st)) = length fs.
  Proof. exact (serve_length request parse rq_version estate engine). Qed.

  Theorem loop_total :
    (forall rq, ver_ok (rq_version rq)) ->
    (forall rq id st enc max ver st', engine rq id st = (EResp enc max ver, st') -> ver_ok ver) ->
    (forall rq id st reason msg st', engine rq id st = (EKmipErr reason msg, st') -> text_ok msg = true) ->
    forall g fs st, clock_ok (now g) -> Forall (fun s => exists b, out s = Sent b) (fst (serve g fs st)).
  Proof.
    intros H1 H2 H3 g fs st Hc. exact (serve_all_sent request parse rq_version estate engine H1 H2 H3 g fs Hc st).
  Qed.

  (* 3. A request that cannot be decoded is never executed: the engine state is untouched, the engine is not
        entered, and the answer is the INVALID_MESSAGE error at version 1.0 (AUTHENTICATION_NOT_SUCCESSFUL when
        the certificate is refused before parsing is even attempted). *)
  Theorem undecodable_not_executed : forall g f st,
    parse f = None ->
    handle g f st =
    ({| out := match cert_checks g with
               | None => error g (1, 0) R_AUTHENTICATION_NOT_SUCCESSFUL MSG_CERT
               | Some _ => error g (1, 0) R_INVALID_MESSAGE MSG_PARSE
               end;
        call := None |}, st).
  Proof. exact (undecodable_step request parse rq_version estate engine). Qed.

  (* 4. After any run of undecodable requests the next request is served exactly as on the same store without them. *)
  Theorem next_request_unaffected : forall g bad good st,
    Forall (fun b => parse b = None) bad ->
    serve g (bad ++ [good]) st = (fst (serve g bad st) ++ fst (serve g [good] st), snd (serve g [good] st))
    /\ length (fst (serve g bad st)) = length bad.
  Proof. exact (next_request_unaffected request parse rq_version estate engine). Qed.

  (* 5. Whenever the encoded response is longer than the effective maximum (the requested maximum response size,
        whatever its value - zero and negative included - or 1 MiB when none was requested), what is sent is the
        RESPONSE_TOO_LARGE error at the request's version; otherwise the engine's response goes out unchanged. *)
  Theorem too_large_replaced : forall g f st c rq id b max ver st',
    cert_checks g = Some c -> parse f = Some rq -> authenticate c (plugins g) = Some id ->
    engine rq id st = (EResp (Some b) max ver, st') ->
    out (fst (handle g f st)) =
    if (match max with Some m => m | None => 1048576 end) <? zlen b
    then error g (rq_version rq) R_RESPONSE_TOO_LARGE MSG_TOO_LARGE
    else Sent b.
  Proof.
    intros. erewrite too_large_replaced_lemma by eassumption. destruct max; reflexivity.
  Qed.
End AnyParserAnyEngine.

(* 5b. The whole observable behaviour of a connection (every answer, every engine call, the final store) depends
       on the byte stream only, not on how the transport chunked it; and there is one answer per frame of the stream. *)
Theorem connection_chunk_independent :
  forall (request : Type) (parse : bytes -> option request) (rq_version : request -> Z * Z) (estate : Type)
         (engine : request -> identity -> estate -> eresult * estate) g cs1 cs2 st,
  concat cs1 = concat cs2 -> Forall nonempty cs1 -> Forall nonempty cs2 ->
  connection request parse rq_version estate engine g cs1 st = connection request parse rq_version estate engine g cs2 st
  /\ length (fst (connection request parse rq_version estate engine g cs1 st)) = length (frames_stream (concat cs1)).
Proof.
  intros. split; [apply connection_chunk_independent_lemma; assumption | apply connection_answers_per_frame; assumption].
Qed.
Print Assumptions connection_chunk_independent.
Example connection_chunk_independent_ex :
  connection toy_request toy_parse (fun r => r) nat toy_engine toy_cfg [[66;0;120;1;0;0;0;0;1;2;3;4;0;0;0;1;9]] 0%nat
  = connection toy_request toy_parse (fun r => r) nat toy_engine toy_cfg [[66;0];[120;1;0;0;0;0;1];[2;3;4;0;0;0;1];[9]] 0%nat
  /\ length (fst (connection toy_request toy_parse (fun r => r) nat toy_engine toy_cfg [[66;0];[120;1;0;0;0;0;1];[2;3;4;0;0;0;1];[9]] 0%nat)) = 2%nat.
Proof. vm_compute. split; reflexivity. Qed.
Print Assumptions one_response_per_frame.
Print Assumptions loop_total.
Print Assumptions undecodable_not_executed.
Print Assumptions next_request_unaffected.
Print Assumptions too_large_replaced.

(* 6. Every error response the session builds itself is well-formed: it is encodable, has a known size (so the two
      answers sent without a size comparison are far below 1 MiB), and the primitive decoders of Base.Prim read it
      back as one failed batch item with the version, time stamp, reason and message it was built from. *)
Theorem error_response_well_formed : forall v ts reason msg,
  ver_ok v -> clock_ok ts -> reason_ok reason -> msg_ok msg ->
  exists b, err_response v ts reason msg = Some b
    /\ zlen b = 136 + zlen msg + pad_len (zlen msg)
    /\ dec_err_response b = Some {| ef_version := v; ef_ts := ts; ef_count := 1; ef_status := OPERATION_FAILED;
                                    ef_reason := reason; ef_msg := msg |}.
Proof. exact err_response_wf. Qed.
Print Assumptions error_response_well_formed.

(* ---- the hypotheses are satisfiable by non-trivial states (toy parser/engine of Session/Toy.v) ---- *)
Example loop_total_ex : ver_ok (1, 2) /\ clock_ok (now toy_cfg) /\
  map out (fst (toy_serve toy_cfg [[1;2;3]; [66;0]; []; [66]] 0%nat)) <> [] /\
  length (fst (toy_serve toy_cfg [[1;2;3]; [66;0]; []; [66]] 0%nat)) = 4%nat.
Proof. repeat split; vm_compute; congruence. Qed.

Example undecodable_not_executed_ex :
  toy_parse [1;2;3] = None /\ snd (toy_handle toy_cfg [1;2;3] 5%nat) = 5%nat /\ snd (toy_handle toy_cfg [66] 5%nat) = 6%nat.
Proof. vm_compute. repeat split; reflexivity. Qed.

Example next_request_unaffected_ex :
  Forall (fun b => toy_parse b = None) [[1]; []; [67; 66]] /\
  last (fst (toy_serve toy_cfg ([[1]; []; [67; 66]] ++ [[66; 1]]) 0%nat)) {| out := Escaped; call := None |}
  = fst (toy_handle toy_cfg [66; 1] 0%nat).
Proof. split; [repeat constructor | vm_compute; reflexivity]. Qed.

Example too_large_replaced_ex :
  (* call 0 reports a requested maximum of 100 < 300: replaced; call 1 reports none: the 300 bytes go out *)
  out (fst (toy_handle toy_cfg [66] 0%nat)) = error toy_cfg (1, 2) R_RESPONSE_TOO_LARGE MSG_TOO_LARGE
  /\ out (fst (toy_handle toy_cfg [66] 1%nat)) = Sent (repeat 7 300)
  /\ error toy_cfg (1, 2) R_RESPONSE_TOO_LARGE MSG_TOO_LARGE <> Escaped.
Proof. repeat split; vm_compute; congruence. Qed.

Example error_response_well_formed_ex : ver_ok (1, 0) /\ clock_ok 1600000000 /\ reason_ok R_INVALID_MESSAGE /\ msg_ok MSG_PARSE.
Proof. repeat split; vm_compute; congruence. Qed.
