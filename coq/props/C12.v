From PK Require Import Session.Framing Session.Session Session.SessionCases.
Theorem c12_placeholder : True. Proof. exact I. Qed.
