(* C07 - Unique identifiers are never reused; a destroyed identifier stays dead.
   Model: theories/Uid/Model.v (tied to /repo by harness/c07.py, Coq compares: Uid/Cases.v).
   Every theorem quantifies over ALL histories (lists of requests by any identities under any
   protocol version, with restarts at arbitrary points) by induction, not over a finite sweep. *)
From PK Require Import Uid.Model Uid.Proofs.
From Coq Require Import ZArith List Bool Sorted.
Import ListNotations.
Open Scope Z_scope.

(* ---------- the allocator invariant ---------- *)

Theorem inv_init : Inv init_store.
Proof. exact Proofs.inv_init. Qed.
Print Assumptions inv_init.

Theorem inv_step : forall ver who st ph it, Inv st -> Inv (snd (fst (step_item ver who st ph it))).
Proof. exact Proofs.inv_step. Qed.
Print Assumptions inv_step.

Theorem inv_history : forall evs st, Inv st -> Inv (final_store st evs).
Proof. exact Proofs.inv_history. Qed.
Print Assumptions inv_history.

(* a non-trivial state satisfying the invariant: three objects, one destroyed, a restart *)
Definition ex_history : list event :=
  [ EReq {| rq_who := 0; rq_ver := 12; rq_cont := false; rq_items := [{| i_op := OCreateKeyPair 0; i_gate := true |}] |};
    EReq {| rq_who := 1; rq_ver := 20; rq_cont := false; rq_items := [{| i_op := ORegister TCert 1; i_gate := true |}] |};
    EReq {| rq_who := 1; rq_ver := 12; rq_cont := false; rq_items := [{| i_op := ODestroy (Some 3); i_gate := true |}] |};
    ERestart;
    EReq {| rq_who := 2; rq_ver := 12; rq_cont := true; rq_items := [{| i_op := OCreate 0; i_gate := true |};
                                                                     {| i_op := OAddr AGet None; i_gate := true |}] |} ].
Example ex_history_state : uids (final_store init_store ex_history) = [1; 2; 4] /\ next_uid (final_store init_store ex_history) = 5.
Proof. vm_compute. auto. Qed.
Example ex_history_inv : Inv (final_store init_store ex_history).
Proof. apply Proofs.inv_reachable. Qed.

(* ---------- freshness ---------- *)

(* one operation: every identifier it issues lies in [next_uid before, next_uid after), is not the
   identifier of any object in the store, and a response never carries an identifier twice *)
Theorem issued_fresh_item : forall ver who st ph it r st' ph' ids,
  Inv st -> step_item ver who st ph it = (r, st', ph') -> r = RIssued ids ->
  Forall (fun i => next_uid st <= i < next_uid st' /\ ~ In i (uids st)) ids /\ NoDup ids.
Proof. exact Proofs.issued_fresh_item. Qed.
Print Assumptions issued_fresh_item.

(* whole histories: the issue log is exactly next_uid, next_uid+1, ... - strictly increasing, so no
   identifier is ever issued twice, whatever was destroyed in between and wherever the server restarted *)
Theorem issue_log_consecutive : forall evs st,
  consec (next_uid st) (issue_log (history_entries st evs)) (next_uid (final_store st evs)).
Proof. exact Proofs.issue_log_consecutive. Qed.
Print Assumptions issue_log_consecutive.

Theorem issue_log_increasing : forall evs st, StronglySorted Z.lt (issue_log (history_entries st evs)).
Proof. exact Proofs.issue_log_increasing. Qed.
Print Assumptions issue_log_increasing.

Theorem issue_log_nodup : forall evs st, NoDup (issue_log (history_entries st evs)).
Proof. exact Proofs.issue_log_nodup. Qed.
Print Assumptions issue_log_nodup.

(* identifiers issued after any point of a history (e.g. after a restart) exceed all issued before it *)
Theorem issued_fresh : forall e1 e2 st i j,
  In i (issue_log (history_entries st e1)) ->
  In j (issue_log (history_entries (final_store st e1) e2)) ->
  i < j.
Proof. exact Proofs.issued_fresh. Qed.
Print Assumptions issued_fresh.

Theorem history_split : forall e1 e2 st,
  history_entries st (e1 ++ e2) = history_entries st e1 ++ history_entries (final_store st e1) e2 /\
  final_store st (e1 ++ e2) = final_store (final_store st e1) e2.
Proof. exact Proofs.history_split. Qed.
Print Assumptions history_split.

(* and never collide with an object that was in the database when the history began *)
Theorem issued_not_preexisting : forall evs st i,
  Inv st -> In i (issue_log (history_entries st evs)) -> next_uid st <= i /\ ~ In i (uids st).
Proof. exact Proofs.issued_not_preexisting. Qed.
Print Assumptions issued_not_preexisting.

Example ex_issue_log : issue_log (history_entries init_store ex_history) = [1; 2; 3; 4].
Proof. vm_compute. reflexivity. Qed.

(* what these theorems exclude: the rowid allocator of a table WITHOUT AUTOINCREMENT (largest uid + 1) hands
   the destroyed newest identifier out again, the persisted counter does not *)
Example rowid_allocator_would_reuse :
  let st0 := snd (add_objs 0 [(TSym, 0); (TSym, 0)] init_store) in
  let st1 := remove_obj 2 st0 in
  uids st0 = [1; 2] /\ uids st1 = [1] /\ next_of_max st1 = 2 /\ next_uid st1 = 3.
Proof. exact Proofs.rowid_allocator_would_reuse. Qed.

(* ---------- destroyed identifiers stay dead ---------- *)

Theorem destroy_makes_dead : forall ver who st ph tgt g st' ph',
  Inv st -> step_item ver who st ph {| i_op := ODestroy tgt; i_gate := g |} = (RDestroyed, st', ph') ->
  exists u, resolve tgt ph = Some u /\ In u (uids st) /\ Dead u st' /\ st' = remove_obj u st /\ ph' = ph.
Proof. exact Proofs.destroy_makes_dead. Qed.
Print Assumptions destroy_makes_dead.

(* respects_dead u e: if item e refers to u directly or through the placeholder it answers RNotFound
   (RNotSupported when the version check comes first); if it names u as wrapping key or derivation base
   it fails without reaching anything; if it is a Locate it does not list u; if it issues, not u. *)
Theorem destroyed_dead : forall ver who st ph tgt g st1 ph1,
  Inv st -> step_item ver who st ph {| i_op := ODestroy tgt; i_gate := g |} = (RDestroyed, st1, ph1) ->
  exists u, resolve tgt ph = Some u /\ In u (uids st) /\
    (forall cont rest es st2 ph2, run_items ver who cont st1 ph1 rest = (es, st2, ph2) ->
        Dead u st2 /\ Forall (respects_dead u) es /\
        forall evs, ~ In u (uids (final_store st2 evs)) /\ Forall (respects_dead u) (history_entries st2 evs)).
Proof. exact Proofs.destroyed_dead. Qed.
Print Assumptions destroyed_dead.

Theorem dead_forever : forall u st evs, Dead u st ->
  Dead u (final_store st evs) /\ Forall (respects_dead u) (history_entries st evs).
Proof. exact Proofs.dead_forever. Qed.
Print Assumptions dead_forever.

(* an item that refers to a dead identifier changes nothing *)
Theorem dead_item_answer : forall u ver who st ph it r st' ph',
  Dead u st -> step_item ver who st ph it = (r, st', ph') ->
  respects_dead u {| e_item := it; e_ph := ph; e_store := st; e_resp := r |} /\
  ((direct_target it ph = Some u \/ In u (indirect_refs it)) -> st' = st).
Proof. exact Proofs.dead_item_answer. Qed.
Print Assumptions dead_item_answer.

(* inside a batch the placeholder is what the request started with (None, see Uid.Model.process) or an
   identifier issued by this very batch: it never denotes an object older than the request *)
Theorem placeholder_fresh : forall ver who cont its st ph es st' ph',
  run_items ver who cont st ph its = (es, st', ph') ->
  Forall (fun e => e_ph e = ph \/ exists i, e_ph e = Some i /\ next_uid st <= i) es.
Proof. exact Proofs.placeholder_fresh. Qed.
Print Assumptions placeholder_fresh.

(* the hypotheses are satisfiable: a real Destroy in a populated store, then the dead identifier is addressed *)
Example ex_destroy :
  let st := final_store init_store (firstn 2 ex_history) in
  step_item 12 1 st None {| i_op := ODestroy (Some 3); i_gate := true |} = (RDestroyed, remove_obj 3 st, None)
  /\ Inv st /\ uids st = [1; 2; 3].
Proof. split; [vm_compute; reflexivity|]. split; [apply Proofs.inv_history; apply Proofs.inv_init | vm_compute; reflexivity]. Qed.
Example ex_dead_answers :
  map e_resp (history_entries (remove_obj 3 (final_store init_store (firstn 2 ex_history)))
    [EReq {| rq_who := 1; rq_ver := 12; rq_cont := true;
             rq_items := [{| i_op := OAddr AGet (Some 3); i_gate := true |}; {| i_op := ODestroy (Some 3); i_gate := true |};
                          {| i_op := OGetWrapped (Some 1) 3; i_gate := true |}; {| i_op := ODeriveKey [3] TSym 0; i_gate := true |};
                          {| i_op := OLocate; i_gate := true |}; {| i_op := OCreate 0; i_gate := true |}] |}])
  = [RNotFound; RNotFound; RWrapNotFound; RNotFound; RLocated [1]; RIssued [4]].
Proof. vm_compute. reflexivity. Qed.

(* the requester of the Destroy need not be the owner: bob as member of 'custodians' (101) destroys alice's key
   that is under policy 'team'; afterwards it is dead for its owner too *)
Example ex_custodian_destroy :
  let st := snd (add_objs 0 [(TSym, 1); (TSym, 0)] init_store) in
  fst (step_item 12 101 st None {| i_op := ODestroy (Some 1); i_gate := true |}) = (RDestroyed, remove_obj 1 st) /\
  fst (fst (step_item 12 101 st None {| i_op := ODestroy (Some 2); i_gate := true |})) = RDenied /\
  fst (fst (step_item 12 0 (remove_obj 1 st) None {| i_op := OAddr AGet (Some 1); i_gate := true |})) = RNotFound /\
  fst (fst (step_item 12 0 (remove_obj 1 st) None {| i_op := OLocate; i_gate := true |})) = RLocated [2].
Proof. vm_compute. auto. Qed.

(* ---------- Destroy leaves every other object alone ---------- *)

Theorem destroy_frame : forall ver who st ph tgt g st' ph',
  step_item ver who st ph {| i_op := ODestroy tgt; i_gate := g |} = (RDestroyed, st', ph') ->
  exists u, resolve tgt ph = Some u /\
    objs st' = filter (fun o => negb (uid o =? u)) (objs st) /\
    next_uid st' = next_uid st /\ ph' = ph /\
    (forall o, uid o <> u -> (In o (objs st') <-> In o (objs st))) /\
    (forall v, v <> u -> find_obj v st' = find_obj v st) /\
    (forall w p v, v <> u -> access w p (Some v) st' = access w p (Some v) st).
Proof. exact Proofs.destroy_frame. Qed.
Print Assumptions destroy_frame.

Theorem destroy_frame_answers : forall u st ver who ph k tgt g,
  resolve tgt ph <> Some u ->
  fst (fst (step_item ver who (remove_obj u st) ph {| i_op := OAddr k tgt; i_gate := g |})) =
  fst (fst (step_item ver who st ph {| i_op := OAddr k tgt; i_gate := g |})).
Proof. exact Proofs.destroy_frame_answers. Qed.
Print Assumptions destroy_frame_answers.
