From PK Require Import Uid.Model Uid.Cases.
Theorem c07_placeholder : True. Proof. exact I. Qed.
