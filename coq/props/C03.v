(* C03 - access control: nothing happens to an object without a policy grant.
   Property theorems only; proofs live in PK.Policy.{PolicyProofs,AccessProofs,HandlerSpecProofs}.

   Policy.v        transcription of is_allowed / get_relevant_policy_section / _is_allowed_by_operation_policy
                   and [granted_spec], the grant relation written from the property text
   Access.v        the choke points of the handlers, driven by the generated table PKGen.HandlerAccessOps
   HandlerSpec.v   what the property demands of each handler (hand-written) *)
From Coq Require Import ZArith List Bool String.
From PK Require Import Policy.Policy Policy.PolicyProofs Policy.AccessTypes Policy.Access Policy.AccessProofs
                       Policy.HandlerSpec Policy.HandlerSpecProofs Policy.DeniedLikeMissing
                       Policy.PolicyFile Policy.PolicyFileProofs.
From PKGen Require Import HandlerAccessOps DefaultPolicies.
Import ListNotations.
Open Scope Z_scope.
Open Scope string_scope.

(* =========================================================================== the decision *)

(* Whatever the engine allows is granted by the policy in the sense of the property text (the "only if" the
   property states).  Full strength since commit 512fea4 (a group named "" is a group); before, the statement
   needed the hypothesis that no group of the requester is named "" (finding C03-empty-group-name, now fixed). *)
Theorem decision_sound : forall P pn id owner ot op,
  allowed_by_policy P pn id owner ot op = true -> granted_spec P pn id owner ot op.
Proof. exact decision_sound_l. Qed.
Print Assumptions decision_sound.

Example decision_sound_nonvacuous :
  allowed_by_policy [("p", {| preset := None; groups := Some [("B", [(2, [(10, AllowAll)])])] |})] "p"
                    {| id_user := Some "bob"; id_groups := Some ["A"; "B"] |} (Some "alice") 2 10 = true.
Proof. vm_compute. reflexivity. Qed.

(* regression witness of the repaired finding: the group "" no longer receives the preset section *)
Theorem empty_group_name_denied : allowed_by_policy f11_policies "p" f11_identity (Some "alice") 2 10 = false.
Proof. exact empty_group_name_denied_l. Qed.
Print Assumptions empty_group_name_denied.

(* exact characterisation: allowed iff the policy exists and a section the engine consults for the
   requester (the preset without group information; with it, the group section of one of the requester's groups)
   has an entry for the object type and the operation that is AllowAll, or
   AllowOwner with requester = owner *)
Theorem decision_table : forall P pn id owner ot op,
  allowed_by_policy P pn id owner ot op = true <-> table_spec P pn id owner ot op.
Proof. exact decision_table_l. Qed.
Print Assumptions decision_table.

(* without group information the decision is exactly the specification (both directions) *)
Theorem no_groups_exact : forall P pn u owner ot op,
  allowed_by_policy P pn {| id_user := u; id_groups := None |} owner ot op = true
  <-> granted_spec P pn {| id_user := u; id_groups := None |} owner ot op.
Proof. exact no_groups_exact_l. Qed.
Print Assumptions no_groups_exact.

(* default deny, for every kind of missing entry *)
Theorem default_deny :
  (* missing policy *)
  (forall P pn id owner ot op, slookup pn P = None -> allowed_by_policy P pn id owner ot op = false) /\
  (* no group information and no preset section *)
  (forall P pn b u owner ot op, slookup pn P = Some b -> preset b = None ->
     allowed_by_policy P pn {| id_user := u; id_groups := None |} owner ot op = false) /\
  (* group information and no groups section (this is also the restrictive quirk F10) *)
  (forall P pn b id gs owner ot op, slookup pn P = Some b -> id_groups id = Some gs ->
     (groups b = None \/ groups b = Some []) -> allowed_by_policy P pn id owner ot op = false) /\
  (* no entry for any of the requester's groups *)
  (forall P pn b id gs gm owner ot op, slookup pn P = Some b -> id_groups id = Some gs ->
     groups b = Some gm -> (forall g, In g gs -> slookup g gm = None) ->
     allowed_by_policy P pn id owner ot op = false) /\
  (* empty group list *)
  (forall P pn u owner ot op,
     allowed_by_policy P pn {| id_user := u; id_groups := Some [] |} owner ot op = false) /\
  (* every section lacks the object type, or the operation, or holds DisallowAll / an unknown value /
     AllowOwner for somebody else *)
  (forall P pn b id owner ot op, slookup pn P = Some b ->
     (forall s, preset b = Some s -> section_silent s (id_user id) owner ot op) ->
     (forall gm g s, groups b = Some gm -> slookup g gm = Some s -> section_silent s (id_user id) owner ot op) ->
     allowed_by_policy P pn id owner ot op = false).
Proof.
  exact (conj deny_policy_missing (conj deny_preset_missing (conj deny_groups_missing
        (conj deny_group_entry_missing (conj deny_empty_group_list deny_all_sections_silent))))).
Qed.
Print Assumptions default_deny.

(* with group information the most permissive applicable group section decides:
   allowed iff the section of at least ONE of the requester's groups grants *)
Theorem most_permissive_group : forall P pn u gs owner ot op,
  allowed_by_policy P pn {| id_user := u; id_groups := Some gs |} owner ot op = true
  <-> exists g, In g gs /\ group_section_grants P pn g u owner ot op.
Proof. exact most_permissive_group_l. Qed.
Print Assumptions most_permissive_group.

Theorem more_groups_never_less : forall P pn u gs gs' owner ot op,
  incl gs gs' ->
  allowed_by_policy P pn {| id_user := u; id_groups := Some gs |} owner ot op = true ->
  allowed_by_policy P pn {| id_user := u; id_groups := Some gs' |} owner ot op = true.
Proof. exact more_groups_never_less_l. Qed.
Print Assumptions more_groups_never_less.

(* 'allow owner' reaches only the owner *)
Theorem allowed_implies_all_or_owner : forall P pn id owner ot op,
  allowed_by_policy P pn id owner ot op = true ->
  id_user id = owner \/
  exists b s om, slookup pn P = Some b /\ zlookup ot s = Some om /\ zlookup op om = Some AllowAll /\
                 (preset b = Some s \/ exists gm g, groups b = Some gm /\ slookup g gm = Some s).
Proof. exact allowed_implies_all_or_owner_l. Qed.
Print Assumptions allowed_implies_all_or_owner.

(* Recorded, not a finding (DESIGN F10): the converse of soundness fails in the RESTRICTIVE direction -
   group information + a policy with only a preset section is denied although the property text (and
   docs/source/server.rst) let the preset decide.  The property is an "only if"; nothing ungranted happens. *)
Theorem converse_counterexample : exists P pn id owner ot op,
  granted_spec P pn id owner ot op /\ allowed_by_policy P pn id owner ot op = false.
Proof. exact converse_counterexample_l. Qed.
Print Assumptions converse_counterexample.

(* the built-in 'default' policy (generated from kmip/core/policy.py): symmetric keys, private keys,
   split keys and secret data are for their owner only, whatever the operation *)
Theorem builtin_default_owner_only : forall id owner ot op,
  In ot owner_only_types ->
  allowed_by_policy default_policies "default" id owner ot op = true -> id_user id = owner.
Proof. exact HandlerSpecProofs.builtin_default_owner_only. Qed.
Print Assumptions builtin_default_owner_only.

(* =========================================================================== policy files *)

(* User policies reach the engine through kmip.core.policy.read_policy_from_file.  [load_document] is what the
   loader builds (it drops empty sections and empty bodies and accepts the legacy layout), [document_meaning]
   what the document says; the engine's policy store is the built-ins updated with the loaded policies.
   The engine decides on the loaded store exactly as on the document's meaning ... *)
Theorem loading_preserves_decisions : forall base d pn id owner ot op,
  allowed_by_policy (overlay base (load_document d)) pn id owner ot op
  = allowed_by_policy (overlay base (document_meaning d)) pn id owner ot op.
Proof. exact loading_preserves_decisions_l. Qed.
Print Assumptions loading_preserves_decisions.

(* ... hence whatever it allows is granted by the DOCUMENT *)
Theorem loaded_file_sound : forall base d pn id owner ot op,
  allowed_by_policy (overlay base (load_document d)) pn id owner ot op = true ->
  granted_spec (overlay base (document_meaning d)) pn id owner ot op.
Proof. exact loaded_file_sound_l. Qed.
Print Assumptions loaded_file_sound.

(* The policy store is fed by the directory monitor.  If every entry of the store is a built-in policy or what the
   loader builds from a document that is on disk NOW ([from_disk]; checked by Coq on the observed store after every
   scan of the monitor histories), then whatever the engine allows is granted by the built-in policy of that name or by
   one of the documents on disk - in particular a policy that no file defines any more grants to nobody. *)
Theorem store_from_disk_sound : forall builtin docs store pn id owner ot op,
  from_disk builtin docs store ->
  allowed_by_policy store pn id owner ot op = true ->
  granted_spec builtin pn id owner ot op \/
  exists d, In d docs /\ granted_spec (document_meaning d) pn id owner ot op.
Proof. exact store_from_disk_sound_l. Qed.
Print Assumptions store_from_disk_sound.

Example loading_nonvacuous :
  let d := [("p", DSections (Some []) (Some [("G", [(2, [(10, AllowAll)])])])); ("q", DLegacy [(1, [(8, AllowOwner)])]);
            ("e", DSections None None)] in
  load_document d = [("p", {| preset := None; groups := Some [("G", [(2, [(10, AllowAll)])])] |});
                     ("q", {| preset := Some [(1, [(8, AllowOwner)])]; groups := None |})] /\
  allowed_by_policy (overlay default_policies (load_document d)) "p"
                    {| id_user := Some "bob"; id_groups := Some ["G"] |} (Some "alice") 2 10 = true.
Proof. split; vm_compute; reflexivity. Qed.

(* =========================================================================== the choke points *)

(* every handler reaches stored objects only through the choke points, with the Operation constant
   and the identifier the property demands (generated table = hand-written specification) *)
Theorem every_access_is_checked :
  handler_access_ops = spec_handlers /\
  dispatch = map (fun p => (op_named (fst p), snd p)) spec_dispatch /\
  (forall op g, In (op, g) governing_table ->
     exists h rest, handler_of op = Some h /\ h_sites h = SLoad UPrimary GNone g :: rest).
Proof. exact (conj handler_table_as_specified (conj dispatch_as_specified governed_primary)). Qed.
Print Assumptions every_access_is_checked.

(* A request that addresses (as primary object, wrapping key, derivation base or through the ID
   placeholder) an object for which the policy does not allow the operation the handler checks
   fails, changes neither the store nor the ID placeholder, and is not answered as "passed". *)
Theorem no_effect_without_grant : forall P id s ph r out st',
  step_item P id (s, ph) r = (out, st') ->
  forall o op, addressed r ph s o op -> allowed_obj P id op o = false ->
  st' = (s, ph) /\ passed out = false /\ is_failure out = true.
Proof. exact no_effect_without_grant_l. Qed.
Print Assumptions no_effect_without_grant.

Definition ex_store : store :=
  {| objs := [ {| o_uid := "1"; o_type := 2; o_owner := Some "alice"; o_pol := "default"; o_content := [("state", "pre-active")] |};
               {| o_uid := "2"; o_type := 1; o_owner := Some "alice"; o_pol := "default"; o_content := [("state", "pre-active")] |} ];
     dead := [] |}.
Definition ex_bob : identity := {| id_user := Some "bob"; id_groups := None |}.
Definition ex_req (op : Z) (u : option string) : request :=
  {| r_op := op; r_uid := u; r_uids := []; r_each_ok := []; r_wrap := None; r_pre_ok := true; r_post_ok := true;
     r_match := None; r_upd := None; r_new := [] |}.

(* bob asks for alice's symmetric key under the built-in default policy: refused with the not-found text *)
Example no_effect_without_grant_nonvacuous :
  step_item default_policies ex_bob (ex_store, None) (ex_req 10 (Some "1"))
  = (ODenied "Could not locate object: 1", (ex_store, None)) /\
  step_item default_policies ex_bob (ex_store, None) (ex_req 10 (Some "7"))
  = (ONotFound "Could not locate object: 7", (ex_store, None)) /\
  fst (step_item default_policies ex_bob (ex_store, None) (ex_req 10 (Some "2"))) = OSuccess [].
Proof. repeat split; vm_compute; reflexivity. Qed.

(* the exact answer for the operations that address a primary object *)
Theorem governed_denial : forall P id s ph r g u o,
  In (r_op r, g) governing_table -> r_pre_ok r = true ->
  resolve_primary r ph = Some u -> find_obj u (objs s) = Some o ->
  allowed_obj P id g o = false ->
  step_item P id (s, ph) r = (ODenied (render1 notfound_format u), (s, ph)).
Proof. exact HandlerSpecProofs.governed_denial. Qed.
Print Assumptions governed_denial.

(* the text of the permission error is the text for an identifier that does not exist
   (both formats are extracted from engine.py on every run) *)
Theorem denial_text_eq_notfound : forall u, render1 denied_format u = render1 notfound_format u.
Proof. exact denial_text_eq_notfound_l. Qed.
Print Assumptions denial_text_eq_notfound.

(* a denied primary object is answered like a missing one: same text, state unchanged in both runs *)
Theorem denied_like_missing_primary : forall P id s s0 ph r h op rest u o,
  handler_of (r_op r) = Some h -> h_sites h = SLoad UPrimary GNone op :: rest -> r_pre_ok r = true ->
  resolve_primary r ph = Some u ->
  find_obj u (objs s) = Some o -> allowed_obj P id op o = false ->
  find_obj u (objs s0) = None ->
  out_text (fst (step_item P id (s, ph) r)) = out_text (fst (step_item P id (s0, ph) r)) /\
  snd (step_item P id (s, ph) r) = (s, ph) /\ snd (step_item P id (s0, ph) r) = (s0, ph).
Proof. exact denied_like_missing_primary_l. Qed.
Print Assumptions denied_like_missing_primary.

(* the same at EVERY load site at once (primary object, wrapping key of Get, bases of DeriveKey, ID
   placeholder): as far as refusal texts go, the request is answered as if the objects the requester has
   no grant for did not exist; PermissionDenied vs ItemNotFound is the only difference.  (That nothing
   changes in the first run is no_effect_without_grant.) *)
Theorem denied_like_missing : forall P id s ph r o,
  wf_store s -> In o (objs s) ->
  (forall op, addressed r ph s o op -> allowed_obj P id op o = false) ->
  out_text (fst (step_item P id (s, ph) r)) = out_text (fst (step_item P id (without o s, ph) r)).
Proof. exact denied_like_missing_l. Qed.
Print Assumptions denied_like_missing.

(* The headline: an operation takes effect on, or is answered as passed for, an object only if the object's
   policy grants the operation to the requester - for every object the request addresses (primary object,
   wrapping key, derivation bases, ID placeholder target). *)
Theorem effect_only_if_granted : forall P id s ph r out s' ph',
  step_item P id (s, ph) r = (out, (s', ph')) ->
  s' <> s \/ ph' <> ph \/ passed out = true ->
  forall o op, addressed r ph s o op -> granted_spec P (o_pol o) id (o_owner o) (o_type o) op.
Proof. exact effect_only_if_granted_l. Qed.
Print Assumptions effect_only_if_granted.

(* which objects are addressed, per kind of site *)
Theorem addressed_objects :
  (forall r ph s g u o, In (r_op r, g) governing_table -> resolve_primary r ph = Some u ->
     find_obj u (objs s) = Some o -> addressed r ph s o g) /\
  (forall r ph s u o, r_op r = GET -> r_wrap r = Some u -> find_obj u (objs s) = Some o -> addressed r ph s o GET) /\
  (forall r ph s u o, r_op r = op_named "DERIVE_KEY" -> In u (r_uids r) -> find_obj u (objs s) = Some o ->
     addressed r ph s o GET).
Proof. exact (conj primary_addressed (conj wrapping_key_addressed derive_base_addressed)). Qed.
Print Assumptions addressed_objects.

(* a row that is gone after a step was addressed by the request under a grant; all other rows stay *)
Theorem only_addressed_objects_change : forall P id s ph r out s' ph',
  wf_store s ->
  step_item P id (s, ph) r = (out, (s', ph')) ->
  forall o, In o (objs s) ->
  In o (objs s') \/ exists op, addressed r ph s o op /\ allowed_obj P id op o = true.
Proof. exact only_addressed_objects_change_l. Qed.
Print Assumptions only_addressed_objects_change.

(* THE FRAME over the whole attribute state.  Every object carries an abstract content (one (kind, value id) pair
   per table of the data store that has rows for it; a value belongs to ONE object).  After any request item, on any
   store, an object is still there with ALL its columns and its WHOLE content unchanged - unless the item succeeded, is an
   attribute-writing operation (Activate, Revoke, Modify/Set/DeleteAttribute) or the deleting one (Destroy), and the
   object is one the item loaded under a grant.  In particular a granted request on the requester's own object leaves
   every other object's attributes alone, and ... *)
Theorem content_frame : forall P id s ph r out s' ph',
  wf_store s ->
  step_item P id (s, ph) r = (out, (s', ph')) ->
  forall o, In o (objs s) ->
  In o (objs s') \/
  (is_failure out = false /\
   (In (r_op r) mutating_ops \/ exists h, handler_of (r_op r) = Some h /\ (0 < h_direct_queries h)%nat) /\
   exists op, addressed r ph s o op /\ allowed_obj P id op o = true).
Proof. exact content_frame_l. Qed.
Print Assumptions content_frame.

(* ... a denied or otherwise failed item changes no object's content (nor anything else), and neither does a request
   all of whose items fail *)
Theorem failure_changes_nothing : forall P id s ph r out st',
  step_item P id (s, ph) r = (out, st') -> is_failure out = true -> st' = (s, ph).
Proof. exact failure_changes_nothing_l. Qed.
Print Assumptions failure_changes_nothing.

Theorem failed_items_change_nothing : forall P id cont rs s ph outs st',
  run_items P id cont (s, ph) rs = (outs, st') -> forallb is_failure outs = true -> st' = (s, ph).
Proof. exact failed_items_change_nothing_l. Qed.
Print Assumptions failed_items_change_nothing.

Theorem mutating_ops_named :
  mutating_ops = map op_named ["ACTIVATE"; "REVOKE"; "MODIFY_ATTRIBUTE"; "DELETE_ATTRIBUTE"; "SET_ATTRIBUTE"].
Proof. exact mutating_ops_as_specified. Qed.
Print Assumptions mutating_ops_named.

(* bob activates his own key 3: its content is rewritten, alice's rows keep theirs; bob's attempt on alice's key 1
   is refused and changes nothing *)
Example content_frame_nonvacuous :
  let s3 := {| objs := objs ex_store ++ [{| o_uid := "3"; o_type := 2; o_owner := Some "bob"; o_pol := "default";
                                            o_content := [("state", "pre-active")] |}]; dead := [] |} in
  let act u c := {| r_op := 18; r_uid := Some u; r_uids := []; r_each_ok := []; r_wrap := None; r_pre_ok := true;
                    r_post_ok := true; r_match := None; r_upd := Some c; r_new := [] |} in
  snd (step_item default_policies ex_bob (s3, None) (act "3" [("state", "active")]))
  = ({| objs := objs ex_store ++ [{| o_uid := "3"; o_type := 2; o_owner := Some "bob"; o_pol := "default";
                                     o_content := [("state", "active")] |}]; dead := [] |}, None) /\
  step_item default_policies ex_bob (s3, None) (act "1" [("state", "active")])
  = (ODenied "Could not locate object: 1", (s3, None)).
Proof. split; vm_compute; reflexivity. Qed.

(* Locate never lists an object the requester may not locate *)
Theorem locate_only_permitted : forall P id s ph r ids st',
  r_op r = op_named "LOCATE" -> step_item P id (s, ph) r = (OSuccess ids, st') ->
  forall u, In u ids ->
  exists o, In o (objs s) /\ o_uid o = u /\ allowed_obj P id (op_named "LOCATE") o = true.
Proof. exact locate_only_permitted_l. Qed.
Print Assumptions locate_only_permitted.

Example locate_only_permitted_nonvacuous :
  fst (step_item default_policies ex_bob (ex_store, None) (ex_req 8 None)) = OSuccess ["2"].
Proof. vm_compute. reflexivity. Qed.

(* =========================================================================== histories *)

(* every store reachable from the empty one is well formed (identifiers unique, dead ones stay dead) *)
Theorem reachable_wf : forall P h, wf_store (run P empty_store h).
Proof. exact AccessProofs.reachable_wf. Qed.
Print Assumptions reachable_wf.

(* type, owner and policy name of a row never change, over all histories of requests by any clients *)
Theorem rows_never_change : forall P h s o o',
  wf_store s -> In o (objs s) -> In o' (objs (run P s h)) -> o_uid o' = o_uid o -> same_acl o o'.
Proof. exact rows_never_change_l. Qed.
Print Assumptions rows_never_change.

(* an object's owner is the identity of the request that created it, forever *)
Theorem owner_forever : forall P s q h o,
  wf_store s ->
  In o (objs (snd (process_request P s q))) -> ~ In (o_uid o) (uids s) ->
  o_owner o = id_user (q_id q) /\
  forall o', In o' (objs (run P (snd (process_request P s q)) h)) -> o_uid o' = o_uid o -> same_acl o o'.
Proof. exact owner_forever_l. Qed.
Print Assumptions owner_forever.

Definition ex_create : request :=
  {| r_op := 1; r_uid := None; r_uids := []; r_each_ok := []; r_wrap := None; r_pre_ok := true; r_post_ok := true;
     r_match := None; r_upd := None; r_new := [("3", 2, "default", [("state", "pre-active")])] |}.

(* bob creates object 3 and destroys it through the ID placeholder in the same batch; alice's rows stay *)
Example owner_forever_nonvacuous :
  process_request default_policies ex_store {| q_id := ex_bob; q_cont := false; q_items := [ex_create] |}
  = ([OSuccess ["3"]],
     {| objs := objs ex_store ++ [{| o_uid := "3"; o_type := 2; o_owner := Some "bob"; o_pol := "default"; o_content := [("state", "pre-active")] |}]; dead := [] |}) /\
  process_request default_policies ex_store {| q_id := ex_bob; q_cont := false; q_items := [ex_create; ex_req 20 None] |}
  = ([OSuccess ["3"]; OSuccess []], {| objs := objs ex_store; dead := ["3"] |}).
Proof. split; vm_compute; reflexivity. Qed.
