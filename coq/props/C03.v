(* C03 - access control: nothing happens to an object without a policy grant.
   Property theorems only; proofs live in PK.Policy.*Proofs. *)
From Coq Require Import ZArith List Bool String.
From PK Require Import Policy.Policy Policy.PolicyProofs.
Import ListNotations.
Open Scope Z_scope.
Open Scope string_scope.

Theorem decision_table : forall P pn id owner ot op,
  allowed_by_policy P pn id owner ot op = true <-> table_spec P pn id owner ot op.
Proof. exact decision_table_l. Qed.
Print Assumptions decision_table.
