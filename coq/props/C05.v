(* C05 - stored objects come back exactly as stored (client, wire, engine, SQLite): property theorems.
   Model: theories/Persist/Model.v (tied to /repo by translate/gen_sqltypes.py (T) and harness/c05.py (K)). *)
From Coq Require Import ZArith List Bool.
From PKGen Require Import PieColumns.
From PK Require Import Persist.Model Persist.DecoratorProofs Persist.ChainProofs Persist.StoreProofs Persist.AttrProofs Persist.MakeProofs.
Import ListNotations.
Open Scope Z_scope.

(* ---------------------------------------------------------------- type decorators *)
Theorem sql_enum_roundtrip : forall o, enum_ok o -> sql_enum_in (sql_enum_out o) = o.
Proof. exact sql_enum_roundtrip_l. Qed.
Print Assumptions sql_enum_roundtrip.
Example sql_enum_roundtrip_sat : enum_ok (Some 2147483648) /\ enum_ok None. Proof. split; intro H; discriminate H. Qed.

(* the hypothesis is needed (a value equal to the sentinel would read back as NULL) and every stored enumeration meets it *)
Theorem sql_enum_sentinel_refuted : exists o, sql_enum_in (sql_enum_out o) <> o.
Proof. exists (Some enum_null). vm_compute. intro H. discriminate H. Qed.
Theorem stored_enum_members_ok : forall cls ms v, In (cls, ms) stored_enum_members -> In v ms -> enum_ok (Some v).
Proof. exact stored_member_ok. Qed.
Print Assumptions stored_enum_members_ok.

Theorem sql_mask_roundtrip : forall l, Forall (fun x => In x mask_bits) l ->
  sql_mask_in (sql_mask_out l) = canon_mask l /\ NoDup (canon_mask l) /\ (forall b, In b (canon_mask l) <-> In b l).
Proof.
  intros l H. split; [apply sql_mask_roundtrip_l; exact H|]. split; [apply canon_mask_nodup|].
  intro b. apply canon_mask_same_set. exact H.
Qed.
Print Assumptions sql_mask_roundtrip.
Lemma in_bits_dec : forall x, mem_z x mask_bits = true -> In x mask_bits.
Proof. intros x H. apply existsb_exists in H. destruct H as [y [Hy E]]. apply Z.eqb_eq in E. subst. exact Hy. Qed.
Ltac bits_forall := repeat (apply Forall_cons; [apply in_bits_dec; vm_compute; reflexivity|]); apply Forall_nil.
Example sql_mask_roundtrip_sat : Forall (fun x => In x mask_bits) [8; 4; 8; 8388608] /\ sql_mask_in (sql_mask_out [8; 4; 8; 8388608]) = [4; 8; 8388608].
Proof. split; [bits_forall|vm_compute; reflexivity]. Qed.

Theorem sql_mask_int_roundtrip : forall z, mask_defined z -> sql_mask_out (sql_mask_in z) = z.
Proof.
  intros z H. unfold sql_mask_in. destruct (z =? 0) eqn:E; [apply Z.eqb_eq in E; subst; reflexivity|].
  apply mask_int_roundtrip. exact H.
Qed.
Print Assumptions sql_mask_int_roundtrip.

(* ---------------------------------------------------------------- key wrapping data *)
Definition kwd_roundtrip_statement : Prop := forall w k, kwd_flatten w = Ok k -> kwd_unflatten k = Ok w.

Theorem kwd_roundtrip_refuted : exists w k, kwd_flatten w = Ok k /\ kwd_unflatten k <> Ok w.     (* known finding C05-kwd-empty-parameters *)
Proof. exact kwd_roundtrip_refuted_l. Qed.
Print Assumptions kwd_roundtrip_refuted.

Theorem kwd_roundtrip_partial : forall w, kwd_no_empty_params w -> exists k, kwd_flatten w = Ok k /\ kwd_unflatten k = Ok w.
Proof. exact kwd_roundtrip_l. Qed.
Print Assumptions kwd_roundtrip_partial.

Definition kwd_full : option kwd :=
  Some (mkKW 1 (Some (mkKI [55] (Some (mkCP (Some 1) None None None None None (Some false) (Some 0) None None None None None))))
             (Some (mkKI [] (Some (mkCP None None (Some 6) None None None None None (Some 16) None None None None)))) (Some []) None (Some 1)).
Example kwd_roundtrip_sat : kwd_no_empty_params kwd_full.
Proof. simpl. split; reflexivity. Qed.

(* values that are merely falsy survive (regression witness for fix 46c741e) *)
Theorem kwd_falsy_values_kept : kwd_no_empty_params kwd_falsy /\ exists k, kwd_flatten kwd_falsy = Ok k /\ kwd_unflatten k = Ok kwd_falsy.
Proof. split; [simpl; split; reflexivity|]. eexists. split; vm_compute; reflexivity. Qed.
Print Assumptions kwd_falsy_values_kept.

Theorem kwd_sql_roundtrip : forall k, kc_enums_ok k -> kc_map sql_enum_in (kc_map sql_enum_out k) = k.
Proof. exact kc_sql_roundtrip. Qed.
Print Assumptions kwd_sql_roundtrip.

(* ---------------------------------------------------------------- ObjectFactory.convert, every object type *)
Theorem convert_roundtrip : forall s p, wf_secret s -> core_to_pie s = Ok p -> pie_to_core p = Ok s.
Proof. exact convert_roundtrip_l. Qed.
Print Assumptions convert_roundtrip.

Definition ex_key : secret := SKey CSym (mkKB KFT_RAW [1; 2] (Some 3) (Some 16) None).
Definition ex_wrapped : secret := SKey CPriv (mkKB KFT_PKCS_8 [] (Some 4) (Some 2048) kwd_full).
Definition ex_split : secret := SSplit (mkKB KFT_RAW [9] (Some 3) (Some 128) None) (mkSP 3 1 2 1 (Some 9223372036854775807)).
Example convert_roundtrip_sat :
  wf_secret ex_key /\ wf_secret ex_wrapped /\ wf_secret ex_split /\
  (exists p, core_to_pie ex_key = Ok p) /\ (exists p, core_to_pie ex_wrapped = Ok p) /\ (exists p, core_to_pie ex_split = Ok p).
Proof.
  split; [exact I|]. split; [apply kwd_roundtrip_sat|]. split; [exact I|].
  split; [eexists; vm_compute; reflexivity|]. split; eexists; vm_compute; reflexivity.
Qed.

(* ---------------------------------------------------------------- Register then Get *)
Definition get_after_register_statement : Prop := forall v o n s l st st' u,
  store_ok st -> srv_register v o n s l st = Ok (st', u) -> srv_get st' u = Ok s.

Theorem get_after_register_refuted :                 (* known finding C05-kwd-empty-parameters, end to end *)
  exists v o n s l st' u, srv_register v o n s l store0 = Ok (st', u) /\ srv_get st' u <> Ok s.
Proof.
  exists (1, 4), [97], 1600000000, (SKey CSym (mkKB KFT_RAW [1; 2] (Some 3) (Some 16) kwd_witness)), []. eexists. eexists.
  split; [vm_compute; reflexivity|]. vm_compute. intro H. discriminate H.
Qed.
Print Assumptions get_after_register_refuted.

Theorem get_after_register_refuted_secret_data :     (* known finding C05-secret-data-key-block *)
  exists v o n s l st' u, srv_register v o n s l store0 = Ok (st', u) /\ srv_get st' u <> Ok s.
Proof.
  exists (1, 4), [97], 1600000000, (SSecret 1 (mkKB KFT_RAW [112; 119] None None None)), []. eexists. eexists.
  split; [vm_compute; reflexivity|]. vm_compute. intro H. discriminate H.
Qed.
Print Assumptions get_after_register_refuted_secret_data.

Theorem get_after_register_partial : forall v o n s l st st' u,
  store_ok st -> wf_secret s -> enums_ok s -> len_attr_consistent s l ->
  srv_register v o n s l st = Ok (st', u) -> srv_get st' u = Ok s.
Proof. exact get_after_register_l. Qed.
Print Assumptions get_after_register_partial.

Definition ex_attrs : list tattr :=
  [mkTA (Some 0) (TName [110; 49] NT_TEXT); mkTA None (TMask 12); mkTA (Some 1) (TName [110; 50] NT_TEXT); mkTA (Some 0) (TGroup [103]);
   mkTA None (TSens true); mkTA (Some 0) (TAsi [97] [98]); mkTA None (TLen 2048)].
Example get_after_register_sat :
  store_ok store0 /\ wf_secret ex_wrapped /\ enums_ok ex_wrapped /\ len_attr_consistent ex_wrapped ex_attrs /\
  exists st' u, srv_register (1, 4) [97] 1600000000 ex_wrapped ex_attrs store0 = Ok (st', u).
Proof.
  split; [apply store0_ok|]. split; [apply kwd_roundtrip_sat|].
  split; [vm_compute; repeat split; intro H; discriminate H|]. split; [right; reflexivity|].
  eexists. eexists. vm_compute. reflexivity.
Qed.

(* at any later point of any history (other registrations, reads, activations - also of the object itself -, destructions of
   other objects) and across any number of engine restarts on the same file: by induction over histories *)
Theorem get_at_any_later_point : forall v o n s l st st' u h,
  store_ok st -> wf_secret s -> enums_ok s -> len_attr_consistent s l ->
  srv_register v o n s l st = Ok (st', u) ->
  Forall (not_destroying u) h ->
  srv_get (run st' h) u = Ok s.
Proof. exact get_at_any_later_point_l. Qed.
Print Assumptions get_at_any_later_point.

Theorem any_reachable_store_ok : forall h, store_ok (run store0 h).
Proof. intro h. apply run_store_ok. apply store0_ok. Qed.
Print Assumptions any_reachable_store_ok.

Theorem restart_persists : forall st u, srv_get (step st HRestart) u = srv_get st u /\ (forall v, srv_attrs v (step st HRestart) u = srv_attrs v st u).
Proof. intros st u. split; reflexivity. Qed.
Print Assumptions restart_persists.

Example history_sat :
  Forall (not_destroying 1) [HRead; HRegister (2, 0) [98] 5 ex_key []; HActivate 1; HRestart; HDestroy 2; HRestart; HRead].
Proof. repeat constructor; simpl; discriminate. Qed.

(* ---------------------------------------------------------------- GetAttributes = supplied + server-assigned *)
Definition attrs_after_register_statement : Prop := forall v o n s l st st' u v',
  store_ok st -> srv_register v o n s l st = Ok (st', u) ->
  get_attributes v' st' u = Ok (expected_attrs v' u n ST_PRE_ACTIVE s l).

Theorem attrs_after_register_refuted :               (* known finding C05-name-type-not-stored *)
  exists v o n s l st' u v', srv_register v o n s l store0 = Ok (st', u) /\
                             get_attributes v' st' u <> Ok (expected_attrs v' u n ST_PRE_ACTIVE s l).
Proof.
  exists (1, 2), [97], 1600000000, ex_key, [mkTA (Some 0) (TName [110] NT_URI)]. eexists. eexists. exists (1, 2).
  split; [vm_compute; reflexivity|]. vm_compute. intro H. discriminate H.
Qed.
Print Assumptions attrs_after_register_refuted.

(* every version, every object type, as the application receives it through the client *)
Theorem attrs_after_register_partial : forall v o n s l st st' u v',
  store_ok st -> enums_ok s -> len_attr_consistent s l -> names_untyped l -> mask_attr_defined l ->
  srv_register v o n s l st = Ok (st', u) ->
  get_attributes v' st' u = Ok (expected_attrs v' u n ST_PRE_ACTIVE s l).
Proof. exact attrs_after_register_l. Qed.
Print Assumptions attrs_after_register_partial.

Example attrs_after_register_sat :
  enums_ok ex_wrapped /\ names_untyped ex_attrs /\ mask_attr_defined ex_attrs.
Proof.
  split; [vm_compute; repeat split; intro H; discriminate H|]. split; [repeat constructor|].
  exists [4; 8]; split; [bits_forall|reflexivity].
Qed.

(* the attribute set at any later point of any history without a Destroy of the object (other registrations, reads,
   activations, destructions of others, foreign creations) and across restarts: only State moves, and only by an Activate of
   this object; by induction over histories *)
Theorem attrs_at_any_later_point : forall v o n s l st st' u h v',
  store_ok st -> enums_ok s -> len_attr_consistent s l -> names_untyped l -> mask_attr_defined l ->
  srv_register v o n s l st = Ok (st', u) -> Forall (not_destroying u) h ->
  get_attributes v' (run st' h) u = Ok (expected_attrs v' u n (state_after u s h) s l).
Proof. exact attrs_at_any_later_point_l. Qed.
Print Assumptions attrs_at_any_later_point.

Example state_after_sat :
  state_after 1 ex_key [HRead; HActivate 2; HRestart] = ST_PRE_ACTIVE /\ state_after 1 ex_key [HRestart; HActivate 1; HForeign] = ST_ACTIVE /\
  state_after 1 (SOpaque 2147483648 []) [HActivate 1] = ST_PRE_ACTIVE.
Proof. repeat split. Qed.

(* ---------------------------------------------------------------- objects made from templates: Create, DeriveKey, CreateKeyPair
   The generated key material is an input; everything else comes from the template(s). *)
Theorem created_object_comes_from_template : forall k mat l s, made_secret k mat l = Ok s ->
  match k with
  | KDeriveSecret => secret_class s = CSecret /\ secret_alg s = None /\ secret_len s = None
  | _ => secret_class s = CSym /\ secret_alg s = sel_alg l /\ secret_len s = sel_len l
  end.
Proof. exact made_secret_shape. Qed.
Print Assumptions created_object_comes_from_template.

(* Create / DeriveKey: GetAttributes = the template's attributes + server-assigned, Get = the made object, at any later point of any
   history (registrations, creations, reads, activations, destructions of others) and across restarts *)
Theorem created_at_any_later_point : forall k v o n mat l st st' u h v',
  store_ok st -> alg_attr_ok l -> names_untyped (made_attrs k l) -> mask_attr_defined (made_attrs k l) ->
  srv_make k v o n mat l st = Ok (st', u) -> Forall (not_destroying u) h ->
  exists s, made_secret k mat l = Ok s /\
            get_attributes v' (run st' h) u = Ok (expected_attrs v' u n (state_after u s h) s (made_attrs k l)) /\
            srv_get (run st' h) u = Ok s.
Proof. exact made_at_any_later_point_l. Qed.
Print Assumptions created_at_any_later_point.

Definition ex_template : list tattr :=
  [mkTA None (TAlg 3); mkTA None (TLen 128); mkTA None (TMask 12); mkTA (Some 0) (TName [107] NT_TEXT); mkTA (Some 0) (TGroup [103]);
   mkTA (Some 1) (TGroup [104]); mkTA None (TSens true)].
Example created_sat :
  alg_attr_ok ex_template /\ names_untyped ex_template /\ exists st' u, srv_make KCreate (1, 4) [97] 5 [1; 2; 3; 4; 5; 6; 7; 8; 9; 10; 11; 12; 13; 14; 15; 16] ex_template store0 = Ok (st', u).
Proof. split; [intro H; discriminate H|]. split; [repeat constructor|]. eexists. eexists. vm_compute. reflexivity. Qed.

(* CreateKeyPair: each key reports the attributes of `resolve common own` - its own template's value of an attribute if it has one,
   else the common template's (KMIP 4.2) - plus the server-assigned ones; both keys, any later point, across restarts *)
Theorem key_pair_at_any_later_point : forall v o n fu mu fr mr lc lu lr st st' u1 u2 h v',
  store_ok st -> enum_ok (Some fu) -> enum_ok (Some fr) ->
  alg_attr_ok (resolve lc lu) -> alg_attr_ok (resolve lc lr) ->
  names_untyped (resolve lc lu) -> names_untyped (resolve lc lr) ->
  mask_attr_defined (resolve lc lu) -> mask_attr_defined (resolve lc lr) ->
  srv_make_pair v o n fu mu fr mr lc lu lr st = Ok (st', (u1, u2)) ->
  Forall (not_destroying u1) h -> Forall (not_destroying u2) h ->
  exists su sr,
    pair_secret CPub fu mu (resolve lc lu) = Ok su /\ pair_secret CPriv fr mr (resolve lc lr) = Ok sr /\
    get_attributes v' (run st' h) u1 = Ok (expected_attrs v' u1 n (state_after u1 su h) su (resolve lc lu)) /\
    get_attributes v' (run st' h) u2 = Ok (expected_attrs v' u2 n (state_after u2 sr h) sr (resolve lc lr)) /\
    srv_get (run st' h) u1 = Ok su /\ srv_get (run st' h) u2 = Ok sr.
Proof. exact pair_at_any_later_point_l. Qed.
Print Assumptions key_pair_at_any_later_point.

Theorem key_pair_resolution_rule : forall a common own,
  of_attr a (resolve common own) = if has_attr a own then of_attr a own else of_attr a common.
Proof. exact resolve_rule. Qed.
Print Assumptions key_pair_resolution_rule.

(* the shape of seeds C05L / C06K: common {Name, Group, Length 2048}, public overrides the Name, private the Group, both the Length *)
Definition ex_common : list tattr := [mkTA (Some 0) (TName [99] NT_TEXT); mkTA (Some 0) (TGroup [102]); mkTA None (TAlg 4); mkTA None (TLen 2048); mkTA None (TMask 3)].
Definition ex_public : list tattr := [mkTA (Some 0) (TName [112] NT_TEXT); mkTA None (TLen 1024)].
Definition ex_private : list tattr := [mkTA (Some 0) (TGroup [113]); mkTA None (TLen 1024)].
Example key_pair_sat :
  sel_names (resolve ex_common ex_public) = [[112]] /\ sel_groups (resolve ex_common ex_public) = [[102]] /\
  sel_names (resolve ex_common ex_private) = [[99]] /\ sel_groups (resolve ex_common ex_private) = [[113]] /\
  sel_len (resolve ex_common ex_public) = Some 1024 /\ sel_len (resolve ex_common ex_private) = Some 1024 /\
  exists st' u, srv_make_pair (1, 2) [97] 5 KFT_PKCS_1 [1] KFT_PKCS_8 [2] ex_common ex_public ex_private store0 = Ok (st', u).
Proof. repeat split. eexists. eexists. vm_compute. reflexivity. Qed.
