From PK Require Import Persist.Model Persist.Cases.
Theorem c05_placeholder : True. Proof. exact I. Qed.
