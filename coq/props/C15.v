(* C15 - attribute operations change only what they may, exactly as asked.
   Model: theories/AttrOps/Model.v (handlers of engine.py, consulting gen/AttrRuleTable.v regenerated from policy.py);
   independent statement of "addressed instance / exactly / nothing else": theories/AttrOps/Spec.v. *)
From Coq Require Import ZArith List String Bool.
From PKGen Require Import AttrRuleTable.
From PK Require Import AttrOps.Model AttrOps.Spec AttrOps.Proofs AttrOps.ExactProofs AttrOps.HistoryProofs AttrOps.ListLemmas AttrOps.GetAttrProofs AttrOps.BatchProofs.
Import ListNotations.
Open Scope string_scope.
Open Scope Z_scope.

(* --- the regenerated rule table marks none of the protected attributes client-modifiable or client-deletable *)
Theorem table_protects_protected_names : forallb rule_protects protected_names = true.
Proof. exact table_protects. Qed.
Print Assumptions table_protects_protected_names.

(* --- identifier, object type, state, owner, operation policy name, usage mask, algorithm, length, initial date of
       every object are the same before and after any Set/Modify/DeleteAttribute request, whatever its result *)
Theorem protected_never_change : forall v user s uid r,
  map protected (fst (step v user s uid r)) = map protected s.
Proof. exact step_protected. Qed.
Print Assumptions protected_never_change.

(* ... for every history of such requests *)
Theorem protected_never_change_history : forall h s, attr_only h -> map protected (run s h) = map protected s.
Proof. exact run_protected. Qed.
Print Assumptions protected_never_change_history.

(* ... and interleaved with arbitrary other operations: any invariant of the protected attributes those maintain survives *)
Theorem protected_never_change_interleaved : forall (P : list _ -> Prop) h s,
  (forall f, In (EvOther f) h -> forall s0, P (map protected s0) -> P (map protected (f s0))) ->
  P (map protected s) -> P (map protected (run s h)).
Proof. exact run_protected_invariant. Qed.
Print Assumptions protected_never_change_interleaved.

(* --- a successful call: the request addresses an instance (by index in 1.x, by current value in 2.0), the object
       afterwards holds exactly the requested value there / lacks exactly that instance, everything else of the object
       and every other object is as before *)
Theorem success_exact : forall v user s uid r,
  snd (step v user s uid r) = Success ->
  exists u o o' ta,
    uid = Some u /\ find_obj u s = Some o /\ allowed user o = true /\
    addressed v o r = Some ta /\ meets ta o o' /\
    only_object_changed u o o' s (fst (step v user s uid r)).
Proof. exact step_success_exact. Qed.
Print Assumptions success_exact.

(* regression for the fixed finding C15-empty-name-delete: the empty name text addresses an instance like any other *)
Theorem empty_name_delete_regression :
  step (2, 0) "alice" [wit_key] (Some 1) wit_req = ([wit_key], Failed RItemNotFound) /\
  step (2, 0) "alice" [mset FNames [VText "a"; VText ""; VText "b"] wit_key] (Some 1) wit_req
  = ([mset FNames [VText "a"; VText "b"] wit_key], Success).
Proof. split; [exact empty_name_delete_refused | exact empty_name_delete_exact]. Qed.
Print Assumptions empty_name_delete_regression.

(* --- ... which GetAttributes then reflects: under any protocol version the number of instances reported for the
       addressed attribute follows the change (same / one fewer / none), and the addressed position holds the value *)
Theorem getattributes_reflects : forall v v' user s uid r,
  ver_ge v' (1, 0) = true ->
  snd (step v user s uid r) = Success ->
  exists u o o' ta, uid = Some u /\ find_obj u s = Some o /\ addressed v o r = Some ta /\ meets ta o o' /\
    (stored_type (o_type o) = true ->
     match ta with
     | (TInstance f i, AReplace x) =>
       forall n, mfield_of_name n = Some f ->
         existing_count v' o' n = existing_count v' o n /\ nth_error (mget f o') i = Some x
     | (TInstance f i, ARemove) =>
       forall n, mfield_of_name n = Some f -> S (existing_count v' o' n) = existing_count v' o n
     | (TAll f, _) => forall n, mfield_of_name n = Some f -> existing_count v' o' n = O
     | (TSensitive, _) => True
     end).
Proof. exact GetAttrProofs.getattributes_reflects. Qed.
Print Assumptions getattributes_reflects.

(* --- an unsuccessful call changes nothing *)
Theorem failure_frame : forall v user s uid r e,
  snd (step v user s uid r) = Failed e -> fst (step v user s uid r) = s.
Proof. exact step_failure_frame. Qed.
Print Assumptions failure_frame.

Theorem failure_frame_history : forall h s, all_failed s h -> run s h = s.
Proof. exact run_failure_frame. Qed.
Print Assumptions failure_frame_history.

(* --- objects that no request of a history addresses are untouched *)
Theorem unaddressed_objects_untouched : forall h s k x, attr_only h ->
  (forall v user uid r, In (EvAttr v user uid r) h -> uid <> Some (o_uid x)) ->
  nth_error s k = Some x -> nth_error (run s h) k = Some x.
Proof. exact run_untouched. Qed.
Print Assumptions unaddressed_objects_untouched.

(* --- positional indices after a deletion shift as list positions do *)
Theorem index_semantics : forall v user s u o n idx,
  is_v2 v = false -> find_obj u s = Some o ->
  snd (step v user s (Some u) (RDelete (mkDel (Some n) idx None None))) = Success ->
  exists f i o', mfield_of_name n = Some f /\ idx_nat idx = Some i /\ (i < List.length (mget f o))%nat /\
    find_obj u (fst (step v user s (Some u) (RDelete (mkDel (Some n) idx None None)))) = Some o' /\
    (forall j, nth_error (mget f o') j = if (j <? i)%nat then nth_error (mget f o) j else nth_error (mget f o) (S j)) /\
    S (List.length (mget f o')) = List.length (mget f o).
Proof. exact HistoryProofs.index_semantics. Qed.
Print Assumptions index_semantics.

Theorem current_value_semantics : forall v user s u o n c,
  is_v2 v = true -> find_obj u s = Some o ->
  snd (step v user s (Some u) (RDelete (mkDel None None (Some (Some n, c)) None))) = Success ->
  exists f i o', mfield_of_name n = Some f /\ first_index c (mget f o) = Some i /\
    nth_error (mget f o) i = Some c /\ (forall j x, (j < i)%nat -> nth_error (mget f o) j = Some x -> x <> c) /\
    find_obj u (fst (step v user s (Some u) (RDelete (mkDel None None (Some (Some n, c)) None)))) = Some o' /\
    (forall j, nth_error (mget f o') j = if (j <? i)%nat then nth_error (mget f o) j else nth_error (mget f o) (S j)).
Proof. exact HistoryProofs.current_value_semantics. Qed.
Print Assumptions current_value_semantics.

(* a name can (now) be deleted by its current value: exactly the first equal name goes, everything else stays *)
Theorem name_deleted_by_current_value : forall v user s u o t,
  is_v2 v = true -> find_obj u s = Some o ->
  snd (step v user s (Some u) (RDelete (mkDel None None (Some (Some "Name", VText t)) None))) = Success ->
  exists i o', first_index (VText t) (o_names o) = Some i /\ nth_error (o_names o) i = Some (VText t) /\
    (forall j x, (j < i)%nat -> nth_error (o_names o) j = Some x -> x <> VText t) /\
    find_obj u (fst (step v user s (Some u) (RDelete (mkDel None None (Some (Some "Name", VText t)) None)))) = Some o' /\
    (forall j, nth_error (o_names o') j = if (j <? i)%nat then nth_error (o_names o) j else nth_error (o_names o) (S j)) /\
    o_groups o' = o_groups o /\ o_asi o' = o_asi o /\ o_sensitive o' = o_sensitive o /\ protected o' = protected o.
Proof. exact HistoryProofs.name_deleted_by_current_value. Qed.
Print Assumptions name_deleted_by_current_value.

Theorem repeated_front_deletion : forall k (l : list aval), Nat.iter k (remove_nth 0) l = skipn k l.
Proof. exact (@iter_remove_front aval). Qed.
Print Assumptions repeated_front_deletion.

(* --- batches: attribute operations without a Unique Identifier act on the object the ID placeholder names.
       [trace] lists the executed items of one request with the (store, placeholder) state before and after each;
       the placeholder starts as None and is written only by the four creating operations *)
Theorem placeholder_names_last_created : forall v user cont b st e, In e (trace v user cont st b) ->
  exists pre post, b = (pre ++ e_item e :: post)%list /\ snd (e_pre e) = last_created (snd st) pre /\
                   snd (e_post e) = ph_update (snd (e_pre e)) (e_item e).
Proof. exact trace_placeholder. Qed.
Print Assumptions placeholder_names_last_created.

Theorem batch_protected_never_change : forall v user cont b st e uid r,
  In e (trace v user cont st b) -> e_item e = IAttr uid r ->
  map protected (fst (e_post e)) = map protected (fst (e_pre e)) /\ snd (e_post e) = snd (e_pre e).
Proof. exact BatchProofs.batch_protected_never_change. Qed.
Print Assumptions batch_protected_never_change.

(* the addressed object: the explicit identifier, or else the identifier issued by the last creating item before it *)
Theorem batch_success_exact : forall v user cont b st e uid r,
  In e (trace v user cont st b) -> e_item e = IAttr uid r -> e_res e = RAttr Success ->
  exists pre post u o o' ta,
    b = (pre ++ IAttr uid r :: post)%list /\
    resolve uid (last_created (snd st) pre) = Some u /\
    find_obj u (fst (e_pre e)) = Some o /\ allowed user o = true /\
    addressed v o r = Some ta /\ meets ta o o' /\
    only_object_changed u o o' (fst (e_pre e)) (fst (e_post e)) /\ snd (e_post e) = snd (e_pre e).
Proof. exact BatchProofs.batch_success_exact. Qed.
Print Assumptions batch_success_exact.

Theorem batch_failure_frame : forall v user cont b st e uid r x,
  In e (trace v user cont st b) -> e_item e = IAttr uid r -> e_res e = RAttr (Failed x) -> e_post e = e_pre e.
Proof. exact BatchProofs.batch_failure_frame. Qed.
Print Assumptions batch_failure_frame.

(* without a creating item in the request an identifier-less attribute operation finds nothing *)
Theorem no_creating_item_no_placeholder : forall v user cont b s e r,
  In e (trace v user cont (s, None) b) -> e_item e = IAttr None r ->
  (forall news u, ~ In (ICreating news u) b) -> e_res e = RAttr (Failed RItemNotFound) \/ e_res e = RAttr (Failed ROpNotSupported).
Proof. exact BatchProofs.no_creating_item_no_placeholder. Qed.
Print Assumptions no_creating_item_no_placeholder.

(* --- the hypotheses above are satisfiable by non-trivial states (the model really succeeds and really fails) *)
Definition ex_key : obj :=
  mkObj 1 2 (Some 1) "alice" "default" (Some 12) (Some 3) (Some 128) 1600000000 None
        [VText "a"; VText "b"; VText "c"] [VText "g0"; VText "g1"] [VAsi "ns0" "d0"; VAsi "ns1" "d1"] false.
Definition ex_other : obj :=
  mkObj 2 8 None "bob" "default" None None None 1600000000 None [VText "x"] [] [] true.
Definition ex_store : store := [ex_key; ex_other].

Example ex_modify_1x_succeeds :
  step (1, 2) "alice" ex_store (Some 1) (RModify (mkMod (Some ("Name", Some 1, VText "q")) None None))
  = ([mset FNames [VText "a"; VText "q"; VText "c"] ex_key; ex_other], Success).
Proof. vm_compute. reflexivity. Qed.

Example ex_delete_1x_shifts :
  step (1, 0) "alice" ex_store (Some 1) (RDelete (mkDel (Some "Name") (Some 0) None None))
  = ([mset FNames [VText "b"; VText "c"] ex_key; ex_other], Success).
Proof. vm_compute. reflexivity. Qed.

Example ex_modify_20_by_current_value :
  step (2, 0) "alice" ex_store (Some 1) (RModify (mkMod None (Some (Some "Object Group", VText "g1")) (Some (Some "Object Group", VText "G"))))
  = ([mset FGroups [VText "g0"; VText "G"] ex_key; ex_other], Success).
Proof. vm_compute. reflexivity. Qed.

Example ex_delete_20_reference_clears :
  step (2, 0) "alice" ex_store (Some 1) (RDelete (mkDel None None None (Some "Application Specific Information")))
  = ([mset FAsi [] ex_key; ex_other], Success).
Proof. vm_compute. reflexivity. Qed.

Example ex_delete_20_name_by_current_value :
  step (2, 0) "alice" ex_store (Some 1) (RDelete (mkDel None None (Some (Some "Name", VText "b")) None))
  = ([mset FNames [VText "a"; VText "c"] ex_key; ex_other], Success).
Proof. vm_compute. reflexivity. Qed.

Example ex_unknown_name_is_refused_not_crashing :
  (snd (step (1, 2) "alice" ex_store (Some 1) (RModify (mkMod (Some ("Bogus", None, VText "q")) None None))),
   snd (step (1, 2) "alice" ex_store (Some 1) (RDelete (mkDel (Some "Bogus") None None None))),
   snd (step (2, 0) "alice" ex_store (Some 1) (RSet (Some (Some "Comment", VText "q")))))
  = (Failed RPermissionDenied, Failed RItemNotFound, Failed RReadOnly).
Proof. vm_compute. reflexivity. Qed.

(* Current Attribute and New Attribute of different kinds: refused, nothing changed *)
Example ex_modify_20_mixed_kinds_refused :
  step (2, 0) "alice" ex_store (Some 1) (RModify (mkMod None (Some (Some "Object Group", VText "g1")) (Some (Some "Name", VText "G"))))
  = (ex_store, Failed RInvalidField).
Proof. vm_compute. reflexivity. Qed.

Example ex_set_sensitive :
  step (2, 0) "alice" ex_store (Some 1) (RSet (Some (Some "Sensitive", VBool true)))
  = ([sset SSens (VBool true) ex_key; ex_other], Success).
Proof. vm_compute. reflexivity. Qed.

(* the single-valued overwrite rule: a set Sensitive flag cannot be cleared again (fails, changes nothing) *)
Example ex_sensitive_cannot_be_cleared :
  step (2, 0) "bob" ex_store (Some 2) (RSet (Some (Some "Sensitive", VBool false))) = (ex_store, Failed RInvalidField).
Proof. vm_compute. reflexivity. Qed.

Example ex_protected_refused :
  map (fun n => snd (step (1, 4) "alice" ex_store (Some 1) (RModify (mkMod (Some (n, None, VText "public")) None None))))
      ["Operation Policy Name"; "State"; "Cryptographic Usage Mask"; "Unique Identifier"]
  = [Failed RPermissionDenied; Failed RPermissionDenied; Failed RPermissionDenied; Failed RPermissionDenied].
Proof. vm_compute. reflexivity. Qed.

Example ex_negative_index_refused :
  step (1, 2) "alice" ex_store (Some 1) (RDelete (mkDel (Some "Name") (Some (-1)) None None)) = (ex_store, Failed RItemNotFound).
Proof. vm_compute. reflexivity. Qed.

Example ex_all_failed_history :
  all_failed ex_store [EvAttr (1, 2) "bob" (Some 1) (RDelete (mkDel (Some "Name") None None None));
                       EvAttr (2, 0) "alice" (Some 1) (RSet (Some (Some "State", VInt 2)))].
Proof. simpl. split; [eexists; vm_compute; reflexivity|]. split; [eexists; vm_compute; reflexivity|exact I]. Qed.

(* batch [Create; Get of another object; ModifyAttribute without identifier]: only the created object changes *)
Definition ex_new : obj :=
  mkObj 3 2 (Some 1) "alice" "default" (Some 12) (Some 3) (Some 256) 1600000000 None [VText "n0"; VText "n1"] [VText "g"] [] false.
Example ex_placeholder_batch :
  run_batch (1, 2) "alice" false ex_store
    [ICreating [ex_new] 3; IOther (fun s => s); IAttr None (RModify (mkMod (Some ("Name", Some 1, VText "q")) None None))]
  = (([ex_key; ex_other; mset FNames [VText "n0"; VText "q"] ex_new], Some 3), [ROk; ROk; RAttr Success]).
Proof. vm_compute. reflexivity. Qed.

Example ex_no_placeholder_without_creator :
  snd (run_batch (1, 2) "alice" true ex_store
    [IOther (fun s => s); IAttr None (RDelete (mkDel (Some "Name") None None None)); IAttr (Some 1) (RDelete (mkDel (Some "Name") None None None))])
  = [ROk; RAttr (Failed RItemNotFound); RAttr Success].
Proof. vm_compute. reflexivity. Qed.
