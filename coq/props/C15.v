(* C15 - attribute operations change only what they may, exactly as asked *)
From Coq Require Import ZArith List String Bool.
From PKGen Require Import AttrRuleTable.
From PK Require Import AttrOps.Model AttrOps.Proofs.
Import ListNotations.

Theorem table_protects_protected_names : forallb rule_protects protected_names = true.
Proof. exact table_protects. Qed.
Print Assumptions table_protects_protected_names.
