(* C20 - Secrets stay out of logs and error messages at the default log level.
   proof (partial): by construction on the message model + the regenerated table of every log / raise /
   result-message site of the kmip package (translate/gen_logsites.py -> gen/LogSites.v).
   NOT covered by these theorems: the text third-party libraries put into their own exception
   messages, reachable at exactly the sites listed in Logs/Remainder.v (canary scan only). *)
From Coq Require Import ZArith List Bool String Lia.
From PK Require Import Logs.Frag Logs.FragProofs Logs.Remainder.
From PKGen Require Import LogSites LogLevels.
Import ListNotations.
Open Scope string_scope.

(* What "the default logging level" is, tied to the code (config.py / server.py, regenerated each run):
   the configuration's default is INFO, nothing in KmipServerConfig removes settings, KmipServer.__init__ puts
   the configured level on the `kmip.server` logger unconditionally, and nothing else in the package changes
   logger levels, filters or routing (pinned).  With that threshold the records the model calls unobservable
   (logger.debug) are exactly those that are not written. *)
Theorem default_level_is_info :
  default_level = 20%Z /\ default_level_name = "INFO" /\
  server_sets_configured_level = true /\ config_removes_settings = false /\
  setlevel_sites = setlevel_pinned /\
  (forall k, observable k = observable_at default_level k) /\
  (forall name v, In (name, v) level_table -> name <> "DEBUG" -> (default_level <= v)%Z).
Proof.
  split; [reflexivity|]. split; [reflexivity|]. split; [reflexivity|]. split; [reflexivity|].
  split; [vm_compute; reflexivity|]. split; [exact observable_is_info_threshold|].
  intros name v Hin Hn. unfold level_table in Hin. simpl in Hin.
  repeat (destruct Hin as [Hin|Hin]; [inversion Hin; subst; try (exfalso; apply Hn; reflexivity); unfold default_level; lia|]).
  contradiction.
Qed.
Print Assumptions default_level_is_info.

(* a deployment whose effective level is below INFO does write the debug sites (Request/Response encoding...) *)
Theorem below_default_writes_secrets :
  exists s, In s log_sites /\ observable_at 10 (s_kind s) = true /\ existsb (is_secretish true) (s_parts s) = true.
Proof.
  destruct (find (fun s => observable_at 10 (s_kind s) && existsb (is_secretish true) (s_parts s)) log_sites) as [s|] eqn:E.
  - exists s. apply find_some in E. destruct E as [Hin Hs]. apply andb_true_iff in Hs. tauto.
  - exfalso. revert E. vm_compute. discriminate.
Qed.
Print Assumptions below_default_writes_secrets.

(* T-obligation, full strength: every observable site (INFO+ logging call, raise, result message, print)
   of the package formats only literals and arguments of a non-secret syntactic class, and nothing read
   from the request being decoded.  REFUTED by the faithful table (known finding C20-decoder-field-echo). *)
Definition logsites_safe_statement : Prop := forallb (site_ok false pk_exc_classes) log_sites = true.

Theorem logsites_safe_refuted :
  exists s, In s log_sites /\ observable (s_kind s) = true /\ site_ok false pk_exc_classes s = false.
Proof.
  destruct (find (fun s => negb (site_ok false pk_exc_classes s)) log_sites) as [s|] eqn:E.
  - exists s. apply find_some in E. destruct E as [Hin Hs]. apply negb_true_iff in Hs.
    split; [exact Hin|]. split; [|exact Hs].
    unfold site_ok in Hs. apply orb_false_iff in Hs. destruct Hs as [Ho _]. apply negb_false_iff in Ho. exact Ho.
  - exfalso. revert E. vm_compute. discriminate.
Qed.
Print Assumptions logsites_safe_refuted.

(* ... the partial theorem excludes exactly the decoder's wire-field echo ... *)
Theorem logsites_safe_partial : forallb (site_ok true pk_exc_classes) log_sites = true.
Proof. vm_compute. reflexivity. Qed.
Print Assumptions logsites_safe_partial.

(* ... which occurs at exactly the pinned sites, and every other site meets the full-strength claim. *)
Theorem wire_echo_pinned : wire_sites_of log_sites = wire_echo_sites.
Proof. vm_compute. reflexivity. Qed.
Print Assumptions wire_echo_pinned.

Theorem logsites_safe_outside_wire_echo : forall s,
  In s log_sites -> has_wire s = false -> site_ok false pk_exc_classes s = true.
Proof.
  intros s Hin Hw. rewrite (no_wire_full_strength pk_exc_classes s Hw).
  pose proof logsites_safe_partial as H. rewrite forallb_forall in H. exact (H s Hin).
Qed.
Print Assumptions logsites_safe_outside_wire_echo.

(* ... so no part of an observable site is a secret-bearing or unrecognised expression. *)
Theorem logsites_no_secret_part : forall s,
  In s log_sites -> observable (s_kind s) = true -> existsb (is_secretish true) (s_parts s) = false.
Proof. exact (site_ok_no_secret_part true pk_exc_classes log_sites logsites_safe_partial). Qed.
Print Assumptions logsites_no_secret_part.

(* The runtime remainder (third-party exception text) is exactly the hand-pinned list. *)
Theorem remainder_pinned : remainder_of pk_exc_classes log_sites = foreign_exc_remainder.
Proof. vm_compute. reflexivity. Qed.
Print Assumptions remainder_pinned.

Theorem logsites_strict_outside_remainder : forall s,
  In s log_sites -> ~ In (s_file s, s_func s) foreign_exc_remainder -> site_ok_strict true pk_exc_classes s = true.
Proof. intros s H1 H2. apply (outside_remainder_strict pk_exc_classes log_sites s H1). rewrite remainder_pinned. exact H2. Qed.
Print Assumptions logsites_strict_outside_remainder.

(* Message model, all histories: every emission of a run (result message or INFO+ record) that comes
   from a site of the table with arguments inside their class languages renders to a secret-free text. *)
Theorem logs_secret_free : forall h : list event,
  forallb (wf_event pk_exc_classes log_sites) h = true ->
  Forall (fun e => exists t, event_text pk_exc_classes log_sites e = Some t /\ secret_free pk_exc_classes log_sites t) h.
Proof. exact (run_secret_free pk_exc_classes log_sites). Qed.
Print Assumptions logs_secret_free.

Definition is_message_site (s : site) : bool :=
  match s_kind s with KResultMsg => true | KRaise true => true | _ => false end.

Theorem messages_secret_free : forall h : list event,
  forallb (fun e => is_message_site (nth (ev_site e) log_sites dummy_site) && wf_event pk_exc_classes log_sites e) h = true ->
  Forall (fun e => exists t, event_text pk_exc_classes log_sites e = Some t /\ secret_free pk_exc_classes log_sites t) h.
Proof.
  intros h H. apply logs_secret_free. rewrite forallb_forall in *. intros e He.
  specialize (H e He). apply andb_true_iff in H. tauto.
Qed.
Print Assumptions messages_secret_free.

(* With logsites_safe, an emission is well formed as soon as its arguments are in their languages. *)
Theorem emission_wf : forall e,
  (ev_site e < List.length log_sites)%nat ->
  observable (s_kind (nth (ev_site e) log_sites dummy_site)) = true ->
  (forall fs, to_frags true pk_exc_classes (s_parts (nth (ev_site e) log_sites dummy_site)) = Some fs -> args_ok fs (ev_args e) = true) ->
  wf_event pk_exc_classes log_sites e = true.
Proof. exact (table_safe_event_wf pk_exc_classes log_sites logsites_safe_partial). Qed.
Print Assumptions emission_wf.

(* render: the text is a concatenation of table literals and argument renderings. *)
Theorem render_is_concat : forall fs args t,
  render fs args = Some t -> exists ps, pieces fs args = Some ps /\ t = concat_str (map piece_text ps).
Proof. exact render_pieces. Qed.
Print Assumptions render_is_concat.

(* render_no_secret, in the form that can be stated usefully: arguments of the closed classes (including
   the decoder's wire-field echo) cannot carry 24 hexadecimal digits in a row nor more than 200 characters. *)
Theorem render_no_secret_closed : forall c a,
  closed_class c = true -> arg_ok c a = true -> (max_run hexchars a < 24)%nat /\ (String.length a <= 200)%nat.
Proof. intros c a H1 H2; split; [eapply closed_arg_no_hex_run|eapply closed_arg_short]; eauto. Qed.
Print Assumptions render_no_secret_closed.

(* Tie K: whatever the comparator accepts is secret free. *)
Theorem comparator_sound : forall c, check_case pk_exc_classes log_sites c = true -> secret_free pk_exc_classes log_sites (c_text c).
Proof. exact (check_case_sound pk_exc_classes log_sites). Qed.
Print Assumptions comparator_sound.

(* Non-vacuity: the hypotheses are satisfiable, on the real table. *)
Example table_is_large : (500 <? List.length log_sites)%nat = true.
Proof. vm_compute. reflexivity. Qed.
Example table_has_observable_sites_with_arguments :
  (100 <? List.length (filter (fun s => observable (s_kind s) &&
        existsb (fun p => match p with SLit _ => false | _ => true end) (s_parts s)) log_sites))%nat = true.
Proof. vm_compute. reflexivity. Qed.
Example table_has_debug_only_secrets :
  existsb (fun s => negb (observable (s_kind s)) && existsb (is_secretish true) (s_parts s)) log_sites = true.
Proof. vm_compute. reflexivity. Qed.
Example some_wf_history_exists :
  exists h, h <> [] /\ forallb (wf_event demo_pk demo_sites) h = true.
Proof. exists [mkEvent 1 ["SymmetricKey"; "7"]; mkEvent 0 ["abc"]]. split; [discriminate|vm_compute; reflexivity]. Qed.
