(* C14 - Locate returns exactly the objects the requester is permitted to locate that match every
   attribute filter in the request, ordered newest first; offset and maximum items select the
   corresponding slice of that same ordered list, so consecutive pages partition the full result.

   Model:  PK.Locate.Locate (locate_request mirrors KmipEngine._process_locate as it is - version gate,
           object loop with "no value -> no match", date tracking, stable sort, slicing; tie K in
           harness/c14.py, applicability / version_added / mask bits through the generated tables, tie T).
   Spec:   locate_spec = slice off max (sort_desc (filter (allowed && forallb matches && date_match) objs)).

   Quantification: every protocol version, every store (list of objects), every access predicate
   `allowed` (hence every requester and policy set), every filter list, every offset/maximum. *)
From Coq Require Import String ZArith List Bool Permutation Sorted.
From PK Require Import Locate.Locate Locate.LocateProofs Locate.LocateExamples.
Import ListNotations.
Open Scope string_scope.
Open Scope list_scope.
Open Scope Z_scope.

(* ------------------------------------------------------------------------------------------------
   1. Refinement.  Hypotheses:
      gate_ok          every filter attribute exists under the request's protocol version (otherwise the
                       request is refused with InvalidField: locate_failure_causes, first clause)
      side_conditions  the visible objects are of the seven stored types and have Initial Date <> 0
                       (server clock past the epoch); usage-mask filters ask only for defined bits;
                       at most two Initial Date filters (one = exact, two = range; a third is refused)
      nonneg           offset and maximum are not negative
   No condition on the KIND of filter any more: a filter on an attribute for which an object has no
   value (NULL column, class without the field, attribute the server does not keep) simply does not
   match that object, in the model and in the spec.  Each remaining condition is shown necessary below
   (..._needed) and they are jointly satisfiable (locate_refines_spec_example). *)
Theorem locate_refines_spec : forall ver allowed objs fs off mx,
  gate_ok ver fs = true -> side_conditions allowed objs fs -> nonneg off -> nonneg mx ->
  locate_request ver allowed objs fs off mx = Ok (locate_spec allowed objs fs off mx).
Proof. exact locate_refines_spec_lemma. Qed.
Print Assumptions locate_refines_spec.

Example locate_refines_spec_example :
  (gate_ok ex_ver ex_filters = true /\ side_conditions ex_allowed ex_store ex_filters) /\
  (locate_request ex_ver ex_allowed ex_store ex_filters None None = Ok [3; 6; 7] /\
   locate_request ex_ver ex_allowed ex_store ex_filters (Some 1) (Some 1) = Ok [6] /\
   locate_request ex_ver ex_allowed ex_store [] None None = Ok [3; 6; 4; 1; 2; 7]).
Proof. exact (conj ex_side_conditions ex_answer). Qed.

(* the same with crash freedom as an explicit hypothesis instead of the stored types (independent of
   the rule table), on the part of the operation behind the gate *)
Theorem locate_refines_spec_general : forall allowed objs fs off mx,
  side_conditions_general allowed objs fs -> nonneg off -> nonneg mx ->
  locate_model allowed objs fs off mx = Ok (locate_spec allowed objs fs off mx).
Proof. exact locate_model_refines_general. Qed.
Print Assumptions locate_refines_spec_general.

(* from the generated rule table: for the seven stored types the loop never reads a missing attribute *)
Theorem crash_free_for_stored_types : forall objs fs, Forall stored_type objs -> crash_free objs fs.
Proof. exact crash_free_stored. Qed.
Print Assumptions crash_free_for_stored_types.

Theorem locate_never_crashes : forall ver allowed objs fs off mx,
  Forall stored_type (filter allowed objs) -> locate_request ver allowed objs fs off mx <> Crash.
Proof. exact locate_never_crashes_lemma. Qed.
Print Assumptions locate_never_crashes.

(* absent values never match (what the repairs 074870c / 2d8db5c establish) *)
Theorem absent_value_never_matches :
  (locate_request ex_ver everyone [ex_cert 2 "bob" 100; ex_key 3 "alice" 101 128] [FLen 128] None None = Ok [3] /\
   locate_spec everyone [ex_cert 2 "bob" 100; ex_key 3 "alice" 101 128] [FLen 128] None None = [3]) /\
  (locate_request ex_ver everyone [ex_key 1 "alice" 100 128] [FOther "Activation Date"] None None = Ok [] /\
   locate_spec everyone [ex_key 1 "alice" 100 128] [FOther "Activation Date"] None None = []).
Proof. exact (conj cert_length_filter_no_match unsupported_filter_matches_nothing). Qed.

(* the statement without side conditions, and why it is not a theorem of the faithful model *)
Definition locate_refines_spec_unconditional_statement : Prop := locate_refines_spec_unconditional.
Theorem locate_refines_spec_unconditional_refuted : ~ locate_refines_spec_unconditional_statement.
Proof. exact locate_refines_spec_unconditional_fails. Qed.
Print Assumptions locate_refines_spec_unconditional_refuted.

Theorem wf_idate_needed :
  locate_request ex_ver everyone [ex_key 1 "alice" 0 128] [FDate 50] None None = Ok [1] /\
  locate_spec everyone [ex_key 1 "alice" 0 128] [FDate 50] None None = [].
Proof. exact epoch_date_filter_ignored. Qed.
Theorem mask_ok_needed :
  locate_request ex_ver everyone [ex_key 1 "alice" 100 128] [FMask (4 + 2 ^ 30)] None None = Ok [1] /\
  locate_spec everyone [ex_key 1 "alice" 100 128] [FMask (4 + 2 ^ 30)] None None = [].
Proof. exact undefined_mask_bits_ignored. Qed.
Theorem two_dates_needed :
  locate_request ex_ver everyone [ex_key 1 "alice" 100 128] [FDate 1; FDate 2; FDate 3] None None = TooMany /\
  locate_request ex_ver everyone [] [FDate 1; FDate 2; FDate 3] None None = Ok [] /\
  locate_request ex_ver everyone [ex_key 1 "alice" 100 128] [FObjType 1; FDate 1; FDate 2; FDate 3] None None = Ok [].
Proof. exact third_date_filter. Qed.
Theorem stored_type_needed :
  let t := mkObj 1 6 "alice" (Some "default") false 100 0 0 None None 0 [] [] [] in
  locate_request ex_ver everyone [t] [FMask 4] None None = Crash.
Proof. exact template_mask_filter_crashes. Qed.
Theorem gate_examples :
  locate_request (1, 0) everyone [ex_key 1 "alice" 100 128] [FSensitive false] None None = Refused /\
  locate_request (1, 4) everyone [ex_key 1 "alice" 100 128] [FSensitive false] None None = Ok [1] /\
  locate_request (2, 0) everyone [ex_key 1 "alice" 100 128] [FOther "No Such Attribute"] None None = Refused /\
  locate_request (1, 0) everyone [ex_key 1 "alice" 100 128] [] None None = Ok [1].
Proof. exact version_gate_examples. Qed.

(* ------------------------------------------------------------------------------------------------
   2. Newest first, and never an object the requester may not locate: NO side condition. *)
Theorem locate_sorted : forall ver allowed objs fs off mx ids,
  locate_request ver allowed objs fs off mx = Ok ids ->
  exists l, ids = map o_uid l /\ StronglySorted desc l /\
            (forall o, In o l -> In o objs /\ allowed o = true).
Proof. exact locate_request_sorted_lemma. Qed.
Print Assumptions locate_sorted.

(* objects with equal Initial Date keep their store order (Python's sorted is stable) *)
Theorem locate_stable : forall allowed objs fs l k, locate_objs allowed objs fs = Ok l ->
  exists p, filter (fun o => o_idate o =? k) l = filter (fun o => o_idate o =? k) (filter p (filter allowed objs)).
Proof. exact locate_stable_lemma. Qed.
Print Assumptions locate_stable.

(* the ordered answer is determined by: permutation of the selected set, non-increasing Initial Date,
   store order among equal dates - so `sort_desc` inside locate_spec is not an arbitrary choice *)
Theorem newest_first_unique : forall allowed objs fs l,
  Permutation l (filter (selected allowed fs) objs) ->
  StronglySorted desc l ->
  (forall k, filter (fun o => o_idate o =? k) l = filter (fun o => o_idate o =? k) (filter (selected allowed fs) objs)) ->
  l = spec_objs allowed objs fs.
Proof. exact newest_first_unique_lemma. Qed.
Print Assumptions newest_first_unique.

(* ... and the specification's list does meet the three conditions (the hypotheses above are satisfiable) *)
Theorem newest_first_exists : forall allowed objs fs,
  let l := spec_objs allowed objs fs in
  Permutation l (filter (selected allowed fs) objs) /\
  StronglySorted desc l /\
  (forall k, filter (fun o => o_idate o =? k) l = filter (fun o => o_idate o =? k) (filter (selected allowed fs) objs)).
Proof. exact newest_first_exists_lemma. Qed.
Print Assumptions newest_first_exists.

(* ------------------------------------------------------------------------------------------------
   3. Exactly the permitted matching set (before slicing). *)
Theorem locate_perm : forall ver allowed objs fs,
  gate_ok ver fs = true -> side_conditions allowed objs fs ->
  exists l, locate_objs allowed objs fs = Ok l /\
            locate_request ver allowed objs fs None None = Ok (map o_uid l) /\
            Permutation l (filter (selected allowed fs) objs).
Proof. exact locate_request_perm_lemma. Qed.
Print Assumptions locate_perm.

Theorem locate_exact : forall allowed objs fs, side_conditions allowed objs fs ->
  exists l, locate_objs allowed objs fs = Ok l /\
    forall o, In o l <->
      In o objs /\ allowed o = true /\ (forall f, In f fs -> matches o f = true) /\
      date_match (filter_dates fs) (o_idate o) = true.
Proof. exact locate_exact_lemma. Qed.
Print Assumptions locate_exact.

(* ------------------------------------------------------------------------------------------------
   4. Offset and maximum select the corresponding slice of that same ordered list; pages of size n > 0
      at offsets 0, n, 2n, ... concatenate to the full answer and are pairwise disjoint (identifiers
      are unique in the store).  No side condition beyond success of the unsliced request. *)
Theorem locate_slice : forall ver allowed objs fs off mx full,
  nonneg off -> nonneg mx ->
  locate_request ver allowed objs fs None None = Ok full ->
  locate_request ver allowed objs fs off mx = Ok (slice off mx full).
Proof. exact locate_request_slice_lemma. Qed.
Print Assumptions locate_slice.

Theorem pages_partition : forall ver allowed objs fs (n m : nat) full,
  (0 < n)%nat ->
  locate_request ver allowed objs fs None None = Ok full ->
  (List.length full <= m * n)%nat ->
  exists pages : nat -> list Z,
    (forall k, locate_request ver allowed objs fs (Some (Z.of_nat k * Z.of_nat n)) (Some (Z.of_nat n)) = Ok (pages k)) /\
    concat (map pages (seq 0 m)) = full /\
    (NoDup (map o_uid objs) -> forall i j x, i <> j -> In x (pages i) -> ~ In x (pages j)).
Proof. exact locate_request_pages_lemma. Qed.
Print Assumptions pages_partition.

Example pages_partition_example :
  locate_request ex_ver ex_allowed ex_store [] None None = Ok [3; 6; 4; 1; 2; 7] /\
  locate_request ex_ver ex_allowed ex_store [] (Some 0) (Some 4) = Ok [3; 6; 4; 1] /\
  locate_request ex_ver ex_allowed ex_store [] (Some 4) (Some 4) = Ok [2; 7] /\
  locate_request ex_ver ex_allowed ex_store [] (Some 8) (Some 4) = Ok [].
Proof. vm_compute. repeat split. Qed.

(* ------------------------------------------------------------------------------------------------
   5. Filters are conjunctive and their order is irrelevant. *)
Theorem filters_conjunctive : forall allowed objs fs1 fs2,
  filter_dates fs1 = [] ->
  side_conditions allowed objs (fs1 ++ fs2) -> side_conditions allowed objs fs2 ->
  exists l12 l2, locate_objs allowed objs (fs1 ++ fs2) = Ok l12 /\ locate_objs allowed objs fs2 = Ok l2 /\
                 l12 = filter (fun o => forallb (matches o) fs1) l2.
Proof. exact filters_conjunctive_lemma. Qed.
Print Assumptions filters_conjunctive.

Example filters_conjunctive_example :
  filter_dates [FObjType 2; FLen 256] = [] /\
  side_conditions ex_allowed ex_store ([FObjType 2; FLen 256] ++ [FDate 105; FDate 99]) /\
  side_conditions ex_allowed ex_store [FDate 105; FDate 99].
Proof. exact ex_conj_side_conditions. Qed.

Theorem filters_order_irrelevant : forall allowed objs fs fs' off mx,
  Permutation fs fs' -> locate_spec allowed objs fs off mx = locate_spec allowed objs fs' off mx.
Proof. exact filters_order_irrelevant_lemma. Qed.
Print Assumptions filters_order_irrelevant.

(* ------------------------------------------------------------------------------------------------
   6. The only ways the operation fails: the version gate (exactly), a third date filter, or - never for
      the seven stored types - an applicable filter whose attribute the object's class lacks. *)
Theorem locate_failure_causes : forall ver allowed objs fs off mx,
  (locate_request ver allowed objs fs off mx = Refused <-> gate_ok ver fs = false) /\
  (locate_request ver allowed objs fs off mx = TooMany -> (List.length (filter_dates fs) > 2)%nat) /\
  (locate_request ver allowed objs fs off mx = Crash ->
     exists o f, In o objs /\ allowed o = true /\ In f fs /\
       applicable f (o_type o) = true /\ readable f o = false /\ ~ stored_type o).
Proof. exact locate_failure_lemma. Qed.
Print Assumptions locate_failure_causes.
