(* C14 - Locate returns exactly the permitted, matching objects, newest first (theorems added below) *)
From PK Require Import Locate.Locate.
From Coq Require Import List ZArith.
Import ListNotations.

Theorem locate_model_runs : locate_model (fun _ => true) [] [] None None = Ok [].
Proof. reflexivity. Qed.
Print Assumptions locate_model_runs.
