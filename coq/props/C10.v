(* C10 - concurrent sessions behave as if served one request at a time.
   Theorems about the interleaving model (theories/Conc/Interleave.v).  PARTIAL: CPython's scheduler, the
   RLock implementation and SQLite's own locking are trusted; the model's micro-operations are tied to the code by
   the lock-set discipline check and the scheduled runs of harness/c10.py; see notes/C10.md. *)
From PK Require Import Conc.Interleave Conc.InterleaveProofs.
From Coq Require Import ZArith List Bool.
Import ListNotations.
Open Scope Z_scope.

(* ALL schedules, any number of clients, any request sequences, any identities: with the lock, the responses and
   the final store are those of serving the requests one at a time in the order they entered process_request,
   and that order keeps every client's own order *)
Theorem c10_locked_serializable : forall cred sched s0 s,
  initial s0 -> run cred true sched s0 = Some s -> final s ->
  (sh s, log s) = seq_run cred (hist s) (sh s0, []) /\
  forall t, proj t (hist s) = queue (thr s0 t).
Proof. exact locked_serializable. Qed.
Print Assumptions c10_locked_serializable.

Theorem c10_mutual_exclusion : forall cred sched s0 s t1 t2,
  initial s0 -> run cred true sched s0 = Some s ->
  running (thr s t1) <> None -> running (thr s t2) <> None -> t1 = t2.
Proof. exact mutual_exclusion. Qed.
Print Assumptions c10_mutual_exclusion.

(* every item of every response was evaluated under the identity of the session that sent it and the protocol
   version / attribute policy of its own request *)
Theorem c10_identity_never_crossed : forall cred sched s0 s t r its it,
  initial s0 -> run cred true sched s0 = Some s -> final s ->
  In (t, r, its) (log s) -> In it its -> who_ok (cred t) it /\ ver_ok (r_ver r) it.
Proof. exact identity_never_crossed. Qed.
Print Assumptions c10_identity_never_crossed.

(* non-vacuity, and what the lock is for: with @_synchronize removed a two-client schedule hands bob (credential 2020) the
   key of alice (user 101, credential 1010): his Get is evaluated under her identity *)
Theorem c10_unlocked_refuted :
  exists s, run cred2 false wit_sched (init wit_store wit_queues) = Some s /\
            crossed cred2 s = true /\
            In (1%nat, mkReq 10 [QGet (Some 1)], [mkItem OP_get 0 1 0 (Some 1010) None]) (log s).
Proof. exact unlocked_refuted. Qed.
Print Assumptions c10_unlocked_refuted.

Theorem c10_witness_blocked_by_lock : run cred2 true wit_sched (init wit_store wit_queues) = None.
Proof. exact witness_blocked_by_lock. Qed.
Print Assumptions c10_witness_blocked_by_lock.

(* the hypotheses are satisfiable by a non-trivial run: both clients served under the lock, bob is refused *)
Definition ok_sched : list nat :=
  (repeat 1%nat 12) ++ (repeat 0%nat 12).

Example ex_locked_run :
  exists s, run cred2 true ok_sched (init wit_store wit_queues) = Some s /\
            (forall t, queue (thr s t) = [] /\ running (thr s t) = None) /\
            log s = [(1%nat, mkReq 10 [QGet (Some 1)], [mkItem OP_get 2 0 0 (Some 2020) None]);
                     (0%nat, mkReq 12 [QGet (Some 1)], [mkItem OP_get 0 1 0 (Some 1010) None])].
Proof.
  eexists. split; [vm_compute; reflexivity|]. split.
  - intros [|[|t]]; vm_compute; auto.
  - vm_compute. reflexivity.
Qed.

Example ex_initial : initial (init wit_store wit_queues).
Proof. repeat split. Qed.
