(* C10 - concurrent sessions behave as if served one request at a time.
   Theorems about the interleaving model (theories/Conc/Interleave.v).  PARTIAL: CPython's scheduler, the
   RLock implementation and SQLite's own locking are trusted; the model's micro-operations are tied to the code by
   the lock-set discipline check and the scheduled runs of harness/c10.py; see notes/C10.md. *)
From PK Require Import Conc.Interleave Conc.InterleaveProofs Conc.InterleaveMore.
From Coq Require Import ZArith List Bool.
Import ListNotations.
Open Scope Z_scope.

(* ALL schedules, any number of clients, any request sequences, any identities: with the lock, the responses and
   the final store are those of serving the requests one at a time in the order they entered process_request,
   and that order keeps every client's own order *)
Theorem c10_locked_serializable : forall cred sched s0 s,
  initial s0 -> run cred true sched s0 = Some s -> final s ->
  (sh s, log s) = seq_run cred (hist s) (sh s0, []) /\
  forall t, proj t (hist s) = queue (thr s0 t).
Proof. exact locked_serializable. Qed.
Print Assumptions c10_locked_serializable.

Theorem c10_mutual_exclusion : forall cred sched s0 s t1 t2,
  initial s0 -> run cred true sched s0 = Some s ->
  running (thr s t1) <> None -> running (thr s t2) <> None -> t1 = t2.
Proof. exact mutual_exclusion. Qed.
Print Assumptions c10_mutual_exclusion.

(* every item of every response was evaluated under the identity of the session that sent it and the protocol
   version / attribute policy of its own request *)
Theorem c10_identity_never_crossed : forall cred sched s0 s t r its it,
  initial s0 -> run cred true sched s0 = Some s -> final s ->
  In (t, r, its) (log s) -> In it its -> who_ok (cred t) it /\ ver_ok (r_ver r) it.
Proof. exact identity_never_crossed. Qed.
Print Assumptions c10_identity_never_crossed.

(* AT EVERY MOMENT of every schedule (clients that never finish, a server stopped half-way): the responses handed
   back so far are a prefix of the one-at-a-time responses in entry order, at most one response is outstanding, and
   whenever nobody is inside process_request the shared state IS the one-at-a-time state *)
Theorem c10_locked_prefix_serializable : forall cred sched s0 s,
  initial s0 -> run cred true sched s0 = Some s ->
  exists tail, snd (seq_run cred (hist s) (sh s0, [])) = (log s ++ tail)%list /\ (List.length tail <= 1)%nat /\
               (lock s = None -> tail = [] /\ fst (seq_run cred (hist s) (sh s0, [])) = sh s).
Proof. exact locked_prefix_serializable. Qed.
Print Assumptions c10_locked_prefix_serializable.

(* the lock is never left behind: whoever holds it is inside process_request *)
Theorem c10_lock_never_left_behind : forall cred sched s0 s t,
  initial s0 -> run cred true sched s0 = Some s -> lock s = Some t -> running (thr s t) <> None.
Proof. exact lock_never_left_behind. Qed.
Print Assumptions c10_lock_never_left_behind.

(* "as if served one at a time" includes being served: under the lock no reachable state is stuck while a client
   still has a request queued or in progress *)
Theorem c10_locked_no_deadlock : forall cred sched s0 s t,
  initial s0 -> run cred true sched s0 = Some s ->
  (queue (thr s t) <> [] \/ running (thr s t) <> None) ->
  exists t', step cred true t' s <> None.
Proof. exact locked_no_deadlock. Qed.
Print Assumptions c10_locked_no_deadlock.

(* non-vacuity, and what the lock is for: with @_synchronize removed a two-client schedule hands bob (credential 2020) the
   key of alice (user 101, credential 1010): his Get is evaluated under her identity *)
Theorem c10_unlocked_refuted :
  exists s, run cred2 false wit_sched (init wit_store wit_queues) = Some s /\
            crossed cred2 s = true /\
            In (1%nat, mkReq 10 [QGet (Some 1)], [mkItem OP_get 0 1 0 (Some 1010) None]) (log s).
Proof. exact unlocked_refuted. Qed.
Print Assumptions c10_unlocked_refuted.

Theorem c10_witness_blocked_by_lock : run cred2 true wit_sched (init wit_store wit_queues) = None.
Proof. exact witness_blocked_by_lock. Qed.
Print Assumptions c10_witness_blocked_by_lock.

(* the hypotheses are satisfiable by a non-trivial run: both clients served under the lock, bob is refused *)
Definition ok_sched : list nat :=
  (repeat 1%nat 12) ++ (repeat 0%nat 12).

Example ex_locked_run :
  exists s, run cred2 true ok_sched (init wit_store wit_queues) = Some s /\
            (forall t, queue (thr s t) = [] /\ running (thr s t) = None) /\
            log s = [(1%nat, mkReq 10 [QGet (Some 1)], [mkItem OP_get 2 0 0 (Some 2020) None]);
                     (0%nat, mkReq 12 [QGet (Some 1)], [mkItem OP_get 0 1 0 (Some 1010) None])].
Proof.
  eexists. split; [vm_compute; reflexivity|]. split.
  - intros [|[|t]]; vm_compute; auto.
  - vm_compute. reflexivity.
Qed.

Example ex_initial : initial (init wit_store wit_queues).
Proof. repeat split. Qed.

(* a reachable state in the middle of a request: bob holds the lock, alice is queued; the hypotheses of the three
   moment-wise theorems are met by a state that is not final *)
Example ex_midway :
  exists s, run cred2 true (repeat 1%nat 5) (init wit_store wit_queues) = Some s /\
            lock s = Some 1%nat /\ running (thr s 1%nat) <> None /\ queue (thr s 0%nat) <> [] /\ log s = [].
Proof.
  eexists. split; [vm_compute; reflexivity|]. vm_compute. repeat split; discriminate.
Qed.
