From PK Require Import Batch.Generic Batch.Store Batch.Cases.
Theorem c08_placeholder : True. Proof. exact I. Qed.
