(* C08 - batch results are complete and failed items leave no trace.
   Model: Batch/Generic.v (process_request / _process_batch, generic in the handler) and
   Batch/Store.v (store, per-batch database session, handlers); tied to
   kmip/services/server/engine.py by harness/c08.py on every run. *)
From Coq Require Import ZArith List Bool.
From PK Require Import Batch.Generic Batch.GenericProofs Batch.Store Batch.StoreProofs Batch.Session Batch.SessionProofs Batch.Order Batch.OrderCheck.
From PKGen Require Import BatchOrder.
Import ListNotations.
Open Scope Z_scope.

(* "The response contains one result per processed batch item, in request order, each
   echoing its operation and batch item ID." *)
Theorem results_prefix : forall st h its rs st',
    process st h its = (inr rs, st') ->
    (length rs <= length its)%nat /\
    forall i r, nth_error rs i = Some r ->
                exists it, nth_error its i = Some it /\ r_op r = it_op it /\ r_bid r = it_bid it.
Proof.
  intros st h its rs st' H.
  destruct (process_results_c _ _ _ _ _ H) as [_ [_ [s' [p' [Hr _]]]]].
  split.
  - exact (proj1 (run_prefix_c _ _ _ _ _ _ _ _ Hr)).
  - intros i r Hn. exact (results_prefix_c _ _ _ _ _ _ _ _ _ _ Hr Hn).
Qed.
Print Assumptions results_prefix.

(* "Processing stops at the first failed item unless the client asked to continue." *)
Theorem stop_on_first_failure : forall st h its rs st',
    process st h its = (inr rs, st') ->
    if continues h then length rs = length its
    else (forallb r_ok rs = true /\ length rs = length its) \/
         (exists pre r, rs = pre ++ [r] /\ forallb r_ok pre = true /\ r_ok r = false /\ (length rs <= length its)%nat).
Proof.
  intros st h its rs st' H.
  destruct (process_results_c _ _ _ _ _ H) as [_ [_ [s' [p' [Hr _]]]]].
  destruct (continues h).
  - exact (run_continue_all_c _ _ _ _ _ _ _ Hr).
  - exact (run_stop_shape_c _ _ _ _ _ _ _ Hr).
Qed.
Print Assumptions stop_on_first_failure.

(* "The ID placeholder lets a later item address the object an earlier item of the same
   batch created": a successful creating item c (Create, Register, CreateKeyPair, DeriveKey)
   leaves in the placeholder an identifier u issued by this very item, of an object owned
   by the requester; after any items in between that are not creating items the placeholder
   still holds u, and an identifier-less item is processed exactly like the same item naming u. *)
Theorem placeholder_within_batch : forall h s p c s1 p1,
    creating (it_body c) = true -> handle h s p c = (OK, s1, p1) ->
    exists u, p1 = Some u /\ next (working s) <= u < next (working s1) /\
      (exists o, In o (objs (working s1)) /\ o_uid o = u /\ o_owner o = h_user h) /\
      forall mid it s2 p2,
        forallb (fun m => negb (creating (it_body m))) mid = true ->
        exec session body handle h s1 p1 mid = (s2, p2) ->
        creating (it_body it) = false ->
        p2 = Some u /\
        handle h s2 p2 it =
        handle h s2 p2 {| it_op := it_op it; it_bid := it_bid it; it_body := with_target u (it_body it) |}.
Proof. exact placeholder_within_batch_thm. Qed.
Print Assumptions placeholder_within_batch.

(* the identifier is one the request itself issued, of an object that is now published *)
Theorem placeholder_names_created_object : forall h s p it s' p',
    creating (it_body it) = true -> handle h s p it = (OK, s', p') ->
    exists u o, p' = Some u /\ next (working s) <= u < next (working s') /\
                In o (objs (working s')) /\ o_uid o = u /\ o_owner o = h_user h /\
                committed s' = working s'.
Proof. exact creating_sets_placeholder. Qed.
Print Assumptions placeholder_names_created_object.

(* the placeholder starts empty in every request (engine.py l.212): an identifier-less first item fails *)
Example placeholder_starts_empty :
  forall st h, check_header h = None ->
  process st h [Build_item 10 None (BGet None)] = (inr [{| r_op := 10; r_bid := None; r_ok := false; r_reason := R_NOT_FOUND |}], st).
Proof. intros st h Hh. unfold process, process_request. rewrite Hh. simpl. destruct (continues h); reflexivity. Qed.

(* "A batch item that reports failure leaves the stored objects exactly as they were":
   neither the committed store, nor the working state of the shared session, nor the
   placeholder change (so that no later commit in the same batch can publish anything
   the failed item did).  `clean s`: the session holds no unpublished change when the
   item starts - an invariant of the batch (session_never_dirty). *)
Theorem fail_no_trace : forall h s p it r s' p',
    clean s -> handle h s p it = (Fail r, s', p') -> s' = s /\ p' = p.
Proof. exact handle_fail_frame. Qed.
Print Assumptions fail_no_trace.

(* Two independent reasons.  (1) Since 52cb625 the batch loop rolls the session back after a failed
   item: the frame holds for ANY handler result, whatever it did to the working state before raising. *)
Theorem rollback_makes_fail_no_trace_structural : forall (r : hres) s pl reason s' p',
    clean s -> lift r s pl = (Fail reason, s', p') -> s' = s /\ p' = pl.
Proof. exact lift_fail_frame. Qed.
Print Assumptions rollback_makes_fail_no_trace_structural.

(* (2) The handlers never needed it: in each of them every `raise` precedes every mutation, so even
   without the rollback (the loop before 52cb625) a failing item hands the session back as it got it -
   from any state, clean or not. *)
Theorem handlers_raise_before_they_mutate_thm : forall h s p it r s' p',
    lift_without_rollback (dispatch h (working s) p (it_body it)) s p = (Fail r, s', p') -> s' = s /\ p' = p.
Proof. exact handlers_raise_before_they_mutate. Qed.
Print Assumptions handlers_raise_before_they_mutate_thm.

(* the session carries no unpublished change from one item to the next *)
Theorem session_never_dirty : forall st h its rs st',
    process st h its = (inr rs, st') ->
    exists s' p', run_batch h (continues h) (open_session st) None its = (rs, s', p') /\ working s' = st' /\ committed s' = st'.
Proof. exact process_clean. Qed.
Print Assumptions session_never_dirty.

Theorem all_failed_no_trace : forall st h its rs st',
    process st h its = (inr rs, st') -> forallb (fun r => negb (r_ok r)) rs = true -> st' = st.
Proof. exact process_all_failed_no_trace_c. Qed.
Print Assumptions all_failed_no_trace.

(* "... and does not disturb later items": the same request without the failed items gets
   the same answers for the remaining items and ends in the same store. *)
Theorem later_items_undisturbed : forall st h its rs st',
    process st h its = (inr rs, st') ->
    process st h (succeeded body its rs) = (inr (filter r_ok rs), st').
Proof. exact process_without_failed_c. Qed.
Print Assumptions later_items_undisturbed.

(* The same for items that only read (Get, GetAttributes, Query, Locate, the cryptographic
   operations): the request reduced to its successful WRITING items gets the same answers
   for them and ends in the same store - a read leaves nothing a later commit could publish. *)
Theorem only_successful_writes_matter : forall st h its rs st',
    process st h its = (inr rs, st') ->
    process st h (kept body keep_writing its rs) = (inr (kept_results body keep_writing its rs), st').
Proof. exact process_writing_only_c. Qed.
Print Assumptions only_successful_writes_matter.

Example only_successful_writes_matter_example :
  exists rs st', process demo_store demo_header
     [Build_item 10 (Some [1]) (BGet (Some 1)); Build_item 18 (Some [2]) (BActivate (Some 1));
      Build_item 1 (Some [3]) (BCreate true false true true true true [] [] None); Build_item 10 (Some [4]) (BGet None)] = (inr rs, st') /\
     map r_ok rs = [true; false; true; true] /\
     map (@it_op body) (kept body keep_writing
        [Build_item 10 (Some [1]) (BGet (Some 1)); Build_item 18 (Some [2]) (BActivate (Some 1));
         Build_item 1 (Some [3]) (BCreate true false true true true true [] [] None); Build_item 10 (Some [4]) (BGet None)] rs) = [1].
Proof. eexists. eexists. vm_compute. repeat split. Qed.

(* "Every item that was executed has its result reported - no operation takes effect
   without the client being told": (1) a request-level error leaves the store untouched,
   on every path that raises one; (2) otherwise the final store is the effect of exactly
   the items that have a result. *)
Theorem no_unreported_effect : forall st h its e st',
    process st h its = (inl e, st') -> st' = st.
Proof. exact request_error_no_effect_c. Qed.
Print Assumptions no_unreported_effect.

Theorem request_error_paths_no_effect : forall st h its,
    (ver_supported (h_ver h) = false -> process st h its = (inl EVersion, st)) /\
    (forall t, ver_supported (h_ver h) = true -> h_ts h = Some t -> h_now h < t -> process st h its = (inl EFuture, st)) /\
    (forall t, ver_supported (h_ver h) = true -> h_ts h = Some t -> t <= h_now h -> 60 <= h_now h - t ->
               process st h its = (inl EStale, st)) /\
    (ver_supported (h_ver h) = true -> ts_ok h = true -> async_on h = true -> process st h its = (inl EAsync, st)) /\
    (ver_supported (h_ver h) = true -> ts_ok h = true -> async_on h = false -> undo_on h = true ->
               process st h its = (inl EUndo, st)) /\
    (check_header h = None -> (1 < length its)%nat -> (exists it, In it its /\ it_bid it = None) ->
               process st h its = (inl ENoBid, st)).
Proof. exact (request_error_paths session store body open_session close_session handle). Qed.
Print Assumptions request_error_paths_no_effect.

Theorem effects_are_reported : forall st h its rs st',
    process st h its = (inr rs, st') ->
    st' = committed (fst (exec session body handle h (open_session st) None (firstn (length rs) its))).
Proof.
  intros st h its rs st' H.
  destruct (process_results_c _ _ _ _ _ H) as [_ [_ [s' [p' [Hr ->]]]]].
  now rewrite (run_exec_c _ _ _ _ _ _ _ _ Hr).
Qed.
Print Assumptions effects_are_reported.

(* ---- the hypotheses are satisfiable by non-trivial inputs; the model can tell the difference ---- *)
Example mixed_batch_example :
  exists rs st', process demo_store demo_header demo_items = (inr rs, st') /\
                 map r_ok rs = [false; true] /\ option_map o_state (lookup 1 st') = Some S_DEACT /\
                 lookup 2 st' <> None /\ lookup 2 demo_store = None.
Proof. eexists. eexists. vm_compute. repeat split; discriminate. Qed.

Example request_error_example :
  process demo_store demo_header
          [Build_item 1 (Some [1]) (BCreate true false true true true true [] [] None);
           Build_item 24 None (BReadOnly (1,0))] = (inl ENoBid, demo_store).
Proof. reflexivity. Qed.

Example placeholder_example :
  exists rs st', process demo_store demo_header
     [Build_item 1 (Some [1]) (BCreate true false true true true true [7] [] None);
      Build_item 10 (Some [2]) (BGet (Some 99));
      Build_item 18 (Some [3]) (BActivate None)] = (inr rs, st') /\
     map r_ok rs = [true; false; true] /\ option_map o_state (lookup 2 st') = Some S_ACTIVE.
Proof. eexists. eexists. vm_compute. repeat split. Qed.

(* What the property is about, expressed in the model: were a guard placed after the mutation and
   the batch loop without rollback (as it was before 52cb625), a later commit would publish the
   failed item's change; with the rollback it does not. *)
Theorem late_guard_would_leave_trace :
  exists rs st', process_late_without_rollback demo_store demo_header demo_items = (inr rs, st') /\
                 map r_ok rs = [false; true] /\
                 option_map o_state (lookup 1 st') = Some S_ACTIVE /\
                 option_map o_state (lookup 1 demo_store) = Some S_DEACT.
Proof. exact late_guard_leaves_trace. Qed.

Theorem late_guard_is_rolled_back :
  exists rs st', process_late demo_store demo_header demo_items = (inr rs, st') /\
                 map r_ok rs = [false; true] /\ option_map o_state (lookup 1 st') = Some S_DEACT.
Proof. exact late_guard_rolled_back. Qed.
Print Assumptions late_guard_would_leave_trace.

(* ---- the session layer (kmip/services/server/session.py): what the client is actually sent ----
   Full statement: an error answer means the store is as it was. *)
Definition no_unreported_effect_session_statement : Prop := session_no_unreported_effect_statement.

(* Refuted by the RESPONSE_TOO_LARGE substitution: a Create with Maximum Response Size 1 is
   executed, committed and answered with an error (known finding
   C08-response-too-large-after-effect; replayed on the real session on every run). *)
Theorem no_unreported_effect_session_refuted : ~ no_unreported_effect_session_statement.
Proof. exact session_no_unreported_effect_refuted_lemma. Qed.
Print Assumptions no_unreported_effect_session_refuted.

(* Partial: every error answer other than that substitution leaves the store untouched ... *)
Theorem no_unreported_effect_session_partial : forall st h max size its a st',
    session_answer st h max size its = (a, st') -> answer_is_error a = true -> a <> ATooLarge -> st' = st.
Proof. exact session_error_no_effect_partial. Qed.
Print Assumptions no_unreported_effect_session_partial.

(* ... the substitution happens exactly when the batch ran and its encoding exceeds the maximum ... *)
Theorem too_large_exactly_when : forall st h max size its st',
    session_answer st h max size its = (ATooLarge, st') <->
    (exists rs, process st h its = (inr rs, st')) /\ effective_max max < size.
Proof. exact session_too_large_iff. Qed.
Print Assumptions too_large_exactly_when.

(* ... and a response that fits reaches the client as the engine built it. *)
Theorem fitting_response_is_passed_on : forall st h max size its rs st',
    size <= effective_max max -> process st h its = (inr rs, st') ->
    session_answer st h max size its = (AResults rs, st').
Proof. exact session_fits. Qed.
Print Assumptions fitting_response_is_passed_on.

Example session_partial_hypotheses_satisfiable :
  exists a st', session_answer demo_store demo_header None 100
                  [Build_item 1 (Some [1]) (BCreate true false true true true true [] [] None);
                   Build_item 24 None (BReadOnly (1,0))] = (a, st') /\ answer_is_error a = true /\ a <> ATooLarge.
Proof. eexists. eexists. vm_compute. repeat split. discriminate. Qed.

(* ---- tie T: the same ordering claim on the code itself ----
   gen/BatchOrder.v is extracted from engine.py on every run (raise / mutation / commit
   events with the control structure of each of the 21 operation handlers and of the
   helpers they call).  No explicit `raise` is reachable while a loaded object or the
   session holds an uncommitted change, except for the residual pair listed in
   Batch/OrderCheck.v allowed_late_raises (a guard correlation the analysis does not follow;
   discharged dynamically by K);
   no handler ends with an uncommitted change; the placeholder is only set in a clean state. *)
Theorem request_runs_under_the_engine_lock : process_request_locked /\ placeholder_reset_comes_first /\ failed_items_are_rolled_back.
Proof. exact (conj process_request_is_locked (conj placeholder_reset_first batch_rolls_back)). Qed.
Print Assumptions request_runs_under_the_engine_lock.

(* the response header announces exactly the results the response carries (model side of the header check of K) *)
Theorem batch_count_is_number_of_results : forall st h its rs st',
    process st h its = (inr rs, st') -> response_batch_count rs = Z.of_nat (List.length rs) /\ (List.length rs <= List.length its)%nat.
Proof. intros st h its rs st' H. split; [reflexivity|]. exact (proj1 (results_prefix _ _ _ _ _ H)). Qed.
Print Assumptions batch_count_is_number_of_results.

Theorem every_raise_precedes_every_mutation_in_the_source :
  all_allowed (late_raises engine_methods operation_handlers) = true /\
  forallb (fun h => negb (ends_dirty_of engine_methods h)) operation_handlers = true /\
  List.length operation_handlers = 21%nat.
Proof. exact (conj handlers_order_ok (conj handlers_end_clean handlers_counted)). Qed.
Print Assumptions every_raise_precedes_every_mutation_in_the_source.
