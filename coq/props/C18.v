From PK Require Import Monitor.Monitor Monitor.Spec Monitor.MonitorCases.
