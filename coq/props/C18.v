(* Property C18: policies in force follow the policy files; the built-in policies are
   untouchable; invalid files are rejected as a whole.
   Models: Monitor/Monitor.v (scan_policies), Monitor/Spec.v (the property). *)
From Coq Require Import ZArith List Bool String.
From PK Require Import Monitor.AList Monitor.Monitor Monitor.Spec Monitor.Views Monitor.Refine Monitor.Wf Monitor.Broken Monitor.Confluence Monitor.EngineSide.
From PK Require Import Monitor.Parse Monitor.ParseProofs Monitor.ParseCases Monitor.MonitorCases.
From PKGen Require Import PolicyNames EnginePolicy.
Import ListNotations.
Open Scope Z_scope.

(* ------------------------------------------------------------------ reserved names *)
(* For the released code (purge = false) and for the code with fixes/C18-stale-cache.diff
   (purge = true): on EVERY history of directory views (no side condition on the events), from
   any initial store: the reserved names keep exactly the definition the store had at start (or stay
   absent), and no file ever becomes their owner. *)
Theorem reserved_untouched : forall purge s h, Forall wf_fs h ->
  forall q, reserved q = true ->
    get q (st_store (run_gen purge s h)) = get q s /\ get q (st_map (run_gen purge s h)) = None.
Proof. exact reserved_untouched_run. Qed.
Print Assumptions reserved_untouched.

(* ------------------------------------------------------------------ the store follows the files *)
(* full strength: after every history the store is the specification's store *)
Definition scan_refines_spec_statement : Prop :=
  forall s h, Forall wf_fs h -> forall q, get q (st_store (run s h)) = spec_store (spec_run s h) q.

(* files 0 (a.json) and 1 (b.json), name 2 (p), name 3 (q), definitions 10, 11, 12:
   b defines p; a shadows p; b is rewritten without p; a is removed -> p is served from b's stale entry *)
Definition stale_witness : list fs_view :=
  [ [(1, (1, Some [(2, 10)]))];
    [(0, (2, Some [(2, 11)])); (1, (1, Some [(2, 10)]))];
    [(0, (2, Some [(2, 11)])); (1, (3, Some [(3, 12)]))];
    [(1, (3, Some [(3, 12)]))] ].

Theorem scan_refines_spec_refuted :
  exists s h q, Forall wf_fs h /\ get q (st_store (run s h)) <> spec_store (spec_run s h) q.
Proof.
  exists [], stale_witness, 2. split.
  - apply wf_histb_ok. vm_compute. reflexivity.
  - vm_compute. discriminate.
Qed.
Print Assumptions scan_refines_spec_refuted.

(* what the monitor answers on the witness: p -> 10 (b's old definition), the files say: no p *)
Example stale_witness_values :
  get 2 (st_store (run [] stale_witness)) = Some 10 /\ spec_store (spec_run [] stale_witness) 2 = None
  /\ hist_ok [] stale_witness = false.
Proof. vm_compute. repeat split. Qed.

(* every history whose loads contain no shadowed drop (Spec.shadowed_drop: a file is reloaded
   without a name it defined while a more recently loaded file also defines that name) *)
Theorem scan_refines_spec_partial : forall s h, Forall wf_fs h -> hist_ok s h = true ->
  forall q, get q (st_store (run s h)) = spec_store (spec_run s h) q.
Proof. exact run_refines_spec. Qed.
Print Assumptions scan_refines_spec_partial.

(* the code with fixes/C18-stale-cache.diff applied (model variant purge = true): full strength *)
Theorem scan_refines_spec_fixed : forall s h, Forall wf_fs h ->
  forall q, get q (st_store (run_gen true s h)) = spec_store (spec_run s h) q.
Proof. exact run_refines_spec_fixed. Qed.
Print Assumptions scan_refines_spec_fixed.

(* whichever variant the source is today (gen/PolicyNames.v, regenerated on every run) *)
Theorem scan_refines_spec_current : forall s h, Forall wf_fs h ->
  monitor_purges_shadowed = true \/ hist_ok s h = true ->
  forall q, get q (st_store (run_gen monitor_purges_shadowed s h)) = spec_store (spec_run s h) q.
Proof.
  intros s h Hh [H|H] q.
  - rewrite H. now apply run_refines_spec_fixed.
  - destruct monitor_purges_shadowed; [now apply run_refines_spec_fixed | now apply run_refines_spec].
Qed.
Print Assumptions scan_refines_spec_current.

(* the hypotheses are satisfiable by a history with shadowing, restoring after a removal,
   restoring after the owner drops the name, a broken file and a reserved name in a file *)
Definition good_history : list fs_view :=
  [ [(0, (1, Some [(2, 10); (0, 13)]))];
    [(0, (1, Some [(2, 10); (0, 13)])); (1, (2, Some [(2, 11); (3, 12)]))];
    [(0, (1, Some [(2, 10); (0, 13)])); (1, (3, None))];
    [(0, (1, Some [(2, 10); (0, 13)])); (1, (4, Some [(3, 12)]))];
    [(0, (5, Some [(3, 14)])); (1, (4, Some [(3, 12)]))];
    [(1, (4, Some [(3, 12)]))] ].
Example scan_refines_spec_partial_nonvacuous :
  Forall wf_fs good_history /\ hist_ok [(0, 90); (1, 91)] good_history = true /\
  map (fun h => map (spec_store (spec_run [(0, 90); (1, 91)] (firstn h good_history))) [0; 1; 2; 3]) [1; 2; 3; 4; 5; 6]%nat =
  [ [Some 90; Some 91; Some 10; None];
    [Some 90; Some 91; Some 11; Some 12];
    [Some 90; Some 91; Some 11; Some 12];
    [Some 90; Some 91; Some 10; Some 12];
    [Some 90; Some 91; None; Some 14];
    [Some 90; Some 91; None; Some 12] ]%Z.
Proof. split; [apply wf_histb_ok; vm_compute; reflexivity | vm_compute; split; reflexivity]. Qed.

(* ------------------------------------------------------------------ invalid files *)
(* After any history, the next scan yields the same policies in force, owners and cache
   whether a file that is invalid is seen as changed (any mtime) or as untouched: it is
   rejected as a whole, and a valid file that became invalid keeps its old definitions. *)
Theorem broken_file_no_effect : forall purge s h fs fs', Forall wf_fs h -> wf_fs fs -> wf_fs fs' ->
  same_but_broken fs fs' ->
  let m := run_gen purge s h in
  forall q, get q (st_store (scan_gen purge fs m)) = get q (st_store (scan_gen purge fs' m)) /\
            get q (st_map (scan_gen purge fs m)) = get q (st_map (scan_gen purge fs' m)) /\
            get q (st_cache (scan_gen purge fs m)) = get q (st_cache (scan_gen purge fs' m)).
Proof. exact broken_no_effect_run. Qed.
Print Assumptions broken_file_no_effect.

(* hypotheses satisfiable: b.json (valid before, mtime 2) is now invalid with mtime 9, versus invalid with mtime 2 (= unseen) *)
Example broken_file_no_effect_nonvacuous :
  let fs  := [(0, (1, Some [(2, 10); (0, 13)])); (1, (9, None))] in
  let fs' := [(0, (1, Some [(2, 10); (0, 13)])); (1, (2, None))] in
  wf_fs fs /\ wf_fs fs' /\ same_but_broken fs fs' /\
  map (fun q => get q (st_store (scan fs (run [(0, 90)] (firstn 2 good_history))))) [0; 2; 3] = [Some 90; Some 11; Some 12].
Proof.
  simpl. repeat split; try (apply wf_fsb_ok; vm_compute; reflexivity).
  intros g. destruct (Z.eq_dec g 1) as [->|H].
  - right. exists 9, 2. split; reflexivity.
  - left. simpl. destruct (g =? 0); [reflexivity|].
    destruct (g =? 1) eqn:E; [apply Z.eqb_eq in E; contradiction | reflexivity].
Qed.

(* ------------------------------------------------------------------ consistent tracking structures *)
(* on every history a non reserved name is absent from store, owner map and cache, or present
   in all three (eff = Some _): the state in which monitor.py l.120 meets None does not arise
   between scans *)
Theorem tracking_consistent : forall purge s h, Forall wf_fs h ->
  forall q, reserved q = false -> exists E, eff (view_of (run_gen purge s h) q) = Some E.
Proof. exact tracking_consistent_run. Qed.
Print Assumptions tracking_consistent.

(* ------------------------------------------------------------------ Python set iteration order *)
(* scan_policies walks the removed files and the names a reloaded file dropped as Python sets
   (hash order).  In every reachable state, removing two files in either order gives the same
   store entry, owner and cache stack for every name; two dropped names commute in any state.
   Neighbour swaps generate all orders, so the model's list order loses nothing. *)
Theorem removed_files_order_irrelevant : forall purge s h f1 f2 q, Forall wf_fs h ->
  let m := run_gen purge s h in
  view_of (remove_file f1 (remove_file f2 m)) q = view_of (remove_file f2 (remove_file f1 m)) q.
Proof. exact remove_file_comm_reachable. Qed.
Print Assumptions removed_files_order_irrelevant.

Theorem dropped_names_order_irrelevant : forall f p p' m q, p <> p' ->
  let step := fun m p => restore_or_delete p (disassociate p f m) in
  view_of (step (step m p) p') q = view_of (step (step m p') p) q.
Proof. exact dropped_names_comm. Qed.
Print Assumptions dropped_names_order_irrelevant.

(* ------------------------------------------------------------------ what the engine applies *)
(* "In force" is what the engine applies.  engine_decision is KmipEngine._is_allowed_by_operation_policy reading
   the SHARED store at request time (gen/EnginePolicy.v, emitted only when the source reads
   self._operation_policies.get(name) on every call and keeps nothing); spec_decision is the same decision over
   the specification's map.  For every event history - hence after every scan, each prefix being a history -
   every policy name, object owner, object type, operation, requester and group list: *)
Theorem engine_applies_what_files_say : forall dtab s h, Forall wf_fs h ->
  forall name owner ot op user groups,
    engine_decision dtab (st_store (run_gen true s h)) name owner ot op user groups =
    spec_decision dtab (spec_run s h) name owner ot op user groups.
Proof. exact engine_follows_spec_fixed. Qed.
Print Assumptions engine_applies_what_files_say.

(* the variant the source is today; for the released loop only without a shadowed drop *)
Theorem engine_applies_what_files_say_current : forall dtab s h, Forall wf_fs h ->
  monitor_purges_shadowed = true \/ hist_ok s h = true ->
  forall name owner ot op user groups,
    engine_decision dtab (st_store (run_gen monitor_purges_shadowed s h)) name owner ot op user groups =
    spec_decision dtab (spec_run s h) name owner ot op user groups.
Proof. exact engine_follows_spec_current. Qed.
Print Assumptions engine_applies_what_files_say_current.

(* built-ins: decided by the initial store entry, whatever the files say *)
Theorem engine_builtins_untouched : forall purge dtab s h, Forall wf_fs h ->
  forall name, reserved name = true -> forall owner ot op user groups,
    engine_decision dtab (st_store (run_gen purge s h)) name owner ot op user groups =
    decision_of dtab (get name s) owner ot op user groups.
Proof. exact engine_builtin_untouched. Qed.
Print Assumptions engine_builtins_untouched.

(* a name no loaded present file defines grants to nobody *)
Theorem engine_undefined_name_grants_nobody : forall dtab s h, Forall wf_fs h ->
  forall name, reserved name = false -> definers (a_loaded (spec_run s h)) name = [] ->
  forall owner ot op user groups,
    engine_decision dtab (st_store (run_gen true s h)) name owner ot op user groups = false.
Proof. exact engine_undefined_grants_nobody. Qed.
Print Assumptions engine_undefined_name_grants_nobody.

(* the decisions along good_history for name 2 (p): shadowed by b (owner only), restored from a (everybody)
   after b drops it, gone after a drops it; a group member is served by the groups section only *)
Definition sample_dtab (d : Z) : option parsed :=
  let sym perm := [("SYMMETRIC_KEY", [("GET", perm)])]%string in
  if d =? 10 then Some (Parsed (Some (sym "ALLOW_ALL"%string)) None)
  else if d =? 11 then Some (Parsed (Some (sym "ALLOW_OWNER"%string)) (Some [("g"%string, sym "ALLOW_ALL"%string)]))
  else if d =? 90 then Some (Parsed (Some (sym "ALLOW_OWNER"%string)) None)
  else None.
Example engine_decisions_along_good_history :
  let dec k user groups := engine_decision sample_dtab (st_store (run_gen true [(0, 90); (1, 91)] (firstn k good_history)))
                             2 "alice"%string "SYMMETRIC_KEY"%string "GET"%string user groups in
  map (fun k => (dec k "alice"%string None, dec k "bob"%string None, dec k "bob"%string (Some ["g"%string])))
      [0; 1; 2; 3; 4; 5; 6]%nat =
  [ (false, false, false); (true, true, false); (true, false, true); (true, false, true);
    (true, true, false); (false, false, false); (false, false, false) ].
Proof. vm_compute. reflexivity. Qed.

(* ------------------------------------------------------------------ the parser *)
(* Whatever the file holds - not JSON, or any JSON value - and whatever the enumerations
   contain, read_policy_from_file returns a result or raises ValueError; the model has a
   third outcome (any other exception: AttributeError from .items()/.get() of a non-dict),
   and it is unreachable. *)
Theorem parser_total_valueerror : forall object_types operations permissions sections blob,
  (exists r, read_policy object_types operations permissions sections blob = Ok r) \/
  read_policy object_types operations permissions sections blob = ValueErr.
Proof. exact read_policy_total. Qed.
Print Assumptions parser_total_valueerror.
