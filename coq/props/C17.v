From PK Require Import Session.Session Session.SessionCases.
Theorem c17_placeholder : True. Proof. exact I. Qed.
