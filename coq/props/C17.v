(* C17 - no request is evaluated before the client's identity is established.
   Model: Session/Session.v (cert_checks, slugs_authenticate, run_plugins/authenticate, establish, handle);
   the request parser and the engine are parameters of the theorems (universally quantified). *)
From Coq Require Import ZArith List Bool String.
From PK Require Import Base.Bytes Base.Prim Session.Encode Session.EncodeProofs Session.Session Session.SessionProofs Session.Toy.
Import ListNotations.
Open Scope Z_scope.

Section AnyParserAnyEngine.
  Variable request : Type.
  Variable parse : bytes -> option request.
  Variable rq_version : request -> Z * Z.
  Variable estate : Type.
  Variable engine : request -> identity -> estate -> eresult * estate.
  Notation handle := (handle request parse rq_version estate engine).

  (* 1. Request processing is entered iff the session established an identity (and the request decodes), and the
        credential it is entered with is exactly that identity. *)
  Theorem engine_called_only_if_established : forall g f st,
    call (fst (handle g f st)) =
    match establish g, parse f with
    | Some id, Some _ => Some id
    | _, _ => None
    end.
  Proof. exact (call_iff_established request parse rq_version estate engine). Qed.

  (* 2. Every failing path: engine not entered, engine state untouched, one answer which decodes as
        AUTHENTICATION_NOT_SUCCESSFUL (at version 1.0 when the certificate itself is refused, at the request's
        version otherwise) - or INVALID_MESSAGE when, on top of that, the request itself cannot be decoded. *)
  Theorem auth_failure_response :
    (forall rq, ver_ok (rq_version rq)) ->
    forall g f st, establish g = None -> clock_ok (now g) ->
    snd (handle g f st) = st /\ call (fst (handle g f st)) = None /\
    exists b, out (fst (handle g f st)) = Sent b /\
      exists v reason m, dec_err_response b = Some {| ef_version := v; ef_ts := now g; ef_count := 1; ef_status := OPERATION_FAILED;
                                                   ef_reason := reason; ef_msg := m |}
        /\ ((reason = R_AUTHENTICATION_NOT_SUCCESSFUL /\ (cert_checks g = None \/ exists rq, parse f = Some rq /\ v = rq_version rq))
            \/ (reason = R_INVALID_MESSAGE /\ parse f = None /\ cert_checks g <> None /\ v = (1, 0))).
  Proof.
    intros Hv g f st He Hc. rewrite (auth_failure_step request parse rq_version estate engine g f st He). cbn [fst snd out call].
    split; [reflexivity|]. split; [reflexivity|].
    exact (failure_outcome_decodes request parse rq_version Hv g f Hc).
  Qed.
End AnyParserAnyEngine.
Print Assumptions engine_called_only_if_established.
Print Assumptions auth_failure_response.

(* 3. The session's behaviour depends on the engine through that single call only: with no identity established
      (or an undecodable request) two arbitrary engines are indistinguishable; with identity `id` they are
      indistinguishable as soon as they agree on `engine rq id st`. *)
Theorem engine_not_consulted_unless_established :
  forall (request : Type) (parse : bytes -> option request) (rq_version : request -> Z * Z) (estate : Type)
         (engine1 engine2 : request -> identity -> estate -> eresult * estate) g f st,
  (establish g = None \/ parse f = None
   \/ exists id rq, establish g = Some id /\ parse f = Some rq /\ engine1 rq id st = engine2 rq id st) ->
  handle request parse rq_version estate engine1 g f st = handle request parse rq_version estate engine2 g f st.
Proof.
  intros request parse rq_version estate e1 e2 g f st [H | [H | (id & rq & H1 & H2 & H3)]].
  - apply unestablished_ignores_engine; assumption.
  - apply undecodable_ignores_engine; assumption.
  - eapply engine_used_once_with_identity; eassumption.
Qed.
Print Assumptions engine_not_consulted_unless_established.

(* 4. Characterisation of `establish` against the property's list of conditions.
      Necessary: a certificate is present, carries clientAuth when the check is on, yields exactly one common name
      (the user), and either no plugin block is consulted (then there are no groups) or a consulted block's SLUGS
      service vouches - both look-ups answered 200 - and its group list accompanies the identity. *)
Theorem establish_spec : forall g user groups,
  establish g = Some (user, groups) ->
  exists c, peer g = Some c
    /\ (tls_client_auth g = true -> c_eku c = EkuClient)
    /\ c_cns c = [user]
    /\ ((forall p, In p (plugins g) -> consulted p = false) /\ groups = None
        \/ exists p, In p (plugins g) /\ consulted p = true /\ vouches p groups).
Proof. exact establish_conditions. Qed.
Print Assumptions establish_spec.

(*    Sufficient: with the certificate conditions met, no consulted block gives (user, None); and the first consulted
      block that vouches decides, provided every block before it is skipped or refuses (without a non-string url,
      which aborts authentication as a whole). *)
Theorem establish_spec_converse_no_plugins : forall g c user,
  peer g = Some c -> (tls_client_auth g = true -> c_eku c = EkuClient) -> c_cns c = [user] ->
  (forall p, In p (plugins g) -> consulted p = false) ->
  establish g = Some (user, None).
Proof. exact establish_no_plugins. Qed.
Print Assumptions establish_spec_converse_no_plugins.

Theorem establish_spec_converse_plugins : forall g c user pre p post groups,
  peer g = Some c -> (tls_client_auth g = true -> c_eku c = EkuClient) -> c_cns c = [user] ->
  plugins g = pre ++ p :: post ->
  (forall q, In q pre -> consulted q = false \/ (p_url q <> UrlNotString /\ slugs_authenticate c q = None)) ->
  consulted p = true -> vouches p groups ->
  establish g = Some (user, groups).
Proof. exact establish_first_voucher. Qed.
Print Assumptions establish_spec_converse_plugins.

(* ---- the hypotheses are satisfiable by non-trivial configurations (Session/Toy.v) ---- *)
Example established_ex :
  establish toy_cfg = Some ("alice"%string, None)
  /\ establish (slugs_cfg [slugs_off; slugs_404; slugs_ok]) = Some ("alice"%string, Some ["Group A"%string])
  /\ call (fst (toy_handle (slugs_cfg [slugs_404; slugs_ok]) [66] 0%nat)) = Some ("alice"%string, Some ["Group A"%string]).
Proof. vm_compute. repeat split; reflexivity. Qed.

Example auth_failure_ex :
  establish no_cert_cfg = None /\ establish (slugs_cfg [slugs_404]) = None /\ establish (slugs_cfg [slugs_500]) = None
  /\ establish (slugs_cfg [slugs_404; slugs_off]) = None
  /\ clock_ok (now no_cert_cfg)
  /\ toy_handle (slugs_cfg [slugs_404]) [66] 7%nat
     = ({| out := error (slugs_cfg [slugs_404]) (1, 2) R_AUTHENTICATION_NOT_SUCCESSFUL MSG_AUTH; call := None |}, 7%nat)
  /\ error (slugs_cfg [slugs_404]) (1, 2) R_AUTHENTICATION_NOT_SUCCESSFUL MSG_AUTH <> Escaped.
Proof. repeat split; vm_compute; congruence. Qed.

Example establish_spec_converse_plugins_ex :
  plugins (slugs_cfg [slugs_off; slugs_404; slugs_ok]) = [slugs_off; slugs_404] ++ slugs_ok :: []
  /\ consulted slugs_off = false /\ slugs_authenticate alice_cert slugs_404 = None
  /\ consulted slugs_ok = true /\ vouches slugs_ok (Some ["Group A"%string]).
Proof. vm_compute. repeat split; reflexivity. Qed.
