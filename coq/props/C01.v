(* C01 - TTLV round trip.  Property theorems only. *)
From PK Require Import Base.Bytes Base.Prim Base.PrimProofs.
Open Scope Z_scope.

(* every encodable primitive value decodes back to itself, whatever follows it in the stream *)
Theorem c01_prim_roundtrip : forall mem tag p,
  tag_ok tag = true -> wf_prim mem p = true ->
  exists bs, enc_prim tag p = Some bs /\
             forall rest, dec_prim mem (ptype_of p) tag (bs ++ rest) = Some (p, rest).
Proof. exact prim_roundtrip. Qed.
Print Assumptions c01_prim_roundtrip.

(* encoding succeeds exactly on the well-formed values *)
Theorem c01_enc_some_iff_wf : forall mem tag p,
  (match p with VBytes bs => bytes_ok bs = true | _ => True end) ->
  (match p with VEnum v => mem v = true | _ => True end) ->
  (exists bs, enc_prim tag p = Some bs) <-> wf_prim mem p = true.
Proof. exact enc_some_iff_wf. Qed.
Print Assumptions c01_enc_some_iff_wf.

(* for any byte string the decoder accepts, decode-encode-decode gives the same value *)
Theorem c01_prim_dec_enc_dec : forall mem t tag bs p rest,
  tag_ok tag = true -> bytes_ok bs = true -> zlen bs < TWO31 ->
  dec_prim mem t tag bs = Some (p, rest) ->
  exists bs', enc_prim tag p = Some bs' /\ forall rest', dec_prim mem t tag (bs' ++ rest') = Some (p, rest').
Proof. exact dec_enc_dec. Qed.
Print Assumptions c01_prim_dec_enc_dec.

Example c01_nonvacuous : wf_prim (fun v => v =? 3) (VEnum 3) = true /\ wf_prim (fun _ => false) (VBig (-(2 ^ 200))) = true.
Proof. split; vm_compute; reflexivity. Qed.

(* ---- structures, payloads, messages: generic over every schema environment accepted by env_ok ---- *)
From PK Require Import Codec.Schema Codec.SchemaProofs.

(* for every version, nesting depth and value: decoding what was encoded yields the value and the untouched rest *)
Theorem c01_roundtrip : forall E v, env_ok E = true -> In v VERSIONS ->
  forall fuel tag k x bs, tag_ok tag = true -> wfv E v fuel k x = true ->
  wr E v fuel tag k x = Some bs -> forall rest, rd E v fuel tag k (bs ++ rest) = Some (x, rest).
Proof. exact roundtrip. Qed.
Print Assumptions c01_roundtrip.

(* re-encoding the decoded value reproduces the same bytes *)
Theorem c01_reencode : forall E v, env_ok E = true -> In v VERSIONS ->
  forall fuel tag k x bs rest x' rest', tag_ok tag = true -> wfv E v fuel k x = true ->
  wr E v fuel tag k x = Some bs -> rd E v fuel tag k (bs ++ rest) = Some (x', rest') ->
  x' = x /\ rest' = rest /\ wr E v fuel tag k x' = Some bs.
Proof. exact reencode. Qed.
Print Assumptions c01_reencode.

(* for any byte string the decoder accepts, decode - encode - decode gives the same value *)
Theorem c01_dec_enc_dec : forall E v, env_ok E = true -> In v VERSIONS ->
  forall fuel tag k bs x rest, tag_ok tag = true -> bytes_ok bs = true -> zlen bs < TWO31 ->
  rd E v fuel tag k bs = Some (x, rest) ->
  exists bs', wr E v fuel tag k x = Some bs' /\
              forall rest', rd E v fuel tag k (bs' ++ rest') = Some (x, rest').
Proof. exact dec_enc_dec_struct. Qed.
Print Assumptions c01_dec_enc_dec.

(* ---- instantiation at the schemas regenerated from /repo on this run (tie T) ---- *)
From PKGen Require Import Schemas.

(* reader and writer of every translated class agree item by item, tags are unambiguous under
   every version, every referenced class and enumeration exists *)
Theorem c01_E_ok : env_ok Schemas.E = true.
Proof. vm_compute. reflexivity. Qed.

Theorem c01_roundtrip_E : forall v, In v VERSIONS ->
  forall fuel tag k x bs, tag_ok tag = true -> wfv Schemas.E v fuel k x = true ->
  wr Schemas.E v fuel tag k x = Some bs -> forall rest, rd Schemas.E v fuel tag k (bs ++ rest)%list = Some (x, rest).
Proof. intros v. exact (roundtrip Schemas.E v c01_E_ok). Qed.
Print Assumptions c01_roundtrip_E.
