(* C11 - Requests are isolated from each other's transient state.
   Model: theories/Isolation/Model.v on top of theories/Uid/Model.v (tied to /repo by harness/c11.py;
   Coq compares: Isolation/Cases.v).  The engine object's fields that survive a request are an explicit
   record `transient`; the theorems quantify over ALL values of that record, all stores, identities,
   requests and (by induction) all prefix histories. *)
From PK Require Import Isolation.Model Isolation.Proofs Isolation.Session.
From Coq Require Import ZArith List Bool String.
Import ListNotations.
Open Scope Z_scope.

(* response and resulting store of a request do not depend on what earlier requests left in the engine object *)
Theorem transient_irrelevant : forall xs t1 t2 who q,
  fst (process_request xs t1 who q) = fst (process_request xs t2 who q) /\
  fst (snd (process_request xs t1 who q)) = fst (snd (process_request xs t2 who q)).
Proof. exact Proofs.transient_irrelevant. Qed.
Print Assumptions transient_irrelevant.

Theorem history_transient_irrelevant : forall evs xs t1 t2,
  fst (run_history_t true (xs, t1) evs) = fst (run_history_t true (xs, t2) evs) /\
  fst (snd (run_history_t true (xs, t1) evs)) = fst (snd (run_history_t true (xs, t2) evs)).
Proof. exact Proofs.history_transient_irrelevant. Qed.
Print Assumptions history_transient_irrelevant.

(* the property as quantified: for all (prefix history, probe) the probe is answered as by a fresh engine
   object on the same store *)
Theorem probe_equals_fresh : forall evs xs0 t0 who probe,
  let s := snd (run_history_t true (xs0, t0) evs) in
  fst (process_request (fst s) (snd s) who probe) = fst (process_request (fst s) fresh_transient who probe) /\
  fst (snd (process_request (fst s) (snd s) who probe)) = fst (snd (process_request (fst s) fresh_transient who probe)).
Proof. exact Proofs.probe_equals_fresh. Qed.
Print Assumptions probe_equals_fresh.

(* the data flow behind it: a whole batch depends on the engine object only through placeholder, version,
   attribute policy and identity (never the asynchronous flag), and process_request has written all four from
   the request when the batch starts *)
Theorem handlers_read_four_fields : forall cont its xs t t', same_view t t' ->
  fst (fst (run_items_t cont xs t its)) = fst (fst (run_items_t cont xs t' its)) /\
  snd (fst (run_items_t cont xs t its)) = snd (fst (run_items_t cont xs t' its)) /\
  same_view (snd (run_items_t cont xs t its)) (snd (run_items_t cont xs t' its)).
Proof. exact Proofs.run_items_t_view. Qed.
Print Assumptions handlers_read_four_fields.

Theorem batch_view_from_request : forall t who v b,
  let t' := set_ident (set_async (set_version (set_ph (set_ident t nobody) None) v) b) who in
  t_ph t' = None /\ t_ver t' = v /\ t_apv t' = v /\ t_ident t' = who.
Proof. exact Proofs.batch_view_from_request. Qed.
Print Assumptions batch_view_from_request.

(* the statement is not vacuous: requests do leave placeholder, version, attribute policy and identity behind *)
Example leftovers :
  snd (snd (process_request init_xstore fresh_transient 2
     {| q_ver := 20; q_stamp := StampAbsent; q_async := None; q_undo := false; q_cont := false; q_ids_ok := false;
        q_items := [{| x_item := {| i_op := OCreate 0; i_gate := true |}; x_present := [[]] |}] |}))
  = {| t_ph := Some 1; t_ver := 20; t_apv := 20; t_ident := 2; t_async := false |}.
Proof. exact Proofs.leftovers. Qed.

(* and it distinguishes engines: without the per-request placeholder reset (the tree before fix 668324a,
   process_request_gen false) the same statement is false - recorded as the fixed finding C11-placeholder-survives *)
Theorem old_engine_not_isolated :
  exists xs t1 t2 who q,
    fst (process_request_gen false xs t1 who q) <> fst (process_request_gen false xs t2 who q).
Proof. exact Proofs.old_engine_not_isolated. Qed.
Print Assumptions old_engine_not_isolated.

(* ---------- connection level: the session object ---------- *)

(* handling a message never changes the session object's fields (all four are configuration) *)
Theorem session_unchanged : forall ss s who f, snd (fst (handle_message ss s who f)) = ss.
Proof. exact Session.session_unchanged. Qed.
Print Assumptions session_unchanged.

(* after ANY messages on a connection the probe is answered as over a new connection to a fresh engine object on
   the same store: in particular a Maximum Response Size stated by an earlier message is gone *)
Theorem probe_equals_fresh_connection : forall prefix now s0 who probe,
  let r := run_connection (new_sess now) s0 who prefix in
  let ss := snd (fst r) in let s := snd r in
  fst (fst (handle_message ss s who probe)) = fst (fst (handle_message (new_sess now) (fst s, fresh_transient) who probe)) /\
  fst (snd (handle_message ss s who probe)) = fst (snd (handle_message (new_sess now) (fst s, fresh_transient) who probe)).
Proof. exact Session.probe_equals_fresh_connection. Qed.
Print Assumptions probe_equals_fresh_connection.

(* false for a session that stores the limit of an earlier message in the session object *)
Theorem sticky_session_not_isolated :
  exists ss1 ss2 s who f,
    ss2 = snd (fst (handle_message_sticky ss1 s who (FReq locate_q (Some 100) 80))) /\
    fst (fst (handle_message_sticky ss1 s who f)) <> fst (fst (handle_message_sticky ss2 s who f)).
Proof. exact Session.sticky_session_not_isolated. Qed.
Print Assumptions sticky_session_not_isolated.
