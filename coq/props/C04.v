(* C04 - object lifecycle is monotone and gates every cryptographic use (placeholder while the proofs are written) *)
From PK Require Import Lifecycle.Model Lifecycle.Cases.
From Coq Require Import ZArith List.
Import ListNotations.
Open Scope Z_scope.
Example c04_model_runs :
  map fst (trace (empty_store 1) [(Create 4, true); (Encrypt 1 true, true); (Activate 1, true); (Encrypt 1 true, true)])
  = [OK; Refused RState PermissionDenied; OK; OK].
Proof. vm_compute. reflexivity. Qed.
