(* C04 - Object lifecycle is monotone and gates every cryptographic use.

   Statement (properties.jsonl): a managed cryptographic object moves only Pre-Active -> Active -> Deactivated, or
   into Compromised on a key- or CA-compromise revocation, and never returns to an earlier state; only Activate and
   Revoke change the state.  Encrypt, Decrypt, Sign, SignatureVerify, MAC and use as a wrapping key succeed only
   while the key is Active, is of the right kind, and its usage mask contains the matching bit (DeriveKey requires
   the Derive Key bit).  Destroy is refused for an Active object.

   The theorems are about Lifecycle.Model.step, the executable model of the guards of
   kmip/services/server/engine.py, tied to the code on every run by harness/c04.py (Lifecycle.Cases.check_hcase).
   Proofs: Lifecycle/LifecycleProofs.v.  Vocabulary (transition, property_move, wf, gate, usable): Lifecycle/Spec.v. *)
From PK Require Import Lifecycle.Model Lifecycle.Spec Lifecycle.LifecycleProofs Lifecycle.GuardTable Lifecycle.GuardTie.
From PKGen Require LifecycleGuards.
From Coq Require Import ZArith List Bool.
Import ListNotations.
Open Scope Z_scope.

(* ---------------------------------------------------------------- 0. tie T *)
(* the guard skeleton extracted from engine.py on this run is the one the model was written against *)
Theorem guards_as_modelled : LifecycleGuards.guards = GuardTable.expected_guards.
Proof. exact GuardTie.guards_as_modelled. Qed.
Print Assumptions guards_as_modelled.

(* every operation handler (modelled or not) reaches the crypto engine / stored objects / State only as tabulated *)
Theorem reach_as_modelled : LifecycleGuards.reach = GuardTable.expected_reach.
Proof. exact GuardTie.reach_as_modelled. Qed.
Print Assumptions reach_as_modelled.

(* Register (plain or of a wrapped key) consults no stored object: outcome and new object do not depend on the store *)
Theorem register_uses_no_key : forall cok s t m,
  step cok s (Register t m) = (OK, add_obj s t m) /\ (forall v ob, lookup v (objs s) = Some ob -> lookup v (objs (add_obj s t m)) = Some ob).
Proof. exact LifecycleProofs.register_uses_no_key. Qed.
Print Assumptions register_uses_no_key.

(* ---------------------------------------------------------------- 1. allowed transitions *)
(* exactly what one step does to one stored object, for ANY store: type and mask are untouched and the State
   changes in one of the four listed ways (Lifecycle.Spec.transition) *)
Theorem step_transition_exact : forall cok s o out s' v ob ob',
  step cok s o = (out, s') ->
  lookup v (objs s) = Some ob -> lookup v (objs s') = Some ob' ->
  oty ob' = oty ob /\ omask ob' = omask ob /\ transition o out v (ost ob) (ost ob').
Proof. exact LifecycleProofs.step_transition_exact. Qed.
Print Assumptions step_transition_exact.

(* the property's reading (compromise c := KeyCompromise or CACompromise), for every store the engine can be in *)
Theorem step_transition : forall cok s o out s' v ob ob',
  wf s -> step cok s o = (out, s') ->
  lookup v (objs s) = Some ob -> lookup v (objs s') = Some ob' ->
  ost ob = ost ob'
  \/ (o = Activate v /\ ost ob = Some PreActive /\ ost ob' = Some Active)
  \/ (exists c, o = Revoke v c /\ ost ob = Some Active /\ ost ob' = Some Deactivated)
  \/ (exists c, o = Revoke v c /\ compromise c /\ ost ob' = Some Compromised).
Proof. exact LifecycleProofs.step_transition. Qed.
Print Assumptions step_transition.

Example step_transition_nonvacuous :
  let s := exec (empty_store 1) [(Create 4, true); (Activate 1, true)] in
  wf s /\ exists s' ob ob', step true s (Revoke 1 CACompromise) = (OK, s')
    /\ lookup 1 (objs s) = Some ob /\ lookup 1 (objs s') = Some ob'
    /\ ost ob = Some Active /\ ost ob' = Some Deactivated.
Proof.
  split. apply exec_wf, wf_empty.
  eexists. eexists. eexists. split. vm_compute. reflexivity.
  split. vm_compute. reflexivity. split. vm_compute. reflexivity. split; reflexivity.
Qed.

(* ---------------------------------------------------------------- 2. never back to an earlier state *)
(* every history (list of operations with their crypto-oracle inputs) from the empty store, cut anywhere: the rank
   of the object with identifier v after h1 is at most its rank after h1 ++ h2.  Induction over h2. *)
Theorem monotone : forall first h1 h2 v ob ob',
  lookup v (objs (exec (empty_store first) h1)) = Some ob ->
  lookup v (objs (exec (empty_store first) (h1 ++ h2))) = Some ob' ->
  orank (ost ob) <= orank (ost ob').
Proof. exact LifecycleProofs.monotone. Qed.
Print Assumptions monotone.

(* the same from any well-formed store, with type and mask *)
Theorem monotone_from : forall h s v ob ob',
  wf s -> lookup v (objs s) = Some ob -> lookup v (objs (exec s h)) = Some ob' ->
  orank (ost ob) <= orank (ost ob') /\ oty ob' = oty ob /\ omask ob' = omask ob.
Proof. exact LifecycleProofs.monotone_from. Qed.
Print Assumptions monotone_from.

(* states a stored object can be in at all *)
Theorem reachable_states : forall first h v ob,
  lookup v (objs (exec (empty_store first) h)) = Some ob ->
  ost ob = None \/ ost ob = Some PreActive \/ ost ob = Some Active \/ ost ob = Some Deactivated \/ ost ob = Some Compromised.
Proof. exact LifecycleProofs.reachable_states. Qed.
Print Assumptions reachable_states.

Example monotone_nonvacuous :
  let h1 := [(Create 4, true); (Activate 1, true)] in
  let h2 := [(Revoke 1 Superseded, true); (Activate 1, true); (Revoke 1 KeyCompromise, true); (Revoke 1 Unspecified, true)] in
  exists ob ob', lookup 1 (objs (exec (empty_store 1) h1)) = Some ob
              /\ lookup 1 (objs (exec (empty_store 1) (h1 ++ h2))) = Some ob'
              /\ orank (ost ob) = 1 /\ orank (ost ob') = 3.
Proof. eexists. eexists. split. vm_compute. reflexivity. split. vm_compute. reflexivity. split; reflexivity. Qed.

(* ---------------------------------------------------------------- 3. only Activate and Revoke change the state *)
Theorem only_activate_revoke_change_state : forall cok s o out s' v ob ob',
  step cok s o = (out, s') ->
  lookup v (objs s) = Some ob -> lookup v (objs s') = Some ob' ->
  ost ob' <> ost ob ->
  out = OK /\ (o = Activate v \/ exists c, o = Revoke v c).
Proof. exact LifecycleProofs.only_activate_revoke_change_state. Qed.
Print Assumptions only_activate_revoke_change_state.

Example only_activate_revoke_nonvacuous :
  exists s s' ob ob', step true s (Activate 1) = (OK, s') /\ lookup 1 (objs s) = Some ob
                   /\ lookup 1 (objs s') = Some ob' /\ ost ob' <> ost ob.
Proof.
  exists (exec (empty_store 1) [(Register Certificate 0, true)]). eexists. eexists. eexists.
  split. vm_compute. reflexivity. split. vm_compute. reflexivity. split. vm_compute. reflexivity.
  simpl. discriminate.
Qed.

(* ---------------------------------------------------------------- 4. cryptographic use is gated *)
(* gate s o (Lifecycle.Spec): Encrypt/Decrypt -> SymmetricKey, Active, Encrypt/Decrypt bit; Sign -> PrivateKey,
   Active, Sign bit; SignatureVerify -> PublicKey, Active, Verify bit; MAC -> SymmetricKey or
   SecretData, Active, MAC Generate bit; Get with wrapping -> wrapping key SymmetricKey, Active, Wrap Key bit; DeriveKey -> at least one base
   object, every base object of a derivable type with the Derive Key bit. *)
Theorem crypto_gated : forall cok s o s', step cok s o = (OK, s') -> gate s o.
Proof. exact LifecycleProofs.crypto_gated. Qed.
Print Assumptions crypto_gated.

(* stronger: the key material does not even reach the CryptographyEngine unless the gate holds *)
Theorem crypto_engine_gated : forall cok s o r s',
  step cok s o = (r, s') -> crypto_called o r = true -> gate s o.
Proof. exact LifecycleProofs.crypto_engine_gated. Qed.
Print Assumptions crypto_engine_gated.

(* at any point of any history *)
Theorem crypto_gated_history : forall first h e r s',
  step (snd e) (exec (empty_store first) h) (fst e) = (r, s') -> crypto_called (fst e) r = true ->
  gate (exec (empty_store first) h) (fst e).
Proof. exact LifecycleProofs.crypto_gated_history. Qed.
Print Assumptions crypto_gated_history.

(* gated operations never change a stored object (DeriveKey may add the derived key) *)
Theorem gated_store_unchanged : forall cok s o r s',
  step cok s o = (r, s') -> gated o = true ->
  s' = s \/ (exists us m len, o = DeriveKey us m len /\ r = OK /\ s' = add_objv s SymmetricKey m (negb (len =? 0))).
Proof. exact LifecycleProofs.gated_store_unchanged. Qed.
Print Assumptions gated_store_unchanged.

Example crypto_gated_nonvacuous :
  let s := exec (empty_store 1) [(Create 671, true); (CreateKeyPair 2 1, true); (Activate 1, true); (Activate 2, true); (Activate 3, true)] in
  step true s (Encrypt 1 true) = (OK, s) /\ step true s (Decrypt 1 true) = (OK, s) /\ step true s (Sign 3 true) = (OK, s)
  /\ step true s (SignatureVerify 2 true) = (OK, s) /\ step true s (MAC 1 true true) = (OK, s)
  /\ step true s (GetWrap 3 1) = (OK, s) /\ fst (step true s (DeriveKey [1] 12 128)) = OK
  /\ step true s (DeriveKey [1] 12 (-8)) = (Refused RParams InvalidField, s)
  /\ step true s (DeriveKey [1] 12 12) = (Refused RParams InvalidField, s)
  /\ step true s (Sign 2 true) = (Refused RType PermissionDenied, s)
  /\ step true s (Encrypt 3 true) = (Refused RType PermissionDenied, s).
Proof. vm_compute. repeat split. Qed.

(* MAC and "the right kind" (SymmetricKey or SecretData, Lifecycle.Spec.mac_kind).  Before /repo commit d24c06a
   _process_mac had no object-type guard and this clause was refuted (finding C04-mac-wrong-kind-*, now fixed);
   it is part of [gate] above and stated separately here at full strength. *)
Theorem mac_right_kind : forall cok s u alg data s',
  step cok s (MAC u alg data) = (OK, s') ->
  exists ob, lookup u (objs s) = Some ob /\ mac_kind (oty ob).
Proof. exact LifecycleProofs.mac_right_kind. Qed.
Print Assumptions mac_right_kind.

Example mac_right_kind_nonvacuous :
  let s := exec (empty_store 1) [(Register SecretData 128, true); (Register PrivateKey 128, true); (Activate 1, true); (Activate 2, true)] in
  step true s (MAC 1 true true) = (OK, s) /\ step true s (MAC 2 true true) = (Refused RType PermissionDenied, s).
Proof. vm_compute. split; reflexivity. Qed.

(* Get with a wrapping specification, in full: wrapping key gate and kind of the wrapped object *)
Theorem get_wrap_gated : forall cok s u w r s',
  step cok s (GetWrap u w) = (r, s') -> entered r ->
  s' = s /\ usable s w SymmetricKey bWRAP_KEY /\ exists ob, lookup u (objs s) = Some ob /\ has_key_block (oty ob) = true.
Proof. exact LifecycleProofs.get_wrap_gated. Qed.
Print Assumptions get_wrap_gated.

(* the gates are not only necessary but sufficient (so the theorems above are not vacuous by over-refusal):
   with parameters present and the crypto engine not raising, a usable key gives OK *)
Theorem use_key_ok_iff : forall cok s u p t b,
  use_key cok s u p t b = OK <-> cok = true /\ p = true /\ usable s u t b.
Proof. exact LifecycleProofs.use_key_ok_iff. Qed.
Print Assumptions use_key_ok_iff.

(* Activate succeeds exactly from Pre-Active; a successful Revoke had KEY_COMPROMISE or found the object Active *)
Theorem activate_ok_iff : forall cok s u s',
  step cok s (Activate u) = (OK, s') <->
  (exists ob, lookup u (objs s) = Some ob /\ ost ob = Some PreActive) /\ s' = mkstore (set_state u Active (objs s)) (next_uid s).
Proof. exact LifecycleProofs.activate_ok_iff. Qed.
Print Assumptions activate_ok_iff.

Theorem revoke_ok_inv : forall cok s u c s',
  step cok s (Revoke u c) = (OK, s') ->
  exists ob st, lookup u (objs s) = Some ob /\ ost ob = Some st /\ (c = KeyCompromise \/ st = Active).
Proof. exact LifecycleProofs.revoke_ok_inv. Qed.
Print Assumptions revoke_ok_inv.

(* DeriveKey in full: base objects, a non-negative length that is a whole number of bytes (negative lengths refused since
   /repo 02e2981), and what it adds - a key whose value is empty exactly when the requested length is 0, which MAC then
   refuses ("A secret key value must be specified") *)
Theorem derive_key_gated : forall cok s us m len r s',
  step cok s (DeriveKey us m len) = (r, s') -> entered r ->
  us <> [] /\ 0 <= len /\ len mod 8 = 0 /\
  (forall u, In u us -> exists ob, lookup u (objs s) = Some ob /\ derivable (oty ob) = true /\ has_bit (omask ob) bDERIVE_KEY = true) /\
  (r = OK -> s' = add_objv s SymmetricKey m (negb (len =? 0))) /\ (r <> OK -> s' = s).
Proof. exact LifecycleProofs.derive_key_gated. Qed.
Print Assumptions derive_key_gated.

Example derive_zero_length_nonvacuous :
  let s := exec (empty_store 1) [(Create 671, true); (DeriveKey [1] 671 0, true); (Activate 2, true)] in
  (exists ob, lookup 2 (objs s) = Some ob /\ oval ob = false /\ ost ob = Some Active)
  /\ step true s (MAC 2 true true) = (Refused RParams PermissionDenied, s).
Proof. split. eexists. split. vm_compute. reflexivity. split; reflexivity. vm_compute. reflexivity. Qed.

(* ---------------------------------------------------------------- 5. Destroy is refused for an Active object *)
Theorem destroy_refused_when_active : forall cok s u ob,
  lookup u (objs s) = Some ob -> ost ob = Some Active ->
  step cok s (Destroy u) = (Refused RState PermissionDenied, s).
Proof. exact LifecycleProofs.destroy_refused_when_active. Qed.
Print Assumptions destroy_refused_when_active.

Theorem destroy_ok_inv : forall cok s u s',
  step cok s (Destroy u) = (OK, s') ->
  (exists ob, lookup u (objs s) = Some ob /\ ost ob <> Some Active) /\
  lookup u (objs s') = None /\ (forall v, v <> u -> lookup v (objs s') = lookup v (objs s)).
Proof. exact LifecycleProofs.destroy_ok_inv. Qed.
Print Assumptions destroy_ok_inv.

Example destroy_nonvacuous :
  let s := exec (empty_store 1) [(Create 4, true); (Activate 1, true)] in
  (exists ob, lookup 1 (objs s) = Some ob /\ ost ob = Some Active)
  /\ fst (step true (exec s [(Revoke 1 CACompromise, true)]) (Destroy 1)) = OK.
Proof. split. eexists. split. vm_compute. reflexivity. reflexivity. vm_compute. reflexivity. Qed.
