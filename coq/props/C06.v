From PK Require Import Base.Bytes Crypto.Padding Crypto.PaddingProofs Crypto.Plan Crypto.Cases.

(* unpad (pad m) = m : PKCS5/PKCS7 (scheme 0) and ANSI X.923 (scheme 1), every message, every block size *)
Theorem padding_roundtrip : forall s bs m, 0 < bs -> unpad s bs (pad s bs m) = Some m.
Proof. exact unpad_pad. Qed.
Print Assumptions padding_roundtrip.
