(* C06 - cryptographic operations compute what they claim: the theorems.
   Level: proof (partial).  What is proved is the PLUMBING (which primitive call each parameter tuple
   selects, in the guard order of CryptographyEngine) and the paddings; the primitives themselves are
   Section variables of Crypto/PlanProofs.v and Crypto/ConstructionsProofs.v whose laws are hypotheses
   (they appear below as explicit premises of the closed theorems - nothing is an axiom). *)
From Coq Require Import ZArith List Bool Lia.
From PK Require Import Base.Bytes Crypto.Padding Crypto.PaddingProofs Crypto.Plan Crypto.Exec Crypto.Cases Crypto.PlanProofs.
From PKGen Require Import CryptoTables.
Import ListNotations.
Open Scope Z_scope.

(* ---------------------------------------------------------------- padding_roundtrip (proved outright) *)
(* scheme 0 = PKCS5/PKCS7, 1 = ANSI X.923; every message, every positive block size (8 and 16 in particular) *)
Theorem padding_roundtrip : forall s bs m, 0 < bs -> unpad s bs (pad s bs m) = Some m.
Proof. exact unpad_pad. Qed.
Print Assumptions padding_roundtrip.

Theorem padding_roundtrip_8_16 : forall s m, unpad s 8 (pad s 8 m) = Some m /\ unpad s 16 (pad s 16 m) = Some m.
Proof. intros; split; apply unpad_pad; lia. Qed.
Print Assumptions padding_roundtrip_8_16.

Theorem padded_length_is_block_multiple : forall s bs m, 0 < bs -> zlen (pad s bs m) mod bs = 0 /\ zlen m < zlen (pad s bs m) <= zlen m + bs.
Proof.
  intros s bs m H. split; [apply pad_len_mod; auto|]. rewrite pad_len by auto.
  pose proof (pad_amount_range bs (zlen m) H). lia.
Qed.
Print Assumptions padded_length_is_block_multiple.

Example padding_examples :
  pad 0 8 [1;2;3] = [1;2;3;5;5;5;5;5] /\ pad 1 8 [1;2;3] = [1;2;3;0;0;0;0;5] /\
  pad 0 8 [1;2;3;4;5;6;7;8] = [1;2;3;4;5;6;7;8;8;8;8;8;8;8;8;8] /\
  unpad 0 8 [1;2;3;5;5;5;5;4] = None /\ unpad 1 8 [1;2;3;0;0;1;0;5] = None /\ unpad 0 8 [] = None.
Proof. vm_compute. repeat split. Qed.

(* ---------------------------------------------------------------- decrypt_inverts_encrypt *)
(* The laws of the abstract cipher are PREMISES (the Section hypotheses of PlanProofs.v):
     urandom n has n bytes; ciphertext length = data length; the GCM tag has 16 bytes;
     the library decryptor inverts the library encryptor under the same algorithm, key, mode, IV, AAD
     (and, for GCM, any truncation of the tag to t >= 4 bytes).
   Conclusion: for EVERY parameter tuple and message on which Encrypt succeeds, Decrypt with the same
   parameters, the IV that Encrypt used (supplied, or generated and returned) and the tag it returned
   yields the message. *)
Theorem decrypt_inverts_encrypt :
  forall (E : Z -> bytes -> Z -> option bytes -> option bytes -> bytes -> bytes * bytes)
         (Dp : Z -> bytes -> Z -> option bytes -> option bytes -> option bytes -> bytes -> option bytes)
         (urandom : Z -> bytes),
    (forall n, 0 <= n -> zlen (urandom n) = n) ->
    (forall a k m iv aad d, zlen (fst (E a k m iv aad d)) = zlen d) ->
    (forall a k iv aad d, zlen (snd (E a k BCM_GCM iv aad d)) = 16) ->
    (forall a k m iv aad d, m <> BCM_GCM -> Dp a k m iv aad None (fst (E a k m iv aad d)) = Some d) ->
    (forall a k iv aad d t, 4 <= t ->
        Dp a k BCM_GCM iv aad (Some (firstn (Z.to_nat t) (snd (E a k BCM_GCM iv aad d)))) (fst (E a k BCM_GCM iv aad d)) = Some d) ->
    forall a key mode padm iv aad taglen msg out,
      do_encrypt E urandom a key mode padm iv aad taglen msg = ROk out ->
      do_decrypt Dp urandom a key mode padm
                 (match eo_iv out with Some v => Some v | None => iv end) aad (eo_tag out) (eo_ct out) = ROk msg.
Proof. exact decrypt_inverts_encrypt_sym. Qed.
Print Assumptions decrypt_inverts_encrypt.

(* plan level, no law needed except the length of urandom's result being irrelevant here *)
Theorem decrypt_plan_is_inverse_of_encrypt_plan :
  forall urandom a key mode padm iv aad taglen sp tagv,
    sym_plan_of false a key mode padm iv aad taglen None = Ok sp ->
    (p_gcm sp = true -> is_some tagv = true) ->
    sym_plan_of true a key mode padm
                (match iv_returned urandom (p_mode sp) with Some v => Some v | None => iv end) aad None tagv
    = Ok (inv_plan urandom sp tagv).
Proof. exact decrypt_plan_is_inverse_plan. Qed.
Print Assumptions decrypt_plan_is_inverse_of_encrypt_plan.

(* non-vacuity: the premises are jointly satisfiable (toy primitives) and Encrypt succeeds on real tuples *)
Definition toyE (a : Z) (k : bytes) (m : Z) (iv aad : option bytes) (d : bytes) : bytes * bytes := (d, repeat 0 16).
Definition toyD (a : Z) (k : bytes) (m : Z) (iv aad tag : option bytes) (ct : bytes) : option bytes := Some ct.
Definition toyR (n : Z) : bytes := repeat 7 (Z.to_nat n).
Definition key16 : bytes := repeat 1 16.

Example premises_satisfiable :
  (forall n, 0 <= n -> zlen (toyR n) = n) /\
  (forall a k m iv aad d, zlen (fst (toyE a k m iv aad d)) = zlen d) /\
  (forall a k iv aad d, zlen (snd (toyE a k BCM_GCM iv aad d)) = 16) /\
  (forall a k m iv aad d, m <> BCM_GCM -> toyD a k m iv aad None (fst (toyE a k m iv aad d)) = Some d) /\
  (forall a k iv aad d t, 4 <= t ->
      toyD a k BCM_GCM iv aad (Some (firstn (Z.to_nat t) (snd (toyE a k BCM_GCM iv aad d)))) (fst (toyE a k BCM_GCM iv aad d)) = Some d).
Proof.
  repeat split; auto.
  intros n H. unfold toyR, zlen. rewrite repeat_length. lia.
Qed.

Example encrypt_accepts_cbc_fresh_iv :   (* AES-128 CBC PKCS5, no IV supplied: 16 fresh bytes, returned *)
  do_encrypt toyE toyR CA_AES key16 (Some BCM_CBC) (Some PM_PKCS5) None None None [1;2;3]
  = ROk (mkOut (pad 0 16 [1;2;3]) (Some (repeat 7 16)) None).
Proof. vm_compute. reflexivity. Qed.

Example encrypt_accepts_gcm :            (* AES-128 GCM, 12-byte IV, AAD, tag length 12 *)
  do_encrypt toyE toyR CA_AES key16 (Some BCM_GCM) None (Some (repeat 9 12)) (Some [5;5]) (Some 12) [1;2;3]
  = ROk (mkOut [1;2;3] None (Some (repeat 0 12))).
Proof. vm_compute. reflexivity. Qed.

Example encrypt_rejections :
  do_encrypt toyE toyR CA_AES key16 (Some BCM_CBC) None None None None [1] = RErr InvalidField /\            (* padding required *)
  do_encrypt toyE toyR CA_AES key16 (Some BCM_CBC) (Some PM_PKCS5) None (Some [1]) None [1] = RErr InvalidField /\   (* AAD outside GCM *)
  do_encrypt toyE toyR CA_AES key16 (Some BCM_GCM) None None None None [1] = RErr InvalidField /\            (* GCM without tag length *)
  do_encrypt toyE toyR CA_AES [1;2;3] (Some BCM_CBC) (Some PM_PKCS5) None None None [1] = RErr CryptographicFailure /\
  (* wrong IV length: refused by Cipher(...) -> CryptographicFailure (fix f8d262f) *)
  do_encrypt toyE toyR CA_AES key16 (Some BCM_CBC) (Some PM_PKCS5) (Some [1;2;3]) None None [1] = RErr CryptographicFailure /\
  (* GCM tag length < 4 / IV shorter than 8: refused by GCM(...) -> InvalidField *)
  do_encrypt toyE toyR CA_AES key16 (Some BCM_GCM) None (Some (repeat 9 12)) None (Some 3) [1] = RErr InvalidField /\
  do_encrypt toyE toyR CA_AES key16 (Some BCM_GCM) None (Some [1;2;3]) None (Some 16) [1] = RErr InvalidField /\
  (* RC4 named with a block cipher mode that cannot apply: InvalidField (fix 4ef300f; formerly AttributeError) *)
  do_encrypt toyE toyR CA_RC4 key16 (Some BCM_CBC) (Some PM_PKCS5) None None None [1] = RErr InvalidField /\
  do_encrypt toyE toyR CA_RC4 key16 (Some BCM_GCM) None None None (Some 16) [1] = RErr InvalidField /\
  do_encrypt toyE toyR CA_RC4 key16 None None None None None [1;2] = ROk (mkOut [1;2] None None).
Proof. vm_compute. repeat split. Qed.

(* ---------------------------------------------------------------- gcm_plumbs_tag_and_aad *)
Theorem gcm_plumbs_tag_and_aad :
  forall dec a key padm iv aad taglen tag sp,
    a <> CA_RC4 ->
    sym_plan_of dec a key (Some BCM_GCM) padm iv aad taglen tag = Ok sp ->
    p_aad sp = aad /\ p_gcm sp = true /\ p_pad sp = PNone /\ p_key sp = key /\
    (dec = false -> exists s t, taglen = Some t /\ p_mode sp = MGCM s None t /\
                                (s = match iv with Some v => IVGiven v | None => IVFresh (p_block sp) end)) /\
    (dec = true -> exists v t, iv = Some v /\ tag = Some t /\ p_mode sp = MGCM (IVGiven v) (Some t) (zlen t)).
Proof. exact gcm_plan. Qed.
Print Assumptions gcm_plumbs_tag_and_aad.

Theorem aad_accepted_only_in_gcm :
  forall dec a key mode padm iv aad taglen tag sp,
    sym_plan_of dec a key mode padm iv aad taglen tag = Ok sp -> is_some aad = true -> mode = Some BCM_GCM.
Proof. exact aad_only_in_gcm. Qed.
Print Assumptions aad_accepted_only_in_gcm.

(* a plaintext is released only after the primitive accepted exactly the supplied (iv, aad, tag, ciphertext):
   whatever authenticity the primitive provides is not weakened by the plumbing *)
Theorem gcm_decrypt_releases_only_authenticated :
  forall Dp urandom a key padm iv aad tag ct m,
    a <> CA_RC4 ->
    do_decrypt Dp urandom a key (Some BCM_GCM) padm iv aad tag ct = ROk m ->
    Dp a key BCM_GCM iv aad tag ct = Some m.
Proof. exact gcm_decrypt_authenticates. Qed.
Print Assumptions gcm_decrypt_releases_only_authenticated.

Example gcm_plan_example :
  sym_plan_of true CA_AES key16 (Some BCM_GCM) None (Some (repeat 9 12)) (Some [5;5]) None (Some (repeat 3 12))
  = Ok (mkSym CA_AES key16 (MGCM (IVGiven (repeat 9 12)) (Some (repeat 3 12)) 12) PNone 16 (Some [5;5]) true).
Proof. vm_compute. reflexivity. Qed.

(* ---------------------------------------------------------------- verify_plan_matches_sign_plan *)
(* Whatever hash and padding Sign selects, SignatureVerify with the same parameters selects the same -
   or refuses with InvalidField when a digital signature algorithm is given TOGETHER with a different
   separate hash / algorithm (Sign silently prefers the digital signature algorithm; quirk, see notes). *)
Theorem verify_plan_matches_sign_plan :
  forall p sp, sign_plan p = Ok sp ->
               verify_plan p = Ok sp \/ (verify_plan p = Err InvalidField /\ dsa_inconsistent p).
Proof. exact verify_matches_sign'. Qed.
Print Assumptions verify_plan_matches_sign_plan.

Theorem dsa_and_separate_parameters_select_the_same_plan :
  forall d h hv padm loads a0 h0,
    assoc d dsa_algs = Some (h, CA_RSA) -> assoc hv enc_hashes = Some h ->
    sign_plan (mkSig (Some d) a0 h0 padm loads) = sign_plan (mkSig None (Some CA_RSA) (Some hv) padm loads) /\
    verify_plan (mkSig (Some d) None None padm loads) = verify_plan (mkSig None (Some CA_RSA) (Some hv) padm loads).
Proof. intros. split; [eapply sign_dsa_eq_separate|eapply verify_dsa_eq_separate]; eauto. Qed.
Print Assumptions dsa_and_separate_parameters_select_the_same_plan.

Example sign_verify_examples :
  (* SHA256_WITH_RSA_ENCRYPTION (5) + PSS  ==  RSA + SHA_256 (6) + PSS : hash id 4, PSS *)
  sign_plan (mkSig (Some 5) None None (Some PM_PSS) true) = Ok (mkSigPlan (Some 4) SPSS) /\
  verify_plan (mkSig (Some 5) None None (Some PM_PSS) true) = Ok (mkSigPlan (Some 4) SPSS) /\
  sign_plan (mkSig None (Some CA_RSA) (Some 6) (Some PM_PSS) true) = Ok (mkSigPlan (Some 4) SPSS) /\
  (* the quirk: dsa says SHA-256, separate hash says SHA-1 (4): Sign signs with SHA-256, Verify refuses *)
  sign_plan (mkSig (Some 5) None (Some 4) (Some PM_PKCS1v15) true) = Ok (mkSigPlan (Some 4) SPKCS1) /\
  verify_plan (mkSig (Some 5) None (Some 4) (Some PM_PKCS1v15) true) = Err InvalidField /\
  (* unsupported separate hash (MD2 = 1): Sign refuses with InvalidField (fix fd6e5cc), Verify with CryptographicFailure *)
  sign_plan (mkSig None (Some CA_RSA) (Some 1) (Some PM_PKCS1v15) true) = Err InvalidField /\
  verify_plan (mkSig None (Some CA_RSA) (Some 1) (Some PM_PKCS1v15) true) = Err CryptographicFailure.
Proof. vm_compute. repeat split. Qed.

(* ---------------------------------------------------------------- derived_length_exact *)
Theorem derived_length_exact :
  forall len out d, 0 <= len -> derive_finish len out = Ok d -> zlen d = len /\ exists rest, out = d ++ rest.
Proof. intros. split; [eapply derive_finish_exact|eapply derive_finish_prefix]; eauto. Qed.
Print Assumptions derived_length_exact.

Theorem derived_too_short_is_cryptographic_failure :
  forall len out, zlen out < len -> derive_finish len out = Err CryptographicFailure.
Proof. exact derive_finish_short. Qed.
Print Assumptions derived_too_short_is_cryptographic_failure.

Theorem derive_plans_carry_requested_length :
  forall p dp, derive_plan p = Ok dp ->
    match dp with
    | DHkdf _ len _ _ _ | DPbkdf2 _ len _ _ _ | DKbkdf _ len _ _ => len = d_len p
    | _ => True
    end.
Proof. exact derive_plan_len. Qed.
Print Assumptions derive_plans_carry_requested_length.

(* the derivation table as the code has it: HMAC -> HKDF(salt, info = derivation data); HASH -> digest of exactly
   one of data / key; PBKDF2; NIST800_108_C -> KBKDF-HMAC counter mode over the derivation data; ENCRYPT -> encrypt() *)
Theorem derivation_table :
  forall p hv h, d_hash p = Some hv -> assoc hv enc_hashes = Some h ->
  (d_method p = Some DM_HMAC -> derive_plan p = Ok (DHkdf h (d_len p) (d_salt p) (d_data p) (d_key p))) /\
  (d_method p = Some DM_NIST800_108_C -> derive_plan p = Ok (DKbkdf h (d_len p) (d_data p) (d_key p))) /\
  (d_method p = Some DM_HASH -> forall x, d_data p = Some x -> d_key p = None -> derive_plan p = Ok (DHash h x)) /\
  (d_method p = Some DM_HASH -> forall x, d_data p = None -> d_key p = Some x -> derive_plan p = Ok (DHash h x)) /\
  (d_method p = Some DM_HASH -> forall x y, d_data p = Some x -> d_key p = Some y -> derive_plan p = Err InvalidField) /\
  (d_method p = Some DM_PBKDF2 -> forall s it, d_salt p = Some s -> d_iter p = Some it ->
      derive_plan p = Ok (DPbkdf2 h (d_len p) s it (d_key p))).
Proof. exact derive_table. Qed.
Print Assumptions derivation_table.

Theorem derivation_encrypt_is_the_symmetric_path :
  forall p, d_method p = Some DM_ENCRYPT -> is_some (d_data p) = true ->
  derive_plan p =
  match encrypt_plan (mkEnc (d_alg p) (match d_key p with Some k => k | None => [] end) (d_key_loads p)
                            (d_mode p) (d_pad p) (d_iv p) None None None None) with
  | Err e => Err e | Ok c => Ok (DEncrypt c) end.
Proof. exact derive_encrypt_is_encrypt. Qed.
Print Assumptions derivation_encrypt_is_the_symmetric_path.

Theorem derivation_encrypt_needs_data :
  forall p, d_method p = Some DM_ENCRYPT -> d_data p = None -> derive_plan p = Err InvalidField.
Proof. exact derive_encrypt_needs_data. Qed.
Print Assumptions derivation_encrypt_needs_data.

Example derive_examples :
  derive_finish 4 [1;2;3;4;5;6] = Ok [1;2;3;4] /\ derive_finish 7 [1;2;3;4;5;6] = Err CryptographicFailure /\
  derive_plan (mkDer (Some DM_HMAC) 16 (Some [1]) (Some [2]) (Some 6) (Some [3]) None None None None None false)
    = Ok (DHkdf 4 16 (Some [3]) (Some [1]) (Some [2])) /\
  derive_plan (mkDer (Some DM_PBKDF2) 16 None (Some [2]) (Some 6) None (Some 3) None None None None false) = Err InvalidField.
Proof. vm_compute. repeat split. Qed.

(* ---------------------------------------------------------------- rejects_or_plans *)
(* Every parameter tuple yields a KMIP error class or a plan - the plan functions have no third outcome. *)
Theorem rejects_or_plans :
  (forall dec p, (exists e, crypt_plan_of dec p = Err e) \/ (exists pl, crypt_plan_of dec p = Ok pl)) /\
  (forall p, (exists e, sign_plan p = Err e) \/ (exists pl, sign_plan p = Ok pl)) /\
  (forall p, (exists e, verify_plan p = Err e) \/ (exists pl, verify_plan p = Ok pl)) /\
  (forall a k, (exists e, mac_plan_of a k = Err e) \/ (exists pl, mac_plan_of a k = Ok pl)) /\
  (forall p, (exists e, derive_plan p = Err e) \/ (exists pl, derive_plan p = Ok pl)) /\
  (forall m a k kek, (exists e, wrap_plan_of m a k kek = Err e) \/ (exists pl, wrap_plan_of m a k kek = Ok pl)) /\
  (forall a l, (exists e, create_sym_plan a l = Err e) \/ (exists pl, create_sym_plan a l = Ok pl)) /\
  (forall a l, (exists e, create_pair_plan a l = Err e) \/ (exists pl, create_pair_plan a l = Ok pl)).
Proof. repeat split; intros; apply res_total. Qed.
Print Assumptions rejects_or_plans.

(* STRONGER since the fix: commits f8d262f f56c8fe 832c54a fd6e5cc (the engine converts the library's refusals) and
   4ef300f (RC4 named with CBC/ECB/GCM is InvalidField): executing the plan does not end in a non-KMIP exception
   either.  For EVERY abstract cipher (no law assumed), EVERY algorithm, key, mode, padding, IV, AAD, tag (length)
   and message, symmetric Encrypt and Decrypt end in a result or in InvalidField / CryptographicFailure: wrong IV
   length, cipher/mode pairs OpenSSL rejects, unusable key sizes, GCM tag length < 4, bad ciphertext length, invalid
   padding bytes, InvalidTag are all KMIP errors now.  None remain on the symmetric path. *)
Theorem encrypt_decrypt_never_leave_with_a_non_kmip_exception :
  forall E Dp urandom a key mode padm iv aad,
    (forall taglen msg, do_encrypt E urandom a key mode padm iv aad taglen msg <> RCrash) /\
    (forall tag ct, do_decrypt Dp urandom a key mode padm iv aad tag ct <> RCrash).
Proof. intros. split; intros; [apply do_encrypt_never_crashes|apply do_decrypt_never_crashes]. Qed.
Print Assumptions encrypt_decrypt_never_leave_with_a_non_kmip_exception.

(* ... and since fix 2eb33d4 the asymmetric (RSA) and signing paths as well: encrypt(), decrypt() and sign() as a whole -
   symmetric or RSA, for EVERY abstract cipher and EVERY abstract RSA backend (None = the backend refuses: message too
   long for key and padding, cipher text of the wrong length or that does not decrypt, key too small) - end in a result
   or in InvalidField / CryptographicFailure.  (verify_signature, mac, wrap_key and key creation caught every backend
   exception already: verify_plan / mac_plan_of / wrap_plan_of / create_*_plan with lib_*_ok false = CryptographicFailure.) *)
Theorem crypto_engine_never_leaves_with_a_non_kmip_exception :
  forall E Dp urandom RE RD RS,
    (forall p msg, do_encrypt_any E urandom RE p msg <> RCrash) /\
    (forall p ct, do_decrypt_any Dp urandom RD p ct <> RCrash) /\
    (forall p msg, do_sign RS p msg <> RCrash).
Proof.
  intros. repeat split; intros;
    [apply do_encrypt_any_never_crashes|apply do_decrypt_any_never_crashes|apply do_sign_never_crashes].
Qed.
Print Assumptions crypto_engine_never_leaves_with_a_non_kmip_exception.

Definition refuseR (k : bytes) (ap : asym_pad) (m : bytes) : option bytes := None.
Example rsa_backend_refusal_is_cryptographic_failure :
  do_encrypt_any toyE toyR refuseR (mkEnc (Some CA_RSA) [1] true None (Some PM_PKCS1v15) None None None None None) [1;2;3]
  = RErr CryptographicFailure /\
  do_decrypt_any toyD toyR refuseR (mkEnc (Some CA_RSA) [1] true None (Some PM_OAEP) None None None None (Some 6)) [1;2;3]
  = RErr CryptographicFailure /\
  do_sign (fun _ _ => None) (mkSig (Some 5) None None (Some PM_PSS) true) [1] = RErr CryptographicFailure /\
  do_sign (fun _ m => Some m) (mkSig (Some 5) None None (Some PM_PSS) true) [1] = ROk [1].
Proof. vm_compute. repeat split. Qed.

(* the same at plan level: no plan accepted by the engine's guards reaches a stage that raises a non-KMIP exception *)
Theorem no_non_kmip_exception_on_the_symmetric_path :
  forall dec a key mode padm iv aad taglen tag sp n,
    sym_plan_of dec a key mode padm iv aad taglen tag = Ok sp -> lib_sym_stage dec sp n <> LCrash.
Proof. exact plan_stage_never_crashes. Qed.
Print Assumptions no_non_kmip_exception_on_the_symmetric_path.

Theorem rc4_with_a_block_mode_is_refused :
  forall dec key mode padm iv aad taglen tag,
    (oeqZ mode BCM_CBC || oeqZ mode BCM_ECB || oeqZ mode BCM_GCM) = true ->
    exists e, sym_plan_of dec CA_RC4 key mode padm iv aad taglen tag = Err e.
Proof. exact rc4_rejects_block_modes. Qed.
Print Assumptions rc4_with_a_block_mode_is_refused.

(* authenticated decryption: a refusal by the primitive (InvalidTag after any change to ciphertext, tag or AAD)
   surfaces as CryptographicFailure *)
Theorem gcm_tamper_rejection_is_cryptographic_failure :
  forall Dp urandom a key padm iv aad tag ct sp,
    sym_plan_of true a key (Some BCM_GCM) padm iv aad None tag = Ok sp ->
    lib_sym_stage true sp (zlen ct) = LOk ->
    Dp (p_alg sp) (p_key sp) (mode_val (p_mode sp)) (mode_iv urandom (p_mode sp)) (p_aad sp) (mode_tag (p_mode sp)) ct = None ->
    do_decrypt Dp urandom a key (Some BCM_GCM) padm iv aad tag ct = RErr CryptographicFailure.
Proof. exact gcm_reject_is_cryptographic_failure. Qed.
Print Assumptions gcm_tamper_rejection_is_cryptographic_failure.

Definition rejectD (a : Z) (k : bytes) (m : Z) (iv aad tag : option bytes) (ct : bytes) : option bytes := None.
Example gcm_tamper_example :
  do_decrypt rejectD toyR CA_AES key16 (Some BCM_GCM) None (Some (repeat 9 12)) (Some [5;5]) (Some (repeat 3 16)) [1;2;3]
  = RErr CryptographicFailure /\
  do_decrypt toyD toyR CA_AES key16 (Some BCM_CBC) (Some PM_PKCS5) (Some (repeat 9 16)) None None (repeat 0 16)
  = RErr CryptographicFailure /\                                     (* padding bytes invalid *)
  do_decrypt toyD toyR CA_AES key16 (Some BCM_CBC) (Some PM_PKCS5) (Some (repeat 9 16)) None None [1;2;3]
  = RErr CryptographicFailure /\                                     (* ciphertext not a block multiple *)
  do_decrypt toyD toyR CA_AES key16 (Some BCM_GCM) None (Some (repeat 9 12)) None (Some [1;2;3]) [1]
  = RErr InvalidField.                                               (* tag shorter than 4 bytes: GCM(...) refuses *)
Proof. vm_compute. repeat split. Qed.

(* Sign never reaches hash_alg() on None; the key derivation functions' refusals are InvalidField *)
Theorem sign_plans_name_their_hash : forall p sp, sign_plan p = Ok sp -> exists h, sg_hash sp = Some h.
Proof.
  intros p sp H. apply sign_plan_has_hash in H. unfold lib_sign_ok in H.
  destruct (sg_hash sp); [eauto|discriminate].
Qed.
Print Assumptions sign_plans_name_their_hash.

Theorem key_derivation_functions_never_leave_with_a_non_kmip_exception :
  forall dp n, match dp with DEncrypt _ => True | _ => lib_der_stage dp n <> LCrash end.
Proof. exact kdf_stage_never_crashes. Qed.
Print Assumptions key_derivation_functions_never_leave_with_a_non_kmip_exception.

(* the accepted set of _encrypt_symmetric written declaratively; the equivalence with sym_plan_of is
   NOT proved yet (the case split is large) - kept visible as a statement, tested by the grid *)
Definition sym_accepts_enc_statement : Prop :=
  forall a key mode padm iv aad taglen,
    (exists sp, sym_plan_of false a key mode padm iv aad taglen None = Ok sp) <-> sym_accepts_enc a key mode padm aad taglen = true.

(* created key material: exactly the requested length, from os.urandom *)
Theorem created_key_length_exact :
  forall alg len pl, create_sym_plan alg len = Ok pl -> exists n, pl = KFresh alg n /\ n = len / 8.
Proof.
  unfold create_sym_plan. intros alg len pl H.
  destruct (assoc alg sym_algs) as [[b ks]|]; try discriminate.
  destruct (memZ len ks); try discriminate. injection H as <-. eauto.
Qed.
Print Assumptions created_key_length_exact.

(* key sizes of the generated table are whole bytes, so 8 * (len / 8) = len for every accepted length *)
Theorem accepted_key_sizes_are_whole_bytes :
  forallb (fun e : Z * (Z * list Z) => forallb (fun k => (k mod 8 =? 0) && (0 <? k)) (snd (snd e))) sym_algs = true.
Proof. vm_compute. reflexivity. Qed.
Print Assumptions accepted_key_sizes_are_whole_bytes.
