(* C02 - everything emitted is spec-conformant TTLV (primitive layer).
   Property theorems only; proofs live in PK.Base.SpecProofs. *)
From PK Require Import Base.Bytes Base.Prim Base.WfSpec Base.SpecProofs.
Open Scope Z_scope.

(* primitive encodings are byte-identical to the independent specification model *)
Theorem c02_enc_prim_spec : forall tag p bs,
  enc_prim tag p = Some bs -> spec_enc_rel tag (to_spec p) bs.
Proof. exact enc_prim_spec. Qed.
Print Assumptions c02_enc_prim_spec.

(* and they are well-formed TTLV items in the sense of the specification grammar *)
Theorem c02_enc_prim_wf : forall mem tag p bs,
  tag_ok tag = true -> wf_prim mem p = true -> enc_prim tag p = Some bs -> wf_item bs.
Proof. exact enc_prim_wf. Qed.
Print Assumptions c02_enc_prim_wf.

(* non-vacuity: a negative Integer and a 3-character TextString are encodable *)
Example c02_nonvacuous :
  exists a b, enc_prim 4325377 (VInt (-2)) = Some a /\ enc_prim 4325377 (VText [97; 98; 99]) = Some b
              /\ wf_prim (fun _ => true) (VInt (-2)) = true.
Proof. eexists; eexists; repeat split; vm_compute; reflexivity. Qed.

(* ---- structure writers: everything the schema interpreter emits is well-formed TTLV ---- *)
From PK Require Import Codec.Schema Codec.SchemaProofs.
Theorem c02_wr_wf : forall E v, env_ok E = true ->
  forall fuel tag k x bs, tag_ok tag = true -> wfv E v fuel k x = true ->
  wr E v fuel tag k x = Some bs -> wf_item bs.
Proof. exact wr_wf. Qed.
Print Assumptions c02_wr_wf.
