(* C02 - everything emitted is spec-conformant TTLV (primitive layer).
   Property theorems only; proofs live in PK.Base.SpecProofs. *)
From PK Require Import Base.Bytes Base.Prim Base.WfSpec Base.SpecProofs.
Open Scope Z_scope.

(* primitive encodings are byte-identical to the independent specification model *)
Theorem c02_enc_prim_spec : forall tag p bs,
  enc_prim tag p = Some bs -> spec_enc_rel tag (to_spec p) bs.
Proof. exact enc_prim_spec. Qed.
Print Assumptions c02_enc_prim_spec.

(* and they are well-formed TTLV items in the sense of the specification grammar *)
Theorem c02_enc_prim_wf : forall mem tag p bs,
  tag_ok tag = true -> wf_prim mem p = true -> enc_prim tag p = Some bs -> wf_item bs.
Proof. exact enc_prim_wf. Qed.
Print Assumptions c02_enc_prim_wf.

(* non-vacuity: a negative Integer and a 3-character TextString are encodable *)
Example c02_nonvacuous :
  exists a b, enc_prim 4325377 (VInt (-2)) = Some a /\ enc_prim 4325377 (VText [97; 98; 99]) = Some b
              /\ wf_prim (fun _ => true) (VInt (-2)) = true.
Proof. eexists; eexists; repeat split; vm_compute; reflexivity. Qed.

(* ---- structure writers: everything the schema interpreter emits is well-formed TTLV ---- *)
From PK Require Import Codec.Schema Codec.SchemaProofs.
Theorem c02_wr_wf : forall E v, env_ok E = true -> In v VERSIONS ->
  forall fuel tag k x bs, tag_ok tag = true -> wfv E v fuel k x = true ->
  wr E v fuel tag k x = Some bs -> wf_item bs.
Proof. exact wr_wf. Qed.
Print Assumptions c02_wr_wf.

(* ---- the response envelope, for every batch, continuation option and version ---- *)
From PK Require Import Codec.Envelope Codec.EnvelopeProofs.
From PKGen Require Import KmipErrors.

Theorem c02_envelope : forall version now continue items,
  forallb (fun x => outcome_ok (snd x)) items = true ->
  envelope_ok version (process version now continue items) = true.
Proof. exact envelope. Qed.
Print Assumptions c02_envelope.

Theorem c02_envelope_err : forall version now reason msg,
  envelope_ok version (build_error_response version now reason msg) = true.
Proof. exact envelope_err. Qed.
Print Assumptions c02_envelope_err.

(* the hypothesis outcome_ok is met by the code: regenerated tables (tie T) *)
Theorem c02_error_classes_fail : forallb class_ok kmip_error_classes = true.
Proof. exact error_classes_fail. Qed.
Theorem c02_raise_sites_nonempty : forallb site_ok kmip_raise_sites = true.
Proof. exact raise_sites_nonempty. Qed.
Print Assumptions c02_raise_sites_nonempty.

Example c02_envelope_nonvacuous :
  envelope_ok (1, 2) (process (1, 2) 5 false [(Some 1, None, OSuccess); (Some 10, None, OKmipError 1 1 "Could not locate object: 7")]) = true.
Proof. vm_compute. reflexivity. Qed.
