From PK Require Import Base.Prim Base.PrimProofs.
Theorem c02_placeholder : True. Proof. exact I. Qed.
