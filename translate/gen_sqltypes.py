"""kmip/pie/sqltypes.py + the column lists of kmip/pie/objects.py + the attribute rules C05 needs -> gen/PieColumns.v

Tie T for C05 (reflection, fail closed):
  * the two type decorators are probed on every enum member / mask bit and on the NULL case and must behave as
    "member <-> its integer, None <-> enum_null" and "list -> OR of the bits, int -> members whose bit is set, in
    enumeration order"; anything else raises;
  * every mapped table of the seven stored classes is dumped as (table, [(column, kind)]); an unknown column type raises;
  * the members of every enumeration stored through EnumType are listed (the model proves none equals enum_null);
  * named enum members the model refers to are emitted as constants (missing member => raise);
  * the attribute rules (applicable object types, version added / deprecated, multi-valued) of the attributes the engine
    can store or report are dumped from kmip/services/server/policy.py.
"""
import importlib
import inspect


def _s(text):
    for ch in text:
        if not (32 <= ord(ch) < 127) or ch == '"':
            raise ValueError('unprintable text %r' % text)
    return '"%s"' % text


def _z(n):
    return '(%d)' % n if n < 0 else '%d' % n


ATTRS = ['Unique Identifier', 'Name', 'Object Type', 'Cryptographic Algorithm', 'Cryptographic Length', 'Certificate Type',
         'Operation Policy Name', 'Cryptographic Usage Mask', 'State', 'Initial Date', 'Object Group',
         'Application Specific Information', 'Sensitive']
# attributes the engine answers with a constant None: they never appear in GetAttributes whatever is stored
ALWAYS_NONE = ['Cryptographic Parameters', 'Cryptographic Domain Parameters', 'Certificate Length', 'X.509 Certificate Identifier',
               'X.509 Certificate Subject', 'X.509 Certificate Issuer', 'Certificate Identifier', 'Certificate Subject',
               'Certificate Issuer', 'Digital Signature Algorithm', 'Digest', 'Lease Time', 'Usage Limits', 'Activation Date',
               'Process Start Date', 'Protect Stop Date', 'Deactivation Date', 'Destroy Date', 'Compromise Occurrence Date',
               'Compromise Date', 'Revocation Reason', 'Archive Date', 'Fresh', 'Link', 'Contact Information', 'Last Change Date',
               'Custom Attribute']
STORED = ['SymmetricKey', 'PublicKey', 'PrivateKey', 'SplitKey', 'X509Certificate', 'SecretData', 'OpaqueObject']


def generate(repo):
    sqltypes = importlib.import_module('kmip.pie.sqltypes')
    pobjects = importlib.import_module('kmip.pie.objects')
    enums = importlib.import_module('kmip.core.enums')
    policy = importlib.import_module('kmip.services.server.policy')
    contents = importlib.import_module('kmip.core.messages.contents')
    import sqlalchemy
    import sqlalchemy.types as sat

    # ---- decorators, probed
    um = sqltypes.UsageMaskType()
    bits = [(m.name, m.value) for m in enums.CryptographicUsageMask]
    for name, v in bits:
        if v <= 0:
            raise ValueError('mask member %s is not positive' % name)
        m = enums.CryptographicUsageMask[name]
        if um.process_bind_param([m], None) != v or um.process_result_value(v, None) != [m]:
            raise ValueError('UsageMaskType does not map the single bit %s to itself' % name)
    allm = list(enums.CryptographicUsageMask)
    total = 0
    for _, v in bits:
        total |= v
    if um.process_bind_param(allm, None) != total or um.process_result_value(total, None) != allm:
        raise ValueError('UsageMaskType: all bits')
    if um.process_bind_param(list(reversed(allm)) + allm[:3], None) != total:
        raise ValueError('UsageMaskType: order/duplicates')
    if um.process_bind_param([], None) != 0 or um.process_result_value(0, None) != [] or um.process_result_value(None, None) != []:
        raise ValueError('UsageMaskType: empty')
    if not isinstance(um.impl, sat.Integer) and um.impl is not sat.Integer:
        raise ValueError('UsageMaskType impl')
    src = inspect.getsource(sqltypes.EnumType)
    if 'return -1' not in src or 'value == -1' not in src:
        raise ValueError('EnumType source no longer uses the -1 sentinel in the recognised way')
    null = sqltypes.EnumType(enums.State).process_bind_param(None, None)
    if null != -1 or sqltypes.EnumType(enums.State).process_result_value(null, None) is not None:
        raise ValueError('EnumType NULL sentinel')

    # ---- tables and columns of the stored classes
    enum_classes = {}
    tables = {}
    order = []

    def kind(col):
        t = col.type
        if isinstance(t, sqltypes.EnumType):
            cls = t._cls
            enum_classes[cls.__name__] = cls
            return 'KEnum %s' % _s(cls.__name__)
        if isinstance(t, sqltypes.UsageMaskType):
            return 'KMask'
        if isinstance(t, sqlalchemy.BigInteger):
            return 'KBigInt'
        if isinstance(t, sqlalchemy.Boolean):
            return 'KBool'
        if isinstance(t, sqlalchemy.Integer):
            return 'KInt'
        if isinstance(t, sqlalchemy.VARBINARY):
            return 'KBlob'
        if isinstance(t, sqlalchemy.String):
            return 'KStr'
        raise ValueError('unrecognised column type %r for %s' % (t, col))

    class_tables = []
    for cname in STORED:
        cls = getattr(pobjects, cname)
        chain = []
        for k in cls.__mro__:
            tn = k.__dict__.get('__tablename__')
            if tn is None:
                continue
            if tn not in tables:
                tables[tn] = [(c.name, kind(c)) for c in k.__table__.columns]
                order.append(tn)
            chain.append(tn)
        ident = cls.__mapper_args__['polymorphic_identity']
        class_tables.append((cname, ident, list(reversed(chain))))
    for extra in (sqltypes.ManagedObjectName, pobjects.ApplicationSpecificInformation, pobjects.ObjectGroup):
        tn = extra.__tablename__
        tables[tn] = [(c.name, kind(c)) for c in extra.__table__.columns]
        order.append(tn)
    for t in (pobjects.app_specific_info_map, pobjects.object_group_map):
        tables[t.name] = [(c.name, kind(c)) for c in t.columns]
        order.append(t.name)

    # every EnumType-stored enumeration: members must be truthy (plain Enum) and their values integers
    members = []
    for n in sorted(enum_classes):
        cls = enum_classes[n]
        vals = []
        for m in cls:
            if not isinstance(m.value, int) or isinstance(m.value, bool) or not bool(m):
                raise ValueError('%s.%s is not a truthy integer-valued member' % (n, m.name))
            et = sqltypes.EnumType(cls)
            if et.process_bind_param(m, None) != m.value or et.process_result_value(m.value, None) is not m:
                raise ValueError('EnumType does not map %s.%s to its value and back' % (n, m.name))
            vals.append(m.value)
        members.append((n, vals))

    consts = [
        ('KFT_RAW', enums.KeyFormatType.RAW), ('KFT_OPAQUE', enums.KeyFormatType.OPAQUE), ('KFT_PKCS_1', enums.KeyFormatType.PKCS_1),
        ('KFT_PKCS_8', enums.KeyFormatType.PKCS_8), ('KFT_X_509', enums.KeyFormatType.X_509),
        ('CT_X_509', enums.CertificateType.X_509), ('ST_PRE_ACTIVE', enums.State.PRE_ACTIVE), ('ST_ACTIVE', enums.State.ACTIVE),
        ('NT_TEXT', enums.NameType.UNINTERPRETED_TEXT_STRING), ('NT_URI', enums.NameType.URI),
        ('OT_CERTIFICATE', enums.ObjectType.CERTIFICATE), ('OT_SYMMETRIC_KEY', enums.ObjectType.SYMMETRIC_KEY),
        ('OT_PUBLIC_KEY', enums.ObjectType.PUBLIC_KEY), ('OT_PRIVATE_KEY', enums.ObjectType.PRIVATE_KEY),
        ('OT_SPLIT_KEY', enums.ObjectType.SPLIT_KEY), ('OT_SECRET_DATA', enums.ObjectType.SECRET_DATA),
        ('OT_OPAQUE_DATA', enums.ObjectType.OPAQUE_DATA),
        ('SKM_POLY_PRIME', enums.SplitKeyMethod.POLYNOMIAL_SHARING_PRIME_FIELD),
        ('SDT_SEED', enums.SecretDataType.SEED),
    ]

    # ---- attribute rules
    rules = []
    ref = None
    for ver in [(1, 0), (1, 1), (1, 2), (1, 3), (1, 4), (2, 0)]:
        ap = policy.AttributePolicy(contents.ProtocolVersion(*ver))
        names = list(ap.get_all_attribute_names())
        if ref is None:
            ref = names
        elif names != ref:
            raise ValueError('attribute name order depends on the version')
    unknown = [n for n in ref if n not in ATTRS and n not in ALWAYS_NONE]
    if unknown:
        raise ValueError('attributes the C05 model does not know: %r' % unknown)
    if [n for n in ref if n in ATTRS] != ATTRS:
        raise ValueError('attribute order changed: %r' % [n for n in ref if n in ATTRS])
    ap = policy.AttributePolicy(contents.ProtocolVersion(1, 0))
    for n in ATTRS:
        rs = ap._attribute_rule_sets[n]
        dep = rs.version_deprecated
        rules.append('  (%s, (%s, [%s], (%d, %d), %s))' % (
            _s(n), 'true' if rs.multiple_instances_permitted else 'false',
            '; '.join(_z(o.value) for o in rs.applies_to_object_types),
            rs.version_added.major, rs.version_added.minor,
            'Some (%d, %d)' % (dep.major, dep.minor) if dep else 'None'))

    out = ['(* GENERATED from kmip/pie/sqltypes.py, kmip/pie/objects.py, kmip/services/server/policy.py by translate/gen_sqltypes.py - do not edit *)',
           'From Coq Require Import ZArith List String Bool.', 'Import ListNotations.', 'Open Scope Z_scope.', 'Open Scope string_scope.', '',
           'Inductive colkind := KEnum (cls : string) | KMask | KInt | KBigInt | KBool | KBlob | KStr.', '',
           'Definition enum_null : Z := %s.' % _z(null), '',
           'Definition mask_members : list (string * Z) := [' + '; '.join('(%s, %d)' % (_s(n), v) for n, v in bits) + '].',
           'Definition mask_bits : list Z := map snd mask_members.', '',
           'Definition pie_tables : list (string * list (string * colkind)) := [']
    out.append(';\n'.join('  (%s, [%s])' % (_s(tn), '; '.join('(%s, %s)' % (_s(c), k) for c, k in tables[tn])) for tn in order))
    out += ['].', '', 'Definition pie_classes : list (string * (string * list string)) := [']
    out.append(';\n'.join('  (%s, (%s, [%s]))' % (_s(c), _s(i), '; '.join(_s(t) for t in ch)) for c, i, ch in class_tables))
    out += ['].', '', 'Definition stored_enum_members : list (string * list Z) := [']
    out.append(';\n'.join('  (%s, [%s])' % (_s(n), '; '.join(_z(v) for v in vals)) for n, vals in members))
    out += ['].', '']
    for n, m in consts:
        out.append('Definition %s : Z := %s.' % (n, _z(m.value)))
    out += ['', '(* name, (multi-valued, applicable object types, version added, version deprecated) in GetAttributes order *)',
            'Definition c05_attr_rules : list (string * (bool * list Z * (Z * Z) * option (Z * Z))) := [']
    out.append(';\n'.join(rules))
    out += ['].', '']
    return {'PieColumns.v': '\n'.join(out)}
