"""kmip/services/server/engine.py -> gen/LifecycleGuards.v  (tie T for C04).

For each handler the lifecycle model (coq/theories/Lifecycle/Model.v) mirrors, extract the *guard skeleton* in source
order: every object lookup (with the policy operation it is made under), every `raise exceptions.X` with the chain of
conditions it sits under, every assignment to `.state`, every CryptographyEngine call, every row deletion and every
commit.  coq/theories/Lifecycle/GuardTable.v holds the skeleton the model was written against; props/C04.v proves the
two equal, so any edit of a guard, of its order, of the raised class, of a state assignment or of the position of the
crypto call breaks an obligation even when no sampled history notices.

Fails closed: a `raise` that is not `raise exceptions.<Name>(...)`, an unknown statement kind that contains a raise, or
a missing handler raises here.
"""
import ast
from pathlib import Path

HANDLERS = ['_process_activate', '_process_revoke', '_process_destroy', '_process_encrypt', '_process_decrypt',
            '_process_signature_verify', '_process_mac', '_process_sign', '_process_derive_key', '_process_get',
            '_get_object_with_access_controls', '_get_object_type']


def q(s):
    for ch in s:
        if not (32 <= ord(ch) < 127):
            raise ValueError('non printable-ASCII text in guard skeleton: %r' % s)
    return '"' + s.replace('"', '""') + '"'


def norm(node):
    return ' '.join(ast.unparse(node).split())


class Skeleton:
    def __init__(self, fname):
        self.fname = fname
        self.events = []

    def emit(self, kind, text, path):
        self.events.append('%s %s%s' % (kind, text, ''.join(' <- ' + p for p in reversed(path))))

    def expr_events(self, node, path):
        """Calls of interest inside an expression / simple statement, in source order."""
        found = []
        for n in ast.walk(node):
            if isinstance(n, ast.Call):
                f = n.func
                if isinstance(f, ast.Attribute):
                    if f.attr == '_get_object_with_access_controls':
                        if len(n.args) != 2:
                            raise ValueError('%s: unexpected lookup call %s' % (self.fname, norm(n)))
                        found.append((n.lineno, n.col_offset, 'lookup', '%s as %s' % (norm(n.args[0]), norm(n.args[1]))))
                    elif isinstance(f.value, ast.Attribute) and f.value.attr == '_cryptography_engine':
                        found.append((n.lineno, n.col_offset, 'crypto', f.attr))
                    elif f.attr == 'delete' and not n.args:
                        found.append((n.lineno, n.col_offset, 'delete', norm(f.value)[:60]))
                    elif f.attr == 'commit':
                        found.append((n.lineno, n.col_offset, 'commit', ''))
                    elif f.attr in ('_get_object_type', '_is_allowed_by_operation_policy', 'one'):
                        found.append((n.lineno, n.col_offset, 'call', f.attr))
        for _, _, kind, text in sorted(found):
            self.emit(kind, text, path)

    def block(self, stmts, path):
        for st in stmts:
            self.stmt(st, path)

    def stmt(self, st, path):
        if isinstance(st, ast.Raise):
            e = st.exc
            if isinstance(e, ast.Name) and any(p.startswith('except ') and p.endswith(' as ' + e.id) for p in path):
                self.emit('reraise', e.id, path)
                return
            if not (isinstance(e, ast.Call) and isinstance(e.func, ast.Attribute) and isinstance(e.func.value, ast.Name)
                    and e.func.value.id == 'exceptions'):
                raise ValueError('%s: raise of an unrecognised shape: %s' % (self.fname, norm(st)))
            self.emit('raise', e.func.attr, path)
        elif isinstance(st, ast.If):
            c = norm(st.test)
            self.expr_events(st.test, path)
            self.block(st.body, path + ['if ' + c])
            if st.orelse:
                self.block(st.orelse, path + ['unless ' + c])
        elif isinstance(st, ast.For):
            self.expr_events(st.iter, path)
            self.block(st.body, path + ['for %s in %s' % (norm(st.target), norm(st.iter))])
            if st.orelse:
                raise ValueError('%s: for/else' % self.fname)
        elif isinstance(st, ast.Try):
            self.block(st.body, path + ['try'])
            for h in st.handlers:
                self.block(h.body, path + ['except ' + (norm(h.type) if h.type is not None else '') + (' as ' + h.name if h.name else '')])
            if st.orelse or st.finalbody:
                raise ValueError('%s: try/else/finally' % self.fname)
        elif isinstance(st, ast.Assign):
            self.expr_events(st.value, path)
            for t in st.targets:
                if isinstance(t, ast.Attribute) and t.attr == 'state':
                    self.emit('set', '%s = %s' % (norm(t), norm(st.value)), path)
                elif isinstance(t, ast.Name):
                    v = norm(st.value)
                    if any(k in v for k in ('enums.CryptographicUsageMask', 'enums.State', 'enums.ObjectType',
                                            '.cryptographic_usage_masks', '.state', '._object_type')):
                        self.emit('let', '%s = %s' % (t.id, v[:120]), path)
        elif isinstance(st, ast.Return):
            if st.value is not None:
                self.expr_events(st.value, path)
            self.emit('return', '', path)
        elif isinstance(st, ast.Break):
            self.emit('break', '', path)
        elif isinstance(st, (ast.Expr, ast.AugAssign, ast.Delete, ast.Pass)):
            self.expr_events(st, path)
        else:
            if any(isinstance(n, (ast.Raise, ast.Return)) for n in ast.walk(st)):
                raise ValueError('%s: control flow inside an unhandled statement kind %s' % (self.fname, type(st).__name__))
            self.expr_events(st, path)


def skeletons(repo):
    src = (Path(repo) / 'kmip' / 'services' / 'server' / 'engine.py').read_text()
    tree = ast.parse(src)
    cls = [n for n in tree.body if isinstance(n, ast.ClassDef) and n.name == 'KmipEngine']
    if len(cls) != 1:
        raise ValueError('class KmipEngine not found exactly once')
    funcs = {n.name: n for n in cls[0].body if isinstance(n, ast.FunctionDef)}
    out = []
    for h in HANDLERS:
        if h not in funcs:
            raise ValueError('handler %s not found' % h)
        sk = Skeleton(h)
        body = funcs[h].body
        if body and isinstance(body[0], ast.Expr) and isinstance(getattr(body[0], 'value', None), ast.Constant):
            body = body[1:]         # docstring
        sk.block(body, [])
        out.append((h, sk.events))
    return out


def generate(repo):
    sk = skeletons(repo)
    out = ['(* GENERATED from kmip/services/server/engine.py by translate/gen_lifecycle.py - do not edit *)',
           'From Coq Require Import List String.', 'Import ListNotations.', 'Open Scope string_scope.', '',
           'Definition guards : list (string * list string) := [']
    items = []
    for h, evs in sk:
        items.append('  (%s, [\n    %s])' % (q(h), ';\n    '.join(q(e) for e in evs)))
    out.append(';\n'.join(items))
    out.append('].')
    return {'LifecycleGuards.v': '\n'.join(out) + '\n'}


if __name__ == '__main__':
    import sys
    for h, evs in skeletons(sys.argv[1] if len(sys.argv) > 1 else '/repo'):
        print(h)
        for e in evs:
            print('   ', e)
