"""kmip/services/server/engine.py -> gen/LifecycleGuards.v  (tie T for C04).

For each handler the lifecycle model (coq/theories/Lifecycle/Model.v) mirrors, extract the *guard skeleton*: every
object lookup (with the policy operation it is made under), every `raise exceptions.X`, every assignment to `.state`,
every CryptographyEngine call, every row deletion, commit and return - each with the full list of conditions under
which control reaches it.  coq/theories/Lifecycle/GuardTable.v holds the skeleton the model was written against;
props/C04.v proves the two equal, so any edit of a guard, of its order, of the raised class, of a state assignment or
of the position of the crypto call breaks an obligation even when no sampled history notices.

The skeleton is taken from a NORMAL FORM of the code, so that behaviour-preserving rewrites give the same skeleton:

 N1 reaching conditions instead of syntactic nesting: an event carries every condition that must hold for control to
    reach it, including the complement of every earlier branch that always terminates (raise / return / break /
    continue).  `if c: A else: raise X` followed by B   ==   `if not c: raise X` followed by A; B.
    (`else: if` and `elif` are the same syntax tree already.)
 N2 conditions are literals (expression, polarity): a leading `not` flips the polarity, `!=`, `not in`, `is not` are the
    positive comparison with the polarity flipped, `not a or not b` is `a and b` flipped (De Morgan), a true
    conjunction / false disjunction is split into one literal per operand (so `if a: if b:` == `if a and b:`).
 N3 branch order: of two exclusive branches the always-terminating one comes first, otherwise the branch taken when the
    literal's expression is true.
 N4 a local bound exactly once to a side-effect-free read (a chain of attribute reads rooted in a name that is itself
    never rebound, none of whose attribute names is assigned anywhere in the function) is substituted by that chain wherever it is used; a dead
    `x = None` initialiser (directly followed by an `if` all of whose non-terminating branches assign x) does not count
    as a binding.  So hoisting `payload.revocation_reason` into a local, or reading `managed_object.value` into `key`
    before instead of after testing it, changes nothing.
 N5 `x = A if c else B` is `if c: x = A else: x = B`.

Fails closed (raises, i.e. a broken translation) on anything outside what it understands: a `raise` that is not
`raise exceptions.<Name>(...)` or a re-raise of the caught exception, statements after a point where every branch has
terminated, while / async / match / nested def / try-else / try-finally / for-else containing control flow, a call of
interest (lookup, crypto, delete, commit) inside a conditional or boolean expression, a missing handler.
"""
import ast
import copy
from pathlib import Path

HANDLERS = ['_process_activate', '_process_revoke', '_process_destroy', '_process_encrypt', '_process_decrypt',
            '_process_signature_verify', '_process_mac', '_process_sign', '_process_derive_key', '_process_get',
            '_get_object_with_access_controls', '_get_object_type', '_process_batch']
INTEREST = ('_get_object_with_access_controls', 'delete', 'commit', 'rollback', '_get_object_type', '_is_allowed_by_operation_policy', 'one',
            '_process_operation')
NEG_OPS = {ast.NotEq: ast.Eq, ast.NotIn: ast.In, ast.IsNot: ast.Is}


def q(s):
    for ch in s:
        if not (32 <= ord(ch) < 127):
            raise ValueError('non printable-ASCII text in guard skeleton: %r' % s)
    return '"' + s.replace('"', '""') + '"'


def norm(node):
    return ' '.join(ast.unparse(node).split())


# ------------------------------------------------------------------------------------------------ N2: literals
def literal(test):
    """-> (expression node, polarity) with leading negations / negative comparisons / De Morgan folded into polarity."""
    if isinstance(test, ast.UnaryOp) and isinstance(test.op, ast.Not):
        e, p = literal(test.operand)
        return e, not p
    if isinstance(test, ast.Compare) and len(test.ops) == 1 and type(test.ops[0]) in NEG_OPS:
        pos = ast.Compare(left=test.left, ops=[NEG_OPS[type(test.ops[0])]()], comparators=test.comparators)
        return pos, False
    if isinstance(test, ast.BoolOp) and isinstance(test.op, ast.Or):
        lits = [literal(v) for v in flatten(test)]
        if all(not p for _, p in lits):            # not a or not b  ==  not (a and b)
            return ast.BoolOp(op=ast.And(), values=[e for e, _ in lits]), False
    return test, True


def flatten(boolop):
    out = []
    for v in boolop.values:
        if isinstance(v, ast.BoolOp) and type(v.op) is type(boolop.op):
            out += flatten(v)
        else:
            out.append(v)
    return out


def split_literal(e, p):
    """A true conjunction / a false disjunction is one literal per operand."""
    if isinstance(e, ast.BoolOp) and ((isinstance(e.op, ast.And) and p) or (isinstance(e.op, ast.Or) and not p)):
        out = []
        for v in flatten(e):
            ve, vp = literal(v)
            out += split_literal(ve, vp if p else not vp)
        return out
    if isinstance(e, ast.BoolOp):
        e = ast.BoolOp(op=e.op, values=flatten(e))
    return [(norm(e), p)]


def show(lits):
    return ''.join(' & ' + (t if p else 'not (%s)' % t) for t, p in lits)


# ------------------------------------------------------------------------------------------------ N4: single bindings
def pure_chain(node):
    """Name or attribute chain rooted in a Name -> list of attribute names (root first), else None."""
    names = []
    while isinstance(node, ast.Attribute):
        names.append(node.attr)
        node = node.value
    if isinstance(node, ast.Name):
        return [node.id] + names[::-1]
    return None


def terminates(stmts):
    """Does this block always end by leaving the enclosing block sequence (raise / return / break / continue)?"""
    if not stmts:
        return False
    last = stmts[-1]
    if isinstance(last, (ast.Raise, ast.Return, ast.Break, ast.Continue)):
        return True
    if isinstance(last, ast.If):
        return bool(last.orelse) and terminates(last.body) and terminates(last.orelse)
    return False


def assigns_at_top(stmts, name):
    return any(isinstance(s, ast.Assign) and any(isinstance(t, ast.Name) and t.id == name for t in s.targets) for s in stmts)


def branches(ifnode):
    """The leaf branches of an if / elif / else ladder; None when the ladder has no final else."""
    out = [ifnode.body]
    if not ifnode.orelse:
        return None
    if len(ifnode.orelse) == 1 and isinstance(ifnode.orelse[0], ast.If):
        rest = branches(ifnode.orelse[0])
        return None if rest is None else out + rest
    return out + [ifnode.orelse]


def dead_initialisers(block, found):
    """`x = None` directly followed by an if-ladder (with else) every non-terminating branch of which assigns x."""
    for i, st in enumerate(block):
        if (isinstance(st, ast.Assign) and len(st.targets) == 1 and isinstance(st.targets[0], ast.Name)
                and isinstance(st.value, ast.Constant) and st.value.value is None and i + 1 < len(block)
                and isinstance(block[i + 1], ast.If)):
            bs = branches(block[i + 1])
            if bs is not None and all(terminates(b) or assigns_at_top(b, st.targets[0].id) for b in bs):
                found.add(id(st))
        for field in ('body', 'orelse', 'finalbody'):
            sub = getattr(st, field, None)
            if isinstance(sub, list) and sub and isinstance(sub[0], ast.stmt):
                dead_initialisers(sub, found)
        for h in getattr(st, 'handlers', []) or []:
            dead_initialisers(h.body, found)


class Substituter(ast.NodeTransformer):
    def __init__(self, table):
        self.table = table

    def visit_Name(self, node):
        if isinstance(node.ctx, ast.Load) and node.id in self.table:
            return copy.deepcopy(self.table[node.id])
        return node


def single_bindings(func):
    """{local name: attribute-chain expression} for locals that can be replaced by what they were bound to (N4)."""
    dead = set()
    dead_initialisers(func.body, dead)
    bound = {}                       # name -> list of value nodes (None for bindings we cannot see through)
    assigned_attrs = set()
    params = {a.arg for a in func.args.args}
    for n in ast.walk(func):
        targets = []
        if isinstance(n, ast.Assign):
            if id(n) in dead:
                continue
            for t in n.targets:
                targets.append((t, n.value if len(n.targets) == 1 else None))
        elif isinstance(n, (ast.AugAssign, ast.AnnAssign)):
            targets.append((n.target, None))
        elif isinstance(n, (ast.For, ast.comprehension)):
            targets.append((n.target, None))
        elif isinstance(n, ast.ExceptHandler) and n.name:
            bound.setdefault(n.name, []).append(None)
        elif isinstance(n, (ast.With,)):
            for it in n.items:
                if it.optional_vars is not None:
                    targets.append((it.optional_vars, None))
        elif isinstance(n, ast.NamedExpr):
            targets.append((n.target, None))
        for t, v in targets:
            for leaf in ast.walk(t):
                if isinstance(leaf, ast.Name) and isinstance(leaf.ctx, ast.Store):
                    bound.setdefault(leaf.id, []).append(v if leaf is t else None)
                elif isinstance(leaf, ast.Attribute) and isinstance(leaf.ctx, ast.Store):
                    assigned_attrs.add(leaf.attr)
    table = {}
    for name, values in bound.items():
        if name in params or len(values) != 1 or values[0] is None:
            continue
        chain = pure_chain(values[0])
        if chain is None or len(chain) < 2 or any(a in assigned_attrs for a in chain[1:]):
            continue
        if chain[0] == name:
            continue
        # the root of the chain must denote the same object at the binding and at every use: a parameter that is
        # never rebound, a name the function never binds (module level), or a local bound exactly once
        if len(bound.get(chain[0], [])) > (0 if chain[0] in params else 1):
            continue
        table[name] = values[0]
    # resolve chains through other substitutable locals (payload.a -> x; x.b -> y), innermost first, no cycles
    for _ in range(len(table) + 1):
        changed = False
        for name in list(table):
            new = Substituter({k: v for k, v in table.items() if k != name}).visit(copy.deepcopy(table[name]))
            if ast.dump(new) != ast.dump(table[name]):
                table[name] = new
                changed = True
        if not changed:
            break
    else:
        raise ValueError('%s: cyclic single bindings' % func.name)
    return table, dead


# ------------------------------------------------------------------------------------------------ the walk
class Skeleton:
    def __init__(self, func):
        self.fname = func.name
        self.events = []
        self.table, self.dead = single_bindings(func)
        self.sub = Substituter(self.table)

    def s(self, node):
        return self.sub.visit(copy.deepcopy(node))

    def emit(self, kind, text, path):
        self.events.append(('%s %s' % (kind, text)).strip() + show(path))

    def expr_events(self, node, path):
        """Calls of interest inside an expression / simple statement, in source order."""
        found = []
        for n in ast.walk(node):
            if isinstance(n, (ast.IfExp, ast.BoolOp, ast.Lambda, ast.ListComp, ast.SetComp, ast.DictComp, ast.GeneratorExp)):
                for m in ast.walk(n):
                    if m is not n and isinstance(m, ast.Call) and self.interesting(m):
                        raise ValueError('%s: call of interest inside a conditional expression: %s' % (self.fname, norm(n)))
            if isinstance(n, ast.Call) and self.interesting(n):
                f = n.func
                if f.attr == '_get_object_with_access_controls':
                    if len(n.args) != 2 or n.keywords:
                        raise ValueError('%s: unexpected lookup call %s' % (self.fname, norm(n)))
                    found.append((n.lineno, n.col_offset, 'lookup', '%s as %s' % (norm(self.s(n.args[0])), norm(self.s(n.args[1])))))
                elif isinstance(f.value, ast.Attribute) and f.value.attr == '_cryptography_engine':
                    found.append((n.lineno, n.col_offset, 'crypto', f.attr))
                elif f.attr == 'delete':
                    found.append((n.lineno, n.col_offset, 'delete', norm(self.s(f.value))[:60]))
                elif f.attr in ('commit', 'rollback'):
                    found.append((n.lineno, n.col_offset, f.attr, ''))
                else:
                    found.append((n.lineno, n.col_offset, 'call', f.attr))
        for _, _, kind, text in sorted(found):
            self.emit(kind, text, path)

    @staticmethod
    def interesting(call):
        f = call.func
        if not isinstance(f, ast.Attribute):
            return False
        if isinstance(f.value, ast.Attribute) and f.value.attr == '_cryptography_engine':
            return True
        if f.attr == 'delete':
            return not call.args
        return f.attr in INTEREST

    def block(self, stmts, path):
        """Walk a statement list; returns True when the block always terminates."""
        path = list(path)
        for i, st in enumerate(stmts):
            if self.stmt(st, path):
                if i + 1 < len(stmts):
                    raise ValueError('%s: statements after a point where every branch has terminated (line %d)' % (self.fname, stmts[i + 1].lineno))
                return True
        return False

    def stmt(self, st, path):
        """Emit the events of one statement; may extend `path` in place (fall-through conditions); True = terminates."""
        if isinstance(st, ast.Raise):
            e = st.exc
            if isinstance(e, ast.Name) and any(t == '<except ... as %s>' % e.id or t.endswith(' as %s>' % e.id) for t, _ in path):
                self.emit('reraise', e.id, path)
                return True
            if not (isinstance(e, ast.Call) and isinstance(e.func, ast.Attribute) and isinstance(e.func.value, ast.Name)
                    and e.func.value.id == 'exceptions'):
                raise ValueError('%s: raise of an unrecognised shape: %s' % (self.fname, norm(st)))
            self.emit('raise', e.func.attr, path)
            return True
        if isinstance(st, ast.Return):
            if st.value is not None:
                self.expr_events(st.value, path)
            self.emit('return', '', path)
            return True
        if isinstance(st, (ast.Break, ast.Continue)):
            self.emit(type(st).__name__.lower(), '', path)
            return True
        if isinstance(st, ast.If):
            self.expr_events(st.test, path)
            e, p = literal(self.s(st.test))
            tb, fb = (st.body, st.orelse) if p else (st.orelse, st.body)      # branch taken when e is true / false
            tl, fl = split_literal(e, True), split_literal(e, False)
            t_term, f_term = terminates(tb), terminates(fb)
            order = [(fb, fl), (tb, tl)] if (f_term and not t_term) else [(tb, tl), (fb, fl)]     # N3
            for b, l in order:
                if b:
                    if self.block(b, path + l) != terminates(b):
                        raise ValueError('%s: inconsistent termination analysis at line %d' % (self.fname, st.lineno))
            if t_term and f_term:
                return True
            if t_term:
                path.extend(fl)
            elif f_term:
                path.extend(tl)
            return False
        if isinstance(st, ast.For):
            if st.orelse:
                raise ValueError('%s: for/else' % self.fname)
            self.expr_events(st.iter, path)
            self.block(st.body, path + [('<for %s in %s>' % (norm(st.target), norm(self.s(st.iter))), True)])
            return False
        if isinstance(st, ast.With):
            # a `with` block is walked as a plain block under a marker (the session context manager of _process_batch)
            for it in st.items:
                self.expr_events(it.context_expr, path)
            tag = '<with %s>' % ', '.join(norm(self.s(it.context_expr)) for it in st.items)
            return self.block(st.body, path + [(tag, True)])
        if isinstance(st, ast.Try):
            if st.orelse or st.finalbody:
                raise ValueError('%s: try/else/finally' % self.fname)
            body_term = self.block(st.body, path + [('<try>', True)])
            terms = [body_term]
            for h in st.handlers:
                tag = '<except %s%s>' % (norm(h.type) if h.type is not None else '', ' as ' + h.name if h.name else '')
                terms.append(self.block(h.body, path + [(tag, True)]))
            return all(terms)
        if isinstance(st, ast.Assign):
            if isinstance(st.value, ast.IfExp) and len(st.targets) == 1:                   # N5
                v = st.value
                as_if = ast.If(test=v.test, body=[ast.Assign(targets=st.targets, value=v.body, lineno=st.lineno)],
                               orelse=[ast.Assign(targets=st.targets, value=v.orelse, lineno=st.lineno)], lineno=st.lineno)
                ast.fix_missing_locations(as_if)
                return self.stmt(as_if, path)
            self.expr_events(st.value, path)
            for t in st.targets:
                if isinstance(t, ast.Attribute) and t.attr == 'state':
                    self.emit('set', '%s = %s' % (norm(self.s(t)), norm(self.s(st.value))), path)
                elif isinstance(t, ast.Name) and t.id not in self.table and id(st) not in self.dead \
                        and not any(isinstance(n, ast.Call) for n in ast.walk(st.value)):
                    v = norm(self.s(st.value))
                    if any(k in v for k in ('enums.CryptographicUsageMask', 'enums.State', 'enums.ObjectType',
                                            '.cryptographic_usage_masks', '.state', '._object_type')):
                        self.emit('let', '%s = %s' % (t.id, v[:160]), path)
            return False
        if isinstance(st, (ast.Expr, ast.AugAssign, ast.AnnAssign, ast.Delete, ast.Pass)):
            self.expr_events(st, path)
            return False
        # anything else (while, with, match, def, assert, ...) must not hide control flow or calls of interest
        for n in ast.walk(st):
            if isinstance(n, (ast.Raise, ast.Return, ast.Break, ast.Continue)) or (isinstance(n, ast.Call) and self.interesting(n)):
                raise ValueError('%s: control flow or a call of interest inside an unhandled statement kind %s (line %d)'
                                 % (self.fname, type(st).__name__, st.lineno))
        return False


def skeletons(repo):
    src = (Path(repo) / 'kmip' / 'services' / 'server' / 'engine.py').read_text()
    tree = ast.parse(src)
    cls = [n for n in tree.body if isinstance(n, ast.ClassDef) and n.name == 'KmipEngine']
    if len(cls) != 1:
        raise ValueError('class KmipEngine not found exactly once')
    funcs = {n.name: n for n in cls[0].body if isinstance(n, ast.FunctionDef)}
    out = []
    for h in HANDLERS:
        if h not in funcs:
            raise ValueError('handler %s not found' % h)
        f = funcs[h]
        for n in ast.walk(f):
            if n is not f and isinstance(n, (ast.FunctionDef, ast.AsyncFunctionDef, ast.ClassDef, ast.Global, ast.Nonlocal)):
                raise ValueError('%s: nested definition / global declaration' % h)
        sk = Skeleton(f)
        body = f.body
        if body and isinstance(body[0], ast.Expr) and isinstance(getattr(body[0], 'value', None), ast.Constant):
            body = body[1:]         # docstring
        sk.block(body, [])
        out.append((h, sk.events))
    return out


# ------------------------------------------------------------------------------------------------ reach summary
def reach(repo):
    """For EVERY operation handler dispatched by _process_operation (not only the modelled ones): the set of things
    it can reach, through any chain of helper methods of the class - CryptographyEngine methods, object lookups (with
    the policy operation), listings, assignments to `.state`, row deletions.  A new path from any handler into the crypto
    engine or to another stored object (e.g. Register starting to use a stored key) changes this table.  Sets, closed
    under helper calls, so moving code into or out of a helper changes nothing."""
    src = (Path(repo) / 'kmip' / 'services' / 'server' / 'engine.py').read_text()
    tree = ast.parse(src)
    cls = [n for n in tree.body if isinstance(n, ast.ClassDef) and n.name == 'KmipEngine'][0]
    funcs = {n.name: n for n in cls.body if isinstance(n, ast.FunctionDef)}
    direct, calls = {}, {}
    for name, f in funcs.items():
        d, c = set(), set()
        for n in ast.walk(f):
            if isinstance(n, ast.Call) and isinstance(n.func, ast.Attribute):
                fn = n.func
                if isinstance(fn.value, ast.Attribute) and fn.value.attr == '_cryptography_engine':
                    d.add('crypto ' + fn.attr)
                elif isinstance(fn.value, ast.Name) and fn.value.id == 'self' and fn.attr in funcs:
                    if fn.attr == '_get_object_with_access_controls':
                        if len(n.args) != 2:
                            raise ValueError('%s: unexpected lookup call %s' % (name, norm(n)))
                        d.add('lookup as ' + norm(n.args[1]))
                    elif fn.attr == '_list_objects_with_access_controls':
                        d.add('list as ' + norm(n.args[0]) if n.args else 'list')
                    else:
                        c.add(fn.attr)
                elif fn.attr == 'delete' and not n.args and 'query' in norm(fn.value):
                    d.add('delete row')
            elif isinstance(n, ast.Attribute) and n.attr == '_cryptography_engine' and isinstance(n.ctx, ast.Load):
                pass
            if isinstance(n, (ast.Assign, ast.AugAssign)):
                for t in (n.targets if isinstance(n, ast.Assign) else [n.target]):
                    if isinstance(t, ast.Attribute) and t.attr == 'state':
                        d.add('set state ' + norm(n.value))
            if isinstance(n, ast.Call) and isinstance(n.func, ast.Name) and n.func.id in ('setattr', 'getattr') and n.args \
                    and any(isinstance(a, ast.Constant) and a.value in ('state', '_cryptography_engine') for a in n.args):
                raise ValueError('%s: reflective access to state / crypto engine: %s' % (name, norm(n)))
        direct[name], calls[name] = d, c
    # the crypto engine must not be handed around (aliasing would hide calls)
    for name, f in funcs.items():
        for n in ast.walk(f):
            if isinstance(n, ast.Attribute) and n.attr == '_cryptography_engine':
                parent_ok = False
                for m in ast.walk(f):
                    if isinstance(m, ast.Attribute) and m.value is n:
                        parent_ok = True
                    if isinstance(m, ast.Assign) and any(t is n for t in m.targets) and name == '__init__':
                        parent_ok = True
                if not parent_ok:
                    raise ValueError('%s: the crypto engine object is used other than by calling a method on it' % name)

    def closure(name, seen):
        if name in seen:
            return set()
        seen.add(name)
        out = set(direct[name])
        for c in calls[name]:
            out |= closure(c, seen)
        return out
    if '_process_operation' not in funcs:
        raise ValueError('_process_operation not found')
    handlers = sorted(c for c in calls['_process_operation'] if c.startswith('_process_'))
    if direct['_process_operation'] or not handlers:
        raise ValueError('_process_operation has an unexpected shape')
    return [(h, sorted(closure(h, set()))) for h in handlers]


def generate(repo):
    sk = skeletons(repo)
    out = ['(* GENERATED from kmip/services/server/engine.py by translate/gen_lifecycle.py - do not edit *)',
           'From Coq Require Import List String.', 'Import ListNotations.', 'Open Scope string_scope.', '',
           'Definition guards : list (string * list string) := [']
    items = []
    for h, evs in sk:
        items.append('  (%s, [\n    %s])' % (q(h), ';\n    '.join(q(e) for e in evs)))
    out.append(';\n'.join(items))
    out.append('].')
    out += ['', 'Definition reach : list (string * list string) := [']
    out.append(';\n'.join('  (%s, [%s])' % (q(h), '; '.join(q(e) for e in evs)) for h, evs in reach(repo)))
    out.append('].')
    return {'LifecycleGuards.v': '\n'.join(out) + '\n'}


if __name__ == '__main__':
    import sys
    for h, evs in skeletons(sys.argv[1] if len(sys.argv) > 1 else '/repo'):
        print(h)
        for e in evs:
            print('   ', e)
    print('REACH')
    for h, evs in reach(sys.argv[1] if len(sys.argv) > 1 else '/repo'):
        print('   ', h, evs)
