"""kmip/services/server/engine.py, kmip/core/enums.py, kmip/core/messages/payloads/*.py, kmip/core/objects.py,
kmip/core/messages/messages.py  ->  gen/Versions.v, gen/VersionFields.v          (tie T of property C16, fail closed)

gen/Versions.v (Python `ast` over engine.py; nothing is executed):
  supported_versions       the list literal assigned to self._protocol_versions in KmipEngine.__init__
  default_version_index    the subscript used for self.default_protocol_version / self._protocol_version
  version_check            how _set_protocol_version decides (membership in the list, else InvalidMessage)
  decorator_cmp            the comparison inside _kmip_version_supported (float(str(v)) < float(arg), ...)
  dispatch_table           the if/elif chain of _process_operation: Operation value -> handler name
  dispatch_else            what the final else does (raise OperationNotSupported)
  handler_min_version      the '<major>.<minor>' argument of every @_kmip_version_supported on a _process_* method
  handler_version_branches `if self._protocol_version >= contents.ProtocolVersion(a, b)` tests inside handlers
  query_base_ops / query_ext_ops   the operation lists _process_query advertises (unconditional / per version test)
  response_version_source  which expression process_request hands to _build_response as the header version
  attr_support_sites       handlers (transitively, through helpers) that consult is_attribute_supported / _deprecated
  locate_filter_checked    _process_locate refuses unsupported filter attribute names up front (shape recognised or fail)

gen/VersionFields.v:
  kmip_versions            members of enums.KMIPVersion as (major, minor)
  field_guards             every `if kmip_version < / >= enums.KMIPVersion.KMIP_x_y` in the read/write methods of the
                           payload classes, kmip/core/objects.py and kmip/core/messages/messages.py:
                           (class, method, comparison, bound, tags named in the then-branch, tags named in the else-branch,
                            does the then-branch raise VersionNotSupported)
  unguarded_tags           per (class, method): the tags named outside every such block
  attr_tag_versions        reflection dump of enums.is_attribute(tag, version) for every tag and version
"""
import ast
import importlib
import re
from pathlib import Path

VER_RE = re.compile(r'^(0|[1-9][0-9]*)\.(0|[1-9][0-9]*)$')


class Unrecognised(ValueError):
    pass


def bail(msg, node=None):
    where = ' (line %d)' % node.lineno if node is not None and hasattr(node, 'lineno') else ''
    raise Unrecognised(msg + where)


def src(node):
    return ast.unparse(node)


def coq_str(s):
    if any(ord(c) < 32 or ord(c) > 126 or c == '"' for c in s):
        bail('unprintable string %r' % s)
    return '"%s"' % s


def coq_ver(v):
    return '(%d, %d)' % (v[0], v[1])


def coq_list(xs):
    return '[' + '; '.join(xs) + ']'


def protocol_version_ctor(node):
    """contents.ProtocolVersion(a, b) with integer literals -> (a, b)."""
    if (isinstance(node, ast.Call) and src(node.func) == 'contents.ProtocolVersion' and len(node.args) == 2
            and not node.keywords and all(isinstance(a, ast.Constant) and isinstance(a.value, int)
                                          and not isinstance(a.value, bool) and a.value >= 0 for a in node.args)):
        return (node.args[0].value, node.args[1].value)
    bail('not a contents.ProtocolVersion(<int>, <int>) literal: %s' % src(node), node)


def operation_const(node, enums):
    if (isinstance(node, ast.Attribute) and src(node.value) == 'enums.Operation'):
        try:
            return enums.Operation[node.attr]
        except KeyError:
            bail('unknown operation %s' % node.attr, node)
    bail('not an enums.Operation constant: %s' % src(node), node)


# ------------------------------------------------------------------------------------------------ engine.py
def engine_tables(repo, enums):
    path = Path(repo) / 'kmip' / 'services' / 'server' / 'engine.py'
    tree = ast.parse(path.read_text())
    classes = [n for n in tree.body if isinstance(n, ast.ClassDef) and n.name == 'KmipEngine']
    if len(classes) != 1:
        bail('KmipEngine class not found exactly once')
    cls = classes[0]
    methods = {}
    for n in cls.body:
        if isinstance(n, ast.FunctionDef):
            if n.name in methods:
                bail('method %s defined twice' % n.name, n)
            methods[n.name] = n

    # --- supported list and default version (KmipEngine.__init__)
    init = methods.get('__init__') or bail('no __init__')
    supported = None
    default_idx = {}
    for st in ast.walk(init):
        if isinstance(st, ast.Assign) and len(st.targets) == 1:
            t = src(st.targets[0])
            if t == 'self._protocol_versions':
                if supported is not None or not isinstance(st.value, ast.List):
                    bail('self._protocol_versions is not assigned one list literal', st)
                supported = [protocol_version_ctor(e) for e in st.value.elts]
            elif t in ('self.default_protocol_version', 'self._protocol_version'):
                v = st.value
                if not (isinstance(v, ast.Subscript) and src(v.value) == 'self._protocol_versions'
                        and isinstance(v.slice, ast.Constant) and isinstance(v.slice.value, int) and v.slice.value >= 0):
                    bail('%s is not self._protocol_versions[<index>]' % t, st)
                default_idx[t] = v.slice.value
    if supported is None or set(default_idx) != {'self.default_protocol_version', 'self._protocol_version'}:
        bail('supported list / default version assignments not found in __init__')
    if len(set(default_idx.values())) != 1:
        bail('default_protocol_version and initial _protocol_version differ')
    didx = list(default_idx.values())[0]
    if didx >= len(supported):
        bail('default version index out of range')
    # no other method may assign the list
    for name, m in methods.items():
        if name == '__init__':
            continue
        for st in ast.walk(m):
            if isinstance(st, (ast.Assign, ast.AugAssign)):
                tg = st.targets if isinstance(st, ast.Assign) else [st.target]
                if any(src(t).startswith('self._protocol_versions') for t in tg):
                    bail('%s assigns self._protocol_versions' % name, st)
            if isinstance(st, ast.Call) and src(st.func).startswith('self._protocol_versions.'):
                bail('%s mutates self._protocol_versions' % name, st)

    # --- _set_protocol_version
    sp = methods.get('_set_protocol_version') or bail('no _set_protocol_version')
    body = [s for s in sp.body if not (isinstance(s, ast.Expr) and isinstance(s.value, ast.Constant))]
    if not (len(body) == 1 and isinstance(body[0], ast.If)):
        bail('_set_protocol_version is not a single if/else', sp)
    iff = body[0]
    arg = sp.args.args[1].arg
    if src(iff.test) == '%s in self._protocol_versions' % arg:
        version_check = 'VcMember'
    else:
        bail('_set_protocol_version test not recognised: %s' % src(iff.test), iff)
    assigns = [src(s.targets[0]) for s in iff.body if isinstance(s, ast.Assign)]
    if 'self._protocol_version' not in assigns or 'self._attribute_policy' not in assigns:
        bail('_set_protocol_version does not set the version and the attribute policy', iff)
    for s in iff.body:
        if isinstance(s, ast.Assign) and src(s.targets[0]) == 'self._protocol_version' and src(s.value) != arg:
            bail('_set_protocol_version stores %s' % src(s.value), s)
        if isinstance(s, ast.Assign) and src(s.targets[0]) == 'self._attribute_policy' and \
                src(s.value).replace(' ', '').replace('\n', '') != 'policy.AttributePolicy(self._protocol_version)':
            bail('attribute policy built from %s' % src(s.value), s)
    if not (len(iff.orelse) == 1 and isinstance(iff.orelse[0], ast.Raise)
            and src(iff.orelse[0].exc.func) == 'exceptions.InvalidMessage'):
        bail('_set_protocol_version else-branch does not raise InvalidMessage', iff)

    # --- the decorator
    dec = methods.get('_kmip_version_supported') or bail('no _kmip_version_supported')
    ifs = [n for n in ast.walk(dec) if isinstance(n, ast.If)]
    if len(ifs) != 1:
        bail('_kmip_version_supported has %d if statements' % len(ifs), dec)
    test = ifs[0].test
    pname = dec.args.args[0].arg
    if not (isinstance(test, ast.Compare) and len(test.ops) == 1
            and src(test.left) == 'float(str(self._protocol_version))'
            and src(test.comparators[0]) == 'float(%s)' % pname):
        bail('decorator comparison not recognised: %s' % src(test), test)
    cmpname = {ast.Lt: 'DcFloatLt', ast.LtE: 'DcFloatLe', ast.Gt: 'DcFloatGt', ast.GtE: 'DcFloatGe',
               ast.Eq: 'DcFloatEq', ast.NotEq: 'DcFloatNe'}.get(type(test.ops[0]))
    if cmpname is None:
        bail('decorator comparison operator not recognised', test)
    raises = [n for n in ifs[0].body if isinstance(n, ast.Raise)]
    if not (len(raises) == 1 and src(raises[0].exc.func) == 'exceptions.OperationNotSupported'):
        bail('decorator then-branch does not raise OperationNotSupported', ifs[0])
    if not (len(ifs[0].orelse) == 1 and isinstance(ifs[0].orelse[0], ast.Return)
            and src(ifs[0].orelse[0].value) == 'function(self, *args, **kwargs)'):
        bail('decorator else-branch does not call the wrapped function', ifs[0])

    # --- handler decorators
    handler_min = []
    for name, m in methods.items():
        if not name.startswith('_process_') or name in ('_process_batch', '_process_operation', '_process_template_attribute'):
            for d in m.decorator_list:
                if '_kmip_version_supported' in src(d):
                    bail('version decorator on unexpected method %s' % name, m)
            continue
        vs = []
        for d in m.decorator_list:
            if isinstance(d, ast.Call) and src(d.func) == '_kmip_version_supported':
                if not (len(d.args) == 1 and not d.keywords and isinstance(d.args[0], ast.Constant)
                        and isinstance(d.args[0].value, str)):
                    bail('decorator argument of %s is not one string literal' % name, d)
                mm = VER_RE.match(d.args[0].value)
                if not mm:
                    bail('decorator argument %r of %s is not <major>.<minor>' % (d.args[0].value, name), d)
                vs.append((int(mm.group(1)), int(mm.group(2))))
            elif src(d) == '_synchronize':
                continue
            else:
                bail('unknown decorator %s on %s' % (src(d), name), d)
        handler_min.append((name, vs))

    # --- dispatch
    po = methods.get('_process_operation') or bail('no _process_operation')
    opname = po.args.args[1].arg
    plname = po.args.args[2].arg
    body = [s for s in po.body if not (isinstance(s, ast.Expr) and isinstance(s.value, ast.Constant))]
    if not (len(body) == 1 and isinstance(body[0], ast.If)):
        bail('_process_operation is not one if/elif chain', po)
    node = body[0]
    dispatch = []
    while True:
        t = node.test
        if not (isinstance(t, ast.Compare) and len(t.ops) == 1 and isinstance(t.ops[0], ast.Eq)
                and src(t.left) == opname):
            bail('dispatch test not recognised: %s' % src(t), t)
        op = operation_const(t.comparators[0], enums)
        if not (len(node.body) == 1 and isinstance(node.body[0], ast.Return) and isinstance(node.body[0].value, ast.Call)):
            bail('dispatch branch is not a single return of a call', node)
        call = node.body[0].value
        if not (isinstance(call.func, ast.Attribute) and src(call.func.value) == 'self'
                and len(call.args) == 1 and src(call.args[0]) == plname and not call.keywords):
            bail('dispatch branch does not call self.<handler>(payload): %s' % src(call), call)
        if call.func.attr not in methods:
            bail('dispatch to unknown method %s' % call.func.attr, call)
        dispatch.append((op, call.func.attr))
        if len(node.orelse) == 1 and isinstance(node.orelse[0], ast.If):
            node = node.orelse[0]
            continue
        if not (len(node.orelse) == 1 and isinstance(node.orelse[0], ast.Raise)
                and src(node.orelse[0].exc.func) == 'exceptions.OperationNotSupported'):
            bail('final else of _process_operation does not raise OperationNotSupported', node)
        break
    hm = dict(handler_min)
    for op, h in dispatch:
        if h not in hm:
            bail('dispatched handler %s has no decorator record' % h)

    # --- version tests inside handlers
    branches = []
    for name, m in methods.items():
        for n in ast.walk(m):
            if isinstance(n, (ast.If, ast.IfExp, ast.While)) and '_protocol_version' in src(n.test):
                if name in ('_kmip_version_supported', '_set_protocol_version'):
                    continue
                t = n.test
                if not (isinstance(t, ast.Compare) and len(t.ops) == 1 and src(t.left) == 'self._protocol_version'
                        and isinstance(t.ops[0], (ast.GtE, ast.Lt))):
                    bail('version test in %s not recognised: %s' % (name, src(t)), t)
                branches.append((name, 'VGe' if isinstance(t.ops[0], ast.GtE) else 'VLt', protocol_version_ctor(t.comparators[0])))

    # --- Query
    pq = methods.get('_process_query') or bail('no _process_query')
    qifs = [n for n in pq.body if isinstance(n, ast.If) and 'QUERY_OPERATIONS' in src(n.test)]
    if len(qifs) != 1 or src(qifs[0].test) != 'enums.QueryFunction.QUERY_OPERATIONS in queries':
        bail('_process_query: QUERY_OPERATIONS block not recognised', pq)
    base, ext = None, []
    for st in qifs[0].body:
        if isinstance(st, ast.Assign) and src(st.targets[0]) == 'operations':
            v = st.value
            if isinstance(v, ast.Call) and src(v.func) == 'list' and len(v.args) == 1:
                v = v.args[0]
            if base is not None or not isinstance(v, ast.List):
                bail('_process_query: operations assigned more than once / not a list literal', st)
            base = [operation_const(e, enums) for e in v.elts]
        elif isinstance(st, ast.If):
            t = st.test
            if not (isinstance(t, ast.Compare) and len(t.ops) == 1 and isinstance(t.ops[0], ast.GtE)
                    and src(t.left) == 'self._protocol_version') or st.orelse:
                bail('_process_query: version test not recognised: %s' % src(t), t)
            bound = protocol_version_ctor(t.comparators[0])
            ops = []
            for s2 in st.body:
                if not (isinstance(s2, ast.Expr) and isinstance(s2.value, ast.Call)
                        and src(s2.value.func) == 'operations.extend' and len(s2.value.args) == 1
                        and isinstance(s2.value.args[0], ast.List)):
                    bail('_process_query: statement under version test not recognised', s2)
                ops += [operation_const(e, enums) for e in s2.value.args[0].elts]
            ext.append((bound, ops))
        else:
            bail('_process_query: unexpected statement in the QUERY_OPERATIONS block', st)
    if base is None:
        bail('_process_query: base operation list not found')
    # `operations` must reach the response payload untouched
    for st in pq.body:
        if st is qifs[0]:
            continue
        for n in ast.walk(st):
            if isinstance(n, ast.Assign) and any(src(t) == 'operations' for t in n.targets):
                if not (isinstance(n.value, ast.Call) and src(n.value) == 'list()'):
                    bail('_process_query: operations reassigned', n)
            if isinstance(n, ast.Call) and src(n.func).startswith('operations.'):
                bail('_process_query: operations mutated outside the QUERY_OPERATIONS block', n)
    # the answer is built afresh on every call: one return, of the payload constructed once in this call
    qrets = [n for n in ast.walk(pq) if isinstance(n, ast.Return)]
    qctor = [n for n in ast.walk(pq) if isinstance(n, ast.Assign) and isinstance(n.value, ast.Call)
             and src(n.value.func) == 'payloads.QueryResponsePayload']
    if len(qrets) != 1 or len(qctor) != 1 or len(qctor[0].targets) != 1 or src(qrets[0].value) != src(qctor[0].targets[0]) \
            or qrets[0] is not pq.body[-1]:
        bail('_process_query: does not end in the single return of the payload it constructs', qrets[0] if qrets else pq)
    for n in ast.walk(pq):
        if isinstance(n, (ast.Assign, ast.AugAssign)):
            for tg in (n.targets if isinstance(n, ast.Assign) else [n.target]):
                if src(tg).startswith('self.'):
                    bail('_process_query: stores state on the engine (%s)' % src(tg), n)
    kws = [k for n in ast.walk(pq) if isinstance(n, ast.Call) and src(n.func) == 'payloads.QueryResponsePayload' for k in n.keywords]
    if [src(k.value) for k in kws if k.arg == 'operations'] != ['operations']:
        bail('_process_query: response payload operations argument not recognised')

    # --- response header version
    pr = methods.get('process_request') or bail('no process_request')
    # the version of the request is engine state (self._protocol_version, self._attribute_policy): the whole of
    # process_request has to run under the engine lock (interleavings themselves are property C10's)
    if [src(d) for d in pr.decorator_list] != ['_synchronize']:
        bail('process_request is not decorated with exactly @_synchronize', pr)
    calls = [n for n in ast.walk(pr) if isinstance(n, ast.Call) and src(n.func) == 'self._build_response']
    if len(calls) != 1 or len(calls[0].args) < 1:
        bail('process_request: _build_response call not recognised', pr)
    a0 = src(calls[0].args[0])
    hdr_assign = [n for n in ast.walk(pr) if isinstance(n, ast.Assign) and src(n.targets[0]) == 'header']
    if len(hdr_assign) != 1 or src(hdr_assign[0].value) != 'request.request_header':
        bail('process_request: header is not request.request_header')
    if a0 == 'header.protocol_version':
        resp_src = 'RsRequestHeader'
    elif a0 == 'self._protocol_version':
        resp_src = 'RsEngineVersion'
    else:
        bail('process_request: response version comes from %s' % a0, calls[0])
    spv = [n for n in ast.walk(pr) if isinstance(n, ast.Call) and src(n.func) == 'self._set_protocol_version']
    if len(spv) != 1 or src(spv[0].args[0]) != 'header.protocol_version':
        bail('process_request: _set_protocol_version(header.protocol_version) not found')
    first_calls = [n for n in ast.walk(pr) if isinstance(n, ast.Call) and src(n.func).startswith('self._')]
    first_calls.sort(key=lambda n: (n.lineno, n.col_offset))
    if not first_calls or first_calls[0] is not spv[0]:
        bail('process_request: something is called on the engine before _set_protocol_version')
    rets = [n for n in ast.walk(pr) if isinstance(n, ast.Return)]
    if len(rets) != 1 or src(rets[0].value) != '(response, max_response_size, header.protocol_version)':
        bail('process_request: return value not recognised: %s' % (src(rets[0].value) if rets else None))
    br = methods.get('_build_response') or bail('no _build_response')
    hk = [k for n in ast.walk(br) if isinstance(n, ast.Call) and src(n.func) == 'messages.ResponseHeader' for k in n.keywords]
    if [src(k.value) for k in hk if k.arg == 'protocol_version'] != [br.args.args[1].arg]:
        bail('_build_response: header protocol_version argument not recognised')

    # --- which handlers reach is_attribute_supported / is_attribute_deprecated (transitively through self.<helper>)
    direct = {}
    callees = {}
    for name, m in methods.items():
        d = set()
        c = set()
        for n in ast.walk(m):
            if isinstance(n, ast.Call) and isinstance(n.func, ast.Attribute):
                if n.func.attr in ('is_attribute_supported', 'is_attribute_deprecated'):
                    d.add(n.func.attr)
                if src(n.func.value) == 'self' and n.func.attr in methods:
                    c.add(n.func.attr)
        direct[name] = d
        callees[name] = c
    sites = []
    for op, h in dispatch:
        seen, todo, acc = set(), [h], set()
        while todo:
            x = todo.pop()
            if x in seen:
                continue
            seen.add(x)
            acc |= direct[x]
            todo += [y for y in callees[x] if not y.startswith('_process_') or y == '_process_template_attribute']
        sites.append((h, 'is_attribute_supported' in acc, 'is_attribute_deprecated' in acc))

    # --- Locate: are the filter attribute names put through is_attribute_supported before any filtering?
    #     recognised shape: `if payload.attributes:` directly in the method body, whose first statement is
    #     `for a in payload.attributes: name = a.attribute_name.value; if not <policy>.is_attribute_supported(name): raise InvalidField`
    pl = methods.get('_process_locate') or bail('no _process_locate')
    locate_checked = False
    guards_found = [n for n in ast.walk(pl) if isinstance(n, ast.Call) and isinstance(n.func, ast.Attribute)
                    and n.func.attr == 'is_attribute_supported']
    outer = [st for st in pl.body if isinstance(st, ast.If) and src(st.test) == 'payload.attributes']
    if guards_found:
        if len(guards_found) != 1 or len(outer) != 1 or not outer[0].body or not isinstance(outer[0].body[0], ast.For):
            bail('_process_locate: use of is_attribute_supported not recognised', guards_found[0])
        loop = outer[0].body[0]
        if src(loop.iter) != 'payload.attributes' or not isinstance(loop.target, ast.Name) or loop.orelse or len(loop.body) != 2:
            bail('_process_locate: filter check loop not recognised', loop)
        a0, i0 = loop.body
        if not (isinstance(a0, ast.Assign) and len(a0.targets) == 1 and isinstance(a0.targets[0], ast.Name)
                and src(a0.value) == '%s.attribute_name.value' % loop.target.id):
            bail('_process_locate: filter check loop does not take the attribute name', a0)
        nm = a0.targets[0].id
        if not (isinstance(i0, ast.If) and not i0.orelse
                and src(i0.test) == 'not self._attribute_policy.is_attribute_supported(%s)' % nm
                and len(i0.body) == 1 and isinstance(i0.body[0], ast.Raise) and isinstance(i0.body[0].exc, ast.Call)
                and src(i0.body[0].exc.func) == 'exceptions.InvalidField'):
            bail('_process_locate: filter check not recognised: %s' % src(i0)[:120], i0)
        locate_checked = True

    return dict(locate_checked=locate_checked, supported=supported, didx=didx, version_check=version_check, cmpname=cmpname, handler_min=handler_min,
                dispatch=dispatch, branches=branches, qbase=base, qext=ext, resp_src=resp_src, sites=sites)


def versions_v(t):
    o = ['(* GENERATED from kmip/services/server/engine.py by translate/gen_versions.py - do not edit *)',
         'From Coq Require Import ZArith List String Bool.', 'Import ListNotations.', 'Open Scope Z_scope.', 'Open Scope string_scope.', '',
         'Inductive version_check_kind := VcMember.',
         'Inductive decorator_cmp_kind := DcFloatLt | DcFloatLe | DcFloatGt | DcFloatGe | DcFloatEq | DcFloatNe.',
         'Inductive response_version_kind := RsRequestHeader | RsEngineVersion.',
         'Inductive vcmp := VLt | VGe.', '',
         '(* self._protocol_versions, in source order *)',
         'Definition supported_versions : list (Z * Z) := %s.' % coq_list(coq_ver(v) for v in t['supported']),
         'Definition default_version_index : nat := %d.' % t['didx'],
         'Definition default_version : Z * Z := %s.' % coq_ver(t['supported'][t['didx']]),
         'Definition version_check : version_check_kind := %s.' % t['version_check'],
         'Definition decorator_cmp : decorator_cmp_kind := %s.' % t['cmpname'],
         'Definition response_version_source : response_version_kind := %s.' % t['resp_src'], '',
         '(* _process_operation: Operation value -> handler, in source order; anything else raises OperationNotSupported *)',
         'Definition dispatch_table : list (Z * string) := [']
    o.append(';\n'.join('  (%d, %s) (* %s *)' % (op.value, coq_str(h), op.name) for op, h in t['dispatch']))
    o += ['].', '', '(* arguments of the @_kmip_version_supported decorators of every _process_<operation> method (outermost first) *)',
          'Definition handler_min_versions : list (string * list (Z * Z)) := [']
    o.append(';\n'.join('  (%s, %s)' % (coq_str(h), coq_list(coq_ver(v) for v in vs)) for h, vs in t['handler_min']))
    o += ['].', '', '(* `self._protocol_version >= / < contents.ProtocolVersion(a, b)` tests inside methods *)',
          'Definition handler_version_branches : list (string * vcmp * (Z * Z)) := %s.' % coq_list(
              '(%s, %s, %s)' % (coq_str(h), c, coq_ver(b)) for h, c, b in t['branches']), '',
          '(* _process_query, QUERY_OPERATIONS *)',
          'Definition query_base_ops : list Z := %s.' % coq_list(str(op.value) for op in t['qbase']),
          'Definition query_ext_ops : list ((Z * Z) * list Z) := %s.' % coq_list(
              '(%s, %s)' % (coq_ver(b), coq_list(str(op.value) for op in ops)) for b, ops in t['qext']), '',
          '(* handler -> (reaches is_attribute_supported, reaches is_attribute_deprecated) through self.<helper> calls *)',
          'Definition attr_support_sites : list (string * bool * bool) := [']
    o.append(';\n'.join('  (%s, %s, %s)' % (coq_str(h), 'true' if a else 'false', 'true' if b else 'false') for h, a, b in t['sites']))
    o += ['].', '', '(* _process_locate refuses (InvalidField) every filter attribute name that fails is_attribute_supported, before filtering *)',
          'Definition locate_filter_checked : bool := %s.' % ('true' if t['locate_checked'] else 'false')]
    return '\n'.join(o) + '\n'


# ------------------------------------------------------------------------------------------------ payload fields
def kmip_version_const(node, enums):
    if isinstance(node, ast.Attribute) and src(node.value) == 'enums.KMIPVersion':
        mm = re.match(r'^KMIP_([0-9]+)_([0-9]+)$', node.attr)
        if mm and node.attr in enums.KMIPVersion.__members__:
            return (int(mm.group(1)), int(mm.group(2)))
    bail('not an enums.KMIPVersion constant: %s' % src(node), node)


def tag_names(nodes, enums):
    out = []
    for top in nodes:
        for x in ast.walk(top):
            if isinstance(x, ast.Attribute) and src(x.value) in ('enums.Tags', 'Tags'):
                if x.attr not in enums.Tags.__members__:
                    bail('unknown tag %s' % x.attr, x)
                if x.attr not in out:
                    out.append(x.attr)
    return out


def self_fields(nodes):
    out = []
    for top in nodes:
        for x in ast.walk(top):
            if isinstance(x, ast.Attribute) and isinstance(x.value, ast.Name) and x.value.id == 'self' and x.attr.startswith('_'):
                if x.attr not in out and x.attr not in ('_logger',):
                    out.append(x.attr)
    return out


def raises_vns(nodes):
    for top in nodes:
        if isinstance(top, ast.Raise) and isinstance(top.exc, ast.Call) and src(top.exc.func) == 'exceptions.VersionNotSupported':
            return True
    return False


def field_tables(repo, enums):
    repo = Path(repo)
    files = sorted((repo / 'kmip' / 'core' / 'messages' / 'payloads').glob('*.py'))
    files += [repo / 'kmip' / 'core' / 'objects.py', repo / 'kmip' / 'core' / 'messages' / 'messages.py',
              repo / 'kmip' / 'core' / 'attributes.py', repo / 'kmip' / 'core' / 'secrets.py',
              repo / 'kmip' / 'core' / 'misc.py', repo / 'kmip' / 'core' / 'messages' / 'contents.py']
    guards = []
    unguarded = []
    tolerant = []
    for f in files:
        tree = ast.parse(f.read_text())
        for c in tree.body:
            if not isinstance(c, ast.ClassDef):
                # version tests in module-level functions are not expected
                for n in ast.walk(c):
                    if isinstance(n, ast.Compare) and 'kmip_version' in src(n) and 'KMIPVersion' in src(n):
                        bail('%s: version test outside a class: %s' % (f.name, src(n)), n)
                continue
            for m in c.body:
                if not isinstance(m, ast.FunctionDef):
                    for n in ast.walk(m):
                        if isinstance(n, ast.Compare) and 'kmip_version' in src(n):
                            bail('%s.%s: version test outside a method' % (f.name, c.name), n)
                    continue
                inside = set()
                found = []
                for n in ast.walk(m):
                    tests = []
                    if isinstance(n, (ast.If, ast.IfExp, ast.While)):
                        tests = [n.test]
                    for t in tests:
                        s = src(t)
                        if 'kmip_version' not in s:
                            continue
                        if 'is_attribute(' in s:
                            continue          # per-attribute gate, covered by attr_tag_versions
                        if not (isinstance(n, ast.If) and isinstance(t, ast.Compare) and len(t.ops) == 1
                                and src(t.left) == 'kmip_version' and isinstance(t.ops[0], (ast.Lt, ast.GtE))):
                            bail('%s %s.%s: version test not recognised: %s' % (f.name, c.name, m.name, s), t)
                        if m.name not in ('read', 'write'):
                            bail('%s %s.%s: version test outside read/write' % (f.name, c.name, m.name), t)
                        bound = kmip_version_const(t.comparators[0], enums)
                        found.append((n, 'VLt' if isinstance(t.ops[0], ast.Lt) else 'VGe', bound))
                    # any other use of a comparison on kmip_version is not understood
                    if isinstance(n, ast.Compare) and src(n.left) == 'kmip_version' and not any(n is g[0].test for g in found):
                        pass
                # comparisons on kmip_version that are not the test of an If we recorded
                recorded = {id(g[0].test) for g in found}
                for n in ast.walk(m):
                    if isinstance(n, ast.Compare) and 'kmip_version' in src(n) and 'is_attribute(' not in src(n) and id(n) not in recorded:
                        bail('%s %s.%s: stray version comparison %s' % (f.name, c.name, m.name, src(n)), n)
                for g, cmpk, bound in found:
                    for x in g.body + g.orelse:
                        for y in ast.walk(x):
                            inside.add(id(y))
                    if m.name == 'read':
                        th, el = tag_names(g.body, enums), tag_names(g.orelse, enums)
                    else:
                        th, el = self_fields(g.body), self_fields(g.orelse)
                    guards.append((c.name, m.name, cmpk, bound, th, el, raises_vns(g.body)))
                if m.name == 'read' and found:
                    calls_oversized = any(isinstance(n, ast.Call) and isinstance(n.func, ast.Attribute) and n.func.attr == 'is_oversized'
                                          for n in ast.walk(m))
                    if not calls_oversized:
                        tolerant.append(c.name)
                if m.name in ('read', 'write') and found:
                    rest = [n for n in ast.walk(m) if id(n) not in inside and not any(n is g[0].test or id(n) in {id(z) for z in ast.walk(g[0].test)} for g in found)]
                    if m.name == 'read':
                        names = []
                        for x in rest:
                            if isinstance(x, ast.Attribute) and src(x.value) in ('enums.Tags', 'Tags') and x.attr not in names:
                                names.append(x.attr)
                    else:
                        names = []
                        for x in rest:
                            if isinstance(x, ast.Attribute) and isinstance(x.value, ast.Name) and x.value.id == 'self' \
                                    and x.attr.startswith('_') and x.attr not in names:
                                names.append(x.attr)
                    unguarded.append((c.name, m.name, names))
    return guards, unguarded, tolerant


def attr_tag_table(enums):
    vers = list(enums.KMIPVersion)
    rows = []
    for tag in enums.Tags:
        flags = [bool(enums.is_attribute(tag, kmip_version=v)) for v in vers]
        if any(flags):
            rows.append((tag.name, tag.value, flags))
    return rows


def fields_v(enums, guards, unguarded, tagrows, tolerant=()):
    kv = []
    for m in enums.KMIPVersion:
        mm = re.match(r'^KMIP_([0-9]+)_([0-9]+)$', m.name)
        if not mm or float('%s.%s' % (mm.group(1), mm.group(2))) != m.value:
            bail('KMIPVersion member %s = %r not recognised' % (m.name, m.value))
        kv.append((int(mm.group(1)), int(mm.group(2))))
    o = ['(* GENERATED from kmip/core/{enums,objects}.py, kmip/core/messages/{messages.py,payloads/*.py} by translate/gen_versions.py - do not edit *)',
         'From Coq Require Import ZArith List String Bool.', 'From PKGen Require Import Versions.', 'Import ListNotations.',
         'Open Scope Z_scope.', 'Open Scope string_scope.', '',
         'Definition kmip_versions : list (Z * Z) := %s.' % coq_list(coq_ver(v) for v in kv), '',
         'Record field_guard := { fg_class : string; fg_method : string; fg_cmp : vcmp; fg_bound : Z * Z;',
         '  fg_then : list string; fg_else : list string; fg_then_raises : bool }.', '',
         '(* read methods list Tags names, write methods list self._<field> names *)',
         'Definition field_guards : list field_guard := [']
    o.append(';\n'.join(
        '  {| fg_class := %s; fg_method := %s; fg_cmp := %s; fg_bound := %s; fg_then := %s; fg_else := %s; fg_then_raises := %s |}' % (
            coq_str(c), coq_str(m), k, coq_ver(b), coq_list(coq_str(x) for x in th), coq_list(coq_str(x) for x in el),
            'true' if r else 'false') for c, m, k, b, th, el, r in guards))
    o += ['].', '', 'Definition unguarded_names : list (string * string * list string) := [']
    o.append(';\n'.join('  (%s, %s, %s)' % (coq_str(c), coq_str(m), coq_list(coq_str(x) for x in ns)) for c, m, ns in unguarded))
    o += ['].', '', '(* classes with version blocks whose read() never calls is_oversized: items it does not expect are left unread, not refused *)',
          'Definition tolerant_readers : list string := %s.' % coq_list(coq_str(x) for x in tolerant)]
    o += ['', '(* enums.is_attribute(tag, v) for v in kmip_versions (same order); only tags that are an attribute under some version *)',
          'Definition attr_tag_versions : list (string * Z * list bool) := [']
    o.append(';\n'.join('  (%s, %d, %s)' % (coq_str(n), v, coq_list('true' if f else 'false' for f in fl)) for n, v, fl in tagrows))
    o += ['].']
    return '\n'.join(o) + '\n'


def generate(repo):
    enums = importlib.import_module('kmip.core.enums')
    t = engine_tables(repo, enums)
    guards, unguarded, tolerant = field_tables(repo, enums)
    tagrows = attr_tag_table(enums)
    return {'Versions.v': versions_v(t), 'VersionFields.v': fields_v(enums, guards, unguarded, tagrows, tolerant)}
