"""kmip/services/server/monitor.py + kmip/core/policy.py + enums.Policy -> gen/PolicyNames.v

Constants the C18 models depend on, read from the source (tie T, fail closed):
  reserved_policy_names : the list assigned to self.reserved_policies in PolicyDirectoryMonitor.__init__
  policy_section_names  : the set literal assigned to policy_sections in read_policy_from_file
  policy_member_names   : member names of enums.Policy (string valued, so not in Enums.v)
  caught_exception      : the single exception class scan_policies catches around read_policy_from_file
  monitor_purges_shadowed : which of the two known shapes the end of the reload branch of scan_policies has:
                          false = released code (only names the file owns and dropped are disassociated and restored),
                          true  = with fixes/C18-stale-cache.diff (cache entries of the file dropped for every name it
                          no longer defines, then the owned names restored).  Any other shape: fail.
"""
import ast
import importlib
from pathlib import Path


def _strs(node, what):
    if not isinstance(node, (ast.List, ast.Set, ast.Tuple)) or not node.elts:
        raise ValueError('%s: not a literal list/set' % what)
    out = []
    for e in node.elts:
        if not (isinstance(e, ast.Constant) and isinstance(e.value, str)):
            raise ValueError('%s: non-string element' % what)
        out.append(e.value)
    return out


def _coq_list(xs):
    for x in xs:
        if '"' in x or not x.isascii():
            raise ValueError('unprintable name %r' % x)
    return '[' + '; '.join('"%s"' % x for x in xs) + ']'


RELEASED_TAIL = [
    "for p in set(old_p) - set(new_p.keys()):\n    self.disassociate_policy_and_file(p, f)\n    self.restore_or_delete_policy(p)"]
FIXED_TAIL = [
    "for p in set(self.policy_cache.keys()) - set(new_p.keys()):\n    self.disassociate_policy_and_file(p, f)",
    "for p in set(old_p) - set(new_p.keys()):\n    self.restore_or_delete_policy(p)"]


def _reload_tail(mon):
    """The statements that follow `for p in new_p.keys(): ...` in the reload branch of scan_policies."""
    found = []
    for n in ast.walk(mon):
        if isinstance(n, ast.FunctionDef) and n.name == 'scan_policies':
            for b in ast.walk(n):
                body = getattr(b, 'body', None)
                if not isinstance(body, list):
                    continue
                for i, st in enumerate(body):
                    if isinstance(st, ast.For) and ast.unparse(st.iter) == 'new_p.keys()':
                        found.append([ast.unparse(x) for x in body[i + 1:]])
    if len(found) != 1:
        raise ValueError('scan_policies: expected exactly one loop over new_p.keys(), found %d' % len(found))
    if found[0] == RELEASED_TAIL:
        return False
    if found[0] == FIXED_TAIL:
        return True
    raise ValueError('scan_policies: unrecognised statements after the policy loading loop: %r' % found[0])


def generate(repo):
    repo = Path(repo)
    mon = ast.parse((repo / 'kmip/services/server/monitor.py').read_text())
    purges = _reload_tail(mon)
    reserved, caught = [], []
    for n in ast.walk(mon):
        if isinstance(n, ast.Assign) and len(n.targets) == 1 and isinstance(n.targets[0], ast.Attribute) \
                and n.targets[0].attr == 'reserved_policies':
            reserved.append(_strs(n.value, 'reserved_policies'))
        if isinstance(n, ast.FunctionDef) and n.name == 'scan_policies':
            for t in ast.walk(n):
                if isinstance(t, ast.Try):
                    calls = [c for b in t.body for c in ast.walk(b) if isinstance(c, ast.Attribute) and c.attr == 'read_policy_from_file']
                    if calls:
                        for h in t.handlers:
                            if not isinstance(h.type, ast.Name):
                                raise ValueError('scan_policies: handler type is not a plain name')
                            caught.append(h.type.id)
    if len(reserved) != 1:
        raise ValueError('expected exactly one assignment to self.reserved_policies, found %d' % len(reserved))
    if len(caught) != 1:
        raise ValueError('expected exactly one except clause around read_policy_from_file, found %r' % caught)
    pol = ast.parse((repo / 'kmip/core/policy.py').read_text())
    sections = []
    for n in ast.walk(pol):
        if isinstance(n, ast.FunctionDef) and n.name == 'read_policy_from_file':
            for a in ast.walk(n):
                if isinstance(a, ast.Assign) and len(a.targets) == 1 and isinstance(a.targets[0], ast.Name) \
                        and a.targets[0].id == 'policy_sections':
                    sections.append(sorted(_strs(a.value, 'policy_sections')))
    if len(sections) != 1:
        raise ValueError('expected exactly one assignment to policy_sections, found %d' % len(sections))
    enums = importlib.import_module('kmip.core.enums')
    members = list(enums.Policy.__members__)
    text = '\n'.join([
        '(* GENERATED from kmip/services/server/monitor.py, kmip/core/policy.py, kmip/core/enums.py',
        '   by translate/gen_policynames.py - do not edit *)',
        'From Coq Require Import List String.', 'Import ListNotations.', 'Open Scope string_scope.', '',
        'Definition reserved_policy_names : list string := %s.' % _coq_list(reserved[0]),
        'Definition policy_section_names : list string := %s.' % _coq_list(sections[0]),
        'Definition policy_member_names : list string := %s.' % _coq_list(members),
        'Definition caught_exception : string := "%s".' % caught[0],
        'Definition monitor_purges_shadowed : bool := %s.' % ('true' if purges else 'false'), ''])
    return {'PolicyNames.v': text}
